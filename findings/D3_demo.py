"""D3: a processor whose only surviving input port has the empty name "" is rejected with EmptyProcError (C11).

`_checks.chk_non_empty` tested the truthiness of the first surviving input port instead of its existence.
Run:  /venv/bin/python findings/D3_demo.py [repo]      exit 0 = behaviour the property states, 1 = defect present.
"""
import os, sys
here = os.path.dirname(os.path.abspath(__file__))
sys.path.insert(0, os.path.join(here, "..", "harness", "compat"))
import fc_compat  # noqa
repo = sys.argv[1] if len(sys.argv) > 1 else "/repo"
sys.path.insert(0, os.path.join(repo, "src"))
sys.dont_write_bytecode = True
import logging; logging.disable(logging.CRITICAL)
from processor_utils import load_proc_desc
desc = {"units": [{"name": "", "width": 1, "capabilities": ["ALU"], "readLock": True},
                  {"name": "o", "width": 1, "capabilities": ["ALU"], "writeLock": True}],
        "dataPath": [["", "o"]]}
try:
    p = load_proc_desc(desc)
    print("accepted:", [m.name for m in p.in_ports], "->", [f.model.name for f in p.out_ports]); sys.exit(0)
except Exception as e:
    print("rejected with", type(e).__name__, "although the description has no documented defect"); sys.exit(1)
