"""D1: an instruction reading its own destination dead-locks a unit holding both locks (C02, C19).

Run:  /venv/bin/python findings/D1_demo.py [repo]      exit 0 = behaviour the properties state, 1 = defect present.
"""
import os, sys
here = os.path.dirname(os.path.abspath(__file__))
sys.path.insert(0, os.path.join(here, "..", "harness", "compat"))
import fc_compat  # noqa
repo = sys.argv[1] if len(sys.argv) > 1 else "/repo"
sys.path.insert(0, os.path.join(repo, "src"))
sys.dont_write_bytecode = True
from processor_utils import ProcessorDesc
from processor_utils.units import UnitModel, LockInfo
from program_defs import HwInstruction
from sim_services import HwSpec, simulate, StallError
from reg_access import RegAccQBuilder, AccessType

b = RegAccQBuilder(); b.append(AccessType.READ, 0); b.append(AccessType.WRITE, 0)
q = b.create()
ok_q = q.can_access(AccessType.READ, 0) and q.can_access(AccessType.WRITE, 0)
print("queue [R{0},W{0}]: read granted and write granted together:", ok_q)
full = UnitModel("full", 1, ["ALU"], LockInfo(True, True), [])
spec = HwSpec(ProcessorDesc([], [], [full], []))
try:
    tbl = simulate([HwInstruction(["R1", "R2"], "R1", "ALU")], spec)
    print("simulate ->", tbl); ok_s = True
except StallError as e:
    print("simulate -> StallError", e.processor_state); ok_s = False
sys.exit(0 if ok_q and ok_s else 1)
