"""D2: dead ends were pruned one level only (C10, C11).

Run:  /venv/bin/python findings/D2_demo.py [repo]      exit 0 = behaviour the properties state, 1 = defect present.
"""
import os, sys
here = os.path.dirname(os.path.abspath(__file__))
sys.path.insert(0, os.path.join(here, "..", "harness", "compat"))
import fc_compat  # noqa
repo = sys.argv[1] if len(sys.argv) > 1 else "/repo"
sys.path.insert(0, os.path.join(repo, "src"))
sys.dont_write_bytecode = True
import logging; logging.disable(logging.CRITICAL)
from processor_utils import load_proc_desc
desc = {"units": [
    {"name": "in", "width": 1, "capabilities": ["ALU"], "readLock": True},
    {"name": "out", "width": 1, "capabilities": ["ALU"], "writeLock": True},
    {"name": "d1", "width": 1, "capabilities": ["ALU"], "writeLock": True},
    {"name": "d2", "width": 1, "capabilities": ["ALU"]},
    {"name": "d3", "width": 1, "capabilities": ["MEM"]}],
  "dataPath": [["in", "out"], ["in", "d1"], ["d1", "d2"], ["d2", "d3"]]}
p = load_proc_desc(desc)
outs = [u.model.name for u in p.out_ports]
print("out ports:", outs, "(declared output ports reachable: ['out'])")
sys.exit(0 if outs == ["out"] else 1)
