"""Branch coverage of the implementation under a component's generators (thorough tier; evidence only, never a verdict).

    python -m harness.covrun <component> <ncases>      prints one JSON object

Runs `ncases` of the component's quick-tier cases in this process under `coverage` (branch mode, source = REPO/src)
and reports, per source file, statement/branch coverage and the missing lines — so that the evidence says which parts of
the anchored code the correspondence actually exercised.
"""
from __future__ import annotations

import importlib
import json
import os
import sys


def main() -> None:
    comp, n = sys.argv[1], int(sys.argv[2])
    here = os.path.dirname(os.path.dirname(os.path.abspath(__file__)))
    sys.path.insert(0, here)
    from harness import core

    import coverage

    src = os.path.join(core.REPO, "src")
    cov = coverage.Coverage(branch=True, source=[src], data_file=None, config_file=False)
    cov.start()
    mod = importlib.import_module("harness.comp_" + comp)
    cases = mod.cases("quick")
    step = max(1, len(cases) // n)
    ran = 0
    for c in cases[::step][:n]:
        try:
            mod.run_case(c, tier="quick")
        except core.InfraError:
            raise
        ran += 1
    cov.stop()
    out = {"component": comp, "cases": ran, "files": {}}
    data = cov.get_data()
    for f in sorted(data.measured_files()):
        if not f.startswith(src) or "egg-info" in f:
            continue
        try:
            an = cov._analyze(f)
        except Exception:  # noqa: BLE001
            continue
        nums = an.numbers
        rel = os.path.relpath(f, src)
        out["files"][rel] = {
            "statements": nums.n_statements, "missing_statements": nums.n_missing,
            "branches": nums.n_branches, "missing_branches": nums.n_missing_branches,
            "missing_lines": sorted(an.missing)[:40],
        }
    print(json.dumps(out))


if __name__ == "__main__":
    main()
