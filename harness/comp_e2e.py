"""Component "e2e": whole-pipeline properties C13 (case-insensitivity), C16 (command-line table), C20 (determinism,
no side effects).

A case = (processor description, instruction set, program text).  Stages, all on the real code:
  load_proc_desc -> get_abilities/load_isa -> read_program -> compile_program -> simulate -> (CLI) print table
Every stage result is canonicalised (structural forms, never reprs).  The Lean driver runs the *composed model*
(op "pipeline": Model.Loader ∘ Model.Isa ∘ Model.Program ∘ Model.Sim ∘ Model.Cli) on the same input and compares.
"""
from __future__ import annotations

import copy
import csv
import hashlib
import io
import json
import os
import subprocess
import sys
import tempfile

from . import comp_sim, core

NAME = "e2e"
PROPS = ["C13", "C16", "C20"]
CHUNK = 8
EXTENDED_SEEDS = 1
RULES = {
    "C13": "generated (description, ISA, program) triples accepted by the loader; x' = x with every NON-defining name occurrence "
           "(connections, later capability occurrences, memory-access lists, ISA capability values, program mnemonics, later "
           "register occurrences) re-cased at random; non-trivial = at least 3 occurrences actually changed case and the program "
           "has at least 2 instructions; distinct = sha1 of x",
    "C16": "generated valid (processor+ISA YAML, assembly) pairs whose simulation completes, run through the real command line "
           "in a subprocess; non-trivial = at least 2 instructions and 3 cycles; distinct = sha1 of the two files",
    "C20": "the same triples x call histories: twice in one process, after unrelated calls, and in fresh interpreters with "
           "PYTHONHASHSEED in {0,1,2,3,random}; arguments deep-copied before and compared after; non-trivial = the loader accepted "
           "and at least one set-valued intermediate had 2+ elements (2+ capabilities or 2+ dead ends); distinct = sha1 of x",
}
HASHSEEDS = ["0", "1", "2", "3", "random"]


# --------------------------------------------------------------------------------------------------
# generation

def swap(rng, s: str) -> str:
    return "".join(ch.upper() if rng.random() < 0.5 else ch.lower() for ch in s)


def gen_triple(rng, tier="quick"):
    """canonical-case triple; returns dict(desc, isa(list of pairs), lines(list of str))"""
    family = rng.choice(["parts", "small", "wide", "parts", "deadend"])
    for _ in range(80):
        units, edges, caps = comp_sim.gen_units(rng, family)
        edges = {(a, b) for (a, b) in edges if set(units[a]["caps"]) & set(units[b]["caps"])}
        if comp_sim.py_wf(units, edges, caps):
            break
    us = []
    for u, d in units.items():
        e = {"name": d["name"], "width": d["width"], "capabilities": list(d["caps"])}
        if d["rl"] or rng.random() < 0.3:
            e["readLock"] = d["rl"]
        if d["wl"] or rng.random() < 0.3:
            e["writeLock"] = d["wl"]
        if d["acl"] or rng.random() < 0.2:
            e["memoryAccess"] = list(d["acl"])
        us.append(e)
    if rng.random() < 0.12 and units:
        # an unusual but csv-safe unit name (format / template metacharacters, inner blanks)
        victim = rng.choice(sorted(units))
        newname = rng.choice(["{{fetch}}", "{}", "{0}", "%s", "$unit", "ex{int}", "a b", "u:1"])
        if newname.lower() not in {d["name"].lower() for d in units.values()}:
            for e in us:
                if e["name"] == units[victim]["name"]:
                    e["name"] = newname
            units[victim]["name"] = newname
    rng.shuffle(us)
    if rng.random() < 0.4 and len(us) >= 2:
        # a memory-access entry naming a capability that only ANOTHER unit declares (legal: the list is matched against
        # the capabilities known in the whole processor); when that unit comes later in the file the entry is a reference
        # made before the definition (seeded change C13-8)
        i, j = rng.sample(range(len(us)), 2)
        if i > j and rng.random() < 0.7:
            us[i], us[j] = us[j], us[i]           # mostly: the referring unit is listed BEFORE the defining one
            i, j = j, i
        declared_elsewhere = {c for k, u in enumerate(us) if k != j for c in u["capabilities"]}
        extra = [c for c in us[j]["capabilities"] if c not in us[i]["capabilities"]]
        extra = [c for c in extra if c not in declared_elsewhere] or extra    # preferably declared by that unit ONLY
        if extra:
            us[i]["memoryAccess"] = list(us[i].get("memoryAccess", [])) + [rng.choice(extra)]
    es = [[units[a]["name"], units[b]["name"]] for a, b in sorted(edges)]
    rng.shuffle(es)
    # a dead branch now and then (pruning + set-valued dead ends for C20)
    if rng.random() < 0.25 and us:
        host = rng.choice(us)["name"]
        k = rng.randint(1, 3)
        prev = host
        for i in range(k):
            nm = "dz%d" % i
            us.append({"name": nm, "width": 1, "capabilities": ["NOPE"] if i == k - 1 else list(caps)})
            es.append([prev, nm])
            prev = nm
    desc = {"units": us, "dataPath": es}
    if rng.random() < 0.1:
        # a capability whose name looks like a wildcard / a list elsewhere: a plain name here
        allc = sorted({c for u in us for c in u["capabilities"]})
        old, new = rng.choice(allc), rng.choice(["any", "*", "all", "ALU,MEM", "a|b", "none"])
        if new.lower() not in {c.lower() for c in allc}:
            for u in us:
                u["capabilities"] = [new if c == old else c for c in u["capabilities"]]
                if "memoryAccess" in u:
                    u["memoryAccess"] = [new if c == old else c for c in u["memoryAccess"]]
    in_names = {u["name"] for u in us} - {e[1] for e in es}
    offered = sorted({c for u in us if u["name"] in in_names for c in u["capabilities"]})
    isa = []
    for k, c in enumerate(offered):
        for j in range(rng.randint(1, 2)):
            isa.append([("op%s%d%s" % ("".join(ch for ch in c[:2] if ch.isalnum()) or "x", j, "" if k < 2 else chr(ord("a") + k))), c])
    if len({m for m, _ in isa}) < len(isa):       # (a YAML mapping cannot even express two entries with one spelling)
        seen = set()
        isa = [[m, c] for m, c in isa if not (m in seen or seen.add(m))]
    if len(offered) >= 2 and rng.random() < 0.3:
        # a mnemonic spelled like an offered capability and mapped to ANOTHER capability, declared before the instructions
        # that use that capability (mnemonics and capabilities are separate name spaces; seeded change C13-11)
        a, b = rng.sample(offered, 2)
        if a.strip() and all(m.lower() != a.lower() for m, _ in isa):
            isa.insert(0, [a, b])
    if rng.random() < 0.5:
        rng.shuffle(isa)
    # register spellings differ in case between triples of one batch (r1 / R1, Rg1 / rG1): state leaking from one call
    # into the next (a registry that outlives its call) then shows as an order-dependent result
    style = rng.choice(["r%d", "R%d", "Rg%d", "rG%d", "r%d", "R%d", "#%d", "0x%d", "r%d:", ";r%d", "//%d", "(r%d)", "*%d"])
    regs = [style % i for i in range(rng.randint(2, 4))]
    lines = []
    n = rng.randint(0, 10 if tier == "quick" else 16)
    for _ in range(n):
        if not isa:
            break
        m = rng.choice(isa)[0]
        ops = [rng.choice(regs) for _ in range(rng.randint(1, 4))]
        lines.append(m.upper() + " " + ", ".join(ops))
        if rng.random() < 0.1:
            lines.append("")
    # now and then an input the front end must REJECT: a syntax error, an unsupported mnemonic, a capability no input port
    # offers — through the library and through the command line alike (exit status, no table)
    r = rng.random()
    if r < 0.08 and lines:
        k = rng.randrange(len(lines))
        if lines[k].strip():
            m = lines[k].split(" ", 1)[0]
            lines[k] = m if rng.random() < 0.5 else m + " " + ", ".join(["R1", "", "R2"][: rng.randint(2, 3)])
    elif r < 0.14 and lines:
        lines.insert(rng.randint(0, len(lines)), "NOSUCHOP " + ", ".join(regs[:2]))
    elif r < 0.18:
        isa.append(["zzbad", "NoSuchCapability"])
    x = {"desc": desc, "isa": isa, "lines": lines}
    if rng.random() < 0.35:
        x["tuple_edges"] = True
    if rng.random() < 0.3:
        # blanks other than space / tab around tokens and commas (ASCII characters `str.isspace` accepts and a text file
        # does not treat as line ends): applied by `rendered` for the library, the model and the command line alike
        x["ws"] = [[rng.choice(ODD_WS), rng.choice(ODD_WS + ["", " "])] if rng.random() < 0.5 else None for _ in lines]
    return x


ODD_WS = ["\x0b", "\x0c", "\x1c", "\x1d", "\x1e", "\x1f", " \x0c", "\t\x0b "]


def rendered(x):
    """the program text as written to the file / handed to the library: `lines` with the optional odd blanks of `ws`"""
    ws = x.get("ws")
    if not ws:
        return list(x["lines"])
    out = []
    for k, ln in enumerate(x["lines"]):
        w = ws[k] if k < len(ws) else None
        if w is None or not ln.strip() or " " not in ln:
            out.append(ln)
            continue
        m, rest = ln.split(" ", 1)
        out.append(m + w[0] + ("," + w[1]).join(rest.split(", ")))
    return out


def two_defects(rng):
    """one input port offering two capabilities with two DIFFERENT defects: on the route of the first capability two units
    hold the same lock (PathLockError), the second capability is accepted by no successor (BlockedCapError).  Which one is
    reported must not depend on the hash seed (seeded changes C20-7 / C20-9: capabilities kept in a frozenset)."""
    a, b = rng.sample(["ALU", "MEM", "BR", "FPU", "ADD", "LW"], 2)
    extra = rng.choice(["readLock", "writeLock"])
    caps = [a, b] if rng.random() < 0.5 else [b, a]
    # capability a: in0 -> mid -> out with a second `extra` lock in mid (PathLockError); capability b: correctly locked in
    # in0 but supported by no successor, and in0 is not an output port (BlockedCapError)
    us = [{"name": "in0", "width": 1, "capabilities": caps, "readLock": True, "writeLock": True},
          {"name": "mid", "width": 1, "capabilities": [a], extra: True},
          {"name": "out", "width": 1, "capabilities": [a]}]
    if rng.random() < 0.5:
        us.append({"name": "side", "width": 2, "capabilities": [a, b], "readLock": True, "writeLock": True})
    rng.shuffle(us)
    return {"desc": {"units": us, "dataPath": [["in0", "mid"], ["mid", "out"]]}, "isa": [], "lines": []}


def twin_of(rng, x):
    y = copy.deepcopy(x)
    us = y["desc"]["units"]
    if not us:
        return y
    u = rng.choice(us)
    kind = rng.choice(["acl", "acl", "width", "rlock", "wlock", "name-case", "name-case"])
    if kind == "name-case":
        # the same processor with one unit's name spelled in another case everywhere: a different (equally legal)
        # description; state cached under a case-insensitive key makes its result depend on what ran before (C20-8)
        old = u["name"]
        new = old.swapcase()
        if new != old:
            u["name"] = new
            y["desc"]["dataPath"] = [[new if n == old else n for n in e] for e in y["desc"]["dataPath"]]
    elif kind == "acl":
        u["memoryAccess"] = [] if u.get("memoryAccess") else list(u["capabilities"])
    elif kind == "width":
        u["width"] = u["width"] + 1 if u["width"] < 3 else u["width"] - 1
    elif kind == "rlock":
        u["readLock"] = not u.get("readLock", False)
    else:
        u["writeLock"] = not u.get("writeLock", False)
    return y


# letters with a case variant that `str.lower` identifies but that is NOT obtained by ASCII folding (and, for some, not by
# `str.upper` either): the code defines "same name" through `str.lower`
NONASCII_VARIANTS = {"\u00df": "\u1e9e", "\u1e9e": "\u00df", "k": "\u212a", "\u212a": "k", "\u03c9": "\u2126", "\u2126": "\u03c9",
                     "\u00e5": "\u212b", "\u212b": "\u00e5", "\u00e9": "\u00c9", "\u00c9": "\u00e9"}


def non_ascii(x) -> bool:
    return any(ord(ch) > 127 for ch in json.dumps(x, ensure_ascii=False))


def to_non_ascii(rng, x):
    """rename units / capabilities / registers consistently so that they contain letters from NONASCII_VARIANTS"""
    y = copy.deepcopy(x)
    suffix = rng.choice(["\u00df", "\u03c9", "\u00e9", "k\u00e5"])
    ren = {}

    def r(s):
        if s not in ren:
            ren[s] = s + suffix
        return ren[s]

    for u in y["desc"]["units"]:
        u["name"] = r(u["name"])
        u["capabilities"] = [r(c) for c in u["capabilities"]]
        if "memoryAccess" in u:
            u["memoryAccess"] = [r(c) for c in u["memoryAccess"]]
    y["desc"]["dataPath"] = [[r(n) for n in e] for e in y["desc"]["dataPath"]]
    y["isa"] = [[m, r(c)] for m, c in y["isa"]]
    lines = []
    for ln in y["lines"]:
        if not ln.strip() or " " not in ln:
            lines.append(ln)
            continue
        m, rest = ln.split(" ", 1)
        lines.append(m + " " + ", ".join((op + suffix if op else op) for op in rest.split(", ")))
    y["lines"] = lines
    return y


def recase(rng, x):
    """re-case only NON-defining occurrences; returns (x', number of occurrences whose text changed)"""
    y = copy.deepcopy(x)
    changed = 0

    def rc(s):
        nonlocal changed
        t = swap(rng, s) if rng.random() < 0.7 else s
        if any(ord(ch) > 127 for ch in s):
            # ASCII letters: keep or swap case; special letters: their `str.lower`-equivalent variant
            t = "".join((NONASCII_VARIANTS.get(ch, ch) if rng.random() < 0.7 else ch) if ch in NONASCII_VARIANTS and ord(ch) > 127
                        else ch for ch in s)
            if t.lower() != s.lower():
                t = s
        if t != s:
            changed += 1
        return t

    seen_caps = set()
    for u in y["desc"]["units"]:
        caps = []
        for c in u["capabilities"]:
            if c.lower() in seen_caps:
                caps.append(rc(c))
            else:
                seen_caps.add(c.lower())
                caps.append(c)
        u["capabilities"] = caps
    for u in y["desc"]["units"]:
        if "memoryAccess" in u:
            u["memoryAccess"] = [rc(c) for c in u["memoryAccess"]]
    y["desc"]["dataPath"] = [[rc(n) for n in e] for e in y["desc"]["dataPath"]]
    y["isa"] = [[m, rc(c)] for m, c in y["isa"]]
    seen_regs = set()
    lines = []
    for ln in y["lines"]:
        if not ln.strip() or " " not in ln:
            lines.append(ln)
            continue
        m, rest = ln.split(" ", 1)
        ops = []
        for op in rest.split(", "):
            if not op:
                ops.append(op)
            elif op.lower() in seen_regs:
                ops.append(rc(op))
            else:
                seen_regs.add(op.lower())
                ops.append(op)
        lines.append(rc(m) + " " + ", ".join(ops))
    y["lines"] = lines
    return y, changed


# --------------------------------------------------------------------------------------------------
# running the real pipeline

def canon_proc(p):
    pj = comp_sim.proc_json(p)
    units = {}
    for cls, lst in (("in", pj["in"]), ("inout", pj["inout"])):
        for m in lst:
            units[m["name"]] = {"cls": cls, **m, "preds": []}
    for cls, lst in (("out", pj["out"]), ("internal", pj["internal"])):
        for f in lst:
            units[f["model"]["name"]] = {"cls": cls, **f["model"], "preds": sorted(f["preds"])}
    return [units[k] for k in sorted(units)]


def err_form(e):
    return {"error": type(e).__name__}


def pipeline(x, upto="sim"):
    """run the real pipeline on a triple; returns dict of canonical stage results (stops at the first error)"""
    import processor_utils
    import program_utils
    import sim_services

    res = {}
    touched = []          # arguments a stage modified (C20: "None of them modifies the ... objects passed in")

    def unchanged(name, before, after):
        if before != after:
            touched.append(name)

    res["touched"] = touched
    desc_arg = x["desc"]
    if x.get("tuple_edges"):
        # an in-memory description with connections written as tuples (immutable): same meaning as lists
        desc_arg = copy.deepcopy(x["desc"])
        desc_arg["dataPath"] = [tuple(e) if isinstance(e, list) and len(e) == 2 else e for e in desc_arg["dataPath"]]
    desc_before = copy.deepcopy(desc_arg)
    try:
        proc = processor_utils.load_proc_desc(desc_arg)
    except Exception as e:  # noqa: BLE001
        unchanged("description (rejected)", desc_before, desc_arg)
        res["proc"] = err_form(e)
        return res
    unchanged("description", desc_before, desc_arg)
    res["proc"] = canon_proc(proc)
    res["proc_exact"] = comp_sim.proc_json(proc)
    isa_arg = [tuple(p) for p in x["isa"]]
    isa_before = list(isa_arg)
    abilities = processor_utils.get_abilities(proc)
    abilities_before = set(abilities)
    try:
        isa = processor_utils.load_isa(isa_arg, abilities)
    except Exception as e:  # noqa: BLE001
        res["isa"] = err_form(e)
        return res
    finally:
        unchanged("instruction-set table", isa_before, isa_arg)
        unchanged("capability set", abilities_before, set(abilities))
        unchanged("processor (after get_abilities/load_isa)", res["proc_exact"], comp_sim.proc_json(proc))
    res["isa"] = sorted([k, v] for k, v in isa.items())
    lines_arg = [ln + "\n" for ln in rendered(x)]
    lines_before = list(lines_arg)
    try:
        prog = program_utils.read_program(lines_arg)
    except Exception as e:  # noqa: BLE001
        res["prog"] = err_form(e)
        return res
    finally:
        unchanged("program text", lines_before, lines_arg)
    res["parsed"] = [[list(i.sources), i.destination, i.name, i.line] for i in prog]
    prog_before = list(prog)
    isa_dict_before = dict(isa)
    try:
        comp = program_utils.compile_program(prog, isa)
    except Exception as e:  # noqa: BLE001
        res["prog"] = err_form(e)
        return res
    finally:
        unchanged("parsed program", prog_before, list(prog))
        unchanged("instruction set", isa_dict_before, dict(isa))
    res["prog"] = comp_sim.prog_json(comp)
    # instructions built DIRECTLY (no parser in front normalising the spelling): sources that differ only in case
    try:
        from program_defs import ProgInstruction
        direct = [ProgInstruction(["R1", "r1", "Acc", "ACC", "acc"], "R1", i.name, i.line) for i in prog[:2]]
        res["direct"] = comp_sim.prog_json(program_utils.compile_program(direct, isa))
        # registers need not be plain strings: case-insensitive string objects in this triple's own spelling
        from str_utils import ICaseString
        if prog:
            regs = sorted({prog[0].destination, *prog[0].sources})
            obj = [ProgInstruction([ICaseString(r) for r in regs], ICaseString(regs[0]), prog[0].name, prog[0].line)]
            res["direct_obj"] = [[[str(x) for x in i.sources], str(i.destination), i.categ]
                                 for i in program_utils.compile_program(obj, isa)]
    except Exception as e:  # noqa: BLE001
        res["direct"] = err_form(e)
    if upto == "compile":
        return res
    comp_before = list(comp)
    impl = comp_sim.run_impl(proc, comp)
    unchanged("compiled program", comp_before, list(comp))
    # the same hardware object used again: for an unrelated program ending in a stall error, then for this program again
    # ("repeated calls in one process ... return structurally equal results")
    from program_defs import HwInstruction
    # (the first program the hardware object ever sees is a DIFFERENT one: seeded change C20-10 kept the sinks of the first
    # program in the HwSpec)
    reused = comp_sim.run_impl(proc, comp, history=[list(reversed(comp))[: max(1, len(comp) - 1)], comp,
                                                    [HwInstruction([], "R0", "no such capability")] + list(comp)])
    if reused != impl:
        res["reused_spec_differs"] = True
    unchanged("processor (after simulate)", res["proc_exact"], comp_sim.proc_json(proc))
    if "table" in impl:
        impl["table"] = [sorted([u, sorted(l)] for u, l in row) for row in impl["table"]]
    res["sim"] = impl
    return res


def first_spelling_violation(x, res):
    """C13, second half of its first sentence: every register of the parsed program is reported in the spelling of its
    first occurrence IN THIS program text (whatever was parsed before in the same process)"""
    parsed = res.get("parsed")
    if not isinstance(parsed, list):
        return None
    first = {}
    for ln in x["lines"]:
        if not ln.strip() or " " not in ln:
            continue
        for op in ln.split(" ", 1)[1].split(", "):
            if op:
                first.setdefault(op.lower(), op)
    for srcs, dst, _name, line in parsed:
        for r in [dst, *srcs]:
            if r.lower() in first and r != first[r.lower()]:
                return f"register {r!r} on line {line} is not reported in its first spelling {first[r.lower()]!r}"
    return None


def c13_view(r):
    return {k: r.get(k) for k in ("proc", "isa", "prog", "sim")}


def expected_rows(sim, n):
    """the table the property describes, from the library-computed diagram"""
    T = len(sim["table"])
    rows = [[""] + [str(t) for t in range(1, T + 1)]]
    for k in range(n):
        row = []
        for t in range(T):
            cell = ""
            for u, lst in sim["table"][t]:
                for idx, lab in lst:
                    if idx == k:
                        cell = f"{lab}:{u}"
            row.append(cell)
        while row and row[-1] == "":
            row.pop()
        rows.append(["I%d" % (k + 1)] + row)
    return rows


def run_cli(x, hashseed=None):
    import yaml

    y = yaml.safe_dump({"microarch": x["desc"], "ISA": {m: c for m, c in x["isa"]}})
    text = "".join(ln + "\n" for ln in rendered(x))
    with tempfile.TemporaryDirectory(prefix="verif_e2e_") as td:
        with open(os.path.join(td, "p.yaml"), "w") as fh:
            fh.write(y)
        with open(os.path.join(td, "a.asm"), "w") as fh:
            fh.write(text)
        env = core.cli_env()
        if hashseed is not None:
            env["PYTHONHASHSEED"] = hashseed
        try:
            r = subprocess.run([sys.executable, os.path.join(core.REPO, "src", "processor_sim.py"), "--processor",
                                os.path.join(td, "p.yaml"), os.path.join(td, "a.asm")],
                               capture_output=True, text=True, env=env, timeout=240)
        except subprocess.TimeoutExpired:
            # the library run of the same input finished (a hanging simulation is caught in-process by the watchdog as a C08
            # observation): a command line that needs more than 4 minutes is a machine-load problem, never a verdict
            raise core.InfraError("the command-line subprocess did not finish within 240 s")
    rows = [row for row in csv.reader(io.StringIO(r.stdout), dialect="excel-tab")]
    return {"rc": r.returncode, "rows": rows, "stdout": r.stdout, "stderr": r.stderr[-400:], "files": {"yaml": y, "asm": text}}


# --------------------------------------------------------------------------------------------------
# fresh-interpreter worker (C20): `python -m harness.comp_e2e --worker` reads triples (JSON lines), prints stage results

def worker_main():
    core.install_repo()
    for line in sys.stdin:
        x = json.loads(line)
        print(json.dumps(c20_view(pipeline(x)), sort_keys=True))
        sys.stdout.flush()


def c20_view(r):
    v = {k: r.get(k) for k in ("proc", "isa", "parsed", "prog", "direct", "direct_obj")}
    s = r.get("sim")
    v["sim"] = s if s is None or "table" in s else {"outcome": s["outcome"]}
    # error CLASS only
    return v


def fresh_runs(xs, hashseed):
    env = dict(os.environ)
    env["PYTHONHASHSEED"] = hashseed
    env["PYTHONDONTWRITEBYTECODE"] = "1"
    env["VERIF_REPO"] = core.REPO
    p = subprocess.run([sys.executable, "-m", "harness.comp_e2e", "--worker"], cwd=core.VERIF, env=env, text=True,
                       input="".join(json.dumps(x) + "\n" for x in xs), capture_output=True, timeout=600)
    outs = [json.loads(ln) for ln in p.stdout.splitlines() if ln.strip()]
    if len(outs) != len(xs):
        raise core.InfraError("fresh interpreter worker failed: " + p.stderr[-1500:])
    return outs


# --------------------------------------------------------------------------------------------------
# model side

def model_pipeline(x, proc_exact=None):
    """composed Lean model on the triple (None while the op is not available).  `proc_exact`: the implementation's
    ProcessorDesc in protocol form; only its *orders* are passed on (which valid sink-first order networkx picked is
    not fixed by any property, but the simulator's tie-breaks depend on it)."""
    req = {"op": "pipeline", "desc": x["desc"], "isa": x["isa"], "lines": rendered(x)}
    if proc_exact is not None:
        req["order"] = {"in": [u["name"] for u in proc_exact["in"]], "inout": [u["name"] for u in proc_exact["inout"]],
                        "out": [f["model"]["name"] for f in proc_exact["out"]],
                        "internal": [f["model"]["name"] for f in proc_exact["internal"]]}
    try:
        return core.driver().ask(req)
    except core.InfraError as e:
        if "unknown op" in str(e):
            return None
        raise


def model_agrees(model, real):
    """compare the composed model's stage results with the implementation's (same canonical forms)"""
    if model == "non-ascii":
        return True, "non-ASCII names: outside the (ASCII-folding) model, metamorphic oracle only"
    if model is None:
        return True, "model pipeline op not available"
    for k in ("proc", "isa", "prog"):
        a, b = model.get(k), real.get(k)
        if isinstance(b, dict) and "error" in b:
            if not (isinstance(a, dict) and "error" in a):
                return False, f"stage {k}: implementation rejected ({b['error']}), model accepted"
            return True, ""
        if a != b:
            return False, f"stage {k} differs"
    sm, sr = model.get("sim"), real.get("sim")
    if sr is None:
        return True, ""
    if sm is None or sm.get("outcome") != ("fault" if sr["outcome"] == "exc" else sr["outcome"]):
        return False, "simulation outcome differs"
    if "table" in sr and sm.get("table") != sr["table"]:
        return False, "diagram differs"
    return True, ""


# --------------------------------------------------------------------------------------------------

def cases(tier: str) -> list:
    return ["marathon"] + list(range(96 if tier == "quick" else 640))


def evaluate(x, do_cli=True, do_cli_err=True) -> dict:
    import random

    core.install_repo()
    rng = random.Random(x.get("seed", "replay"))  # the re-casing is part of the input: replays reproduce it
    props = {}
    x0 = copy.deepcopy(x)
    base = pipeline(x)
    args_unchanged = (x == x0)
    accepted = not (isinstance(base.get("proc"), dict))
    n = len(base["prog"]) if isinstance(base.get("prog"), list) else 0
    model = "non-ascii" if non_ascii(x) else model_pipeline(x, base.get("proc_exact"))
    k_ok, k_why = model_agrees(model, base)

    # ---- C13
    x2, changed = recase(rng, x)
    other = pipeline(x2)
    o13 = None
    if c13_view(base) != c13_view(other):
        for st in ("proc", "isa", "prog", "sim"):
            if base.get(st) != other.get(st):
                o13 = f"re-casing non-defining occurrences changed the {st} stage result"
                break
    if o13 is None:
        o13 = first_spelling_violation(x, base) or first_spelling_violation(x2, other)
    props["C13"] = {"app": accepted, "nontrivial": accepted and changed >= 3 and n >= 2, "k": k_ok, "o": o13}

    # ---- C16
    sim = base.get("sim")
    completes = bool(sim) and sim.get("outcome") == "done"
    o16, k16 = None, k_ok
    cli = None
    do_cli = do_cli and not non_ascii(x)
    if completes and do_cli:
        cli = run_cli(x)
        exp = expected_rows(sim, n)
        if cli["rc"] != 0:
            o16 = f"the command line failed (exit {cli['rc']}) although the library simulation completes: {cli['stderr'][-200:]}"
        elif cli["rows"] != exp:
            o16 = "printed table differs from the diagram computed through the library"
        if isinstance(model, dict) and model.get("rows") is not None and cli["rows"] is not None and model["rows"] != cli["rows"]:
            k16 = False
    props["C16"] = {"app": completes and do_cli, "nontrivial": completes and n >= 2 and len(sim["table"]) >= 3 if completes else False,
                    "k": k16, "o": o16}

    # ---- the command line must reject what the library rejects (exit status, no table): C11 / C15 / C14 / C08 through their
    # secondary channel (seeded changes C11-12: defective description + empty program accepted; C14-12: exit status 0)
    stage = None
    if isinstance(base.get("proc"), dict):
        stage = ("C11", "the processor description is rejected by the loader")
    elif isinstance(base.get("isa"), dict):
        stage = ("C15", "the instruction set is rejected")
    elif isinstance(base.get("prog"), dict):
        stage = ("C14", "the program text has a syntax error") if base["prog"]["error"] == "CodeError" else \
            ("C15", "the program uses an unsupported instruction")
    elif sim and sim.get("outcome") == "stall":
        stage = ("C08", "the simulation ends in a stall error")
    if stage is not None and stage[0] == "C15" and len({m for m, _ in x["isa"]}) < len(x["isa"]):
        stage = None      # the ISA file is a YAML mapping: identically spelled entries cannot be written, the CLI gets another table
    if stage is not None and do_cli_err and not non_ascii(x):
        rj = run_cli(x)
        o = None
        if rj["rc"] == 0:
            o = f"{stage[1]}, but the command line exits with status 0"
        elif rj["rc"] != "timeout" and any(row and row[0].startswith("I") and row[0][1:].isdigit() for row in (rj["rows"] or [])):
            o = f"{stage[1]}, but the command line prints a table"
        props[stage[0]] = {"app": True, "nontrivial": True, "k": True, "o": o}
        cli = cli or rj

    # ---- C20
    o20 = None
    if not args_unchanged:
        o20 = "the description / instruction set / program passed in was modified by the call"
    if o20 is None and base.get("touched"):
        o20 = "a call modified an object passed in: " + ", ".join(base["touched"])
    if o20 is None and base.get("reused_spec_differs"):
        o20 = "simulating again with the same HwSpec object (after other simulations on it) returned a different result"
    again = pipeline(x)
    if o20 is None and c20_view(again) != c20_view(base):
        o20 = "a repeated call in the same process returned a different result"
    if o20 is None:
        # unrelated work in between: another triple, then this one again
        pipeline(x2)
        third = pipeline(x)
        if c20_view(third) != c20_view(base):
            o20 = "a call made after unrelated work returned a different result"
    if o20 is None and x != x0:
        o20 = "the description / instruction set / program passed in was modified by a later call"
    multi = accepted and (len({c for u in x["desc"]["units"] for c in u["capabilities"]}) >= 2)
    props["C20"] = {"app": True, "nontrivial": bool(multi), "k": k_ok, "o": o20}
    return {"props": props, "base": c20_view(base), "changed": changed, "k_why": k_why, "cli": cli, "x2": x2}


def marathon_triple(n):
    """a one-unit processor and n independent instructions: the printed table has n columns (a default limit on the
    number of printed / simulated cycles shows only on long runs)"""
    return {"desc": {"units": [{"name": "core", "width": 1, "capabilities": ["ALU"], "readLock": True, "writeLock": True}], "dataPath": []},
            "isa": [["add", "ALU"]], "lines": ["ADD R%d" % (i % 5) + ", R9" for i in range(n)], "seed": "marathon"}


def run_case(case, tier="quick") -> dict:
    if case == "marathon":
        core.install_repo()
        x = marathon_triple(1150)
        o = evaluate(x, do_cli=True, do_cli_err=False)
        rec = {"case": case, "family": "marathon", "digest": "marathon-1150", "tags": ["marathon"], "props": {"C16": o["props"]["C16"]}}
        if o["props"]["C16"]["o"] is not None or not o["props"]["C16"]["k"]:
            rec["input"] = {"marathon": 1150}
            rec["impl"] = {"cli_rc": (o["cli"] or {}).get("rc"), "cli_columns": len(((o["cli"] or {}).get("rows") or [[]])[0])}
        return {"multi": [rec]}
    """one case id = a small batch of triples (so that fresh-interpreter runs are amortised)"""
    core.install_repo()
    rng = core.case_rng(NAME, case)
    batch = 4
    xs = [gen_triple(rng, tier) for _ in range(batch)]
    # x1 := a twin of x0 differing in ONE attribute of one unit (memory-access list, width or a lock): state cached across
    # calls under a key that ignores that attribute makes the twin's result depend on which of the two ran first
    xs[1] = twin_of(rng, xs[0])
    # x3 := a raw description from the loader component's generators (often with several structural defects at once):
    # which defect is reported must not depend on the hash seed or on earlier calls
    if rng.random() < 0.75:
        from . import comp_loader
        fam = rng.choice(["random", "partial", "layered", "deadbranch", "forkjoin", "random"])
        desc, _ = comp_loader.gen_desc(rng, fam)
        for u in desc["units"]:          # the composed model has integer widths
            if isinstance(u.get("width"), float):
                u["width"] = int(u["width"] + 0.5)
        xs[3] = {"desc": desc, "isa": [], "lines": []}
    if rng.random() < 0.3:
        xs[2] = to_non_ascii(rng, xs[2])     # metamorphic C13 oracle beyond ASCII (the model is skipped for it)
    elif rng.random() < 0.5:
        xs[2] = two_defects(rng)
    for i, x in enumerate(xs):
        x["seed"] = f"{core.base_seed()}:{case}:{i}"
    # the CLI subprocess is slow: one per batch in the quick tier, all in the thorough tier
    outs = []
    err_budget = 4 if tier == "thorough" else 2       # command-line runs for rejected inputs, per batch
    for i, x in enumerate(xs):
        o = evaluate(x, do_cli=(tier == "thorough" or i == 0), do_cli_err=err_budget > 0)
        if any(p in o["props"] for p in ("C11", "C14", "C15", "C08")):
            err_budget -= 1
        outs.append(o)
    # fresh interpreters with different hash seeds, whole batch per interpreter
    seeds = HASHSEEDS if tier == "thorough" else [HASHSEEDS[(case + j) % len(HASHSEEDS)] for j in range(2)]
    for k, hs in enumerate(seeds):
        # odd runs process the batch in reverse order: a result must not depend on what was called before it
        if k % 2 == 1:
            fr = list(reversed(fresh_runs(list(reversed(xs)), hs)))
        else:
            fr = fresh_runs(xs, hs)
        for i, (o, f) in enumerate(zip(outs, fr)):
            if o["props"]["C20"]["o"] is None and f != json.loads(json.dumps(o["base"], sort_keys=True)):
                o["props"]["C20"]["o"] = (f"a fresh interpreter with PYTHONHASHSEED={hs} (batch processed in "
                                          f"{'reverse' if k % 2 == 1 else 'forward'} order) returned a different result")
    # fold the batch into one record per triple: run.py wants one record per case, so emit the worst of the batch per
    # property but keep counts honest through `multi`
    results = []
    for i, (x, o) in enumerate(zip(xs, outs)):
        digest = hashlib.sha1(json.dumps(x, sort_keys=True).encode()).hexdigest()
        rec = {"case": [case, i], "family": "triple", "digest": digest,
               "tags": ["accepted" if o["props"]["C13"]["app"] else "rejected", "sim:" + str((o["base"].get("sim") or {}).get("outcome")),
                        "recased:%s" % ("0" if o["changed"] == 0 else "1-2" if o["changed"] < 3 else "3+")],
               "props": o["props"]}
        bad = any(r["app"] and (not r["k"] or r["o"] is not None) for r in o["props"].values())
        if bad or (case in (0, 1, 2) and i == 0):
            rec["input"] = x
            rec["impl"] = {"base": o["base"], "recased_input": o["x2"], "cli": o["cli"], "k_why": o["k_why"]}
        results.append(rec)
    return {"multi": results}


def replay(prop: str, inp: dict) -> dict:
    if "marathon" in inp:
        inp = marathon_triple(inp["marathon"])
    o = evaluate(inp, do_cli=True)
    rec = o["props"].get(prop, {"app": False, "nontrivial": False, "k": True, "o": None})
    if prop == "C20" and rec["o"] is None:
        for hs in HASHSEEDS:
            f = fresh_runs([inp], hs)[0]
            if f != json.loads(json.dumps(o["base"], sort_keys=True)):
                rec["o"] = f"a fresh interpreter with PYTHONHASHSEED={hs} returned a different result"
                break
    return rec


if __name__ == "__main__":
    if "--worker" in sys.argv:
        worker_main()
