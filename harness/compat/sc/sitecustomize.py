"""Installed via PYTHONPATH for CLI subprocesses: restore fastcore 1.7.x `Self` semantics first."""
import os, sys
sys.path.insert(0, os.path.dirname(os.path.dirname(os.path.abspath(__file__))))
import fc_compat  # noqa: F401,E402
