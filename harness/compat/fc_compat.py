"""fastcore 1.7.20 `Self` semantics (callable() test before applying recorded args)."""
import fastcore.basics as _b

class _Self:
    def __init__(self): self.nms,self.args,self.kwargs,self.ready = [],[],[],True
    def __repr__(self): return f'self: {self.nms}({self.args}, {self.kwargs})'
    def __call__(self, *args, **kwargs):
        if self.ready:
            x = args[0]
            for n,a,k in zip(self.nms,self.args,self.kwargs):
                x = getattr(x,n)
                if callable(x) and a is not None: x = x(*a, **k)
            return x
        else:
            self.args.append(args)
            self.kwargs.append(kwargs)
            self.ready = True
            return self
    def __getattr__(self,k):
        if not self.ready:
            self.args.append(None)
            self.kwargs.append(None)
        self.nms.append(k)
        self.ready = False
        return self
    def _call(self, *args, **kwargs):
        self.args,self.kwargs,self.nms = [args],[kwargs],['__call__']
        self.ready = True
        return self

class _SelfCls:
    def __getattr__(self,k): return getattr(_Self(),k)
    def __getitem__(self,i): return self.__getattr__('__getitem__')(i)
    def __call__(self,*args,**kwargs): return self.__getattr__('_call')(*args,**kwargs)

_b.Self = _SelfCls()
import fastcore.all  # noqa
