"""Shared machinery of the correspondence harness.

* imports the implementation from /repo/src *as it is now* (fastcore-1.7 `Self` shim first, no bytecode);
* talks to the compiled Lean driver `psdriver` over a JSON line protocol;
* one PRNG per (VERIF_SEED, component, case);
* per-case watchdog, process pool, component-result cache, evidence / verdict writer.

Exit codes of a check: 0 property held on everything explored, 1 VIOLATION (line printed), 2 infrastructure error.
"""
from __future__ import annotations

import contextlib
import fcntl
import hashlib
import json
import multiprocessing as mp
import os
import random
import signal
import subprocess
import sys
import time

VERIF = os.path.dirname(os.path.dirname(os.path.abspath(__file__)))
REPO = os.environ.get("VERIF_REPO", "/repo")
LEAN_DIR = os.path.join(VERIF, "lean", "ProcSim")
DRIVER = os.path.join(LEAN_DIR, ".lake", "build", "bin", "psdriver")
CACHE = os.path.join(VERIF, ".cache")
NPROC = int(os.environ.get("VERIF_JOBS", str(min(16, os.cpu_count() or 4))))


class InfraError(Exception):
    """Something in the verification machinery (not in the code under test) failed."""


# --------------------------------------------------------------------------------------------------
# implementation side

_installed = False


def install_repo() -> None:
    """Make `import sim_services`, `processor_utils`, … resolve to REPO/src under the compat shim."""
    global _installed
    if _installed:
        return
    sys.dont_write_bytecode = True
    sys.path.insert(0, os.path.join(VERIF, "harness", "compat"))
    import fc_compat  # noqa: F401  (restores fastcore 1.7.x `Self`)
    sys.path.insert(0, os.path.join(REPO, "src"))
    import logging

    logging.disable(logging.CRITICAL)
    _installed = True


def cli_env() -> dict:
    """Environment for running the command-line driver in a subprocess under the same shim."""
    env = dict(os.environ)
    env["PYTHONPATH"] = os.path.join(VERIF, "harness", "compat", "sc")
    env["PYTHONDONTWRITEBYTECODE"] = "1"
    return env


class CaseTimeout(Exception):
    pass


@contextlib.contextmanager
def watchdog(seconds: float):
    """Raise CaseTimeout inside the block after `seconds` (pure-Python loops of a mutant)."""

    def _h(signum, frame):
        raise CaseTimeout()

    old = signal.signal(signal.SIGALRM, _h)
    signal.setitimer(signal.ITIMER_REAL, seconds)
    try:
        yield
    finally:
        signal.setitimer(signal.ITIMER_REAL, 0)
        signal.signal(signal.SIGALRM, old)


# --------------------------------------------------------------------------------------------------
# seeds

def base_seed() -> int:
    try:
        return int(os.environ.get("VERIF_SEED", "0"))
    except ValueError:
        return 0


def case_rng(component: str, case) -> random.Random:
    return random.Random(f"{base_seed()}:{component}:{case}")


# --------------------------------------------------------------------------------------------------
# Lean side

def _lean_sources() -> list[str]:
    out = []
    for root, dirs, files in os.walk(LEAN_DIR):
        dirs[:] = [d for d in dirs if d != ".lake"]
        for f in files:
            if f.endswith(".lean") or f in ("lakefile.toml", "lakefile.lean"):
                out.append(os.path.join(root, f))
    return sorted(out)


def _hash_files(paths, extra=b"") -> str:
    h = hashlib.sha256(extra)
    for p in paths:
        h.update(p.encode())
        with open(p, "rb") as fh:
            h.update(fh.read())
    return h.hexdigest()


def lean_hash() -> str:
    return _hash_files(_lean_sources())


def repo_hash() -> str:
    paths = []
    for root, dirs, files in os.walk(os.path.join(REPO, "src")):
        dirs[:] = [d for d in dirs if d != "__pycache__" and not d.endswith(".egg-info")]
        for f in files:
            if f.endswith(".py"):
                paths.append(os.path.join(root, f))
    return _hash_files(sorted(paths))


def harness_hash() -> str:
    paths = []
    for sub in ("harness", "checks"):
        for root, dirs, files in os.walk(os.path.join(VERIF, sub)):
            dirs[:] = [d for d in dirs if d != "__pycache__"]
            for f in files:
                if f.endswith(".py") or f.endswith(".json"):
                    paths.append(os.path.join(root, f))
    return _hash_files(sorted(paths))


@contextlib.contextmanager
def _flock(name: str):
    os.makedirs(CACHE, exist_ok=True)
    with open(os.path.join(CACHE, name + ".lock"), "w") as fh:
        fcntl.flock(fh, fcntl.LOCK_EX)
        try:
            yield
        finally:
            fcntl.flock(fh, fcntl.LOCK_UN)


def _claimed_modules() -> list[str]:
    try:
        with open(os.path.join(VERIF, "theorems.json")) as fh:
            reg = json.load(fh)
        return sorted({t["module"] for ent in reg.values() for t in ent.get("theorems", [])})
    except (OSError, ValueError):
        return []


def _olean_exists(target: str) -> bool:
    """a module target (dotted name) has its compiled file; other targets (the executable) are checked separately"""
    if target == "psdriver":
        return os.path.exists(DRIVER)
    return os.path.exists(os.path.join(LEAN_DIR, ".lake", "build", "lib", "lean", *target.split(".")) + ".olean")


def ensure_built(targets=None) -> float:
    """`lake build` of the driver and of every module a registered theorem lives in (a no-op when up to date; the
    setup command builds the whole library). Failure is an infrastructure error, never a verdict."""
    t0 = time.time()
    if targets is None:
        targets = ["psdriver", *_claimed_modules()]
    with _flock("lake"):
        key = hashlib.sha256((lean_hash() + "|" + " ".join(sorted(targets))).encode()).hexdigest()[:24]
        stamp = os.path.join(CACHE, "built-" + key)
        if os.path.exists(stamp) and os.path.exists(DRIVER) and all(_olean_exists(t) for t in targets):
            return 0.0
        r = subprocess.run(["lake", "build", *targets], cwd=LEAN_DIR, capture_output=True, text=True)
        if r.returncode != 0 or not os.path.exists(DRIVER):
            lines = [ln for ln in (r.stdout + r.stderr).splitlines() if "error" in ln.lower()]
            raise InfraError("lake build failed:\n" + "\n".join(lines[-12:]))
        open(stamp, "w").close()
    return time.time() - t0


class Driver:
    """A running `psdriver`; `ask` is strictly request/response."""

    def __init__(self):
        if not os.path.exists(DRIVER):
            ensure_built()
        self.p = subprocess.Popen([DRIVER], stdin=subprocess.PIPE, stdout=subprocess.PIPE, text=True, bufsize=1)

    def ask(self, obj: dict) -> dict:
        line = json.dumps(obj, separators=(",", ":"))
        try:
            self.p.stdin.write(line + "\n")
            self.p.stdin.flush()
            out = self.p.stdout.readline()
        except BrokenPipeError as e:  # pragma: no cover
            raise InfraError("psdriver died") from e
        if not out:
            raise InfraError("psdriver gave no answer for " + line[:500])
        ans = json.loads(out)
        if isinstance(ans, dict) and "error" in ans and len(ans) == 1:
            raise InfraError("psdriver protocol error: " + str(ans["error"]) + " on " + line[:500])
        return ans

    def close(self):
        try:
            self.p.stdin.close()
            self.p.wait(timeout=5)
        except Exception:  # pragma: no cover
            self.p.kill()


_driver = None


def driver() -> Driver:
    global _driver
    if _driver is None:
        _driver = Driver()
    return _driver


# --------------------------------------------------------------------------------------------------
# process pool over case ids

def _worker(args):
    modname, fn, chunk, extra = args
    install_repo()
    import importlib

    mod = importlib.import_module(modname)
    f = getattr(mod, fn)
    return [f(c, **extra) for c in chunk]


def pmap(modname: str, fn: str, cases: list, extra: dict | None = None, chunk: int = 50, nproc: int | None = None) -> list:
    """Run `modname.fn(case, **extra)` for every case in a pool of fresh worker processes; order preserved."""
    extra = extra or {}
    chunks = [cases[i:i + chunk] for i in range(0, len(cases), chunk)]
    nproc = nproc or NPROC
    if nproc <= 1 or len(chunks) <= 1:
        res = [_worker((modname, fn, ch, extra)) for ch in chunks]
    else:
        ctx = mp.get_context("fork")
        with ctx.Pool(min(nproc, len(chunks))) as pool:
            res = pool.map(_worker, [(modname, fn, ch, extra) for ch in chunks])
    return [r for ch in res for r in ch]


# --------------------------------------------------------------------------------------------------
# component-result cache (content-addressed: an edited tree is always re-run)

def cache_key(component: str, tier: str, extra: str = "") -> str:
    h = hashlib.sha256()
    for part in (component, tier, str(base_seed()), REPO, repo_hash(), lean_hash(), harness_hash(), extra):
        h.update(part.encode())
        h.update(b"\0")
    return h.hexdigest()[:32]


def cached(component: str, tier: str, compute, extra: str = ""):
    """Return compute() for this (tree, harness, Lean sources, seed, tier); shared between the checks of a component."""
    if os.environ.get("VERIF_NOCACHE"):
        return compute()
    os.makedirs(CACHE, exist_ok=True)
    key = cache_key(component, tier, extra)
    path = os.path.join(CACHE, f"{component}-{key}.json")
    with _flock(f"comp-{component}-{key}"):
        if os.path.exists(path):
            with open(path) as fh:
                return json.load(fh)
        res = compute()
        tmp = path + f".{os.getpid()}.tmp"
        with open(tmp, "w") as fh:
            json.dump(res, fh)
        os.replace(tmp, path)
        return res


def prune_cache(keep: int = 60) -> None:
    try:
        now = time.time()
        for f in os.listdir(CACHE):
            full = os.path.join(CACHE, f)
            if (f.endswith(".lock") or f.startswith("built-") or f.endswith(".tmp")) and now - os.path.getmtime(full) > 6 * 3600:
                os.remove(full)
    except OSError:
        pass
    try:
        files = [os.path.join(CACHE, f) for f in os.listdir(CACHE) if f.endswith(".json")]
        files.sort(key=os.path.getmtime, reverse=True)
        for f in files[keep:]:
            os.remove(f)
    except OSError:
        pass
