"""Component "loader": processor_utils.load_proc_desc / ProcessorDesc(...)  vs  ProcSim.Model.Loader  (C09-C12).

Every `load` case: generate a structurally typed description (structured families, or one of them with ONE
injected syntactic defect), run the real `processor_utils.load_proc_desc` on a deep copy (every exception type is
caught and mapped to {class, fields, message}), send description + the implementation's canonical result to the
Lean driver, which runs the model, compares the projections pi_09..pi_12 ("k") and evaluates the Boolean specs of
Spec/Loader.lean on the implementation's own output ("o").

Every `mkproc` case (C12 only): a DAG of parts is handed to the real `ProcessorDesc(in, out, in_out, internal)` in
random orders (family `mkproc`) or in ALL orders of the internal units (family `mkprocall`, internal DAGs of <= 5
units, <= 6 in the thorough tier); the driver checks the resulting orders (validity, never identity).
"""
from __future__ import annotations

import copy
import hashlib
import itertools
import json
import os

from . import core

NAME = "loader"
PROPS = ["C09", "C10", "C11", "C12"]
RULES = {
    "C09": "applicable = the implementation accepted the description; non-trivial = the loaded processor has at least 2 units and a connection (some route has length >= 2); distinct = sha1 of the description",
    "C10": "applicable = accepted and the description is syntactically correct and acyclic; non-trivial = something was pruned (a unit, a capability of a unit or a connection of the description is absent from the result); distinct = sha1",
    "C11": "always applicable; non-trivial = the implementation or the model rejected, or a documented defect is present; distinct = sha1 (distribution of error classes / kinds is in the tags)",
    "C12": "applicable = accepted (load) / acyclic parts (mkproc); non-trivial = at least 2 internal units with a connection between them, or at least 2 output ports; distinct = sha1 of description or parts",
}
CAPS = ["ALU", "MEM", "BR"]
# weights of the integer case stream (case % len(FAMILIES))
FAMILIES = ["layered", "layered", "layered", "layered", "forkjoin", "forkjoin", "deadbranch", "deadbranch",
            "deadbranch", "partial", "partial", "partial", "random", "random", "malformed", "malformed",
            "malformed", "tiny", "mkproc", "mkproc", "fanout"]
INJECTIONS = ["dupname", "dupname_case", "width", "badedge", "undef", "cycle", "selfloop", "dupedge"]
TIMEOUT = 10.0
CORPUS = os.path.join(core.VERIF, "harness", "corpus")


# --------------------------------------------------------------------------------------------------
# abstract shapes: units = [dict(name,width,caps,rl,wl,acl)], edges = [(i,j)]

def _names(rng, n):
    used, out = set(), []
    while len(out) < n:
        if rng.random() < 0.04:
            # unusual but legal (structurally typed) names: empty, blank, digits only, inner blanks
            nm = rng.choice(["", " ", "0", "core 0", "-", "A b", "a  b", "u" * 95, "Stage " * 16 + "x", "{}", "{{f}}", "$u", "%s",
                             "any", "*", "all", "none", "default", "a,b", "a|b", "a:b", "x=1", "#1", "~", "null", "true"])
        else:
            nm = rng.choice("abcxyzABQ") + rng.choice(["", str(rng.randint(0, 20))]) + rng.choice(["", "", "u", "X"])
        if nm.lower() not in used:
            used.add(nm.lower())
            out.append(nm)
    return out


def _unit(rng, name, caps, rl=False, wl=False, wmax=3):
    return dict(name=name, width=rng.randint(1, wmax), caps=list(caps), rl=rl, wl=wl,
                acl=[c for c in caps if rng.random() < 0.25])


def _pick_caps(rng, pool, p=0.75):
    return [c for c in pool if rng.random() < p] or [rng.choice(pool)]


def _perturb(rng, units, p):
    for u in units:
        if rng.random() < p:
            u["rl"] = not u["rl"]
        if rng.random() < p:
            u["wl"] = not u["wl"]


def shape_layered(rng, maxu=8, minlayers=1, clean=False):
    pool = CAPS[:rng.randint(1, 3)]
    nlayers = rng.randint(minlayers, 4)
    sizes = [rng.randint(1, 3) for _ in range(nlayers)]
    while sum(sizes) > maxu:
        i = rng.randrange(len(sizes))
        if sizes[i] > 1:
            sizes[i] -= 1
        elif len(sizes) > minlayers:
            sizes.pop(i)
        elif all(x == 1 for x in sizes):
            break
    nlayers = len(sizes)
    names = _names(rng, sum(sizes))
    ra = rng.randint(0, nlayers - 1)
    wb = rng.randint(ra, nlayers - 1)
    units, layers = [], []
    uniform = clean or rng.random() < 0.55
    if not clean and rng.random() < 0.12:
        # both locks in the first layer and partial support: capabilities get blocked behind correctly locked routes
        ra, wb, uniform = 0, 0, False
    skip = 0.15 if rng.random() < 0.3 and not clean else 0.0
    for li, k in enumerate(sizes):
        layer = []
        for _ in range(k):
            layer.append(len(units))
            caps = pool if uniform else _pick_caps(rng, pool, 0.8)
            units.append(_unit(rng, names[len(units)], caps, li == ra, li == wb))
        layers.append(layer)
    edges = set()
    for li in range(nlayers - 1):
        for a in layers[li]:
            for b in layers[li + 1]:
                if rng.random() < 0.6:
                    edges.add((a, b))
        for b in layers[li + 1]:
            if not any((a, b) in edges for a in layers[li]) and rng.random() < 0.9:
                edges.add((rng.choice(layers[li]), b))
        for a in layers[li]:
            if not any((a, b) in edges for b in layers[li + 1]) and rng.random() < 0.9:
                edges.add((a, rng.choice(layers[li + 1])))
    for li in range(nlayers - 2):
        for a in layers[li]:
            for lj in range(li + 2, nlayers):
                for b in layers[lj]:
                    if rng.random() < skip:
                        edges.add((a, b))
    _perturb(rng, units, 0.0 if clean else rng.choice([0.0, 0.0, 0.0, 0.04, 0.1]))
    return units, sorted(edges), layers


def shape_forkjoin(rng):
    pool = CAPS[:rng.randint(1, 3)]
    nb = rng.randint(2, 3)
    lens = [rng.randint(1, 2) for _ in range(nb)]
    tail = rng.random() < 0.5
    while 2 + sum(lens) + (1 if tail else 0) > 8:
        lens[lens.index(max(lens))] -= 1
    lens = [x for x in lens if x > 0]
    n = 2 + sum(lens) + (1 if tail else 0)
    names = _names(rng, n)
    lock_at_branch_r = rng.random() < 0.3
    lock_at_branch_w = rng.random() < 0.3
    units = [_unit(rng, names[0], pool, rl=not lock_at_branch_r)]
    edges = []
    ends = []
    for bl in lens:
        bcaps = pool if rng.random() < 0.4 else [rng.choice(pool)] if rng.random() < 0.7 else _pick_caps(rng, pool, 0.5)
        prev = 0
        for k in range(bl):
            idx = len(units)
            units.append(_unit(rng, names[idx], bcaps, rl=lock_at_branch_r and k == 0, wl=lock_at_branch_w and k == bl - 1))
            edges.append((prev, idx))
            prev = idx
        ends.append(prev)
    join = len(units)
    units.append(_unit(rng, names[join], pool, wl=(not lock_at_branch_w) and not tail))
    for e in ends:
        edges.append((e, join))
    if rng.random() < 0.2:
        edges.append((0, join))
    if tail:
        t = len(units)
        units.append(_unit(rng, names[t], _pick_caps(rng, pool, 0.85), wl=not lock_at_branch_w))
        edges.append((join, t))
    _perturb(rng, units, rng.choice([0.0, 0.0, 0.05, 0.12]))
    return units, sorted(set(edges))


def shape_fanout(rng):
    """scale: one unit feeding 5-8 parallel branches that join again; locks on the branches, one LATE branch possibly
    inconsistent (missing / extra lock); optionally a dead branch 3-6 levels deep"""
    pool = CAPS[:rng.randint(1, 2)]
    nb = rng.randint(5, 8)
    names = _names(rng, nb + 10)
    units = [_unit(rng, names[0], pool, rl=True)]
    edges = []
    lock_on_branches = rng.random() < 0.7
    for k in range(nb):
        idx = len(units)
        units.append(_unit(rng, names[idx], pool, wl=lock_on_branches))
        edges.append((0, idx))
    join = len(units)
    units.append(_unit(rng, names[join], pool, wl=not lock_on_branches))
    for k in range(1, nb + 1):
        edges.append((k, join))
    r = rng.random()
    if r < 0.45:                      # a late branch disagrees
        victim = rng.randint(max(1, nb - 3), nb)
        units[victim]["wl"] = not units[victim]["wl"]
    elif r < 0.6:
        victim = rng.randint(1, nb)
        units[victim]["rl"] = True
    if rng.random() < 0.4:            # a deep dead branch hanging off the source
        prev = 0
        depth = rng.randint(3, 6)
        for k in range(depth):
            idx = len(units)
            units.append(_unit(rng, names[idx], pool if k < depth - 1 else ["NOPE"]))
            edges.append((prev, idx))
            prev = idx
    return units, sorted(set(edges))


def shape_deadbranch(rng):
    units, edges, layers = shape_layered(rng, maxu=rng.randint(2, 5), minlayers=2, clean=rng.random() < 0.7)
    edges = list(edges)
    pool = sorted({c for u in units for c in u["caps"]}, key=CAPS.index)
    nbr = rng.randint(1, 2)
    deep = rng.random() < 0.25        # scale: one dead branch 4-7 levels deep (bounded / non-iterated pruning, C10-8)
    for _ in range(nbr):
        room = (14 if deep else 8) - len(units)
        if room < 1:
            break
        new_source = rng.random() < 0.1 and room >= 2
        length = rng.randint(2 if new_source else 1, min(3, room))
        if deep:
            length, deep, new_source = rng.randint(4, min(7, room)), False, False
        quiet = rng.random() < 0.7
        names = _names(rng, 12)
        names = [n for n in names if n.lower() not in {u["name"].lower() for u in units}]
        if new_source:
            c = rng.choice(pool)
            prev = None
        else:
            cands = [i for i, u in enumerate(units) if u["caps"]]
            inner = [i for i in cands if any(a == i for a, _ in edges)]
            prev = rng.choice(inner if inner and rng.random() < 0.85 else cands)
            c = rng.choice(units[prev]["caps"])
        other = [x for x in CAPS if x != c]
        for k in range(length):
            idx = len(units)
            last = k == length - 1
            if last and (length > 1 or rng.random() < 0.85):
                # terminal the branch cannot get through: foreign capability, or none at all
                caps = [] if rng.random() < 0.25 else [rng.choice(other)]
            else:
                caps = [c] + ([rng.choice(other)] if rng.random() < 0.1 else [])
            units.append(_unit(rng, names[k], caps, rl=not quiet and rng.random() < 0.3, wl=not quiet and rng.random() < 0.4))
            if prev is not None:
                edges.append((prev, idx))
            prev = idx
        # sometimes the branch also re-joins the core (then only its tail is dead)
        if length >= 2 and rng.random() < 0.3 and layers and len(layers) > 1:
            tgt = rng.choice(layers[-1])
            src = len(units) - length
            if src != tgt:
                edges.append((src, tgt))
    return units, sorted(set(edges))


def _lock_by_degree(rng, units, edges, p):
    indeg = [0] * len(units)
    outdeg = [0] * len(units)
    for a, b in edges:
        outdeg[a] += 1
        indeg[b] += 1
    for i, u in enumerate(units):
        u["rl"] = indeg[i] == 0
        u["wl"] = outdeg[i] == 0
    _perturb(rng, units, p)


def shape_partial(rng):
    pool = CAPS[:rng.randint(2, 3)]
    n = rng.randint(2, 8)
    names = _names(rng, n)
    units = [_unit(rng, names[i], _pick_caps(rng, pool, rng.choice([0.5, 0.7]))) for i in range(n)]
    rank = list(range(n))
    rng.shuffle(rank)
    dens = rng.choice([0.2, 0.35, 0.5])
    edges = [(a, b) for a in range(n) for b in range(n) if rank[a] < rank[b] and rng.random() < dens]
    _lock_by_degree(rng, units, edges, rng.choice([0.0, 0.05, 0.1]))
    return units, edges


def shape_random(rng):
    pool = CAPS[:rng.randint(1, 3)]
    n = rng.randint(1, 8)
    names = _names(rng, n)
    units = []
    for i in range(n):
        caps = [c for c in pool if rng.random() < 0.7]
        if not caps and rng.random() < 0.85:
            caps = [rng.choice(pool)]
        u = _unit(rng, names[i], caps, rng.random() < 0.3, rng.random() < 0.3)
        units.append(u)
    rank = list(range(n))
    rng.shuffle(rank)
    dens = rng.choice([0.15, 0.3, 0.5])
    edges = [(a, b) for a in range(n) for b in range(n) if rank[a] < rank[b] and rng.random() < dens]
    if rng.random() < 0.7:
        _lock_by_degree(rng, units, edges, 0.07)
    return units, edges


def shape_tiny(rng):
    pool = CAPS[:rng.randint(1, 2)]
    n = rng.choice([0, 1, 1, 1, 2, 2])
    names = _names(rng, n)
    units = []
    for i in range(n):
        caps = [] if rng.random() < 0.2 else _pick_caps(rng, pool)
        units.append(_unit(rng, names[i], caps, rng.random() < 0.85, rng.random() < 0.85))
    edges = [(0, 1)] if n == 2 and rng.random() < 0.6 else []
    return units, edges


# --------------------------------------------------------------------------------------------------
# rendering as a description (mixed-case references, duplicate capabilities, optional keys, shuffles)

def _recase(rng, s, p):
    if rng.random() >= p:
        return s
    return rng.choice([s.lower(), s.upper(), s.swapcase(), s.capitalize()])


def render(rng, units, edges):
    mix = rng.choice([0.0, 0.15, 0.4])
    order = list(range(len(units)))
    if rng.random() < 0.7:
        rng.shuffle(order)
    declared_somewhere = sorted({c for u in units for c in u["caps"]})
    out_units = []
    for i in order:
        u = units[i]
        caps = [_recase(rng, c, mix) for c in u["caps"]]
        if caps and rng.random() < 0.15:
            caps.insert(rng.randint(0, len(caps)), _recase(rng, rng.choice(u["caps"]), 0.6))
        d = {"name": u["name"], "width": u["width"], "capabilities": caps}
        if u["rl"] or rng.random() < 0.3:
            d["readLock"] = bool(u["rl"])
        if u["wl"] or rng.random() < 0.3:
            d["writeLock"] = bool(u["wl"])
        acl = list(u["acl"])
        if declared_somewhere and rng.random() < 0.08:
            acl.append(rng.choice(declared_somewhere))
        if acl or rng.random() < 0.2:
            d["memoryAccess"] = [_recase(rng, c, mix) for c in acl]
        out_units.append(d)
    path = [[_recase(rng, units[a]["name"], mix), _recase(rng, units[b]["name"], mix)] for a, b in edges]
    rng.shuffle(path)
    return {"units": out_units, "dataPath": path}


def inject(rng, desc, kind):
    """exactly one syntactic defect (dupedge is the harmless member of the stream)"""
    units, path = desc["units"], desc["dataPath"]
    names = [u["name"] for u in units]
    if kind in ("dupname", "dupname_case") and units:
        src = rng.choice(units)
        dup = copy.deepcopy(src)
        if kind == "dupname_case":
            alt = [x for x in (src["name"].swapcase(), src["name"].upper(), src["name"].lower()) if x != src["name"]]
            dup["name"] = rng.choice(alt) if alt else src["name"]
        units.insert(rng.randint(units.index(src) + 1 if rng.random() < 0.7 else 0, len(units)), dup)
    elif kind == "width" and units:
        rng.choice(units)["width"] = rng.choice([0, 0, -1, -3])
    elif kind == "badedge":
        pool = names or ["x"]
        bad = rng.choice([[], [rng.choice(pool)], [rng.choice(pool) for _ in range(3)], [rng.choice(pool) for _ in range(4)]])
        if path and rng.random() < 0.5:
            path[rng.randrange(len(path))] = bad
        else:
            path.insert(rng.randint(0, len(path)), bad)
    elif kind == "undef":
        ghost = rng.choice(["nosuch", "zz9", "Q_", (names[0] + "_") if names else "u"])
        if path and rng.random() < 0.6:
            path[rng.randrange(len(path))][rng.randrange(2)] = ghost
        else:
            e = [ghost, rng.choice(names) if names else "x"]
            if rng.random() < 0.5:
                e.reverse()
            path.insert(rng.randint(0, len(path)), e)
    elif kind == "cycle" and path:
        # close a walk: reverse of an existing connection, or of a two-step walk
        std = {n.lower(): n for n in names}
        es = [(std[e[0].lower()], std[e[1].lower()]) for e in path if len(e) == 2 and e[0].lower() in std and e[1].lower() in std]
        a, b = rng.choice(es)
        two = [(x, d) for (x, y) in es for (c, d) in es if y == c]
        if two and rng.random() < 0.5:
            a, b = rng.choice(two)
        path.insert(rng.randint(0, len(path)), [b, a])
    elif kind in ("selfloop", "cycle") and names:
        x = rng.choice(names)
        path.insert(rng.randint(0, len(path)), [x, _recase(rng, x, 0.3)])
    elif kind == "dupedge" and path:
        e = rng.choice(path)
        path.insert(rng.randint(0, len(path)), [_recase(rng, x, 0.5) for x in e])
    else:
        return "none"
    return kind


def gen_desc(rng, family):
    """returns (description, extra tags)"""
    tags = []
    if family == "malformed":
        base = rng.choice(["layered", "layered", "forkjoin", "partial", "tiny"])
        desc, _ = gen_desc(rng, base)
        if len(desc["units"]) >= 8:
            kinds = [k for k in INJECTIONS if not k.startswith("dupname")]
        else:
            kinds = INJECTIONS
        tags.append("inject:" + inject(rng, desc, rng.choice(kinds)))
        return desc, tags
    if family == "layered":
        units, edges, _ = shape_layered(rng)
    elif family == "forkjoin":
        units, edges = shape_forkjoin(rng)
    elif family == "fanout":
        units, edges = shape_fanout(rng)
    elif family == "deadbranch":
        units, edges = shape_deadbranch(rng)
    elif family == "partial":
        units, edges = shape_partial(rng)
    elif family == "tiny":
        units, edges = shape_tiny(rng)
    else:
        units, edges = shape_random(rng)
    if rng.random() < 0.08:
        # a capability whose NAME looks like a wildcard or a list in richer description languages: here it is a plain name
        pool = sorted({c for u in units for c in u["caps"]})
        if pool:
            old, new = rng.choice(pool), rng.choice(["any", "*", "Any", "all", "none", "ALU,MEM", "a|b", "a,b", "default", "0"])
            if new.lower() not in {c.lower() for c in pool}:
                for u in units:
                    u["caps"] = [new if c == old else c for c in u["caps"]]
                    u["acl"] = [new if c == old else c for c in u["acl"]]
                tags.append("odd-capability-name")
    desc = render(rng, units, edges)
    if rng.random() < 0.03 and desc["units"]:
        # a non-integral width, as YAML `width: 0.5` / `1.5` gives (outside the Lean model: judged by `evaluate_fractional`)
        u = rng.choice(desc["units"])
        u["width"] = u["width"] - 0.5
        tags.append("fractional-width")
    return desc, tags


# --------------------------------------------------------------------------------------------------
# implementation side

def unit_json(m):
    return {"name": m.name, "width": m.width if isinstance(m.width, float) and m.width != int(m.width) else int(m.width),
            "caps": list(m.capabilities), "rd": bool(m.lock_info.rd_lock),
            "wr": bool(m.lock_info.wr_lock), "acl": list(m._mem_acl)}


def fu_json(f):
    d = unit_json(f.model)
    d["preds"] = [p.name for p in f.predecessors]
    return d


def proc_json(p):
    return {"inPorts": [unit_json(m) for m in p.in_ports], "outPorts": [fu_json(f) for f in p.out_ports],
            "inOut": [unit_json(m) for m in p.in_out_ports], "internal": [fu_json(f) for f in p.internal_units]}


_FIELDS = {
    "DupElemError": [("old", "old_element", str), ("new", "new_element", str)],
    "BadWidthError": [("unit", "unit", str), ("width", "width", int)],
    "BadEdgeError": [("edge", "edge", list)],
    "UndefElemError": [("elem", "element", str)],
    "NetworkXUnfeasible": [],
    "DeadInputError": [("port", "port", str)],
    "EmptyProcError": [],
    "PathLockError": [("start", "start", str), ("lockType", "lock_type", str), ("capability", "capability", str)],
    "BlockedCapError": [("capability", "capability", str), ("port", "port", str)],
}


def err_json(e):
    """exception -> {class, fields, message}; a known class whose attributes are missing / ill-typed is `Malformed:<class>`"""
    cls = type(e).__name__
    msg = str(e)
    fields = {}
    if cls in _FIELDS:
        try:
            for key, attr, typ in _FIELDS[cls]:
                v = getattr(e, attr)
                if typ is list:
                    v = list(v)
                    if not all(isinstance(x, str) for x in v):
                        raise TypeError
                elif typ is int:
                    if isinstance(v, bool) or not isinstance(v, int):
                        raise TypeError
                elif not isinstance(v, typ):
                    raise TypeError
                fields[key] = v
        except (AttributeError, TypeError):
            cls, fields = "Malformed:" + cls, {}
    return {"class": cls, "fields": fields, "message": msg[:2000]}


def run_load(desc):
    """run the real loader on a private copy; returns the protocol-form `impl` object"""
    core.install_repo()
    import processor_utils

    arg = copy.deepcopy(desc)
    # units written with equal capability / memory-access lists SHARE one list object — what a YAML anchor (`&caps` /
    # `*caps`) or a caller re-using a list gives; a description means the same whether or not its lists are shared
    # (seeded change C10-10: in-place trimming of a shared list)
    shared = {}
    for u in arg.get("units", []) if isinstance(arg, dict) else []:
        for key in ("capabilities", "memoryAccess"):
            if isinstance(u, dict) and isinstance(u.get(key), list):
                u[key] = shared.setdefault((key, json.dumps(u[key])), u[key])
    # an in-memory description need not be made of lists only: connections as tuples, the unit sequence as a tuple
    if isinstance(arg, dict) and isinstance(arg.get("dataPath"), list) and len(json.dumps(arg)) % 3 == 1:
        # (only connections of two elements: a malformed one is quoted in the error message as it was written, and the
        # message model renders lists)
        arg["dataPath"] = [tuple(e) if isinstance(e, list) and len(e) == 2 else e for e in arg["dataPath"]]
    if isinstance(arg, dict) and isinstance(arg.get("units"), list) and len(json.dumps(desc)) % 5 == 2:
        arg["units"] = tuple(arg["units"])
    # ... and the connections may come as a one-shot iterable (zip of two columns, a generator): read them once
    if isinstance(arg, dict) and isinstance(arg.get("dataPath"), list) and len(json.dumps(desc)) % 7 in (3, 4):
        arg["dataPath"] = iter(arg["dataPath"]) if len(json.dumps(desc)) % 7 == 3 else (e for e in list(arg["dataPath"]))
    if isinstance(arg, dict) and isinstance(arg.get("units"), (list, tuple)) and arg["units"] and len(json.dumps(desc)) % 4 == 1 \
            and isinstance(arg.get("dataPath"), list):        # (not with a one-shot iterable of connections: it can be read once)
        # a history on ONE description object: it is loaded with other content first (a width changed, a capability
        # dropped), edited back in place, and loaded again — the second load is the one judged (seeded change C10-16: a
        # result cache remembering description objects by identity)
        u0 = arg["units"][0]
        if isinstance(u0, dict) and isinstance(u0.get("width"), int) and isinstance(u0.get("capabilities"), list):
            w, caps = u0["width"], u0["capabilities"]
            u0["width"] = w + 1
            u0["capabilities"] = list(caps[:-1]) if len(caps) > 1 else list(caps)
            try:
                with core.watchdog(TIMEOUT):
                    processor_utils.load_proc_desc(arg)
            except Exception:  # noqa: BLE001 - the outcome of the earlier load is not what is judged here
                pass
            u0["width"], u0["capabilities"] = w, caps
    try:
        with core.watchdog(TIMEOUT):
            p = processor_utils.load_proc_desc(arg)
            return {"ok": True, "proc": proc_json(p)}
    except core.CaseTimeout:
        return {"ok": False, "error": {"class": "Timeout", "fields": {}, "message": "non-termination"}}
    except Exception as e:  # noqa: BLE001 - every escaping exception is an observation
        return {"ok": False, "error": err_json(e)}


def run_mkproc(parts):
    """ProcessorDesc(in, out, in_out, internal) from parts in the supplied orders"""
    core.install_repo()
    from processor_utils import ProcessorDesc
    from processor_utils.units import FuncUnit, LockInfo, UnitModel

    models = {}

    def um(d):
        if d["name"] not in models:
            models[d["name"]] = UnitModel(d["name"], d["width"], list(d["caps"]), LockInfo(d["rd"], d["wr"]), list(d["acl"]))
        return models[d["name"]]

    for d in parts["inPorts"] + parts["inOut"] + parts["outPorts"] + parts["internal"]:
        um(d)

    stale = parts.get("stale", 0)

    def pred_ref(n, k):
        # a predecessor is identified by its NAME: a reference may be another object describing the same unit — a copy, or
        # a stale version of it (width changed by attr.evolve and the parts re-assembled); seeded change C12-14
        m = models[n]
        if stale and (stale + k) % 3 == 0:
            return UnitModel(m.name, m.width + 1, list(m.capabilities), m.lock_info, list(m._mem_acl))
        if stale and (stale + k) % 3 == 1:
            return UnitModel(m.name, m.width, list(m.capabilities), m.lock_info, list(m._mem_acl))
        return m

    def fu(d):
        return FuncUnit(um(d), [pred_ref(n, k) for k, n in enumerate(d["preds"])])

    # the four arguments are typed `Iterable[...]`: lists, tuples, generators, iterators and `map` objects are all legal
    # (upstream's own post-order test passes a generator); a one-shot iterable must be read once (seeded change C12-9)
    shape = parts.get("shape", 0)

    def wrap(lst, k):
        kind = (shape // (5 ** k)) % 5
        if kind == 1:
            return tuple(lst)
        if kind == 2:
            return (x for x in lst)
        if kind == 3:
            return iter(lst)
        if kind == 4:
            return map(lambda x: x, lst)
        return lst

    try:
        with core.watchdog(TIMEOUT):
            p = ProcessorDesc(wrap([um(d) for d in parts["inPorts"]], 0), wrap([fu(d) for d in parts["outPorts"]], 1),
                              wrap([um(d) for d in parts["inOut"]], 2), wrap([fu(d) for d in parts["internal"]], 3))
            return {"ok": True, "proc": proc_json(p)}
    except core.CaseTimeout:
        return {"ok": False, "error": {"class": "Timeout", "fields": {}, "message": "non-termination"}}
    except Exception as e:  # noqa: BLE001
        return {"ok": False, "error": err_json(e)}


# --------------------------------------------------------------------------------------------------
# parts for direct construction

def gen_parts(rng, kmin=0, kmax=5, nio=(0, 2), maxtotal=8):
    """an internal DAG of k units fed by input ports and drained by output ports; returns canonical parts (sorted orders)"""
    k = rng.randint(kmin, kmax)
    while True:
        nin = rng.randint(1, 2)
        nout = rng.randint(1, 3)
        nio_ = rng.randint(*nio)
        if k + nin + nout + nio_ <= max(maxtotal, k + 2):
            break
    names = _names(rng, k + nin + nout + nio_)
    rng.shuffle(names)
    pool = CAPS[:rng.randint(1, 3)]

    def mk(name):
        caps = sorted(_pick_caps(rng, pool))
        return {"name": name, "width": rng.randint(1, 3), "caps": caps, "rd": rng.random() < 0.3, "wr": rng.random() < 0.3,
                "acl": sorted(c for c in caps if rng.random() < 0.2)}

    ins = [mk(n) for n in names[:nin]]
    internal = [mk(n) for n in names[nin:nin + k]]
    outs = [mk(n) for n in names[nin + k:nin + k + nout]]
    inouts = [mk(n) for n in names[nin + k + nout:]]
    rank = list(range(k))
    rng.shuffle(rank)
    dens = rng.choice([0.25, 0.45, 0.7])
    for j, u in enumerate(internal):
        preds = [internal[i]["name"] for i in range(k) if rank[i] < rank[j] and rng.random() < dens]
        if not preds or rng.random() < 0.3:
            preds.append(rng.choice(ins)["name"])
        u["preds"] = preds
    for o in outs:
        srcs = internal or ins
        o["preds"] = sorted({rng.choice(srcs)["name"] for _ in range(rng.randint(1, 2))})
        if rng.random() < 0.15:
            o["preds"].append(rng.choice(ins)["name"])
            o["preds"] = sorted(set(o["preds"]))
    return {"inPorts": ins, "outPorts": outs, "inOut": inouts, "internal": internal}


def permuted(rng, parts, internal_order=None):
    p = copy.deepcopy(parts)
    for key in ("inPorts", "outPorts", "inOut"):
        rng.shuffle(p[key])
    if internal_order is None:
        rng.shuffle(p["internal"])
    else:
        p["internal"] = [p["internal"][i] for i in internal_order]
    for f in p["outPorts"] + p["internal"]:
        rng.shuffle(f["preds"])
    if rng.random() < 0.5:
        p["shape"] = rng.randrange(625)     # list / tuple / generator / iterator / map for each of the four arguments
    if rng.random() < 0.3:
        p["stale"] = rng.randint(1, 9)      # predecessor references that are copies / stale versions of the unit's model
    return p


# --------------------------------------------------------------------------------------------------
# evaluation

def _trivial(app=False):
    return {"app": app, "nontrivial": False, "k": True, "o": None}


def fractional(desc) -> bool:
    return any(isinstance(u.get("width"), float) for u in desc.get("units", []))


def evaluate_fractional(desc: dict) -> dict:
    """a description with a non-integral width (YAML `width: 0.5`): outside the Lean model (widths are integers there).
    Only the two clauses that still make sense are judged, here in Python: an accepted processor has positive widths
    (C09) and every kept unit retains its declared width (C10) — seeded change C09-11 truncated 0.5 to 0 after the
    positive-width check."""
    impl = run_load(desc)
    props = {pid: _trivial() for pid in PROPS}
    tags = ["fractional-width", "impl:" + ("ok" if impl["ok"] else impl["error"]["class"])]
    if impl["ok"]:
        declared = {u["name"].lower(): u["width"] for u in desc["units"]}
        pj = impl["proc"]
        o9 = o10 = None
        for u in pj["inPorts"] + pj["inOut"] + pj["outPorts"] + pj["internal"]:
            if not u["width"] > 0:
                o9 = "an accepted processor has positive widths"
            if declared.get(u["name"].lower()) != u["width"]:
                o10 = "every kept unit retains its declared width"
        props["C09"] = {"app": True, "nontrivial": False, "k": True, "o": o9}
        props["C10"] = {"app": True, "nontrivial": False, "k": True, "o": o10}
    return {"props": props, "tags": tags, "impl": impl, "model": None}


def evaluate_load(desc: dict) -> dict:
    if fractional(desc):
        return evaluate_fractional(desc)
    impl = run_load(desc)
    ans = core.driver().ask({"op": "load", "desc": desc, "impl": impl})
    ok = impl["ok"]
    tags = []
    nt = {p: False for p in PROPS}
    if ok:
        pj = impl["proc"]
        allu = pj["inPorts"] + pj["inOut"] + pj["outPorts"] + pj["internal"]
        fus = pj["outPorts"] + pj["internal"]
        nconn = sum(len(f["preds"]) for f in fus)
        decl_caps = {u["name"]: len({c.lower() for c in u["capabilities"]}) for u in desc["units"]}
        decl_edges = {tuple(x.lower() for x in e) for e in desc["dataPath"] if len(e) == 2}
        pr_unit = len(allu) < len(desc["units"])
        pr_cap = any(len(u["caps"]) < decl_caps.get(u["name"], 0) for u in allu)
        pr_edge = nconn < len(decl_edges)
        nt["C09"] = len(allu) >= 2 and nconn >= 1
        nt["C10"] = pr_unit or pr_cap or pr_edge
        internal_names = {f["name"] for f in pj["internal"]}
        nt["C12"] = len(pj["outPorts"]) >= 2 or any(q in internal_names for f in pj["internal"] for q in f["preds"])
        tags.append("impl:ok")
        tags += [t for t, b in (("pruned:unit", pr_unit), ("pruned:cap", pr_cap), ("pruned:edge", pr_edge)) if b]
        tags.append("loaded-units:%d" % len(allu))
    else:
        err = impl["error"]
        kind = ""
        if err["class"] == "PathLockError":
            m = err["message"]
            kind = "/multiple" if "multiple" in m else "/different" if "different" in m else "/none" if "no " in m else "/?"
        tags.append("impl:" + err["class"] + kind)
    model = ans["model"]
    tags.append("model:" + ("ok" if model["ok"] else model["error"]["class"]))
    if not ok and not model["ok"]:
        # informational only (never part of a verdict): how often the under-determined choices coincide
        if model["error"]["class"] != impl["error"]["class"]:
            tags.append("class-differs-from-model")
        elif model["error"]["fields"] != impl["error"]["fields"]:
            tags.append("culprit-differs-from-model:" + model["error"]["class"])
    tags.append("defects:" + ("+".join(ans["defects"]) or "-"))
    nt["C11"] = (not ok) or (not model["ok"]) or bool(ans["defects"])
    tags.append("units:%d" % len(desc["units"]))
    names = {u["name"] for u in desc["units"]}
    if any(x not in names for e in desc["dataPath"] for x in e if x.lower() in {n.lower() for n in names}):
        tags.append("mixedcase-ref")
    if any(len({c.lower() for c in u["capabilities"]}) < len(u["capabilities"]) for u in desc["units"]):
        tags.append("dupcap")
    if any(u.get("memoryAccess") for u in desc["units"]):
        tags.append("acl")
    props = {}
    for pid in PROPS:
        app = bool(ans["app"][pid])
        props[pid] = {"app": app, "nontrivial": bool(app and nt[pid]), "k": bool(ans["k"][pid]), "o": ans["o"][pid]}
    return {"props": props, "tags": tags, "impl": impl, "model": model}


def evaluate_mkproc(parts: dict) -> dict:
    impl = run_mkproc(parts)
    ans = core.driver().ask({"op": "mkproc", "parts": parts, "impl": impl})
    internal_names = {f["name"] for f in parts["internal"]}
    nt = len(parts["outPorts"]) >= 2 or any(q in internal_names for f in parts["internal"] for q in f["preds"])
    props = {pid: _trivial() for pid in PROPS}
    app = bool(ans["app"]["C12"])
    props["C12"] = {"app": app, "nontrivial": bool(app and nt), "k": bool(ans["k"]["C12"]), "o": ans["o"]["C12"]}
    tags = ["mkproc:" + ("ok" if impl["ok"] else impl["error"]["class"]), "internal:%d" % len(parts["internal"]),
            "outports:%d" % len(parts["outPorts"])]
    return {"props": props, "tags": tags, "impl": impl, "model": ans["model"]}


def evaluate(inp: dict) -> dict:
    if inp["kind"] == "mkproc":
        return evaluate_mkproc(inp["parts"])
    return evaluate_load(inp["desc"])


def _bad(props) -> bool:
    return any((not r["k"]) or (r["app"] and r["o"] is not None) for r in props.values())


# --------------------------------------------------------------------------------------------------
# component interface

def _corpus() -> list:
    try:
        return sorted("corpus:" + f for f in os.listdir(CORPUS) if f.startswith("loader-") and f.endswith(".json"))
    except OSError:
        return []


def cases(tier: str) -> list:
    n, nall = (30000, 300) if tier == "quick" else (200000, 2000)
    return _corpus() + ["all:%d" % i for i in range(nall)] + list(range(n))


def gen_input(case, tier="quick"):
    """(family, protocol-form input) of an integer case"""
    rng = core.case_rng(NAME, case)
    family = FAMILIES[case % len(FAMILIES)]
    if family == "mkproc":
        parts = gen_parts(rng, kmin=0, kmax=6, nio=(0, 1))
        return family, {"kind": "mkproc", "parts": permuted(rng, parts)}, []
    desc, tags = gen_desc(rng, family)
    return family, {"kind": "load", "desc": desc}, tags


def _digest(inp) -> str:
    return hashlib.sha1(json.dumps(inp, sort_keys=True).encode()).hexdigest()


def _run_all_perms(case, tier):
    """one internal DAG, ALL orders of its internal units (other orders and predecessor orders shuffled per order)"""
    rng = core.case_rng(NAME, case)
    kmax = 5 if tier == "quick" else 6
    parts = gen_parts(rng, kmin=2, kmax=kmax, nio=(0, 1), maxtotal=8)
    k = len(parts["internal"])
    agg = {pid: _trivial() for pid in PROPS}
    agg["C12"] = _trivial(app=True)
    first_bad = None
    tags = ["mkprocall", "internal:%d" % k]
    nperm = 0
    for order in itertools.permutations(range(k)):
        inp = {"kind": "mkproc", "parts": permuted(rng, parts, order)}
        res = evaluate_mkproc(inp["parts"])
        nperm += 1
        r = res["props"]["C12"]
        agg["C12"]["nontrivial"] = agg["C12"]["nontrivial"] or r["nontrivial"]
        agg["C12"]["app"] = agg["C12"]["app"] and r["app"]
        if (not r["k"] or r["o"] is not None) and first_bad is None:
            first_bad = (inp, res)
            agg["C12"]["k"] = r["k"]
            agg["C12"]["o"] = r["o"]
    tags.append("perms:%d" % nperm)
    out = {"case": case, "family": "mkprocall", "digest": _digest(parts), "tags": tags, "props": agg}
    if first_bad is not None:
        out["input"], out["impl"], out["model"] = first_bad[0], first_bad[1]["impl"], first_bad[1]["model"]
    return out


def run_case(case, tier="quick") -> dict:
    if isinstance(case, str) and case.startswith("all:"):
        return _run_all_perms(case, tier)
    if isinstance(case, str) and case.startswith("corpus:"):
        with open(os.path.join(CORPUS, case[len("corpus:"):])) as fh:
            inp = json.load(fh)
        inp = inp.get("input", inp)
        family, gtags = "corpus", []
    else:
        family, inp, gtags = gen_input(case, tier)
    res = evaluate(inp)
    out = {"case": case, "family": family, "digest": _digest(inp), "tags": gtags + res["tags"], "props": res["props"]}
    if _bad(res["props"]) or (isinstance(case, int) and case < 8):
        out["input"] = inp
        out["impl"] = res["impl"]
        out["model"] = res["model"]
    return out


def replay(prop: str, inp: dict) -> dict:
    """re-run implementation + driver on a stored protocol-form input; returns the record of `prop`"""
    return evaluate(inp)["props"][prop]


def shrink(prop: str, inp: dict, still_fails) -> dict:
    """greedy minimisation: drop connections, drop units (with their connections), drop ACLs / duplicate capabilities"""
    if inp.get("kind") != "load":
        return inp
    cur = copy.deepcopy(inp)
    changed = True
    while changed:
        changed = False
        d = cur["desc"]
        cands = []
        for i in range(len(d["dataPath"])):
            c = copy.deepcopy(cur)
            del c["desc"]["dataPath"][i]
            cands.append(c)
        for i, u in enumerate(d["units"]):
            c = copy.deepcopy(cur)
            nm = u["name"].lower()
            del c["desc"]["units"][i]
            c["desc"]["dataPath"] = [e for e in c["desc"]["dataPath"] if nm not in [x.lower() for x in e]]
            cands.append(c)
            if u.get("memoryAccess"):
                c = copy.deepcopy(cur)
                c["desc"]["units"][i].pop("memoryAccess")
                cands.append(c)
            if u["width"] > 1:
                c = copy.deepcopy(cur)
                c["desc"]["units"][i]["width"] = 1
                cands.append(c)
            for j in range(len(u["capabilities"])):
                if len(u["capabilities"]) > 1:
                    c = copy.deepcopy(cur)
                    del c["desc"]["units"][i]["capabilities"][j]
                    cands.append(c)
        for c in cands:
            try:
                if still_fails(c):
                    cur, changed = c, True
                    break
            except Exception:  # noqa: BLE001 - a candidate that breaks the protocol is not a smaller witness
                continue
    return cur


def summarize(results: list) -> dict:
    """distribution helper for evidence / manual runs"""
    fam, tags = {}, {}
    stats = {p: {"app": 0, "nontrivial": 0, "k_fail": 0, "o_fail": 0} for p in PROPS}
    for r in results:
        fam[r["family"]] = fam.get(r["family"], 0) + 1
        for t in r["tags"]:
            tags[t] = tags.get(t, 0) + 1
        for p, rec in r["props"].items():
            s = stats[p]
            s["app"] += bool(rec["app"])
            s["nontrivial"] += bool(rec["nontrivial"])
            s["k_fail"] += not rec["k"]
            s["o_fail"] += bool(rec["app"] and rec["o"] is not None)
    return {"cases": len(results), "distinct": len({r["digest"] for r in results}), "families": fam, "tags": tags, "props": stats}


def run_all(tier: str = "quick") -> list:
    return core.pmap("harness.comp_loader", "run_case", cases(tier), {"tier": tier}, chunk=100)
