"""Component "queue": reg_access.RegAccQBuilder / RegAccessQueue  vs  ProcSim.Model.Queue + Spec.Queue (property C19).

For one request sequence the harness builds the real queue and explores its *whole* state graph: in every reachable
state it asks `can_access` for every (type, owner) and tries `dequeue` for every owner (on deep copies), following
every successful removal.  The Lean driver re-computes every observation with the model (K) and checks the
request-level specification on the implementation's observations (O).
"""
from __future__ import annotations

import copy
import hashlib
import itertools
import json

from . import core

NAME = "queue"
PROPS = ["C19"]
CHUNK = 100
RULES = {"C19": "exhaustive: every program-order request sequence over up to 4 owners (thorough: 6) and every arbitrary sequence "
                "up to length 4 (thorough: 5) over 4 owners x {read, write} without a repeated read inside one run, plus random longer "
                "ones; for each, every reachable queue state and every can_access/dequeue call in it; non-trivial = at least 2 "
                "requests; distinct = the sequence itself"}


def program_order_seqs(max_owners):
    out = []
    for k in range(0, max_owners + 1):
        for combo in itertools.product(("R", "W", "RW"), repeat=k):
            seq = []
            for o, c in enumerate(combo):
                if "R" in c:
                    seq.append([False, o])
                if "W" in c:
                    seq.append([True, o])
            out.append(seq)
    return out


def runs_distinct(seq):
    run = set()
    for w, o in seq:
        if w:
            run = set()
        else:
            if o in run:
                return False
            run.add(o)
    return True


def arbitrary_seqs(max_len, owners=4):
    alphabet = [[w, o] for w in (False, True) for o in range(owners)]
    out = []
    for n in range(1, max_len + 1):
        for seq in itertools.product(alphabet, repeat=n):
            if runs_distinct(seq):
                out.append([list(x) for x in seq])
    return out


def cases(tier: str) -> list:
    thorough = tier == "thorough"
    cs = [{"kind": "po", "seq": s} for s in program_order_seqs(6 if thorough else 4)]
    cs += [{"kind": "any", "seq": s} for s in arbitrary_seqs(5 if thorough else 4)]
    rng = core.case_rng(NAME, "random")
    for _ in range(3000 if thorough else 300):
        n = rng.randint(5, 9)
        owners = rng.randint(2, 5)
        while True:
            seq = [[rng.random() < 0.4, rng.randrange(owners)] for _ in range(n)]
            if runs_distinct(seq):
                break
        cs.append({"kind": "rand", "seq": seq})
    # sparse and large owner numbers (instruction indexes far beyond the small ones: 7/8, 31/32, 63/64, hundreds) — a set
    # of small ints iterates in ascending order in CPython, larger ones do not (seeded change C19-9)
    for _ in range(2000 if thorough else 300):
        n = rng.randint(3, 8)
        base = rng.choice([5, 6, 7, 8, 14, 15, 16, 29, 30, 31, 32, 62, 63, 64, 100, 127, 255, 1000])
        pool = sorted(rng.sample(range(base, base + 12), rng.randint(2, 5)))
        while True:
            seq = [[rng.random() < 0.4, rng.choice(pool)] for _ in range(n)]
            if runs_distinct(seq):
                break
        cs.append({"kind": "rand-big", "seq": seq})
        if rng.random() < 0.5:       # program order over the same sparse owners
            po, prev = [], None
            for o in pool:
                if rng.random() < 0.8:
                    po.append([False, o])
                if rng.random() < 0.6:
                    po.append([True, o])
            if po:
                cs.append({"kind": "po-big", "seq": po})
    # the same queues built directly from access groups, owners in various containers
    for k, c in enumerate([c for c in cs if c["kind"] in ("po", "rand")][:: (3 if thorough else 7)]):
        if runs_distinct(c["seq"]):
            cs.append({"kind": "direct", "seq": c["seq"], "direct": k % 5})
    # the access plan the simulator builds for whole programs (`_build_acc_plan`: one queue per register)
    for k in range(4000 if thorough else 400):
        cs.append({"kind": "plan", "id": k})
    return cs


def gen_plan_prog(case):
    rng = core.case_rng(NAME, "plan:%d" % case["id"])
    regs = ["R%d" % i for i in range(rng.randint(1, 4))]
    prog = []
    for _ in range(rng.randint(0, 10)):
        srcs = sorted({rng.choice(regs) for _ in range(rng.randint(0, 3))})
        prog.append({"srcs": srcs, "dst": rng.choice(regs), "cap": "ALU"})
    return prog


def evaluate_plan(inp: dict) -> dict:
    core.install_repo()
    from program_defs import HwInstruction
    from reg_access import AccessType
    import sim_services

    prog = inp["prog"]
    build = getattr(sim_services, "_build_acc_plan", None)
    if build is None:  # private helper gone after a refactoring: nothing to compare at this level
        return {"app": False, "nontrivial": False, "k": True, "o": None, "states": 0}
    plan = build(enumerate([HwInstruction(i["srcs"], i["dst"], i["cap"]) for i in prog]))
    impl = [[r, [[g.access_type == AccessType.WRITE, sorted(g.reqs)] for g in reversed(q._queue)]] for r, q in plan.items()]
    ans = core.driver().ask({"op": "plan", "prog": prog, "impl": impl})
    return {"app": True, "nontrivial": len(prog) >= 2, "k": bool(ans["k"]["C19"]), "o": ans["o"]["C19"], "states": len(impl)}


def direct_queue(seq, kind):
    """the queue for `seq` built DIRECTLY from access groups (as the project's own tests do), the owners of each group
    handed over as a list, tuple, set, frozenset or dict-keys view; returns (queue, the containers used)"""
    from reg_access import AccessGroup, AccessType, RegAccessQueue

    groups = []
    for w, o in seq:
        if not w and groups and not groups[-1][0]:
            groups[-1][1].append(o)
        else:
            groups.append([w, [o]])
    conts = []
    for n, (w, os_) in enumerate(groups):
        k = (kind + n) % 5
        conts.append(list(os_) if k == 0 else tuple(os_) if k == 1 else set(os_) if k == 2 else frozenset(os_) if k == 3
                     else dict.fromkeys(os_).keys())
    return RegAccessQueue([AccessGroup(AccessType.WRITE if w else AccessType.READ, c) for (w, _), c in zip(groups, conts)]), conts


def explore(seq, direct=None):
    """state graph of the real queue for this registration sequence"""
    from reg_access import AccessType, RegAccQBuilder

    if direct is None:
        b = RegAccQBuilder()
        for w, o in seq:
            b.append(AccessType.WRITE if w else AccessType.READ, o)
        q0 = b.create()
    else:
        q0, conts = direct_queue(seq, direct)
        twin, _ = direct_queue(seq, direct)
        # a second queue built from the SAME containers: the two queues are independent objects (seeded change C19-11)
        from reg_access import AccessGroup, RegAccessQueue
        shared = RegAccessQueue([AccessGroup(g.access_type, c) for g, c in zip(reversed(q0._queue), conts)])
    owners = sorted({o for _, o in seq})

    def snap(q):
        # the list tail is the queue front
        return [[g.access_type == AccessType.WRITE, sorted(g.reqs)] for g in reversed(q._queue)]

    def key(q):
        return json.dumps(snap(q))

    states, index, work = [], {}, [q0]
    index[key(q0)] = 0
    states.append(None)
    objs = [q0]
    while work:
        q = work.pop()
        i = index[key(q)]
        can = []
        for w in (False, True):
            for o in owners:
                try:
                    with core.watchdog(5):
                        r = bool(q.can_access(AccessType.WRITE if w else AccessType.READ, o))
                except core.CaseTimeout:
                    raise
                except Exception:  # noqa: BLE001
                    r = None
                can.append([w, o, r])
        deq = []
        for o in owners:
            try:
                q2 = copy.deepcopy(q)
            except Exception:  # noqa: BLE001 - a queue that cannot even be copied (it kept a view it was handed)
                deq.append([o, -2])
                continue
            try:
                q2.dequeue(o)
            except Exception:  # noqa: BLE001
                # a rejected removal removes nothing: -2 when the queue changed although `dequeue` raised
                deq.append([o, -1 if key(q2) == key(q) else -2])
                continue
            k = key(q2)
            if k not in index:
                index[k] = len(states)
                states.append(None)
                objs.append(q2)
                work.append(q2)
            deq.append([o, index[k]])
        states[i] = {"q": snap(q), "can": can, "deq": deq}
        if len(states) > 20000:
            raise RuntimeError("state graph explosion")
    if direct is not None and snap(shared) != snap(twin):
        # exploring q0 (deep copies of it, and q0 itself is never dequeued) must not have touched its sibling
        states[0]["deq"].append([owners[0], -2])
    if direct is not None:
        # ... and removals on the sibling must not reach q0
        before = snap(q0)
        for o in owners:
            try:
                shared.dequeue(o)
            except Exception:  # noqa: BLE001
                pass
        if snap(q0) != before:
            states[0]["deq"].append([owners[0], -2])
    return states


def evaluate(inp: dict) -> dict:
    core.install_repo()
    if inp.get("kind") == "plan":
        if "prog" not in inp:
            inp = dict(inp, prog=gen_plan_prog(inp))
        return evaluate_plan(inp)
    try:
        states = explore(inp["seq"], inp.get("direct"))
    except core.CaseTimeout:
        return {"app": True, "nontrivial": True, "k": False, "o": "can_access/dequeue did not terminate", "states": 0}
    ans = core.driver().ask({"op": "queue", "reqs": inp["seq"], "states": states})
    return {"app": True, "nontrivial": len(inp["seq"]) >= 2, "k": bool(ans["k"]["C19"]), "o": ans["o"]["C19"],
            "states": len(states), "detail": ans.get("detail")}


def run_case(case, tier="quick") -> dict:
    if case.get("kind") == "plan":
        case = dict(case, prog=gen_plan_prog(case), seq=[])
        rec = evaluate(case)
        out = {"case": case, "family": "plan", "digest": hashlib.sha1(json.dumps(case["prog"]).encode()).hexdigest(),
               "tags": ["plan", "n:%d" % len(case["prog"])], "props": {"C19": {k: rec[k] for k in ("app", "nontrivial", "k", "o")}}}
        if (not rec["k"]) or rec["o"] is not None:
            out["input"] = case
        return out
    rec = evaluate(case)
    digest = hashlib.sha1(json.dumps(case["seq"]).encode()).hexdigest()
    out = {"case": case, "family": case["kind"], "digest": digest,
           "tags": ["len:%d" % len(case["seq"]), "states:%s" % ("1-3" if rec["states"] <= 3 else "4-15" if rec["states"] <= 15 else "16+")],
           "props": {"C19": {k: rec[k] for k in ("app", "nontrivial", "k", "o")}}}
    if (not rec["k"]) or rec["o"] is not None or len(case["seq"]) == 5 and case["kind"] == "po":
        out["input"] = case
        out["model"] = rec.get("detail")
    return out


def replay(prop: str, inp: dict) -> dict:
    rec = evaluate(inp)
    return {k: rec[k] for k in ("app", "nontrivial", "k", "o")}


def shrink(prop: str, inp: dict, still_fails) -> dict:
    cur = inp
    changed = True
    if cur.get("kind") == "plan":
        return cur
    while changed:
        changed = False
        for i in range(len(cur["seq"]) - 1, -1, -1):
            cand = dict(cur, seq=cur["seq"][:i] + cur["seq"][i + 1:])
            if runs_distinct(cand["seq"]):
                try:
                    if still_fails(cand):
                        cur, changed = cand, True
                except Exception:  # noqa: BLE001
                    pass
    return cur
