"""Component "sim": sim_services.simulate  vs  ProcSim.Model.Sim  (properties C01-C08).

Every case: generate a processor (from parts, or as a description pushed through the real loader) and a program,
run the real simulator, send processor (orders as the implementation stored them), program and the diagram the
implementation produced to the Lean driver, which runs the model, compares the projections pi_01..pi_08 and
evaluates the Boolean specs of Spec/Sim.lean on the implementation's diagram.
"""
from __future__ import annotations

import hashlib
import json

from . import core

NAME = "sim"
PROPS = ["C01", "C02", "C03", "C04", "C05", "C06", "C07", "C08"]
RULES = {
    "C01": "well-formed processor; non-trivial = the program has at least one conflicting pair of register accesses and both instructions were issued; distinct = sha1 of (processor, program)",
    "C02": "well-formed processor; non-trivial = the diagram contains at least one data stall 'D'; distinct = sha1 of (processor, program)",
    "C03": "well-formed processor; non-trivial = at least 2 instructions issued on a processor of at least 2 units; distinct = sha1 of (processor, program)",
    "C04": "well-formed processor; non-trivial = some unit is filled to its width in some cycle (a structural stall 'S' occurs); distinct = sha1",
    "C05": "well-formed processor; non-trivial = at least one memory-stage entry happens and some unit has a memory-access list; distinct = sha1",
    "C06": "well-formed processor; non-trivial = at least 2 instructions and (2+ input ports or an instruction held back at least one cycle); distinct = sha1",
    "C07": "well-formed processor; non-trivial = at least one structural stall 'S' or a unit with 2+ predecessors receiving instructions; distinct = sha1",
    "C08": "well-formed processor (capabilities may dead-end); non-trivial = a stall error, or a run of at least 3 cycles; distinct = sha1",
}
CAPS = ["ALU", "MEM", "BR"]
FAMILIES = ["parts", "bypass", "widechain", "loader", "small", "deadend", "wide", "illformed", "parts", "widechain", "bypass", "large", "deepchain"]
TIMEOUT = 20.0


# --------------------------------------------------------------------------------------------------
# generators

def gen_units(rng, family):
    """layered DAG; returns (units: dict id->dict, edges:set, caps:list)"""
    if family == "widechain":
        # a linear chain of wide units: instructions overtake data-stalled older ones, so units hold instructions out of
        # program order and several leave for the same successor in one cycle
        n = rng.randint(2, 4)
        ra = rng.randint(0, n - 2)
        wb = rng.randint(ra, n - 1)
        units = {}
        for u in range(n):
            units[u] = dict(name="%s%d" % ("cmxq"[u], rng.randint(0, 9)), width=rng.randint(2, 4), caps=["ALU"],
                            rl=(u == ra), wl=(u == wb), acl=(["ALU"] if rng.random() < 0.1 else []))
        return units, {(u, u + 1) for u in range(n - 1)}, ["ALU"]
    if family == "deepchain":
        # scale: a pipeline of 7-13 narrow stages (read lock early, write lock at the end); with a serialised program
        # (every instruction reads its predecessor's destination) the run is about depth x instructions cycles long
        n = rng.randint(7, 13)
        units = {}
        for u in range(n):
            units[u] = dict(name="s%02d%s" % (u, rng.choice(["", "x"])), width=rng.randint(1, 2), caps=["ALU"],
                            rl=(u == (0 if rng.random() < 0.5 else 1)), wl=(u == n - 1), acl=[])
        if sum(1 for d in units.values() if d["rl"]) != 1:
            for u in range(n):
                units[u]["rl"] = (u == 0)
        return units, {(u, u + 1) for u in range(n - 1)}, ["ALU"]
    if family == "bypass":
        # a chain of 4-7 units with forward skip connections spanning two or more stages (unequal-length routes between
        # the same units): the sink-first processing order matters exactly here
        n = rng.randint(4, 7)
        units = {}
        for u in range(n):
            units[u] = dict(name="%s%d" % (rng.choice("abcdxyz"), u if rng.random() < 0.5 else n - u), width=rng.randint(1, 3),
                            caps=["ALU"], rl=(u == 0), wl=(u == n - 1), acl=(["ALU"] if rng.random() < 0.08 else []))
        names = set()
        for u in units:  # distinct names up to case
            while units[u]["name"].lower() in names:
                units[u]["name"] += "q"
            names.add(units[u]["name"].lower())
        edges = {(u, u + 1) for u in range(n - 1)}
        for _ in range(rng.randint(1, 3)):
            a = rng.randint(0, n - 3)
            b = rng.randint(a + 2, n - 1)
            edges.add((a, b))
        # the locks go to units no skip connection jumps over (every route crosses them), read lock not after write lock
        cut = [u for u in range(n) if not any(a < u < b for (a, b) in edges)]
        ra = rng.choice(cut)
        wb = rng.choice([u for u in cut if u >= ra])
        for u in range(n):
            units[u]["rl"] = (u == ra)
            units[u]["wl"] = (u == wb)
        return units, edges, ["ALU"]
    if family == "small":
        nlayers = rng.randint(1, 2)
        widths = (1, 2)
        per = (1, 2)
    elif family == "wide":
        nlayers = rng.randint(2, 4)
        widths = (2, 4)
        per = (1, 3)
    elif family == "large":
        # scale: deep and wide processors, four capabilities, long programs (see gen_prog)
        nlayers = rng.randint(4, 7)
        widths = (2, 6)
        per = (1, 3)
    else:
        nlayers = rng.randint(1, 5)
        widths = (1, 3)
        per = (1, 3)
    layers, uid = [], 0
    for _ in range(nlayers):
        k = rng.randint(*per)
        layers.append(list(range(uid, uid + k)))
        uid += k
    ncaps = rng.randint(1, 3)
    caps = CAPS[:ncaps]
    if family == "large":
        caps = (CAPS + ["FPU"])[:rng.randint(2, 4)]
    ra = rng.randint(0, nlayers - 1)
    wb = rng.randint(ra, nlayers - 1)
    perturb = 0.0 if family in ("small", "wide", "large") else (0.5 if family == "illformed" else 0.08)
    units = {}
    used = set()
    for li, layer in enumerate(layers):
        for u in layer:
            ucaps = [c for c in caps if rng.random() < 0.75] or [rng.choice(caps)]
            if family == "deadend" and li > 0 and rng.random() < 0.4 and len(ucaps) > 1:
                ucaps = ucaps[:-1]
            while True:
                name = rng.choice("abcxyzAB") + str(rng.randint(0, 30))
                if name.lower() not in used:
                    used.add(name.lower())
                    break
            units[u] = dict(
                name=name, width=rng.randint(*widths), caps=ucaps,
                rl=(li == ra) if rng.random() >= perturb else rng.random() < 0.5,
                wl=(li == wb) if rng.random() >= perturb else rng.random() < 0.5,
                acl=[c for c in ucaps if rng.random() < 0.3])
    edges = set()
    for li in range(nlayers - 1):
        for a in layers[li]:
            for b in layers[li + 1]:
                if rng.random() < 0.6:
                    edges.add((a, b))
        if li + 2 < nlayers and rng.random() < 0.3:
            edges.add((rng.choice(layers[li]), rng.choice(layers[li + 2])))
    return units, edges, caps


ODD_NAMES = ["", "0", " ", "a b", "{}", "%s", "None", "False", "any", "*", "all", "default", "a,b", "a|b", "a:b", "#1", "null", "true", "I$", "D$", "L1$data", "${state}", "$state", "$$", "\u00e9x", "\u00df", "\u0130"]


def zero_width(rng, units, family):
    """directly built processors may have a unit of width 0 (the loader rejects it, the constructors do not): it never
    hosts anything (seeded change C04-7: `bool(width) and …` made it unbounded)"""
    if family in ("parts", "small", "wide", "deadend") and rng.random() < 0.04:
        units[rng.choice(sorted(units))]["width"] = 0
    return units


def odd_names(rng, units, caps, family=""):
    """now and then a unit (or a capability) gets an unusual but legal name — the empty string, "0", a blank … — renamed
    consistently, so the structure is unchanged (seeded change C05-9: a flag carrying a unit name was tested for truth)"""
    if rng.random() < 0.1:
        u = rng.choice(sorted(units))
        new = rng.choice(ODD_NAMES)
        if family == "loader" and any(ord(ch) > 127 for ch in new):
            new = "a b"        # loaded processors are judged against the ASCII-folding loader model: no non-ASCII names there
        if all(d["name"].lower() != new.lower() for d in units.values()):
            units[u]["name"] = new
    if rng.random() < 0.08:
        # (names that look like wildcards / lists in richer description languages are plain capability names here)
        old, new = rng.choice(caps), rng.choice(["", "0", " ", "any", "*", "Any", "all", "ALU,MEM", "a|b", "none", "default"])
        if new not in caps:
            for d in units.values():
                d["caps"] = [new if c == old else c for c in d["caps"]]
                d["acl"] = [new if c == old else c for c in d["acl"]]
            caps[caps.index(old)] = new
    return units, caps


def py_wf(units, edges, caps):
    """generator-side pre-filter only (the Lean `wfProc` is the authority): lock condition on every maximal route"""
    succ = {u: [] for u in units}
    pred = {u: [] for u in units}
    for a, b in edges:
        succ[a].append(b)
        pred[b].append(a)
    for c in caps:
        for s in units:
            if pred[s] or c not in units[s]["caps"]:
                continue
            stack = [(s, [s])]
            while stack:
                u, path = stack.pop()
                nxt = [v for v in succ[u] if c in units[v]["caps"]]
                if not nxt:
                    rls = [i for i, x in enumerate(path) if units[x]["rl"]]
                    wls = [i for i, x in enumerate(path) if units[x]["wl"]]
                    if len(rls) != 1 or len(wls) != 1 or rls[0] > wls[0]:
                        return False
                for v in nxt:
                    stack.append((v, path + [v]))
    return True


def build_from_parts(rng, units, edges):
    from processor_utils import ProcessorDesc
    from processor_utils.units import FuncUnit, LockInfo, UnitModel

    succ = {u: [] for u in units}
    pred = {u: [] for u in units}
    for a, b in sorted(edges):
        succ[a].append(b)
        pred[b].append(a)
    models = {u: UnitModel(d["name"], d["width"], list(d["caps"]), LockInfo(d["rl"], d["wl"]), list(d["acl"]))
              for u, d in units.items()}
    inp, outp, inout, internal = [], [], [], []
    order = list(units)
    rng.shuffle(order)  # parts supplied in any order
    for u in order:
        ps = [models[p] for p in pred[u]]
        rng.shuffle(ps)
        if pred[u] and succ[u]:
            internal.append(FuncUnit(models[u], ps))
        elif pred[u]:
            outp.append(FuncUnit(models[u], ps))
        elif succ[u]:
            inp.append(models[u])
        else:
            inout.append(models[u])
    return ProcessorDesc(*shaped([inp, outp, inout, internal], "|".join(sorted(d["name"] for d in units.values()))))


def shaped(args, key):
    """the four `ProcessorDesc` arguments as lists, tuples or one-shot iterables (`Iterable[...]` is what the converters
    accept) — chosen by the unit names, so a replay repeats it (seeded change C07-12: a tuple of internal units was
    taken as already ordered)"""
    h = int(hashlib.sha1(key.encode()).hexdigest(), 16)
    out = []
    for k, a in enumerate(args):
        kind = (h >> (3 * k)) % 4
        out.append(tuple(a) if kind == 1 else ((x for x in a) if kind == 2 else (iter(a) if kind == 3 else a)))
    return out


LAST_DESC = [None]       # the description the last `build_from_loader` handed to the real loader


def build_from_loader(rng, units, edges):
    import processor_utils

    def recase(s):
        return s.swapcase() if rng.random() < 0.15 else s

    us = []
    for u, d in units.items():
        e = {"name": d["name"], "width": d["width"], "capabilities": [recase(c) for c in d["caps"]]}
        if d["rl"] or rng.random() < 0.3:
            e["readLock"] = d["rl"]
        if d["wl"] or rng.random() < 0.3:
            e["writeLock"] = d["wl"]
        if d["acl"] or rng.random() < 0.2:
            e["memoryAccess"] = [recase(c) for c in d["acl"]]
        us.append(e)
    rng.shuffle(us)
    es = [[recase(units[a]["name"]), recase(units[b]["name"])] for a, b in edges]
    rng.shuffle(es)
    desc = {"units": us, "dataPath": es}
    try:
        proc = processor_utils.load_proc_desc(raw_locks(desc))
    except Exception:
        return None
    LAST_DESC[0] = desc
    return proc


TRUTHY = [True, 1, "y", "Y", "yes", "on", "true", 2]
FALSY = [False, 0, "", None]


def raw_locks(desc):
    """a private copy of the description for the real loader in which a lock flag may be written as any value of the
    same truth (YAML gives `y` / `on` as text, `1` as a number): a unit locks iff the flag is true in Python's sense,
    for the loader's checks and for the simulator alike (seeded change C01-12)"""
    d = json.loads(json.dumps(desc))
    for u in d["units"]:
        for key in ("readLock", "writeLock"):
            if key in u:
                h = int(hashlib.sha1((u["name"] + key).encode()).hexdigest(), 16)
                if h % 4 == 0:
                    pool = TRUTHY if u[key] else FALSY
                    u[key] = pool[(h // 4) % len(pool)]
    return d


def gen_prog(rng, incaps, thorough, dense=False, long_prog=False, serial=False):
    """raw instruction specs (sources as supplied — possibly repeated, destination, capability); the real
    `HwInstruction` objects are built from the protocol form in `evaluate`"""

    if dense:
        # few registers, many source-less writers: older readers wait while younger writers run ahead
        n = rng.randint(4, 12)
        regs = ["R%d" % i for i in range(rng.randint(2, 3))]
        prog = []
        for _ in range(n):
            srcs = [rng.choice(regs)] if rng.random() < 0.45 else []
            prog.append((list(srcs), rng.choice(regs), incaps[0] if incaps else "ALU"))
        return prog

    if serial:
        n = rng.randint(3, 12)
        prog = [([], "R0", incaps[0] if incaps else "ALU")]
        for k in range(1, n):
            prog.append((["R%d" % (k - 1)], "R%d" % k, incaps[0] if incaps else "ALU"))
        if rng.random() < 0.3:
            prog.append((["R0"], "R1", "NOSUCH"))     # an unsupported tail: a genuine stall after a long run
        return prog
    if long_prog:
        n = rng.randint(12, 30)
        regs = ["R%d" % i for i in range(rng.randint(3, 7))]
        prog = []
        for _ in range(n):
            cap = rng.choice(incaps) if incaps else "ALU"
            srcs = [rng.choice(regs) for _ in range(rng.randint(0, 4))]
            dst = rng.choice(srcs) if srcs and rng.random() < 0.25 else rng.choice(regs)
            prog.append((list(srcs), dst, cap))
        return prog
    hi = 40 if thorough and rng.random() < 0.1 else 12
    n = rng.choice([0, 1, 2, 3]) if rng.random() < 0.15 else rng.randint(0, hi)
    regs = ["R%d" % i for i in range(rng.randint(2, 5))]
    prog = []
    for _ in range(n):
        cap = rng.choice(incaps) if incaps and rng.random() < 0.97 else rng.choice(CAPS + ["FPU"])
        srcs = [rng.choice(regs) for _ in range(rng.randint(0, 3))]
        dst = rng.choice(regs)
        if srcs and rng.random() < 0.3:
            dst = rng.choice(srcs)
        prog.append((list(srcs), dst, cap))
    return prog


# --------------------------------------------------------------------------------------------------
# protocol forms

def unit_json(m):
    return {"name": m.name, "width": m.width, "caps": list(m.capabilities),
            "rd": bool(m.lock_info.rd_lock), "wr": bool(m.lock_info.wr_lock), "acl": list(m._mem_acl)}


def fu_json(f):
    return {"model": unit_json(f.model), "preds": [p.name for p in f.predecessors]}


def proc_json(p):
    return {"in": [unit_json(m) for m in p.in_ports], "out": [fu_json(f) for f in p.out_ports],
            "inout": [unit_json(m) for m in p.in_out_ports], "internal": [fu_json(f) for f in p.internal_units]}


def prog_json(prog):
    return [{"srcs": list(i.sources), "dst": i.destination, "cap": i.categ} for i in prog]


def table_json(tbl):
    return [[[u, [[i.instr, str(i.stalled.value)] for i in lst]] for u, lst in cyc.items()] for cyc in tbl]


def proc_from_json(pj):
    from processor_utils import ProcessorDesc
    from processor_utils.units import FuncUnit, LockInfo, UnitModel

    models = {}

    def um(d):
        if d["name"] not in models:
            models[d["name"]] = UnitModel(d["name"], d["width"], list(d["caps"]), LockInfo(d["rd"], d["wr"]), list(d["acl"]))
        return models[d["name"]]

    for d in pj["in"] + pj["inout"]:
        um(d)
    for f in pj["out"] + pj["internal"]:
        um(f["model"])

    def fu(f):
        return FuncUnit(um(f["model"]), [models[n] for n in f["preds"]])

    return ProcessorDesc(*shaped([[um(d) for d in pj["in"]], [fu(f) for f in pj["out"]],
                                  [um(d) for d in pj["inout"]], [fu(f) for f in pj["internal"]]], "|".join(sorted(models))))


def prog_from_json(pj):
    from program_defs import HwInstruction

    return [HwInstruction(list(i.get("supplied", i["srcs"])), i["dst"], i["cap"]) for i in pj]


def run_impl(proc, prog, history=(), evolved=None):
    """run the real simulator; returns the protocol-form `impl` object.  `history`: programs simulated before, on the
    *same* HwSpec object (their outcomes — returned diagrams, stall errors, anything else — are discarded here): a
    simulation is a function of the processor and the program, whatever the hardware object was used for before
    (seeded changes C06-10 / C05-10: one-shot iterators and sinks cached in the HwSpec)."""
    from sim_services import HwSpec, StallError, simulate

    spec = HwSpec(proc)
    if evolved:
        # the hardware object derived from another processor's (attr.evolve): it is the HwSpec of `proc` all the same
        # (seeded change C04-8: a derived attribute that was an init argument survived the evolve)
        import attr

        spec = attr.evolve(HwSpec(evolved), processor_desc=proc)
    for h in history:
        try:
            with core.watchdog(TIMEOUT):
                simulate(h, spec)
        except Exception:  # noqa: BLE001 - a stall error (or whatever a changed tree raises) ends that earlier run
            pass
    try:
        with core.watchdog(TIMEOUT):
            arg = tuple(prog) if len(prog) % 2 else prog      # `Sequence[HwInstruction]`: list or tuple
            # positional, mixed or keyword arguments: the documented parameter names are part of the interface
            conv = len(prog) % 3
            tbl = simulate(arg, spec) if conv == 0 else (simulate(arg, hw_info=spec) if conv == 1 else simulate(program=arg, hw_info=spec))
        return {"outcome": "done", "table": table_json(tbl)}
    except StallError as e:
        return {"outcome": "stall", "table": table_json(e.processor_state)}
    except core.CaseTimeout:
        return {"outcome": "exc", "exc": "Timeout(non-termination)"}
    except Exception as e:  # noqa: BLE001 - every escaping exception is an observation
        return {"outcome": "exc", "exc": type(e).__name__ + ": " + str(e)[:200]}


# --------------------------------------------------------------------------------------------------

def conflicting_pair(progj):
    for j, b in enumerate(progj):
        for a in progj[:j]:
            if a["dst"] == b["dst"] or a["dst"] in b["srcs"] or b["dst"] in a["srcs"]:
                return True
    return False


def evaluate(inp: dict) -> dict:
    """implementation + driver on a protocol-form input {proc, prog}; returns the per-property records"""
    core.install_repo()
    desc_note = None
    if inp.get("desc") is not None:
        # family `loader`: the processor comes from the real loader.  The simulation is judged against the processor the
        # DESCRIPTION stands for (Lean loader model, units listed in the orders the implementation stored), not against
        # whatever object the loader under test produced (seeded change C05-11: a loader that keeps a memory-access entry
        # in a spelling `needs_mem` never matches makes the simulator ignore the memory port)
        import processor_utils

        proc = processor_utils.load_proc_desc(raw_locks(inp["desc"]))
        pj = proc_json(proc)
        la = core.driver().ask({"op": "load", "desc": inp["desc"], "impl": {"ok": True, "proc": {"inPorts": [], "inOut": [], "outPorts": [], "internal": []}}})
        if la["model"].get("ok"):
            mp = la["model"]["proc"]
            by = {u["name"]: u for k in ("inPorts", "inOut", "outPorts", "internal") for u in mp[k]}
            cls = {u["name"]: k for k in ("inPorts", "inOut", "outPorts", "internal") for u in mp[k]}
            names = {"in": [u["name"] for u in pj["in"]], "inout": [u["name"] for u in pj["inout"]],
                     "out": [f["model"]["name"] for f in pj["out"]], "internal": [f["model"]["name"] for f in pj["internal"]]}
            want = {"in": "inPorts", "inout": "inOut", "out": "outPorts", "internal": "internal"}
            if all(n in by and cls[n] == want[k] for k, ns in names.items() for n in ns) and sum(len(v) for v in names.values()) == len(by):
                def um(n):
                    u = by[n]
                    return {"name": u["name"], "width": u["width"], "caps": u["caps"], "rd": u["rd"], "wr": u["wr"], "acl": u["acl"]}
                pj_model = {"in": [um(n) for n in names["in"]], "inout": [um(n) for n in names["inout"]],
                            "out": [{"model": um(n), "preds": sorted(by[n]["preds"])} for n in names["out"]],
                            "internal": [{"model": um(n), "preds": sorted(by[n]["preds"])} for n in names["internal"]]}
                if pj_model != {**pj, "out": [{"model": f["model"], "preds": sorted(f["preds"])} for f in pj["out"]],
                                "internal": [{"model": f["model"], "preds": sorted(f["preds"])} for f in pj["internal"]]}:
                    desc_note = "the loaded processor differs from the description's processor (Lean loader model)"
                pj = pj_model
            else:
                desc_note = "the loaded processor has other units / port classes than the description's processor"
        else:
            desc_note = "the Lean loader model rejects the description the implementation accepted"
    else:
        proc = proc_from_json(inp["proc"])
        # the stored orders must be the ones the implementation uses: rebuild the protocol form from the object
        pj = proc_json(proc)
    prog = prog_from_json(inp["prog"])
    evolved = None
    if inp.get("evolve"):
        # another processor: the same units one slot wider, in-out ports dropped
        oj = json.loads(json.dumps(pj))
        for u in oj["in"] + oj["inout"]:
            u["width"] += 1
        for f in oj["out"] + oj["internal"]:
            f["model"]["width"] += 1
        evolved = proc_from_json(oj)
    impl = run_impl(proc, prog, [prog_from_json(h) for h in inp.get("history", [])], evolved)
    intended = [{"srcs": i["srcs"], "dst": i["dst"], "cap": i["cap"]} for i in inp["prog"]]
    ans = core.driver().ask({"op": "sim", "proc": pj, "prog": intended, "impl": impl})
    wf = bool(ans["wf"])
    st = ans.get("stats", {})
    nunits = len(pj["in"]) + len(pj["out"]) + len(pj["inout"]) + len(pj["internal"])
    nin = len(pj["in"]) + len(pj["inout"])
    has_acl = any(u["acl"] for u in pj["in"] + pj["inout"]) or any(f["model"]["acl"] for f in pj["out"] + pj["internal"])
    multi_pred = any(len(f["preds"]) > 1 for f in pj["out"] + pj["internal"])
    nt = {
        "C01": conflicting_pair(inp["prog"][: st.get("issued", 0)]),
        "C02": st.get("D", 0) > 0,
        "C03": st.get("issued", 0) >= 2 and nunits >= 2,
        "C04": st.get("S", 0) > 0,
        "C05": st.get("mem", 0) > 0 and has_acl,
        "C06": len(inp["prog"]) >= 2 and (nin >= 2 or st.get("cycles", 0) > st.get("issued", 0)),
        "C07": st.get("S", 0) > 0 or (multi_pred and st.get("issued", 0) >= 2),
        "C08": impl["outcome"] == "stall" or st.get("cycles", 0) >= 3,
    }
    props = {}
    for pid in PROPS:
        props[pid] = {"app": wf, "nontrivial": bool(wf and nt[pid]), "k": bool(ans["k"][pid]) and desc_note is None, "o": ans["o"][pid]}
    tags = ["wf" if wf else "illformed", "impl:" + impl["outcome"], "model:" + ans["model"]["outcome"],
            "units:%d" % nunits, "n:%s" % ("0" if not inp["prog"] else "1-4" if len(inp["prog"]) < 5 else "5-12" if len(inp["prog"]) < 13 else "13+")]
    if st.get("D", 0):
        tags.append("hasD")
    if st.get("S", 0):
        tags.append("hasS")
    if st.get("mem", 0):
        tags.append("hasMem")
    if inp.get("history"):
        tags.append("reused-HwSpec")
    if inp.get("desc") is not None:
        tags.append("judged-against-description")
    if inp.get("evolve"):
        tags.append("evolved-HwSpec")
    if any(u["width"] == 0 for u in pj["in"] + pj["inout"]) or any(f["model"]["width"] == 0 for f in pj["out"] + pj["internal"]):
        tags.append("zero-width-unit")
    if any(n in ODD_NAMES for n in [u["name"] for u in pj["in"] + pj["inout"]] + [f["model"]["name"] for f in pj["out"] + pj["internal"]]):
        tags.append("odd-unit-name")
    return {"props": props, "tags": tags, "impl": impl, "model": dict(ans["model"], note=desc_note) if desc_note else ans["model"], "proc": pj}


EX_PROCS = 80          # catalogue size of the small-scope exhaustive family (thorough tier)
EX_REGS = ["R0", "R1"]


def ex_forms(incaps):
    """every instruction over 2 registers: destination x subset of sources x offered capability (at most 2)"""
    forms = []
    for cap in incaps[:2]:
        for dst in EX_REGS:
            for srcs in ([], ["R0"], ["R1"], ["R0", "R1"]):
                forms.append({"srcs": srcs, "dst": dst, "cap": cap})
    return forms


MARATHON = {"quick": [1100, 2600, 10100], "thorough": [1100, 2600, 10100, 20100, 40100]}


def marathon_case(case, tier):
    """scale in time: N independent instructions on a single in-out unit of width 1 holding both locks.  The outcome is
    known in closed form (instance of C03/C06/C08 on a one-unit processor): the run completes, has exactly N cycles, and
    cycle t shows instruction t-1 alone, unstalled.  Judged here in Python (the driver's quadratic oracles are not made
    for thousands of cycles).  A default cycle limit, a bounded history or a fixed-size window shows up only here."""
    core.install_repo()
    n = MARATHON[tier][case[1]]
    pj = {"in": [], "out": [], "internal": [], "inout": [{"name": "core", "width": 1, "caps": ["ALU"], "rd": True, "wr": True, "acl": []}]}
    prog = [{"srcs": [], "dst": "R%d" % (i % 7), "cap": "ALU"} for i in range(n)]
    impl = run_impl(proc_from_json(pj), prog_from_json(prog))
    o = None
    if impl["outcome"] != "done":
        o = f"a healthy run of {n} independent instructions on a one-unit processor ends with {impl['outcome']} {impl.get('exc', '')} after {len(impl.get('table', []))} cycles"
    elif len(impl["table"]) != n:
        o = f"{n} independent instructions on a one-unit processor need exactly {n} cycles, the diagram has {len(impl['table'])}"
    else:
        for t, row in enumerate(impl["table"]):
            if [[u, [list(x) for x in lst]] for u, lst in row if lst] != [["core", [[t, "U"]]]]:
                o = f"cycle {t + 1} of the marathon does not show instruction {t} alone and unstalled in the unit"
                break
    props = {pid: {"app": False, "nontrivial": False, "k": True, "o": None} for pid in PROPS}
    for pid in ("C03", "C06", "C08"):
        props[pid] = {"app": True, "nontrivial": True, "k": True, "o": o}
    rec = {"case": case, "family": "marathon", "digest": "marathon-%d" % n, "tags": ["marathon", "n:%d" % n, "impl:" + impl["outcome"]], "props": props}
    if o is not None:
        rec["input"] = {"marathon": n}
        rec["impl"] = {"outcome": impl["outcome"], "cycles": len(impl.get("table", []))}
    return rec


def cases(tier: str) -> list:
    n = 12000 if tier == "quick" else 400000
    cs = list(range(n))
    for k in range(len(MARATHON[tier])):
        cs.insert(1 + 700 * k, ["marathon", k])
    if tier == "thorough":
        # small scope, exhaustively: every program of up to 3 instructions over 2 registers on a catalogue of small
        # well-formed processors (one case id per (processor, first instruction) so that work is spread evenly)
        step = len(cs) // EX_PROCS
        for pi in range(EX_PROCS):          # spread over the chunks of the process pool
            cs.insert(pi * (step + 1), ["ex", pi])
    return cs


def ex_case(case, tier):
    """all programs of length <= 3 for catalogue processor `pi`; returns one record per program via {"multi": …}"""
    import itertools

    core.install_repo()
    pi = case[1]
    rng = core.case_rng(NAME, "excat:%d" % pi)
    family = ["small", "wide", "widechain", "parts"][pi % 4]
    for _ in range(200):
        units, edges, caps = gen_units(rng, family)
        if len(units) > 4:
            continue
        edges = {(a, b) for (a, b) in edges if set(units[a]["caps"]) & set(units[b]["caps"])}
        if py_wf(units, edges, caps):
            break
    proc = build_from_parts(rng, units, edges)
    pj = proc_json(proc)
    incaps = sorted({c for m in list(proc.in_ports) + list(proc.in_out_ports) for c in m.capabilities})
    forms = ex_forms(incaps)
    out = []
    for k in range(0, 4):
        for prog in itertools.product(forms, repeat=k):
            inp = {"proc": pj, "prog": list(prog)}
            res = evaluate(inp)
            rec = {"case": ["ex", pi, len(out)], "family": "exhaustive", "digest": hashlib.sha1(json.dumps(inp, sort_keys=True).encode()).hexdigest(),
                   "tags": res["tags"] + ["exhaustive"], "props": res["props"]}
            if any(r["app"] and (not r["k"] or r["o"] is not None) for r in res["props"].values()):
                rec["input"], rec["impl"], rec["model"] = inp, res["impl"], res["model"]
            out.append(rec)
    return {"multi": out}


def gen_input(case, tier="quick"):
    core.install_repo()
    rng = core.case_rng(NAME, case)
    family = FAMILIES[case % len(FAMILIES)] if isinstance(case, int) else "parts"
    for _attempt in range(60):
        units, edges, caps = gen_units(rng, family)
        units, caps = odd_names(rng, units, list(caps), family)
        units = zero_width(rng, units, family)
        edges = {(a, b) for (a, b) in edges if set(units[a]["caps"]) & set(units[b]["caps"])}
        if family != "illformed" and not py_wf(units, edges, caps):
            continue
        if family == "loader":
            proc = build_from_loader(rng, units, edges)
            if proc is None:
                continue
        else:
            proc = build_from_parts(rng, units, edges)
        break
    else:
        units, edges, caps = gen_units(rng, "small")
        proc = build_from_parts(rng, units, set())
    incaps = sorted({c for m in list(proc.in_ports) + list(proc.in_out_ports) for c in m.capabilities})
    prog = gen_prog(rng, incaps, tier == "thorough", dense=(family in ("widechain", "bypass") and rng.random() < 0.8),
                    long_prog=(family == "large" or rng.random() < 0.03),
                    serial=(family == "deepchain" and rng.random() < 0.85))
    inp = {"proc": proc_json(proc), "prog": intended_prog_json(rng, prog)}
    if family == "loader":
        inp["desc"] = LAST_DESC[0]
    elif rng.random() < 0.08:
        inp["evolve"] = True
    if rng.random() < 0.15:
        # the same HwSpec object is used for earlier simulations: the same program, other programs, a run that ends in a
        # stall error (an instruction no input port supports)
        hist = []
        for _ in range(rng.randint(1, 2)):
            r = rng.random()
            if r < 0.3:
                hist.append(inp["prog"])
            elif r < 0.65:
                hist.append(intended_prog_json(rng, gen_prog(rng, incaps, False)))
            else:
                h = gen_prog(rng, incaps, False)
                h.insert(rng.randint(0, len(h)), ([], "R0", "NOSUCHCAP"))
                hist.append(intended_prog_json(rng, h))
        inp["history"] = hist
    return family, inp


def intended_prog_json(rng, prog):
    """the program as the USER means it: sources as a sorted duplicate-free list computed here, not read back from the
    `HwInstruction` objects (their converter is code under test); now and then registers get unusual-but-legal names
    (empty string, "0", blanks) — consistently renamed, so the dependency pattern is unchanged"""
    raw = [(list(srcs), dst, cap) for srcs, dst, cap in prog]
    if rng.random() < 0.06:
        regs = sorted({r for s, d, _ in raw for r in s + [d]})
        odd = ["", "0", " ", "r 1", "R0", "$5", "{}"]
        rng.shuffle(odd)
        ren = {r: (odd[k] if k < 3 and k < len(odd) else r) for k, r in enumerate(regs)}
        if len(set(ren.values())) == len(ren):
            raw = [([ren[r] for r in s], ren[d], c) for s, d, c in raw]
    # "supplied": what is handed to the real constructor (repeats, any order); "srcs": what the user means by it
    return [{"srcs": sorted(set(s)), "dst": d, "cap": c, "supplied": list(s)} for s, d, c in raw]


def run_case(case, tier="quick") -> dict:
    if isinstance(case, list) and case and case[0] == "ex":
        return ex_case(case, tier)
    if isinstance(case, list) and case and case[0] == "marathon":
        return marathon_case(case, tier)
    family, inp = gen_input(case, tier)
    res = evaluate(inp)
    digest = hashlib.sha1(json.dumps(inp, sort_keys=True).encode()).hexdigest()
    out = {"case": case, "family": family, "digest": digest, "tags": res["tags"], "props": res["props"]}
    bad = any(r["app"] and (not r["k"] or r["o"] is not None) for r in res["props"].values())
    if bad or (isinstance(case, int) and case < 8):
        out["input"] = inp
        out["impl"] = res["impl"]
        out["model"] = res["model"]
    return out


def replay(prop: str, inp: dict) -> dict:
    if "marathon" in inp:
        tier = "thorough" if inp["marathon"] not in MARATHON["quick"] else "quick"
        return marathon_case(["marathon", MARATHON[tier].index(inp["marathon"])], tier)["props"][prop]
    res = evaluate(inp)
    return res["props"][prop]


def shrink(prop: str, inp: dict, still_fails) -> dict:
    """greedy: drop instructions, then narrow nothing else (processor kept)"""
    if "marathon" in inp:
        return inp
    cur = inp
    changed = True
    while changed:
        changed = False
        for i in range(len(cur["prog"]) - 1, -1, -1):
            cand = dict(cur, prog=cur["prog"][:i] + cur["prog"][i + 1:])
            try:
                if still_fails(cand):
                    cur = cand
                    changed = True
            except Exception:  # noqa: BLE001
                pass
    return cur
