"""Component "text": parser, ISA loader / compiler, table renderer and the two helper types
(program_utils, processor_utils.load_isa/get_abilities, hw_loading, processor_sim rendering, container_utils.BagValDict,
str_utils.ICaseString)  vs  ProcSim.Model.{Program, Isa, Cli, Bag, ICase}      (properties C14 - C18).

Every case builds a protocol-form input (`kind` + data), runs the real code on it, and sends input + the
implementation's canonical output to the Lean driver (Driver/TextOps.lean), which runs the model, compares (K) and
evaluates the Bool specs of Spec/Text.lean on the implementation's output (O).

K is exact on everything the properties pin down. Two deliberate freedoms: the dict returned by load_isa is compared
as a set of items, and a table with both a mnemonic collision and an unsupported capability may be rejected with either
error as long as it names a real culprit (order of independent checks). hash() is only required to agree on equal strings.

Restrictions (stated in the models): ASCII text only; unit names in records / diagrams need no repr- or csv-escaping
for the textual comparisons (names needing csv quoting are still compared cell-wise through csv.reader).

Families (case id = "<family>:<number>")
  C18x  exhaustive pairs over strings <= 3 from {a,A,b,B,1,' '}: one case = one left string x all 259 right strings
  C18t  exhaustive triples over strings <= 2: one case = one (a, b) x all 43 c
  C18r  random longer ASCII strings, pairs and triples (re-casings, prefixes, neighbours of the case boundary)
  C17x  exhaustive pairs of records over <= 2 units x <= 2 entries, 3-value domain: one case = one left record x all 196
        (left built in insertion order a,b; right in order b,a; absent / explicitly empty both enumerated)
  C17y  (thorough) the same over <= 3 units x <= 2 entries (2 744 x 2 744 = 7.5 M pairs, exhaustive)
  C17n  records over <= 3 units x <= 3 entries against all their re-orderings and single edits. (All pairs over
        <= 3 x <= 3 would be 68 921^2 = 4.7e9 comparisons of the real code: not run exhaustively; C17y + C17n is what
        stands in for it, and the theorem covers the rest for the model.)
  C17r  random larger records (ints or InstrState values), re-orderings, edits
  C14g  instruction lists x whitespace renderings (+ single-fault corruptions); the text is produced by the Lean
        `renderProgram` the round-trip theorem is stated with
  C14c  one case per ASCII code point c: lines that put c in every position where being a blank matters (K only)
  C14w  raw lines over a blank/comma/token alphabet (operands with inner blanks, stray commas, odd blanks); K only
  C15i  ISA tables x capability sets (+ programs compiled with the loaded ISA)
  C15a  get_abilities on small ProcessorDesc objects (+ load_isa with the result)
  C15y  hw_loading.read_processor on generated YAML text
  C16r  random gap-free diagrams -> processor_sim._get_sim_rows + ResultWriter.print_sim_res (in-process)
  C16b  diagrams with a gap / a missing instruction / an index out of range / a duplicate (error classes; K only)
"""
from __future__ import annotations

import hashlib
import io
import itertools
import json
import os
import sys

from . import core

NAME = "text"
PROPS = ["C14", "C15", "C16", "C17", "C18"]
CHUNK = 12
RULES = {
    "C14": "applicable to every text; oracle (round trip) evaluated for family C14g; non-trivial = at least one non-blank line; distinct = sha1 of the line list",
    "C15": "non-trivial = ISA table with >= 1 entry (load), program with >= 1 instruction (compile), >= 1 port (abilities); distinct = sha1 of the input",
    "C16": "oracle evaluated for gap-free diagrams (Lean `diagramOK`); non-trivial = >= 1 instruction and >= 2 cycles; distinct = sha1 of (diagram, n)",
    "C17": "non-trivial = batch contains a pair of records that differ as written (order / empty units) or hold entries; distinct = sha1 of the batch",
    "C18": "non-trivial = batch contains strings that differ (every batch but the empty one); distinct = sha1 of the batch",
}
TIMEOUT = 20.0

# --------------------------------------------------------------------------------------------------
# small helpers

ALPHA18 = "aAbB1 "


def strings_upto(alpha, n):
    return ["".join(t) for k in range(n + 1) for t in itertools.product(alpha, repeat=k)]


def err_json(e):
    """canonical {class, fields, message} of a processorsim exception"""
    fields = {}
    for attr_name, key in (("line", "line"), ("instr", "instr"), ("old_element", "old"), ("new_element", "new"),
                           ("element", "elem")):
        if hasattr(e, attr_name):
            fields[key] = getattr(e, attr_name)
    return {"err": {"class": type(e).__name__, "fields": fields, "message": str(e)}}


def _blank_props():
    return {p: {"app": False, "nontrivial": False, "k": True, "o": None} for p in PROPS}


def _digest(obj):
    return hashlib.sha1(json.dumps(obj, sort_keys=True).encode()).hexdigest()


# --------------------------------------------------------------------------------------------------
# C18

ROUTES = ["direct", "evolve", "copy", "deepcopy", "pickle", "evolve2", "xpickle"]
_XP = [None]


def xpickle(text):
    """`ICaseString(text)` pickled by ANOTHER interpreter (its own string-hash seed) and loaded here: whatever a pickle
    carries, the loaded object is the case-insensitive string of `text` in this process (seeded change C18-11: a hash
    computed at construction travelled with the pickle)"""
    import pickle
    import subprocess

    if _XP[0] is None or _XP[0].poll() is not None:
        code = ("import sys, json, pickle\n"
                "sys.path.insert(0, %r)\nfrom harness import core\ncore.install_repo()\n"
                "from str_utils import ICaseString\n"
                "for line in sys.stdin:\n"
                "    print(pickle.dumps(ICaseString(json.loads(line))).hex(), flush=True)\n") % core.VERIF
        env = dict(os.environ, PYTHONHASHSEED="4242", PYTHONDONTWRITEBYTECODE="1", VERIF_REPO=core.REPO)
        _XP[0] = subprocess.Popen([sys.executable, "-c", code], stdin=subprocess.PIPE, stdout=subprocess.PIPE, text=True, env=env)
    _XP[0].stdin.write(json.dumps(text) + "\n")
    _XP[0].stdin.flush()
    return pickle.loads(bytes.fromhex(_XP[0].stdout.readline().strip()))


def mk_icase(text, route, other):
    """an ICaseString holding `text`, obtained in one of the ways client code obtains one: the constructor, or derived
    from another instance (`attr.evolve`, copies, a pickle round trip).  Whatever the route, it is *the* case-insensitive
    string of `text` (seeded change C18-10: a cached canonical form survived attr.evolve)."""
    import copy
    import pickle

    import attr
    from str_utils import ICaseString

    if route == "direct":
        return ICaseString(text)
    if route == "evolve":
        return attr.evolve(ICaseString(other), raw_str=text)
    if route == "evolve2":
        return attr.evolve(attr.evolve(ICaseString(text), raw_str=other), raw_str=text)
    if route == "xpickle":
        return xpickle(text)
    if route == "copy":
        return copy.copy(ICaseString(text))
    if route == "deepcopy":
        return copy.deepcopy(ICaseString(text))
    return pickle.loads(pickle.dumps(ICaseString(text)))


def icase_obs(a, b, routes=("direct", "direct")):
    A, B = mk_icase(a, routes[0], b + "x"), mk_icase(b, routes[1], a + "Y")
    ops = [lambda: A == B, lambda: B == A, lambda: A != B, lambda: A < B, lambda: B < A, lambda: A <= B, lambda: B <= A,
           lambda: A > B, lambda: A >= B, lambda: b in A, lambda: a in B, lambda: hash(A) == hash(B)]
    bits = []
    for k, op in enumerate(ops):
        try:
            bits.append(bool(op()))
        except Exception as e:  # noqa: BLE001 - every operation of the type is total; an exception is an observation
            raise IcaseRaised(f"operation #{k} of (==,==,!=,<,<,<=,<=,>,>=,in,in,hash) on {a!r}, {b!r} raised {type(e).__name__}") from e
    return ["".join("1" if x else "0" for x in bits), str(A), str(B)]


class IcaseRaised(Exception):
    pass


def eval_icase(inp):
    items = inp["items"]
    impl = []
    rsel = inp.get("routes")      # None: constructor only; k: deterministic mix of construction routes

    def routes(n, j):
        if rsel is None:
            return ("direct", "direct")
        x = rsel + 7 * n + 3 * j
        return (ROUTES[x % len(ROUTES)], ROUTES[(x // len(ROUTES)) % len(ROUTES)])

    try:
        for n, it in enumerate(items):
            if len(it) == 2:
                impl.append([icase_obs(it[0], it[1], routes(n, 0))])
            else:
                a, b, c = it
                impl.append([icase_obs(a, b, routes(n, 0)), icase_obs(b, c, routes(n, 1)), icase_obs(a, c, routes(n, 2))])
    except IcaseRaised as e:
        props = _blank_props()
        props["C18"] = {"app": True, "nontrivial": True, "k": False, "o": "C18.total: " + str(e)}
        return {"props": props, "tags": ["raised"], "impl": str(e), "model": None, "small": {"kind": "icase", "items": [it]}}
    req = {"op": "icase", "items": items, "impl": impl, "brief": True}
    if inp.get("unicode"):
        # outside the ASCII model: Python's own str.lower supplies the folded texts, the Lean spec (checkC18Folded,
        # theorem checkC18Folded_iff) is evaluated on them; the ASCII model is not consulted for these items
        req["lowers"] = [[x.lower() for x in it] for it in items]
    ans = core.driver().ask(req)
    props = _blank_props()
    props["C18"] = {"app": True, "nontrivial": any(len(set(it)) > 1 for it in items), "k": bool(ans["k"]["C18"]), "o": ans["o"]["C18"]}
    fails = ans.get("fail", [])
    small = None
    if fails:
        idx = [f["i"] for f in fails][:5]
        small = {"kind": "icase", "items": [items[i] for i in idx]}
        if rsel is not None:       # routes depend on the position in the batch: keep the batch prefix needed
            small = {"kind": "icase", "items": items[: max(idx) + 1], "routes": rsel}
        if inp.get("unicode"):
            small["unicode"] = True
    tags = []
    if rsel is not None:
        tags.append("derived-instances")
    if inp.get("unicode"):
        tags.append("non-ascii")
    if any(len(it) == 2 for it in items):
        tags.append("has-pairs")
    if any(len(it) == 3 for it in items):
        tags.append("has-triples")
    if any(len(s) > 3 for it in items for s in it):
        tags.append("long-strings")
    if any(o[0][0] == "1" and o[1] != o[2] for ob in impl for o in ob):
        tags.append("has-eq-differently-spelled")
    return {"props": props, "tags": tags, "impl": [impl[f["i"]] for f in fails[:5]], "model": fails[:5], "small": small}


EDGE_CHARS = "@[`{_^Zz Aa09~!,\t"


def rand_str18(rng, base=None):
    if base is not None and rng.random() < 0.6:
        r = rng.random()
        if r < 0.35:
            return "".join(c.swapcase() if rng.random() < 0.5 else c for c in base)
        if r < 0.55:
            return base[: rng.randint(0, len(base))]
        if r < 0.75:
            return base + rng.choice(EDGE_CHARS + "abXY")
        if r < 0.9 and base:
            i = rng.randrange(len(base))
            return base[:i] + rng.choice(EDGE_CHARS + "bB") + base[i + 1:]
        return base[rng.randint(0, len(base)):]
    n = rng.choice([0, 1, 2, 3, 4, 6, 9, 14])
    alpha = rng.choice(["abAB", "abcABC12 _", EDGE_CHARS, "".join(chr(c) for c in range(32, 127))])
    return "".join(rng.choice(alpha) for _ in range(n))


# non-ASCII letters whose case mapping is not one-to-one / not length-preserving / not an involution
UNI_CHARS = ["\u0130", "\u0131", "i\u0307", "I", "i", "\u00df", "\u1e9e", "ss", "SS", "\u212a", "k", "K", "\u00c5", "\u212b", "\u00e5",
             "\u03a3", "\u03c3", "\u03c2", "\u00e9", "\u00c9", "e\u0301", "\u01c5", "\u01c4", "\u01c6", "\ufb01", "fi", "\u0390", "a", "B", " "]


def rand_uni(rng, base=None):
    if base is not None and rng.random() < 0.65:
        r = rng.random()
        if r < 0.3:
            return base.swapcase()
        if r < 0.45:
            return base.lower()
        if r < 0.6:
            return base.upper()
        if r < 0.8:
            i, j = sorted((rng.randint(0, len(base)), rng.randint(0, len(base))))
            return base[i:j]
        return base + rng.choice(UNI_CHARS)
    return "".join(rng.choice(UNI_CHARS) for _ in range(rng.choice([0, 1, 1, 2, 3, 5])))


def gen_icase_unicode(rng, count):
    items = []
    for _ in range(count):
        a = rand_uni(rng)
        b = rand_uni(rng, a)
        if rng.random() < 0.3:
            a, b = b, a
        items.append([a, b] if rng.random() < 0.6 else [a, b, rand_uni(rng, rng.choice([a, b]))])
    return items


def gen_icase_random(rng, count):
    items = []
    for _ in range(count):
        a = rand_str18(rng)
        b = rand_str18(rng, a)
        if rng.random() < 0.5:
            items.append([a, b])
        else:
            items.append([a, b, rand_str18(rng, rng.choice([a, b]))])
    return items


# --------------------------------------------------------------------------------------------------
# C17

HI_DOMAIN = [[0, "U"], [1, "U"], [0, "D"]]
INT_DOMAIN = [0, 1, 2]


def lists_upto(domain, n):
    return [list(t) for k in range(n + 1) for t in itertools.product(domain, repeat=k)]


def mk_bag(rec, vt):
    from container_utils import BagValDict

    if vt == "hi":
        from sim_services.sim_defs import InstrState, StallState

        return BagValDict({k: [InstrState(i, StallState(lab)) for i, lab in vs] for k, vs in rec})
    return BagValDict({k: list(vs) for k, vs in rec})


def mk_bag_hist(rec, vt, rng):
    """the record with content `rec`, reached by a *history*: built with other content, its lists taken by reference
    (`b[k]`, which also creates the list of an absent unit), observed (len / repr / ==), and then brought to `rec` through
    the retained references (slice deletion, append, clear, extend) — the way the simulator itself fills a cycle record.
    Whatever the history, it is the record of its current content (seeded change C17-10: a cached canonical form was
    invalidated by `__getitem__` only)."""
    if vt == "hi":
        from sim_services.sim_defs import InstrState, StallState

        conv = lambda v: InstrState(v[0], StallState(v[1]))   # noqa: E731
    else:
        conv = lambda v: v   # noqa: E731
    start = []
    for k, vs in rec:
        r = rng.random()
        if r < 0.3:
            continue                                   # unit absent at first
        if r < 0.6:
            start.append([k, vs[: rng.randint(0, len(vs))]])
        else:
            start.append([k, list(vs) + ([rng.choice(vs)] if vs else [])])
    extra = rng.random() < 0.4 and all(k != "zz_tmp" for k, _ in rec)
    if extra and rec and rec[0][1]:
        start.append(["zz_tmp", [rec[0][1][0]]])       # a unit that will be emptied again (empty = absent)
    else:
        extra = False
    b = mk_bag(start, vt)
    refs = {k: b[k] for k, _ in rec}
    if extra:
        refs["zz_tmp"] = b["zz_tmp"]
    fresh = mk_bag(start, vt)
    _ = (len(b), repr(b), b == fresh, fresh == b)      # the record is used before it changes
    for k, vs in rec:
        lst, target = refs[k], [conv(v) for v in vs]
        mode = rng.randrange(3)
        if mode == 0:
            n = 0
            while n < len(lst) and n < len(target) and lst[n] == target[n]:
                n += 1
            del lst[n:]
            for v in target[n:]:
                lst.append(v)
        elif mode == 1:
            lst.clear()
            lst.extend(target)
        else:
            lst[:] = target
        if rng.random() < 0.3:
            _ = (len(b), repr(b))                      # observed in the middle of the history as well
    if extra:
        refs["zz_tmp"].clear()
    return b


def eval_bag(inp):
    vt, recs, pairs = inp["vt"], inp["recs"], inp["pairs"]
    hist = inp.get("hist")
    if hist is not None:
        import random

        hrng = random.Random("bag-hist:%s" % hist)
        build = lambda r: mk_bag_hist(r, vt, hrng) if hrng.random() < 0.7 else mk_bag(r, vt)   # noqa: E731
    else:
        build = lambda r: mk_bag(r, vt)   # noqa: E731
    irecs = []
    for r in recs:
        b = build(r)
        irecs.append([len(b), repr(b)])
    ipairs = []
    ne_bad = []
    for i, j in pairs:
        a, b = build(recs[i]), build(recs[j])
        if hist is None and (i + j) % 3 == 0:
            _ = a["zz_idle"], b[recs[j][0][0]] if recs[j] else None     # idle units looked up (defaultdict inserts them)
        e1 = a == b
        ne = a != b
        e2 = b == a
        e3 = a == b
        if bool(ne) == bool(e1):
            ne_bad.append([i, j])
        r2 = repr(a)
        ipairs.append(["".join("1" if x else "0" for x in (e1, e2, e3)), len(a), None if r2 == irecs[i][1] else r2])
    ans = core.driver().ask({"op": "bag", "vt": vt, "recs": recs, "pairs": pairs, "brief": True,
                             "impl": {"recs": irecs, "pairs": ipairs}})
    props = _blank_props()
    props["C17"] = {"app": True, "nontrivial": any(any(vs for _k, vs in r) for r in recs) and len(pairs) > 0,
                    "k": bool(ans["k"]["C17"]), "o": ans["o"]["C17"]}
    if ne_bad and props["C17"]["o"] is None:
        # `!=` is the other face of "compare equal exactly when …" (seeded change C17-11: an explicit __ne__ looking at
        # the raw key sets, idle units included)
        props["C17"]["o"] = "C17.ne: a != b is not the negation of a == b"
    fails = ans.get("fail", [])
    small = None
    if ne_bad and not fails:
        used = sorted({x for p in ne_bad[:2] for x in p})
        remap = {x: n for n, x in enumerate(used)}
        small = {"kind": "bag", "vt": vt, "recs": [recs[x] for x in used], "pairs": [[remap[a], remap[b]] for a, b in ne_bad[:2]]}
    if fails:
        keep = []
        for f in fails[:4]:
            if "i" in f:
                keep.append(pairs[f["i"]])
            else:
                keep.append([f["rec"], f["rec"]])
        used = sorted({x for p in keep for x in p})
        remap = {x: n for n, x in enumerate(used)}
        small = {"kind": "bag", "vt": vt, "recs": [recs[x] for x in used], "pairs": [[remap[a], remap[b]] for a, b in keep]}
    eq_n = sum(1 for p in ipairs if p[0][0] == "1")
    if small is not None and hist is not None:
        small = {"kind": "bag", "vt": vt, "recs": recs, "pairs": pairs, "hist": hist}   # the history depends on the whole batch
    tags = (["via-history"] if hist is not None else []) + ["vt:" + vt, "units<=%d" % max([len(r) for r in recs] + [0]),
            "entries<=%d" % max([len(vs) for r in recs for _k, vs in r] + [0])]
    if eq_n:
        tags.append("has-equal-pairs")
    if eq_n < len(ipairs):
        tags.append("has-unequal-pairs")
    if any(any(not vs for _k, vs in r) for r in recs):
        tags.append("has-explicit-empty")
    return {"props": props, "tags": tags, "impl": None, "model": fails[:4], "small": small}


def small_records(units, lists, reverse):
    """all records over `units`, every unit absent or holding one of `lists`; insertion order as given or reversed"""
    opts = [None] + lists
    out = []
    for combo in itertools.product(opts, repeat=len(units)):
        ents = [[u, list(l)] for u, l in zip(units, combo) if l is not None]
        if reverse:
            ents.reverse()
        out.append(ents)
    return out


def rand_record(rng, vt, nunits, nent, domain):
    units = rng.sample(["u%d" % i for i in range(nunits + 2)] + ["Alu", "mem 1", "x.y"], rng.randint(0, nunits))
    return [[u, [list(v) if isinstance(v, list) else v for v in (rng.choice(domain) for _ in range(rng.randint(0, nent)))]]
            for u in units]


def record_variants(rng, rec, domain):
    """re-orderings (must be equal) and single edits (mostly unequal) of a record"""
    out = []
    r1 = [[k, list(reversed(vs))] for k, vs in reversed(rec)]
    out.append(r1)
    r2 = [[k, rng.sample(vs, len(vs))] for k, vs in rng.sample(rec, len(rec))]
    out.append(r2)
    out.append([e for e in r2 if e[1]])                       # empties dropped
    out.append(r2 + [["zz_empty", []]])                       # an extra explicitly empty unit
    for k, vs in rec:
        others = [[k2, list(v2)] for k2, v2 in rec if k2 != k]
        out.append(others)                                    # unit dropped
        out.append(others + [[k, []]])                        # unit emptied
        for i in range(len(vs)):
            out.append(others + [[k, vs[:i] + vs[i + 1:]]])   # entry removed
            for d in domain:
                out.append(others + [[k, vs[:i] + [d] + vs[i + 1:]]])   # entry replaced (maybe same)
        for d in domain:
            out.append(others + [[k, vs + [d]]])              # entry added
    for d in domain[:2]:
        out.append([[k, list(vs)] for k, vs in rec] + [["new_unit", [d]]])
    if len(rec) >= 2:
        (k1, v1), (k2, v2) = rec[0], rec[1]
        out.append([[k1, list(v2)], [k2, list(v1)]] + [[k, list(v)] for k, v in rec[2:]])   # lists swapped between units
    return out


# --------------------------------------------------------------------------------------------------
# C14

WS_COMMON = ["", " ", "\t", "  ", " \t", "\t "]
WS_ODD = ["\x0b", "\x0c", "\r", "\x1c", "\x1d", "\x1e", "\x1f", " \x0c ", "\n"]
REG_POOL = ["r1", "R1", "r2", "R2", "R3", "x", "X", "Ab", "aB", "AB", "sp", "$t0", "$T0", "f_1", "F_1", "r10", "a1b2", "_", "zero", "ZERO", "Zero",
            # tokens that look like syntax of richer assembly languages — here they are plain register names
            "#1", "#r", ";x", "//c", "loop:", "r1:", "0x10", "-1", "a..b", "\\", "(r1)", "4(sp)", "r1+", "*", "@a", "%eax", "r=1", "[r2]"]
MNEMONICS = ["add", "ADD", "Add", "sub", "lw", "LW", "sw", "mul.d", "beq", "x", "j", "Ld", "st", "nop1",
             "nop", "NOP", "#op", ";", "//", "loop:", ".text", "end", "mov*", "a:b"]


def gen_ws(rng, nonempty=False, odd=0.06):
    w = rng.choice(WS_ODD) if rng.random() < odd else rng.choice(WS_COMMON)
    if nonempty and not w:
        w = rng.choice([" ", "\t", "  "])
    return w


def gen_token(rng, pool):
    if rng.random() < 0.85:
        t = rng.choice(pool)
        if rng.random() < 0.25:
            t = "".join(c.swapcase() if rng.random() < 0.5 else c for c in t)
        return t
    return "".join(rng.choice("abcXYZ019_$.") for _ in range(rng.randint(1, 5)))


def gen_program_gen(rng, thorough=False):
    n = rng.choice([0, 1, 1, 2, 3]) if rng.random() < 0.3 else rng.randint(0, 20)
    pool = rng.sample(REG_POOL, rng.randint(2, 8))
    if rng.random() < 0.04:
        # scale: a long text over a large register file (dozens of distinct registers, repeated lines)
        n = rng.randint(20, 60)
        pool = ["%s%d" % (rng.choice(["r", "R", "x", "acc"]), k) for k in range(rng.randint(50, 120))]
    instrs, ws = [], []
    for _ in range(n):
        nops = rng.randint(1, 5)
        instrs.append([rng.choice(MNEMONICS) if rng.random() < 0.9 else gen_token(rng, MNEMONICS), [gen_token(rng, pool) for _ in range(nops)]])
        blanks = []
        while rng.random() < 0.25:
            blanks.append(gen_ws(rng) + rng.choice(["\n", "\n", "\n", "", "\r\n"]))
        ws.append({"blanks": blanks, "pre": gen_ws(rng), "sep": gen_ws(rng, True),
                   "commas": [[gen_ws(rng), gen_ws(rng)] for _ in range(nops + 1)],
                   "post": gen_ws(rng) + rng.choice(["\n", "\n", "\n", "\n", "", "\r\n"])})
    tail = []
    while rng.random() < 0.25:
        tail.append(gen_ws(rng) + rng.choice(["\n", ""]))
    fault = None
    if n > 0 and rng.random() < 0.35:
        j = rng.randrange(n)
        nops = len(instrs[j][1])
        r = rng.random()
        if r < 0.25:
            fault = ["noops", j]
        elif r < 0.6:
            fault = ["empty", j, rng.randint(1, nops)]
        elif r < 0.8:
            fault = ["extra", j, nops + 1]          # trailing comma
        else:
            fault = ["extra", j, rng.randint(1, nops + 1)]
    return {"instrs": instrs, "ws": ws, "tail": tail, "fault": fault}


RAW_ALPHA = ["a", "B", "b", "r1", "R1", ",", ",", " ", " ", "\t", "\x0c", "\x1f", "x", ", ", " ,", "1", "\r",
             "\x08", "\x0e", "\x1b", "\x1c", "!", "\x7f", "\x00", "\x0b"]


def gen_raw_lines(rng):
    lines = []
    for _ in range(rng.randint(0, 6)):
        s = "".join(rng.choice(RAW_ALPHA) for _ in range(rng.randint(0, 12)))
        lines.append(s + rng.choice(["\n", "\n", "", " \n"]))
    return lines


def impl_parse(lines, use_file):
    from program_utils import CodeError, read_program

    try:
        with core.watchdog(TIMEOUT):
            # an iterable of lines: a text file, a list, a tuple, a generator — chosen by the content, so a replay repeats it
            shape = sum(len(x) for x in lines) % 4
            if use_file:
                src = io.StringIO("".join(lines))
            elif shape == 1:
                src = tuple(lines)
            elif shape == 2:
                src = (ln for ln in list(lines))
            elif shape == 3:
                src = iter(list(lines))
            else:
                src = list(lines)
            prog = read_program(src)
        return {"ok": [[list(p.sources), p.destination, p.name, p.line] for p in prog]}
    except CodeError as e:
        return err_json(e)
    except Exception as e:  # noqa: BLE001 - any other exception is an observation
        return {"err": {"class": type(e).__name__, "fields": {}, "message": str(e)[:200]}}


def file_safe(lines):
    """the list of lines is what iterating a file holding their concatenation yields"""
    return all(l.endswith("\n") and "\n" not in l[:-1] for l in lines[:-1]) and all("\n" not in l[:-1] for l in lines[-1:]) \
        and all(l != "" for l in lines)


def eval_parse(inp):
    gen = inp.get("gen")
    if gen is not None:
        t = core.driver().ask({"op": "progtext", "gen": gen})
        lines = t["lines"]
    else:
        lines = inp["lines"]
    use_file = bool(inp.get("file")) and file_safe(lines)
    impl = impl_parse(lines, use_file)
    req = {"op": "parse", "lines": lines, "impl": impl}
    if gen is not None:
        req["gen"] = gen
    ans = core.driver().ask(req)
    if gen is not None and not ans.get("lines_match", True):
        raise core.InfraError("progtext/parse disagree on the rendering")
    props = _blank_props()
    nonblank = sum(1 for l in lines if l.strip())
    props["C14"] = {"app": True, "nontrivial": nonblank > 0, "k": bool(ans["k"]["C14"]), "o": ans["o"]["C14"]}
    tags = ["lines:%s" % ("0" if not lines else "1-5" if len(lines) <= 5 else "6-15" if len(lines) <= 15 else "16+"),
            "oracle" if ans.get("oapp") else "k-only", "file" if use_file else "list"]
    if "err" in impl:
        msg = impl["err"]["message"]
        tags.append("err:" + impl["err"]["class"] + (":noops" if msg.startswith("No operands") else ":empty" if msg.startswith("Operand") else ""))
    else:
        tags.append("ok")
        if any(len(set(s.lower() for s in [i[1]] + i[0])) < len([i[1]] + i[0]) for i in impl["ok"]):
            tags.append("dst-in-srcs")
    if gen is not None and gen.get("fault"):
        tags.append("fault:" + gen["fault"][0])
    return {"props": props, "tags": tags, "impl": impl, "model": ans["model"], "small": None, "lines": lines}


# --------------------------------------------------------------------------------------------------
# C15

CAP_POOL = ["ALU", "alu", "Alu", "MEM", "mem", "Mem", "BR", "br", "FPU", "fpu", "div 2", "x", "*", "any", "ALU,MEM", "a|b", "all", "none"]
ISA_MN = ["add", "ADD", "Add", "sub", "SUB", "lw", "Lw", "sw", "beq", "mul", "MUL", "j", "nop", "x1", "X1", "ld.w",
          "NOP", "#op", "a,b", "a|b", "a=b", "*", "any", "loop:", "ld", "add.d", "add.w", "sub.d", "ADD.D", "lw.u"]


def impl_load_isa(isa, caps, as_set):
    from errors import UndefElemError
    from processor_utils import load_isa
    from processor_utils.exception import DupElemError
    from str_utils import ICaseString

    cap_objs = [ICaseString(c) for c in caps]
    arg = frozenset(cap_objs) if as_set else cap_objs
    try:
        with core.watchdog(TIMEOUT):
            res = load_isa([tuple(e) for e in isa], arg)
        return {"ok": [[k, v] for k, v in res.items()]}
    except (DupElemError, UndefElemError) as e:
        return err_json(e)
    except Exception as e:  # noqa: BLE001
        return {"err": {"class": type(e).__name__, "fields": {}, "message": str(e)[:200]}}


def impl_compile(prog, isa_items):
    from errors import UndefElemError
    from program_defs import ProgInstruction
    from program_utils import compile_program

    p = [ProgInstruction(list(s), d, n, l) for s, d, n, l in prog]
    canon = [[list(i.sources), i.destination, i.name, i.line] for i in p]
    try:
        with core.watchdog(TIMEOUT):
            shape = (len(p) + len(isa_items)) % 3       # a list, a tuple or a one-shot generator of instructions
            arg = tuple(p) if shape == 1 else ((i for i in p) if shape == 2 else p)
            hw = compile_program(arg, dict((k, v) for k, v in isa_items))
        out = {"ok": [[list(h.sources), h.destination, h.categ] for h in hw]}
    except UndefElemError as e:
        out = err_json(e)
    except Exception as e:  # noqa: BLE001
        out = {"err": {"class": type(e).__name__, "fields": {}, "message": str(e)[:200]}}
    after = [[list(i.sources), i.destination, i.name, i.line] for i in p]
    return canon, out, after == canon


def merge(props, prop, k, o, nontrivial):
    r = props[prop]
    r["app"] = True
    r["nontrivial"] = r["nontrivial"] or bool(nontrivial)
    r["k"] = r["k"] and bool(k)
    if r["o"] is None and o is not None:
        r["o"] = o


def eval_isa(inp):
    """load_isa (+ compile_program of every program in inp["progs"] with the loaded ISA, or with inp["rawisa"])"""
    isa, caps = inp["isa"], inp["caps"]
    props = _blank_props()
    tags = ["isa:%s" % ("0" if not isa else "1-3" if len(isa) <= 3 else "4-8")]
    impl = impl_load_isa(isa, caps, inp.get("as_set", False) and len({c.lower() for c in caps}) == len(caps))
    ans = core.driver().ask({"op": "isa", "isa": isa, "caps": caps, "impl": impl})
    merge(props, "C15", ans["k"]["C15"], ans["o"]["C15"], len(isa) > 0)
    tags.append("load:" + ("ok" if "ok" in impl else impl["err"]["class"]))
    models = {"isa": ans["model"]}
    impls = {"isa": impl}
    isa_items = impl.get("ok")
    if isa_items is None and inp.get("rawisa") is not None:
        isa_items = inp["rawisa"]
    if isa_items is not None:
        for n, prog in enumerate(inp.get("progs", [])):
            canon, out, unchanged = impl_compile(prog, isa_items)
            a2 = core.driver().ask({"op": "compile", "prog": canon, "isa": isa_items, "impl": out})
            o = a2["o"]["C15"]
            if o is None and not unchanged:
                o = "compile_program modified its input program"
            merge(props, "C15", a2["k"]["C15"], o, len(prog) > 0)
            tags.append("compile:" + ("ok" if "ok" in out else out["err"]["class"]))
            models["compile%d" % n] = a2["model"]
            impls["compile%d" % n] = out
    return {"props": props, "tags": tags, "impl": impls, "model": models, "small": None}


def gen_isa_case(rng):
    ncap = rng.randint(0, 4)
    base = rng.sample(["ALU", "MEM", "BR", "FPU", "div 2", "x", "", "0", "*", "any", "ALU,MEM", "a|b"], ncap)      # "" and "0": legal, falsy-looking names; names that look like wildcards / lists
    caps = ["".join(c.swapcase() if rng.random() < 0.3 else c for c in b) for b in base]
    as_set = rng.random() < 0.7
    if not as_set and caps and rng.random() < 0.5:
        caps.insert(rng.randint(0, len(caps)), rng.choice(caps).swapcase())       # a list with a case-duplicate
    n = rng.choice([0, 1, 2]) if rng.random() < 0.2 else rng.randint(0, 8)
    isa = []
    pool = rng.sample(ISA_MN + ["", "0"], min(len(ISA_MN), n + 2))
    # mnemonics and capabilities live in different name spaces: let them overlap now and then (a mnemonic spelled like an
    # offered capability, a capability spelled like a mnemonic of the table)
    overlap = rng.random() < 0.25
    for _ in range(n):
        m = rng.choice(pool)
        if overlap and caps and rng.random() < 0.4:
            m = rng.choice(caps)
        if rng.random() < 0.15:
            m = m.swapcase()
        r = rng.random()
        if overlap and isa and r < 0.2:
            c = rng.choice(isa)[0] if rng.random() < 0.5 else m
        elif caps and r < 0.86:
            c = rng.choice(caps)
            if rng.random() < 0.4:
                c = "".join(ch.swapcase() if rng.random() < 0.5 else ch for ch in c)
        else:
            c = rng.choice(CAP_POOL)
        isa.append([m, c])
    # prefer collision-free tables most of the time (otherwise most tables are rejected)
    if rng.random() < 0.6:
        seen, kept = set(), []
        for m, c in isa:
            if m.lower() not in seen:
                seen.add(m.lower())
                kept.append([m, c])
        isa = kept
    progs = []
    regs = ["R1", "r2", "R3", "x"]
    for _ in range(rng.randint(1, 2)):
        prog = []
        for ln in range(rng.randint(0, 8)):
            if isa and rng.random() < 0.93:
                name = rng.choice(isa)[0]
                if rng.random() < 0.5:
                    name = "".join(ch.swapcase() if rng.random() < 0.5 else ch for ch in name)
            else:
                name = rng.choice(["zz", "addi", "", "ad"])
            if isa and rng.random() < 0.12:
                # a mnemonic is one token: `add.d` is `ADD.D`, not `ADD` with a suffix; `sub` is not `sub.w` (C15-12)
                base = rng.choice(isa)[0]
                name = base + rng.choice([".d", ".w", ".D", "i", "s"]) if rng.random() < 0.6 else base.split(".")[0]
            srcs = [rng.choice(regs) for _ in range(rng.randint(0, 3))]
            prog.append([srcs, rng.choice(regs), name, ln * rng.randint(1, 3) + 1])
        progs.append(prog)
    inp = {"kind": "isa", "isa": isa, "caps": caps, "as_set": as_set, "progs": progs}
    if rng.random() < 0.1:
        inp["rawisa"] = [[m if rng.random() < 0.5 else m.upper(), c] for m, c in isa]     # a hand-made mapping
    return inp


def eval_abilities(inp):
    from processor_utils import ProcessorDesc, get_abilities, load_isa
    from processor_utils.units import FuncUnit, LockInfo, UnitModel

    def um(name, caps):
        return UnitModel(name, 1, list(caps), LockInfo(True, True), [])

    ins = [um("in%d" % i, c) for i, c in enumerate(inp["in"])]
    ios = [um("io%d" % i, c) for i, c in enumerate(inp["inout"])]
    outs = [FuncUnit(um("out%d" % i, c), ins[:1]) for i, c in enumerate(inp["out"])] if ins else []
    internals = [FuncUnit(um("mid%d" % i, c), ins[:1]) for i, c in enumerate(inp["internal"])] if ins else []
    proc = ProcessorDesc(ins, outs, ios, internals)
    ports = [list(m.capabilities) for m in itertools.chain(proc.in_out_ports, proc.in_ports)]
    with core.watchdog(TIMEOUT):
        ab = get_abilities(proc)
    impl = [str(c) for c in ab]
    ans = core.driver().ask({"op": "abilities", "ports": ports, "impl": impl})
    props = _blank_props()
    merge(props, "C15", ans["k"]["C15"], ans["o"]["C15"], len(ports) > 0)
    tags = ["ports:%s" % ("0" if not ports else "1-2" if len(ports) <= 2 else "3+"),
            "abilities:%s" % ("0" if not impl else "1-2" if len(impl) <= 2 else "3+")]
    if len({c for p in ports for c in p}) > len(impl):
        tags.append("case-variants-merged")
    # the composition used by hw_loading: load_isa(isa, get_abilities(processor))
    isa = inp.get("isa", [])
    sub = eval_isa({"isa": isa, "caps": impl, "as_set": True, "progs": []})
    merge(props, "C15", sub["props"]["C15"]["k"], sub["props"]["C15"]["o"], len(isa) > 0)
    return {"props": props, "tags": tags + sub["tags"], "impl": {"abilities": impl, **sub["impl"]},
            "model": {"abilities": ans["model"], **sub["model"]}, "small": None}


def gen_abilities_case(rng):
    def caps():
        return [rng.choice(CAP_POOL[:9]) for _ in range(rng.randint(1, 3))]

    inp = {"kind": "abilities", "in": [caps() for _ in range(rng.randint(0, 3))], "inout": [caps() for _ in range(rng.randint(0, 2))],
           "out": [["OUTONLY", rng.choice(CAP_POOL)] for _ in range(rng.randint(0, 2))],
           "internal": [["MIDONLY"] for _ in range(rng.randint(0, 1))]}
    inp["isa"] = [[m, rng.choice(CAP_POOL[:9] + ["OUTONLY", "MIDONLY"])] for m in rng.sample(ISA_MN, rng.randint(0, 4))]
    return inp


def gen_yaml_case(rng):
    """a small valid micro-architecture + an ISA mapping (possibly defective), as YAML text"""
    allcaps = rng.sample(["ALU", "MEM", "BR", "FPU"], rng.randint(1, 3))

    def rc(c):
        return c.swapcase() if rng.random() < 0.2 else c

    units, edges = [], []
    shape = rng.choice(["single", "pipe", "fork"])
    if shape == "single":
        units.append({"name": "core", "width": rng.randint(1, 2), "capabilities": [rc(c) for c in allcaps], "readLock": True, "writeLock": True})
        if rng.random() < 0.4:
            units.append({"name": "core2", "width": 1, "capabilities": [rc(allcaps[0])], "readLock": True, "writeLock": True})
    elif shape == "pipe":
        units.append({"name": "fetch", "width": 1, "capabilities": [rc(c) for c in allcaps], "readLock": True})
        units.append({"name": "exec", "width": 1, "capabilities": [rc(c) for c in allcaps] + (["EXTRA"] if rng.random() < 0.3 else []), "writeLock": True})
        edges.append(["fetch", "exec"])
    else:
        units.append({"name": "in1", "width": 1, "capabilities": [rc(allcaps[0])], "readLock": True})
        units.append({"name": "in2", "width": 2, "capabilities": [rc(c) for c in allcaps], "readLock": True})
        units.append({"name": "out", "width": 1, "capabilities": [rc(c) for c in allcaps], "writeLock": True})
        edges += [["in1", "out"], ["IN2" if rng.random() < 0.3 else "in2", "out"]]
    rng.shuffle(units)
    isa = {}
    for m in rng.sample(ISA_MN, rng.randint(0, 6)):
        r = rng.random()
        isa[m] = rc(rng.choice(allcaps)) if r < 0.9 else rng.choice(["EXTRA", "nope", "Div"])
    return {"kind": "yaml", "microarch": {"units": units, "dataPath": edges}, "isa": [[k, v] for k, v in isa.items()]}


def eval_yaml(inp):
    import copy

    import yaml

    import hw_loading
    import processor_utils
    from errors import UndefElemError
    from processor_utils.exception import DupElemError

    props = _blank_props()
    isa_items = inp["isa"]
    text = yaml.safe_dump({"microarch": inp["microarch"], "ISA": dict((k, v) for k, v in isa_items)}, sort_keys=False)
    # what the YAML reader hands to the loaders (part of the trusted base): must be our data again
    back = yaml.safe_load(text)
    if back["microarch"] != inp["microarch"] or list(map(list, back["ISA"].items())) != isa_items:
        raise core.InfraError("YAML round trip altered the generated description")
    try:
        proc = processor_utils.load_proc_desc(copy.deepcopy(inp["microarch"]))
    except Exception as e:  # noqa: BLE001 - generator produced an invalid micro-architecture: not this component's subject
        return {"props": props, "tags": ["yaml:microarch-rejected:" + type(e).__name__], "impl": None, "model": None, "small": None}
    ports = [list(m.capabilities) for m in itertools.chain(proc.in_out_ports, proc.in_ports)]
    try:
        with core.watchdog(TIMEOUT):
            hw = hw_loading.read_processor(io.StringIO(text))
        impl = {"ok": [[k, v] for k, v in hw.isa.items()]}
        ports2 = [list(m.capabilities) for m in itertools.chain(hw.processor.in_out_ports, hw.processor.in_ports)]
        same_proc = sorted(map(sorted, ports2)) == sorted(map(sorted, ports))
    except (DupElemError, UndefElemError) as e:
        impl = err_json(e)
        same_proc = True
    except Exception as e:  # noqa: BLE001
        impl = {"err": {"class": type(e).__name__, "fields": {}, "message": str(e)[:200]}}
        same_proc = True
    a1 = core.driver().ask({"op": "abilities", "ports": ports})
    caps = a1["model"]
    ans = core.driver().ask({"op": "isa", "isa": isa_items, "caps": caps, "impl": impl})
    o = ans["o"]["C15"]
    if o is None and not same_proc:
        o = "read_processor built a different processor than load_proc_desc"
    merge(props, "C15", ans["k"]["C15"], o, len(isa_items) > 0)
    tags = ["yaml:" + ("ok" if "ok" in impl else impl["err"]["class"])]
    return {"props": props, "tags": tags, "impl": impl, "model": ans["model"], "small": None}


# --------------------------------------------------------------------------------------------------
# C16 (rendering function only; the end-to-end CLI check lives in another component)

class _Capture:
    """stands in for sys.stdout while processor_sim is imported: `ResultWriter._writer` is bound to it for good"""

    def __init__(self):
        self.buf = []

    def write(self, s):
        self.buf.append(s)
        return len(s)

    def flush(self):
        pass

    def take(self):
        s = "".join(self.buf)
        self.buf = []
        return s


_capture = None


def _processor_sim():
    global _capture
    core.install_repo()
    if _capture is None:
        if "processor_sim" in sys.modules:
            del sys.modules["processor_sim"]
        cap = _Capture()
        old = sys.stdout
        sys.stdout = cap
        try:
            import processor_sim  # noqa: F401
        finally:
            sys.stdout = old
        _capture = cap
    return sys.modules["processor_sim"], _capture


def diagram_objects(diagram):
    from container_utils import BagValDict
    from sim_services.sim_defs import InstrState, StallState

    return [BagValDict({u: [InstrState(i, StallState(lab)) for i, lab in lst] for u, lst in cyc}) for cyc in diagram]


CSV_SAFE = set("abcdefghijklmnopqrstuvwxyzABCDEFGHIJKLMNOPQRSTUVWXYZ0123456789_.-+:/ ()[]")


def impl_render(diagram, n):
    import csv

    ps, cap = _processor_sim()
    cap.take()
    try:
        with core.watchdog(TIMEOUT):
            rows = ps._get_sim_rows(enumerate(diagram_objects(diagram)), n)
            ps.ResultWriter.print_sim_res(rows)
        text = cap.take()
        table = [list(r) for r in csv.reader(io.StringIO(text), "excel-tab")]
        return {"ok": {"rows": [list(r) for r in rows], "table": table, "text": text}}
    except Exception as e:  # noqa: BLE001 - KeyError / ValueError / IndexError are the documented outcomes for bad diagrams
        cap.take()
        return {"err": {"class": type(e).__name__, "fields": {}, "message": str(e)[:200]}}


def render_rows(diagram_canonical, n):
    """Model rendering of a canonical diagram ([[ [unit, [[idx,"U"|"S"|"D"],…]], … ], …], as comp_sim.table_json)
    for `n` instructions: {"ok": {"rows", "table", "text"}} or {"err": {"class": …}} — for other components."""
    return core.driver().ask({"op": "render", "diagram": diagram_canonical, "n": n})["model"]


def eval_render(inp):
    diagram, n = inp["diagram"], inp["n"]
    impl = impl_render(diagram, n)
    units = {u for cyc in diagram for u, _l in cyc}
    safe = all(set(u) <= CSV_SAFE for u in units)
    ans = core.driver().ask({"op": "render", "diagram": diagram, "n": n, "textsafe": safe, "impl": impl})
    props = _blank_props()
    pre = bool(ans["pre"])
    props["C16"] = {"app": True, "nontrivial": pre and n >= 1 and len(diagram) >= 2, "k": bool(ans["k"]["C16"]), "o": ans["o"]["C16"]}
    tags = ["gapfree" if pre else "illformed", "render:" + ("ok" if "ok" in impl else impl["err"]["class"]),
            "n:%s" % ("0" if n == 0 else "1-3" if n <= 3 else "4+"), "cycles:%s" % ("0" if not diagram else "1-4" if len(diagram) <= 4 else "5+"),
            "textsafe" if safe else "quoted-names"]
    return {"props": props, "tags": tags, "impl": impl, "model": ans["model"], "small": None}


UNIT_NAMES = ["F", "D", "EX", "mem", "WB", "fetch.1", "alu-2", "x_y", "Core 1", 'q"t', "a\tb"]


def gen_diagram(rng, bad=False):
    n = rng.choice([0, 1, 2]) if rng.random() < 0.2 else rng.randint(0, 8)
    units = rng.sample(UNIT_NAMES[:9] if rng.random() < 0.9 else UNIT_NAMES, rng.randint(1, 5))
    cells = {}      # (cycle, unit) -> list of [idx, label]
    start = 0
    last = 0
    for i in range(n):
        start += rng.choice([0, 0, 1, 1, 2])
        span = rng.randint(1, 5)
        t = start
        u = rng.choice(units)
        for s in range(span):
            if s and rng.random() < 0.5:
                u = rng.choice(units)
            cells.setdefault((t, u), []).append([i, rng.choice("USD")])
            t += 1
        last = max(last, t)
    ncyc = last + (rng.choice([0, 0, 0, 1, 2]) if n or rng.random() < 0.5 else 0)
    diagram = []
    for t in range(ncyc):
        cyc = []
        for u in rng.sample(units, len(units)):
            lst = cells.get((t, u), [])
            rng.shuffle(lst)
            if lst or rng.random() < 0.3:
                cyc.append([u, lst])          # explicitly empty lists occur
        diagram.append(cyc)
    if bad and diagram:
        kind = rng.choice(["gap", "missing", "range", "dup", "extra-n"])
        if kind == "extra-n":
            n += rng.randint(1, 2)            # trailing instructions that never appear
        elif kind == "range" and n > 0:
            n -= 1                            # the last instruction's index is now out of range
        else:
            flat = [(t, ci, k) for t, cyc in enumerate(diagram) for ci, (_u, lst) in enumerate(cyc) for k in range(len(lst))]
            if flat:
                t, ci, k = rng.choice(flat)
                if kind == "gap":
                    del diagram[t][ci][1][k]
                elif kind == "missing":
                    i = diagram[t][ci][1][k][0]
                    for cyc in diagram:
                        for e in cyc:
                            e[1][:] = [h for h in e[1] if h[0] != i]
                else:
                    h = diagram[t][ci][1][k]
                    tgt = rng.choice(diagram[t])
                    tgt[1].append([h[0], rng.choice("USD")])
    return {"kind": "render", "diagram": diagram, "n": n}


# --------------------------------------------------------------------------------------------------
# case list, dispatch

EVAL = {"icase": eval_icase, "bag": eval_bag, "parse": eval_parse, "isa": eval_isa, "abilities": eval_abilities,
        "yaml": eval_yaml, "render": eval_render}

_S18 = None
_R17 = {}


def _strings18():
    global _S18
    if _S18 is None:
        _S18 = strings_upto(ALPHA18, 3)
    return _S18


def _records17(nunits):
    if nunits not in _R17:
        units = ["a", "b", "c"][:nunits]
        lists = lists_upto(HI_DOMAIN, 2)
        _R17[nunits] = (small_records(units, lists, False), small_records(units, lists, True))
    return _R17[nunits]


def _corpus():
    path = os.path.join(core.VERIF, "harness", "corpus", "text.json")
    try:
        with open(path) as fh:
            return json.load(fh)
    except FileNotFoundError:
        return []


def cases(tier: str) -> list:
    th = tier == "thorough"
    fam = {
        "C18x": 259, "C18r": 2000 if th else 200, "C18t": 43 * 43, "C18d": 1200 if th else 120, "C18u": 2000 if th else 200,
        "C17x": 196, "C17y": 2744 if th else 0, "C17n": 4000 if th else 400, "C17r": 6000 if th else 600, "C17h": 4000 if th else 400,
        "C14c": 128 * 7, "C14g": 120000 if th else 12000, "C14w": 40000 if th else 4000,
        "C15i": 100000 if th else 10000, "C15a": 20000 if th else 2000, "C15y": 10000 if th else 1000,
        "C16r": 60000 if th else 6000, "C16b": 20000 if th else 2000,
    }
    out = []
    for f, n in fam.items():
        out += ["%s:%d" % (f, i) for i in range(n)]
    # interleave deterministically so that heavy batch cases spread over the pool's chunks
    import random

    random.Random(12345).shuffle(out)
    return ["corpus:%d" % i for i in range(len(_corpus()))] + out


def gen_input(case, tier="quick"):
    fam, _, num = str(case).partition(":")
    i = int(num)
    rng = core.case_rng(NAME, case)
    th = tier == "thorough"
    if fam == "corpus":
        return "corpus", _corpus()[i]["input"]
    if fam == "C18x":
        ss = _strings18()
        return fam, {"kind": "icase", "items": [[ss[i], b] for b in ss]}
    if fam == "C18t":
        s2 = strings_upto(ALPHA18, 2)
        a, b = s2[i // len(s2)], s2[i % len(s2)]
        return fam, {"kind": "icase", "items": [[a, b, c] for c in s2]}
    if fam == "C18r":
        return fam, {"kind": "icase", "items": gen_icase_random(rng, 120)}
    if fam == "C18d":      # instances derived from other instances (attr.evolve, copies, pickle)
        return fam, {"kind": "icase", "items": gen_icase_random(rng, 60), "routes": i}
    if fam == "C18u":      # non-ASCII text: the property's sentence with Python's own str.lower as the folding
        return fam, {"kind": "icase", "items": gen_icase_unicode(rng, 80), "unicode": True, "routes": (i if i % 2 else None)}
    if fam in ("C17x", "C17y"):
        fwd, rev = _records17(2 if fam == "C17x" else 3)
        vt = "hi"
        recs = [fwd[i]] + rev
        if i % 7 == 3:          # the same enumeration over plain integers
            vt = "int"
            m = {json.dumps(v): k for k, v in enumerate(HI_DOMAIN)}
            recs = [[[k, [m[json.dumps(v)] for v in vs]] for k, vs in r] for r in recs]
        return fam, {"kind": "bag", "vt": vt, "recs": recs, "pairs": [[0, j] for j in range(1, len(recs))]}
    if fam in ("C17n", "C17r", "C17h"):
        vt = "hi" if rng.random() < 0.6 else "int"
        if fam == "C17n" or (fam == "C17h" and i % 2):
            domain = HI_DOMAIN if vt == "hi" else INT_DOMAIN
            units = rng.sample(["a", "b", "c"], rng.randint(1, 3))
            rec = [[u, [rng.choice(domain) for _ in range(rng.randint(0, 3))]] for u in units]
        else:
            domain = [[a, b] for a in range(4) for b in "USD"] if vt == "hi" else list(range(-2, 6))
            rec = rand_record(rng, vt, rng.randint(1, 6), rng.randint(1, 7), domain)
        recs = [rec] + record_variants(rng, rec, domain)
        if fam == "C17r":
            recs.append(rand_record(rng, vt, 4, 4, domain))
        pairs = [[0, j] for j in range(len(recs))] + [[j, 0] for j in range(1, len(recs), 3)]
        pairs += [[rng.randrange(len(recs)), rng.randrange(len(recs))] for _ in range(10)]
        if fam == "C17h":       # the same records, reached through histories of in-place changes
            return fam, {"kind": "bag", "vt": vt, "recs": recs, "pairs": pairs, "hist": i}
        return fam, {"kind": "bag", "vt": vt, "recs": recs, "pairs": pairs}
    if fam == "C14g":
        return fam, {"kind": "parse", "gen": gen_program_gen(rng, th), "file": rng.random() < 0.3}
    if fam == "C14c":
        c = chr(i // 7)
        tmpl = ["add%sr1,r2\n" % c, "%ssub r1%s,%sR2%s\n" % (c, c, c, c), c + "\n", "%s%s" % (c, c),
                "mul r1,%s,r3" % c, "x%s\n" % c, "div R1 %s R1,r1\n" % c][i % 7]
        return fam, {"kind": "parse", "lines": ["nop R1\n", tmpl, "end r1, r2"], "file": False}
    if fam == "C14w":
        return fam, {"kind": "parse", "lines": gen_raw_lines(rng), "file": rng.random() < 0.3}
    if fam == "C15i":
        return fam, gen_isa_case(rng)
    if fam == "C15a":
        return fam, gen_abilities_case(rng)
    if fam == "C15y":
        return fam, gen_yaml_case(rng)
    if fam == "C16r":
        return fam, gen_diagram(rng, False)
    if fam == "C16b":
        return fam, gen_diagram(rng, True)
    raise core.InfraError("unknown case " + str(case))


def evaluate(inp: dict) -> dict:
    core.install_repo()
    return EVAL[inp["kind"]](inp)


def run_case(case, tier="quick") -> dict:
    family, inp = gen_input(case, tier)
    res = evaluate(inp)
    out = {"case": case, "family": family, "digest": _digest(inp), "tags": res["tags"], "props": res["props"]}
    bad = any(r["app"] and (not r["k"] or r["o"] is not None) for r in res["props"].values())
    sample = str(case).endswith((":0", ":1"))
    if sample and inp["kind"] in ("icase", "bag"):
        # batches are large: keep a short excerpt as the written-out sample
        inp = dict(inp)
        for key in ("items", "recs", "pairs"):
            if key in inp and isinstance(inp[key], list):
                inp[key] = inp[key][:4]
        inp["excerpt_of_batch"] = True
    if bad or sample:
        small = res.get("small")
        out["input"] = small if (bad and small is not None) else inp
        out["impl"] = res.get("impl")
        out["model"] = res.get("model")
        if "lines" in res:
            out["lines"] = res["lines"]
    return out


def replay(prop: str, inp: dict) -> dict:
    return evaluate(inp)["props"][prop]


def shrink(prop: str, inp: dict, still_fails) -> dict:
    """greedy: batches -> single items; texts -> fewer lines / instructions; ISA tables, programs, diagrams -> fewer entries"""
    def try_list(cur, key, rebuild):
        changed = True
        while changed:
            changed = False
            lst = cur[key]
            for i in range(len(lst) - 1, -1, -1):
                cand = rebuild(cur, lst[:i] + lst[i + 1:], i)
                try:
                    if cand is not None and still_fails(cand):
                        cur, changed = cand, True
                        break
                except Exception:  # noqa: BLE001
                    pass
        return cur

    kind = inp.get("kind")
    if kind == "icase":
        return try_list(inp, "items", lambda c, l, i: {**c, "items": l} if l else None)
    if kind == "bag":
        return try_list(inp, "pairs", lambda c, l, i: {**c, "pairs": l} if l else None)
    if kind == "parse" and inp.get("gen") is None:
        return try_list(inp, "lines", lambda c, l, i: {**c, "lines": l})
    if kind == "parse":
        def rb(c, l, i):
            g = c["gen"]
            f = g.get("fault")
            if f is not None:
                if f[1] == i:
                    return None
                if f[1] > i:
                    f = [f[0], f[1] - 1] + f[2:]
            return {**c, "gen": {**g, "instrs": g["instrs"][:i] + g["instrs"][i + 1:], "ws": g["ws"][:i] + g["ws"][i + 1:], "fault": f}}
        cur = inp
        changed = True
        while changed:
            changed = False
            for i in range(len(cur["gen"]["instrs"]) - 1, -1, -1):
                cand = rb(cur, None, i)
                try:
                    if cand is not None and still_fails(cand):
                        cur, changed = cand, True
                        break
                except Exception:  # noqa: BLE001
                    pass
        return cur
    if kind == "isa":
        cur = try_list(inp, "isa", lambda c, l, i: {**c, "isa": l})
        return try_list(cur, "progs", lambda c, l, i: {**c, "progs": l})
    if kind == "render":
        return try_list(inp, "diagram", lambda c, l, i: {**c, "diagram": l})
    return inp
