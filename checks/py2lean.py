#!/venv/bin/python
"""py2lean — translator from a small, explicitly delimited subset of Python to Lean 4 definitions over `ProcSim.PyLite`.

    checks/py2lean.py reg_access [--repo /repo]        prints the Lean module generated from src/reg_access.py

This is the *translator tie* of DESIGN.md §12: for the modules listed in MODULES the Lean text is regenerated from the
source that is in /repo *now* on every check run, and the equivalence theorems between the generated definitions and the
hand-written model (ProcSim/Props/*gen.lean) are re-checked by Lean against it.

Supported subset (anything else raises `Unsupported` with the source location — the tie is then reported as
unavailable for that tree, never silently approximated):

  * `enum.Enum` classes whose members are `auto()`                      -> inductive type with DecidableEq
  * attrs classes (`@frozen`) with annotated fields, `field(converter=…, factory=…, init=False)`
                                                                         -> structure + constructor function `new`
  * methods / functions whose bodies consist of: docstring, `x = e`, `return e`, `if c: … [else: …]`, `assert e`,
    `del P[-k]`, and expression statements `P.append(e)`, `P.add(e)`, `P.remove(e)`, `P.pop()` where P is a path
    `self(.attr | [-k])*`; calls of other translated methods on `self`
  * expressions: names, attribute access, constant negative index, `==`, `in`, `>`/`<`/`>=`/`<=` on ints, `and`/`or`/`not`
    (by truthiness, short-circuit), `len(e)`, `typing.cast(T, e)` (identity), `{e}` (singleton set), integer constants,
    enum members `Cls.MEMBER`, constructor calls of translated classes, `list(reversed(e))`

Types come from the annotations; `object` / `int` / unannotated element types are resolved through the per-module
table HINTS (a modelling decision recorded in the trusted base: request owners are natural numbers).
"""
from __future__ import annotations

import ast
import hashlib
import os
import sys


class Unsupported(Exception):
    def __init__(self, node, why):
        super().__init__(f"line {getattr(node, 'lineno', '?')}: {why}")


# per module: how un-informative annotations are read
HINTS = {
    "reg_access": {
        "param": {"req_type": "AccessType", "req_owner": "Nat"},
        "field": {"access_type": "AccessType", "reqs": "PySet Nat"},
    }
}
HINTS["sim_utils"] = {
    # the two leaf predicates of the simulator's structural-hazard logic; both flags are consumed by truthiness
    "param": {"mem_busy": "Bool", "mem_req": "Bool", "width": "Nat", "unit_util": "List Nat"},
    "field": {},
    "ret": {"mem_unavail": "Bool"},
}
HINTS["reg_access"]["ret"] = {}
MODULES = {"reg_access": "src/reg_access.py", "sim_utils": "src/sim_services/_utils.py"}


def ann_to_lean(node, hints_kind, name, mod):
    h = HINTS[mod][hints_kind]
    if name in h:
        return h[name]
    if node is None:
        raise Unsupported(node, f"no annotation and no hint for {name}")
    s = ast.unparse(node)
    table = {"int": "Nat", "bool": "Bool", "None": "Unit"}
    if s in table:
        return table[s]
    if isinstance(node, ast.Subscript) and ast.unparse(node.value) in ("list", "collections.abc.Reversible"):
        return f"List {ann_to_lean(node.slice, hints_kind, '', mod)}"
    if isinstance(node, ast.Name):
        return node.id          # a translated class
    raise Unsupported(node, f"annotation {s!r} for {name}")


class Cls:
    def __init__(self, name):
        self.name = name
        self.kind = None            # "enum" | "attrs"
        self.members = []           # enum members
        self.fields = []            # (name, leanType, init: bool, factory: str|None, converter: str|None)
        self.methods = {}           # name -> ast.FunctionDef


class Translator:
    def __init__(self, mod: str, src: str):
        self.mod = mod
        self.tree = ast.parse(src)
        self.classes: dict[str, Cls] = {}
        self.funcs: dict[str, ast.FunctionDef] = {}
        self.out: list[str] = []
        self.aliases: dict = {}
        self.assigned: set = set()
        self.collect()

    # ------------------------------------------------------------------ collection
    def collect(self):
        for node in self.tree.body:
            if isinstance(node, (ast.Import, ast.ImportFrom)):
                continue
            if isinstance(node, ast.Expr) and isinstance(node.value, ast.Constant):
                continue            # module docstring
            if isinstance(node, ast.FunctionDef):
                self.funcs[node.name] = node
            elif isinstance(node, ast.ClassDef):
                self.collect_class(node)
            else:
                raise Unsupported(node, f"top-level statement {type(node).__name__}")

    def collect_class(self, node: ast.ClassDef):
        c = Cls(node.name)
        bases = [ast.unparse(b) for b in node.bases]
        decos = [ast.unparse(d) for d in node.decorator_list]
        if bases == ["enum.Enum"] and not decos:
            c.kind = "enum"
        elif decos == ["frozen"] and not bases:
            c.kind = "attrs"
        else:
            raise Unsupported(node, f"class {node.name} with bases {bases} decorators {decos}")
        for st in node.body:
            if isinstance(st, ast.Expr) and isinstance(st.value, ast.Constant):
                continue
            if c.kind == "enum":
                if (isinstance(st, ast.Assign) and len(st.targets) == 1 and isinstance(st.targets[0], ast.Name)
                        and ast.unparse(st.value) == "auto()"):
                    c.members.append(st.targets[0].id)
                    continue
                raise Unsupported(st, "enum body")
            if isinstance(st, ast.FunctionDef):
                if st.decorator_list:
                    raise Unsupported(st, "decorated method")
                c.methods[st.name] = st
            elif isinstance(st, ast.AnnAssign) and isinstance(st.target, ast.Name):
                c.fields.append(self.field_of(st))
            else:
                raise Unsupported(st, f"class body statement {type(st).__name__}")
        self.classes[node.name] = c

    def field_of(self, st: ast.AnnAssign):
        name = st.target.id
        ty = ann_to_lean(st.annotation, "field", name, self.mod)
        init, factory, converter = True, None, None
        if st.value is not None:
            v = st.value
            if not (isinstance(v, ast.Call) and ast.unparse(v.func) == "field" and not v.args):
                raise Unsupported(st, "field default other than attr.field(...)")
            for kw in v.keywords:
                if kw.arg == "init" and isinstance(kw.value, ast.Constant):
                    init = bool(kw.value.value)
                elif kw.arg == "factory" and isinstance(kw.value, ast.Name):
                    factory = kw.value.id
                elif kw.arg == "converter" and isinstance(kw.value, ast.Name):
                    converter = kw.value.id
                else:
                    raise Unsupported(st, f"field option {kw.arg}")
        return (name, ty, init, factory, converter)

    # ------------------------------------------------------------------ expressions
    # every expression is translated to a Lean *term* that may contain nested actions `(← …)`; it must therefore be
    # placed inside a `do` block.  `ctx` carries the local type environment (only used to pick constructors).
    def is_path_expr(self, e) -> bool:
        """Name(self | alias) followed by attribute accesses and constant negative indexes"""
        if isinstance(e, ast.Name):
            return e.id == "self" or e.id in self.aliases
        if isinstance(e, ast.Attribute):
            return self.is_path_expr(e.value)
        if isinstance(e, ast.Subscript):
            try:
                self.neg_index(e.slice)
            except Unsupported:
                return False
            return self.is_path_expr(e.value)
        return False

    def expr(self, e, cls: Cls | None) -> str:
        if isinstance(e, ast.Name) and e.id in self.aliases:
            if self.aliases[e.id] is None:
                raise Unsupported(e, f"local {e.id} aliases an element of a list that was structurally changed since")
            return self.expr(self.aliases[e.id], cls)      # an alias is re-read through its path (see `Assign`)
        if isinstance(e, ast.Name):
            return e.id
        if isinstance(e, ast.Constant) and isinstance(e.value, bool):
            return "true" if e.value else "false"
        if isinstance(e, ast.Constant) and isinstance(e.value, int) and e.value >= 0:
            return str(e.value)
        if isinstance(e, ast.Attribute):
            if isinstance(e.value, ast.Name) and e.value.id in self.classes and self.classes[e.value.id].kind == "enum":
                if e.attr not in self.classes[e.value.id].members:
                    raise Unsupported(e, f"unknown enum member {e.attr}")
                return f"{e.value.id}.{e.attr}"
            return f"({self.expr(e.value, cls)}).{e.attr}"
        if isinstance(e, ast.Subscript):
            k = self.neg_index(e.slice)
            return f"(← idxNeg ({self.expr(e.value, cls)}) {k})"
        if isinstance(e, ast.Compare):
            if len(e.ops) != 1:
                raise Unsupported(e, "chained comparison")
            a, b, op = self.expr(e.left, cls), self.expr(e.comparators[0], cls), e.ops[0]
            if isinstance(op, ast.Eq):
                return f"(pyEq ({a}) ({b}))"
            if isinstance(op, ast.NotEq):
                return f"(!(pyEq ({a}) ({b})))"
            if isinstance(op, ast.In):
                return f"(pyIn ({a}) ({b}))"
            if isinstance(op, ast.NotIn):
                return f"(!(pyIn ({a}) ({b})))"
            sym = {ast.Gt: ">", ast.Lt: "<", ast.GtE: "≥", ast.LtE: "≤"}.get(type(op))
            if sym:
                return f"(decide (({a} : Nat) {sym} ({b} : Nat)))"
            raise Unsupported(e, f"comparison {type(op).__name__}")
        if isinstance(e, ast.BoolOp):
            fn = "pyAnd" if isinstance(e.op, ast.And) else "pyOr"
            parts = [f"(do pure (truthy ({self.expr(v, cls)})))" for v in e.values]
            acc = parts[-1]
            for p in reversed(parts[:-1]):
                acc = f"({fn} {p} {acc})"
            return f"(← {acc})"
        if isinstance(e, ast.UnaryOp) and isinstance(e.op, ast.Not):
            return f"(!(truthy ({self.expr(e.operand, cls)})))"
        if isinstance(e, ast.Set):
            if len(e.elts) != 1:
                raise Unsupported(e, "set display with other than one element")
            return f"(PySet.single ({self.expr(e.elts[0], cls)}))"
        if isinstance(e, ast.Call):
            return self.call(e, cls)
        raise Unsupported(e, f"expression {type(e).__name__}: {ast.unparse(e)}")

    def neg_index(self, s) -> int:
        if isinstance(s, ast.UnaryOp) and isinstance(s.op, ast.USub) and isinstance(s.operand, ast.Constant) \
                and isinstance(s.operand.value, int) and s.operand.value >= 1:
            return s.operand.value
        raise Unsupported(s, f"index {ast.unparse(s)} (only negative constants)")

    def call(self, e: ast.Call, cls: Cls | None) -> str:
        f = ast.unparse(e.func)
        if e.keywords:
            raise Unsupported(e, "keyword arguments")
        if f == "len" and len(e.args) == 1:
            return f"(pyLen ({self.expr(e.args[0], cls)}))"
        if f == "typing.cast" and len(e.args) == 2:
            return self.expr(e.args[1], cls)        # identity at run time
        if f == "list" and len(e.args) == 1 and isinstance(e.args[0], ast.Call) \
                and ast.unparse(e.args[0].func) == "reversed" and len(e.args[0].args) == 1:
            return f"(reversedList ({self.expr(e.args[0].args[0], cls)}))"
        if f in self.classes and self.classes[f].kind == "attrs":
            args = " ".join(f"({self.expr(a, cls)})" for a in e.args)
            return f"(← {f}.new {args})"
        if f in self.funcs:
            args = " ".join(f"({self.expr(a, cls)})" for a in e.args)
            return f"(← {f} {args})"
        if isinstance(e.func, ast.Attribute) and isinstance(e.func.value, ast.Name) and e.func.value.id == "self" \
                and cls is not None and e.func.attr in cls.methods:
            m = e.func.attr
            if self.mutating(cls, m):
                raise Unsupported(e, f"call of mutating method {m} inside an expression")
            args = " ".join(f"({self.expr(a, cls)})" for a in e.args)
            return f"(← {cls.name}.{m} self {args})"
        raise Unsupported(e, f"call of {f}")

    # ------------------------------------------------------------------ mutation through paths rooted at self
    def path(self, e) -> list:
        """self(.attr | [-k])*  ->  [("attr", name) | ("idx", k)]"""
        if isinstance(e, ast.Name) and e.id == "self":
            return []
        if isinstance(e, ast.Name) and e.id in self.aliases:
            if self.aliases[e.id] is None:
                raise Unsupported(e, f"local {e.id} aliases an element of a list that was structurally changed since")
            return self.path(self.aliases[e.id])
        if isinstance(e, ast.Attribute):
            return self.path(e.value) + [("attr", e.attr)]
        if isinstance(e, ast.Subscript):
            return self.path(e.value) + [("idx", self.neg_index(e.slice))]
        raise Unsupported(e, f"mutation through {ast.unparse(e)} (only paths rooted at self)")

    def update_path(self, path: list, op: str, ind: str) -> list[str]:
        """lines of a `do` block computing the new `self` after applying `op` (a Lean function body over `v<n>`,
        yielding `PyM _`) at the end of `path`"""
        lines, cur = [], "self"
        names = [cur]
        for i, (kind, x) in enumerate(path):
            v = f"v{i + 1}"
            if kind == "attr":
                lines.append(f"let {v} := {cur}.{x}")
            else:
                lines.append(f"let {v} ← idxNeg {cur} {x}")
            names.append(v)
            cur = v
        lines.append(f"let {cur}' ← {op.format(v=cur)}")
        for i in range(len(path) - 1, -1, -1):
            kind, x = path[i]
            parent, child = names[i], names[i + 1]
            if kind == "attr":
                lines.append(f"let {parent}' := {{ {parent} with {x} := {child}' }}")
            else:
                lines.append(f"let {parent}' ← setIdxNeg {parent} {x} {child}'")
        lines.append("pure self'")
        return [ind + ln for ln in lines]

    def structural(self, p: list) -> None:
        """a list at path `p` gained / lost elements: aliases reaching *through* it no longer denote the same object"""
        for name, rhs in list(self.aliases.items()):
            if rhs is None:
                continue
            q = self.path(rhs)
            if len(q) > len(p) and q[:len(p)] == p:
                self.aliases[name] = None

    def mutating(self, cls: Cls, m: str, seen=None) -> bool:
        seen = seen or set()
        if m in seen:
            raise Unsupported(cls.methods[m], "recursive methods")
        seen = seen | {m}
        for node in ast.walk(cls.methods[m]):
            if isinstance(node, ast.Delete):
                return True
            if isinstance(node, ast.Expr) and isinstance(node.value, ast.Call) and isinstance(node.value.func, ast.Attribute):
                fn = node.value.func
                if fn.attr in ("append", "add", "remove", "pop"):
                    return True
                if isinstance(fn.value, ast.Name) and fn.value.id == "self" and fn.attr in cls.methods \
                        and self.mutating(cls, fn.attr, seen):
                    return True
        return False

    # ------------------------------------------------------------------ statements
    def stmts(self, body, cls, mut: bool, ind: str) -> list[str]:
        out = []
        for st in body:
            if isinstance(st, ast.Expr) and isinstance(st.value, ast.Constant) and isinstance(st.value.value, str):
                continue
            if isinstance(st, ast.Return):
                val = "()" if st.value is None else self.expr(st.value, cls)
                out.append(f"{ind}return ({val}, self)" if mut else f"{ind}return {val}")
            elif isinstance(st, ast.Assign):
                if len(st.targets) != 1 or not isinstance(st.targets[0], ast.Name):
                    raise Unsupported(st, "assignment target")
                name = st.targets[0].id
                if name == "self" or name in self.assigned:
                    raise Unsupported(st, f"re-assignment of {name}")
                self.assigned.add(name)
                if mut and self.is_path_expr(st.value):
                    # a local naming an object reachable from self: Python binds a *reference*.  The translation
                    # evaluates the path once here (so that an exception is raised where Python raises it) and re-reads
                    # it at every use — the same object as long as no list on the path changed its elements since
                    # (`structural` invalidates the alias otherwise).
                    out.append(f"{ind}let _ := {self.expr(st.value, cls)}")
                    self.aliases[name] = st.value
                else:
                    out.append(f"{ind}let {name} := {self.expr(st.value, cls)}")
            elif isinstance(st, ast.Assert):
                out.append(f"{ind}pyAssert (truthy ({self.expr(st.test, cls)}))")
            elif isinstance(st, ast.If):
                out.append(f"{ind}if truthy ({self.expr(st.test, cls)}) then")
                before = dict(self.aliases)
                out += self.stmts(st.body, cls, mut, ind + "  ") or [f"{ind}  pure ()"]
                after_then = self.aliases
                self.aliases = dict(before)
                if st.orelse:
                    out.append(f"{ind}else")
                    out += self.stmts(st.orelse, cls, mut, ind + "  ")
                after_else = self.aliases
                self.aliases = {n: (v if after_then.get(n) is not None and after_else.get(n) is not None else None)
                                for n, v in before.items()}
            elif isinstance(st, ast.Delete):
                if not mut or len(st.targets) != 1 or not isinstance(st.targets[0], ast.Subscript):
                    raise Unsupported(st, "del")
                t = st.targets[0]
                k = self.neg_index(t.slice)
                p = self.path(t.value)
                self.structural(p)
                out.append(f"{ind}self ← (do")
                out += self.update_path(p, f"delIdxNeg {{v}} {k}", ind + "  ")
                out[-1] += ")"
            elif isinstance(st, ast.Expr) and isinstance(st.value, ast.Call) and isinstance(st.value.func, ast.Attribute):
                call, fn = st.value, st.value.func
                if call.keywords:
                    raise Unsupported(st, "keyword arguments")
                if isinstance(fn.value, ast.Name) and fn.value.id == "self" and fn.attr in cls.methods:
                    args = " ".join(f"({self.expr(a, cls)})" for a in call.args)
                    if self.mutating(cls, fn.attr):
                        out.append(f"{ind}self := (← {cls.name}.{fn.attr} self {args}).2")
                    else:
                        out.append(f"{ind}let _ ← {cls.name}.{fn.attr} self {args}")
                    continue
                if fn.attr == "pop" and not call.args and mut:
                    # result unused: `P.pop()` is `del P[-1]` (IndexError on an empty list either way)
                    self.structural(self.path(fn.value))
                    out.append(f"{ind}self ← (do")
                    out += self.update_path(self.path(fn.value), "delIdxNeg {v} 1", ind + "  ")
                    out[-1] += ")"
                    continue
                if fn.attr not in ("append", "add", "remove") or len(call.args) != 1 or not mut:
                    raise Unsupported(st, f"expression statement {ast.unparse(st)}")
                arg = self.expr(call.args[0], cls)
                op = {"append": "pure (pyAppend {v} __a)", "add": "pure (pyAdd {v} __a)", "remove": "pyRemove {v} __a"}[fn.attr]
                p = self.path(fn.value)
                if fn.attr == "append":
                    self.structural(p)
                out.append(f"{ind}let __a := {arg}")
                out.append(f"{ind}self ← (do")
                out += self.update_path(p, op, ind + "  ")
                out[-1] += ")"
            else:
                raise Unsupported(st, f"statement {type(st).__name__}")
        return out

    # ------------------------------------------------------------------ definitions
    def ret_type(self, fn: ast.FunctionDef) -> str:
        if fn.name in HINTS[self.mod].get("ret", {}):
            return HINTS[self.mod]["ret"][fn.name]
        if fn.returns is None:
            raise Unsupported(fn, "missing return annotation")
        return ann_to_lean(fn.returns, "param", "", self.mod)

    def params(self, fn: ast.FunctionDef, skip_self: bool) -> str:
        a = fn.args
        if a.vararg or a.kwarg or a.kwonlyargs or a.defaults or a.posonlyargs:
            raise Unsupported(fn, "parameter kinds")
        ps = a.args[1:] if skip_self else a.args
        return " ".join(f"({p.arg} : {ann_to_lean(p.annotation, 'param', p.arg, self.mod)})" for p in ps)

    def ends_with_return(self, body) -> bool:
        last = body[-1]
        if isinstance(last, ast.Return):
            return True
        if isinstance(last, ast.If) and last.orelse:
            return self.ends_with_return(last.body) and self.ends_with_return(last.orelse)
        return False

    def emit_method(self, cls: Cls, name: str):
        fn = cls.methods[name]
        mut = self.mutating(cls, name)
        rt = self.ret_type(fn)
        ps = self.params(fn, True)
        full = f"{rt} × {cls.name}" if mut else rt
        self.out.append(f"/-- `{cls.name}.{name}`{' — mutates self: returns the new self' if mut else ''} -/")
        self.aliases, self.assigned = {}, {a.arg for a in fn.args.args}
        self.out.append(f"def {cls.name}.{name} (self : {cls.name}) {ps} : PyM ({full}) := do")
        if mut:
            self.out.append("  let mut self := self")
        body = self.stmts(fn.body, cls, mut, "  ")
        self.out += body
        if not self.ends_with_return(fn.body):
            if rt != "Unit":
                raise Unsupported(fn, "falls off the end but is not annotated -> None")
            self.out.append("  return ((), self)" if mut else "  return ()")
        self.out.append("")

    def emit_func(self, name: str):
        fn = self.funcs[name]
        self.out.append(f"/-- `{name}` -/")
        self.aliases, self.assigned = {}, {a.arg for a in fn.args.args}
        self.out.append(f"def {name} {self.params(fn, False)} : PyM ({self.ret_type(fn)}) := do")
        self.out += self.stmts(fn.body, None, False, "  ")
        self.out.append("")

    def emit_class(self, c: Cls):
        if c.kind == "enum":
            self.out.append(f"/-- `class {c.name}(enum.Enum)` -/")
            self.out.append(f"inductive {c.name}")
            self.out += [f"  | {m}" for m in c.members]
            self.out.append("deriving DecidableEq, Repr")
            self.out.append(f"instance : PyEq {c.name} := ⟨fun a b => decide (a = b)⟩")
            self.out.append("")
            return
        self.out.append(f"/-- `@frozen class {c.name}` -/")
        self.out.append(f"structure {c.name} where")
        self.out += [f"  {n} : {t}" for n, t, *_ in c.fields]
        self.out.append("")
        # constructor: positional init fields; a trailing init field with a factory may be omitted (only that form is used)
        init = [f for f in c.fields if f[2]]
        variants = [init]
        if init and init[-1][3] is not None:
            variants.append(init[:-1])
        for k, given in enumerate(variants):
            nm = "new" if k == 0 and len(variants) == 1 else ("newFull" if k == 0 else "new")
            ps = " ".join(f"({n} : {self.conv_in_type(f)})" for f in given for n in [f[0]])
            self.out.append(f"/-- `{c.name}({', '.join(f[0] for f in given)})`: attrs-generated `__init__` (factories, then converters) -/")
            self.out.append(f"def {c.name}.{nm} {ps} : PyM {c.name} := do")
            for f in c.fields:
                n, t, ini, factory, conv = f
                if f not in given:
                    if factory is None:
                        raise Unsupported(None, f"field {n} has no value")
                    self.out.append(f"  let {n} : {t} := {self.factory(factory, t)}")
                if conv is not None:
                    self.out.append(f"  let {n} : {t} ← {self.converter(conv, n)}")
            self.out.append(f"  return {{ {', '.join(f'{f[0]} := {f[0]}' for f in c.fields)} }}")
            self.out.append("")

    def conv_in_type(self, f):
        return f[1]

    def factory(self, name: str, ty: str) -> str:
        if name == "set" and ty.startswith("PySet"):
            return "PySet.empty"
        if name == "list" and ty.startswith("List"):
            return "[]"
        raise Unsupported(None, f"factory {name} for {ty}")

    def converter(self, name: str, arg: str) -> str:
        if name == "set":
            return f"pure (PySet.copy {arg})"
        if name in self.funcs:
            return f"{name} {arg}"
        raise Unsupported(None, f"converter {name}")

    def deps(self, node) -> set[str]:
        d = set()
        for n in ast.walk(node):
            if isinstance(n, ast.Name) and (n.id in self.funcs or n.id in self.classes):
                d.add(n.id)
        if isinstance(node, ast.ClassDef) and node.name in self.classes:
            import re
            for f in self.classes[node.name].fields:          # types that come from HINTS
                d |= {w for w in re.findall(r"[A-Za-z_][A-Za-z_0-9]*", f[1]) if w in self.classes}
            for m in self.classes[node.name].methods.values():
                for a in m.args.args[1:]:
                    t = ann_to_lean(a.annotation, "param", a.arg, self.mod)
                    d |= {w for w in re.findall(r"[A-Za-z_][A-Za-z_0-9]*", t) if w in self.classes}
        return d

    def translate(self, digest: str) -> str:
        self.out = [
            "import ProcSim.PyLite",
            f"/-! GENERATED by checks/py2lean.py from {MODULES[self.mod]} — do not edit.",
            "Regenerated and re-checked against the equivalence theorems on every check run. -/",
            f"namespace ProcSim.Gen.{self.mod}",
            "open PyLite",
            "",
        ]
        # order: functions and classes in dependency order (a class depends on what its fields' converters and its
        # methods mention); methods of a class in call order
        items = {**{n: ("f", f) for n, f in self.funcs.items()}, **{n: ("c", c) for n, c in self.classes.items()}}
        done: list[str] = []

        def node_of(n):
            kind, x = items[n]
            if kind == "f":
                return [x]
            cdef = next(c for c in self.tree.body if isinstance(c, ast.ClassDef) and c.name == n)
            return [cdef]

        def visit(n, stack=()):
            if n in done:
                return
            if n in stack:
                raise Unsupported(None, f"cyclic dependency through {n}")
            for nd in node_of(n):
                for d in sorted(self.deps(nd) - {n}):
                    visit(d, stack + (n,))
            done.append(n)

        for n in items:
            visit(n)
        for n in done:
            kind, x = items[n]
            if kind == "f":
                self.emit_func(n)
            else:
                self.emit_class(x)
                order: list[str] = []

                def mvisit(m, stack=()):
                    if m in order:
                        return
                    if m in stack:
                        raise Unsupported(x.methods[m], "recursive methods")
                    for node in ast.walk(x.methods[m]):
                        if isinstance(node, ast.Attribute) and isinstance(node.value, ast.Name) and node.value.id == "self" \
                                and node.attr in x.methods and node.attr != m:
                            mvisit(node.attr, stack + (m,))
                    order.append(m)

                for m in x.methods:
                    mvisit(m)
                for m in order:
                    self.emit_method(x, m)
        self.out.append(f"end ProcSim.Gen.{self.mod}")
        return "\n".join(self.out) + "\n"


def generate(mod: str, repo: str = "/repo") -> str:
    path = os.path.join(repo, MODULES[mod])
    src = open(path, encoding="utf-8").read()
    digest = hashlib.sha256(ast.dump(ast.parse(src), include_attributes=False).encode()).hexdigest()[:16]
    return Translator(mod, src).translate(digest)


if __name__ == "__main__":
    repo = "/repo"
    if "--repo" in sys.argv:
        repo = sys.argv[sys.argv.index("--repo") + 1]
    try:
        sys.stdout.write(generate(sys.argv[1], repo))
    except Unsupported as e:
        print("UNSUPPORTED:", e, file=sys.stderr)
        sys.exit(3)
