#!/venv/bin/python
"""py2lean — translator from a small, explicitly delimited subset of Python to Lean 4 definitions over `ProcSim.PyLite`.

    checks/py2lean.py reg_access [--repo /repo]        prints the Lean module generated from src/reg_access.py

This is the *translator tie* of DESIGN.md §12: for the modules listed in MODULES the Lean text is regenerated from the
source that is in /repo *now* on every check run, and the equivalence theorems between the generated definitions and the
hand-written model (ProcSim/Props/*gen.lean) are re-checked by Lean against it.

Supported subset (anything else raises `Unsupported` with the source location — the tie is then reported as
unavailable for that tree, never silently approximated):

  * `enum.Enum` classes whose members are `auto()`                      -> inductive type with DecidableEq
  * attrs classes (`@frozen`) with annotated fields, `field(converter=…, factory=…, init=False)`
                                                                         -> structure + constructor function `new`
  * methods / functions whose bodies consist of: docstring, `x = e`, `return e`, `if c: … [else: …]`, `assert e`,
    `del P[-k]`, and expression statements `P.append(e)`, `P.add(e)`, `P.remove(e)`, `P.pop()` where P is a path
    `self(.attr | [-k])*`; calls of other translated methods on `self`
  * expressions: names, attribute access, constant negative index, `==`, `in`, `>`/`<`/`>=`/`<=` on ints, `and`/`or`/`not`
    (by truthiness, short-circuit), `len(e)`, `typing.cast(T, e)` (identity), `{e}` (singleton set), integer constants,
    enum members `Cls.MEMBER`, constructor calls of translated classes, `list(reversed(e))`

Types come from the annotations; `object` / `int` / unannotated element types are resolved through the per-module
table HINTS (a modelling decision recorded in the trusted base: request owners are natural numbers).
"""
from __future__ import annotations

import ast
import hashlib
import os
import sys


class Unsupported(Exception):
    def __init__(self, node, why):
        super().__init__(f"line {getattr(node, 'lineno', '?')}: {why}")


# per module: how un-informative annotations are read
HINTS = {
    "reg_access": {
        "param": {"req_type": "AccessType", "req_owner": "Nat"},
        "field": {"access_type": "AccessType", "reqs": "PySet Nat"},
    }
}
HINTS["sim_utils"] = {
    # the two leaf predicates of the simulator's structural-hazard logic; both flags are consumed by truthiness
    "param": {"mem_busy": "Bool", "mem_req": "Bool", "width": "Nat", "unit_util": "List Nat"},
    "field": {},
    "ret": {"mem_unavail": "Bool"},
}
HINTS["reg_access"]["ret"] = {}
MODULES = {"reg_access": "src/reg_access.py", "sim_utils": "src/sim_services/_utils.py"}


def ann_to_lean(node, hints_kind, name, mod):
    h = HINTS[mod][hints_kind]
    if name in h:
        return h[name]
    if node is None:
        raise Unsupported(node, f"no annotation and no hint for {name}")
    s = ast.unparse(node)
    table = {"int": "Nat", "bool": "Bool", "None": "Unit"}
    if s in table:
        return table[s]
    if isinstance(node, ast.Subscript) and ast.unparse(node.value) in ("list", "collections.abc.Reversible"):
        return f"List {ann_to_lean(node.slice, hints_kind, '', mod)}"
    if isinstance(node, ast.Name):
        return node.id          # a translated class
    raise Unsupported(node, f"annotation {s!r} for {name}")


class Cls:
    def __init__(self, name):
        self.name = name
        self.kind = None            # "enum" | "attrs"
        self.members = []           # enum members
        self.fields = []            # (name, leanType, init: bool, factory: str|None, converter: str|None)
        self.methods = {}           # name -> ast.FunctionDef


class Translator:
    def __init__(self, mod: str, src: str):
        self.mod = mod
        self.tree = ast.parse(src)
        self.classes: dict[str, Cls] = {}
        self.funcs: dict[str, ast.FunctionDef] = {}
        self.out: list[str] = []
        self.aliases: dict = {}
        self.assigned: set = set()
        self.collect()

    # ------------------------------------------------------------------ collection
    def collect(self):
        for node in self.tree.body:
            if isinstance(node, (ast.Import, ast.ImportFrom)):
                continue
            if isinstance(node, ast.Expr) and isinstance(node.value, ast.Constant):
                continue            # module docstring
            if isinstance(node, ast.FunctionDef):
                self.funcs[node.name] = node
            elif isinstance(node, ast.ClassDef):
                self.collect_class(node)
            else:
                raise Unsupported(node, f"top-level statement {type(node).__name__}")

    def collect_class(self, node: ast.ClassDef):
        c = Cls(node.name)
        bases = [ast.unparse(b) for b in node.bases]
        decos = [ast.unparse(d) for d in node.decorator_list]
        if bases == ["enum.Enum"] and not decos:
            c.kind = "enum"
        elif decos == ["frozen"] and not bases:
            c.kind = "attrs"
        else:
            raise Unsupported(node, f"class {node.name} with bases {bases} decorators {decos}")
        for st in node.body:
            if isinstance(st, ast.Expr) and isinstance(st.value, ast.Constant):
                continue
            if c.kind == "enum":
                if (isinstance(st, ast.Assign) and len(st.targets) == 1 and isinstance(st.targets[0], ast.Name)
                        and ast.unparse(st.value) == "auto()"):
                    c.members.append(st.targets[0].id)
                    continue
                raise Unsupported(st, "enum body")
            if isinstance(st, ast.FunctionDef):
                if st.decorator_list:
                    raise Unsupported(st, "decorated method")
                c.methods[st.name] = st
            elif isinstance(st, ast.AnnAssign) and isinstance(st.target, ast.Name):
                c.fields.append(self.field_of(st))
            else:
                raise Unsupported(st, f"class body statement {type(st).__name__}")
        self.classes[node.name] = c

    def field_of(self, st: ast.AnnAssign):
        name = st.target.id
        ty = ann_to_lean(st.annotation, "field", name, self.mod)
        init, factory, converter = True, None, None
        if st.value is not None:
            v = st.value
            if not (isinstance(v, ast.Call) and ast.unparse(v.func) == "field" and not v.args):
                raise Unsupported(st, "field default other than attr.field(...)")
            for kw in v.keywords:
                if kw.arg == "init" and isinstance(kw.value, ast.Constant):
                    init = bool(kw.value.value)
                elif kw.arg == "factory" and isinstance(kw.value, ast.Name):
                    factory = kw.value.id
                elif kw.arg == "converter" and isinstance(kw.value, ast.Name):
                    converter = kw.value.id
                else:
                    raise Unsupported(st, f"field option {kw.arg}")
        return (name, ty, init, factory, converter)

    # ------------------------------------------------------------------ expressions
    # every expression is translated to a Lean *term* that may contain nested actions `(← …)`; it must therefore be
    # placed inside a `do` block.  `ctx` carries the local type environment (only used to pick constructors).
    def is_path_expr(self, e) -> bool:
        """Name(self | alias) followed by attribute accesses and constant negative indexes"""
        if isinstance(e, ast.Name):
            return e.id == "self" or e.id in self.aliases
        if isinstance(e, ast.Attribute):
            return self.is_path_expr(e.value)
        if isinstance(e, ast.Subscript):
            try:
                self.neg_index(e.slice)
            except Unsupported:
                return False
            return self.is_path_expr(e.value)
        return False

    def expr(self, e, cls: Cls | None) -> str:
        if isinstance(e, ast.Name) and e.id in self.aliases:
            if self.aliases[e.id] is None:
                raise Unsupported(e, f"local {e.id} aliases an element of a list that was structurally changed since")
            return self.expr(self.aliases[e.id], cls)      # an alias is re-read through its path (see `Assign`)
        if isinstance(e, ast.Name):
            return e.id
        if isinstance(e, ast.Constant) and isinstance(e.value, bool):
            return "true" if e.value else "false"
        if isinstance(e, ast.Constant) and isinstance(e.value, int) and e.value >= 0:
            return str(e.value)
        if isinstance(e, ast.Attribute):
            if isinstance(e.value, ast.Name) and e.value.id in self.classes and self.classes[e.value.id].kind == "enum":
                if e.attr not in self.classes[e.value.id].members:
                    raise Unsupported(e, f"unknown enum member {e.attr}")
                return f"{e.value.id}.{e.attr}"
            return f"({self.expr(e.value, cls)}).{e.attr}"
        if isinstance(e, ast.Subscript):
            k = self.neg_index(e.slice)
            return f"(← idxNeg ({self.expr(e.value, cls)}) {k})"
        if isinstance(e, ast.Compare):
            if len(e.ops) != 1:
                raise Unsupported(e, "chained comparison")
            a, b, op = self.expr(e.left, cls), self.expr(e.comparators[0], cls), e.ops[0]
            if isinstance(op, ast.Eq):
                return f"(pyEq ({a}) ({b}))"
            if isinstance(op, ast.NotEq):
                return f"(!(pyEq ({a}) ({b})))"
            if isinstance(op, ast.In):
                return f"(pyIn ({a}) ({b}))"
            if isinstance(op, ast.NotIn):
                return f"(!(pyIn ({a}) ({b})))"
            sym = {ast.Gt: ">", ast.Lt: "<", ast.GtE: "≥", ast.LtE: "≤"}.get(type(op))
            if sym:
                return f"(decide (({a} : Nat) {sym} ({b} : Nat)))"
            raise Unsupported(e, f"comparison {type(op).__name__}")
        if isinstance(e, ast.BoolOp):
            fn = "pyAnd" if isinstance(e.op, ast.And) else "pyOr"
            parts = [f"(do pure (truthy ({self.expr(v, cls)})))" for v in e.values]
            acc = parts[-1]
            for p in reversed(parts[:-1]):
                acc = f"({fn} {p} {acc})"
            return f"(← {acc})"
        if isinstance(e, ast.UnaryOp) and isinstance(e.op, ast.Not):
            return f"(!(truthy ({self.expr(e.operand, cls)})))"
        if isinstance(e, ast.Set):
            if len(e.elts) != 1:
                raise Unsupported(e, "set display with other than one element")
            return f"(PySet.single ({self.expr(e.elts[0], cls)}))"
        if isinstance(e, ast.Call):
            return self.call(e, cls)
        raise Unsupported(e, f"expression {type(e).__name__}: {ast.unparse(e)}")

    def neg_index(self, s) -> int:
        if isinstance(s, ast.UnaryOp) and isinstance(s.op, ast.USub) and isinstance(s.operand, ast.Constant) \
                and isinstance(s.operand.value, int) and s.operand.value >= 1:
            return s.operand.value
        raise Unsupported(s, f"index {ast.unparse(s)} (only negative constants)")

    def call(self, e: ast.Call, cls: Cls | None) -> str:
        f = ast.unparse(e.func)
        if e.keywords:
            raise Unsupported(e, "keyword arguments")
        if f == "len" and len(e.args) == 1:
            return f"(pyLen ({self.expr(e.args[0], cls)}))"
        if f == "typing.cast" and len(e.args) == 2:
            return self.expr(e.args[1], cls)        # identity at run time
        if f == "list" and len(e.args) == 1 and isinstance(e.args[0], ast.Call) \
                and ast.unparse(e.args[0].func) == "reversed" and len(e.args[0].args) == 1:
            return f"(reversedList ({self.expr(e.args[0].args[0], cls)}))"
        if f in self.classes and self.classes[f].kind == "attrs":
            args = " ".join(f"({self.expr(a, cls)})" for a in e.args)
            return f"(← {f}.new {args})"
        if f in self.funcs:
            args = " ".join(f"({self.expr(a, cls)})" for a in e.args)
            return f"(← {f} {args})"
        if isinstance(e.func, ast.Attribute) and isinstance(e.func.value, ast.Name) and e.func.value.id == "self" \
                and cls is not None and e.func.attr in cls.methods:
            m = e.func.attr
            if self.mutating(cls, m):
                raise Unsupported(e, f"call of mutating method {m} inside an expression")
            args = " ".join(f"({self.expr(a, cls)})" for a in e.args)
            return f"(← {cls.name}.{m} self {args})"
        raise Unsupported(e, f"call of {f}")

    # ------------------------------------------------------------------ mutation through paths rooted at self
    def path(self, e) -> list:
        """self(.attr | [-k])*  ->  [("attr", name) | ("idx", k)]"""
        if isinstance(e, ast.Name) and e.id == "self":
            return []
        if isinstance(e, ast.Name) and e.id in self.aliases:
            if self.aliases[e.id] is None:
                raise Unsupported(e, f"local {e.id} aliases an element of a list that was structurally changed since")
            return self.path(self.aliases[e.id])
        if isinstance(e, ast.Attribute):
            return self.path(e.value) + [("attr", e.attr)]
        if isinstance(e, ast.Subscript):
            return self.path(e.value) + [("idx", self.neg_index(e.slice))]
        raise Unsupported(e, f"mutation through {ast.unparse(e)} (only paths rooted at self)")

    def update_path(self, path: list, op: str, ind: str) -> list[str]:
        """lines of a `do` block computing the new `self` after applying `op` (a Lean function body over `v<n>`,
        yielding `PyM _`) at the end of `path`"""
        lines, cur = [], "self"
        names = [cur]
        for i, (kind, x) in enumerate(path):
            v = f"v{i + 1}"
            if kind == "attr":
                lines.append(f"let {v} := {cur}.{x}")
            else:
                lines.append(f"let {v} ← idxNeg {cur} {x}")
            names.append(v)
            cur = v
        lines.append(f"let {cur}' ← {op.format(v=cur)}")
        for i in range(len(path) - 1, -1, -1):
            kind, x = path[i]
            parent, child = names[i], names[i + 1]
            if kind == "attr":
                lines.append(f"let {parent}' := {{ {parent} with {x} := {child}' }}")
            else:
                lines.append(f"let {parent}' ← setIdxNeg {parent} {x} {child}'")
        lines.append("pure self'")
        return [ind + ln for ln in lines]

    def structural(self, p: list) -> None:
        """a list at path `p` gained / lost elements: aliases reaching *through* it no longer denote the same object"""
        for name, rhs in list(self.aliases.items()):
            if rhs is None:
                continue
            q = self.path(rhs)
            if len(q) > len(p) and q[:len(p)] == p:
                self.aliases[name] = None

    def mutating(self, cls: Cls, m: str, seen=None) -> bool:
        seen = seen or set()
        if m in seen:
            raise Unsupported(cls.methods[m], "recursive methods")
        seen = seen | {m}
        for node in ast.walk(cls.methods[m]):
            if isinstance(node, ast.Delete):
                return True
            if isinstance(node, ast.Expr) and isinstance(node.value, ast.Call) and isinstance(node.value.func, ast.Attribute):
                fn = node.value.func
                if fn.attr in ("append", "add", "remove", "pop"):
                    return True
                if isinstance(fn.value, ast.Name) and fn.value.id == "self" and fn.attr in cls.methods \
                        and self.mutating(cls, fn.attr, seen):
                    return True
        return False

    # ------------------------------------------------------------------ statements
    def stmts(self, body, cls, mut: bool, ind: str) -> list[str]:
        out = []
        for st in body:
            if isinstance(st, ast.Expr) and isinstance(st.value, ast.Constant) and isinstance(st.value.value, str):
                continue
            if isinstance(st, ast.Return):
                val = "()" if st.value is None else self.expr(st.value, cls)
                out.append(f"{ind}return ({val}, self)" if mut else f"{ind}return {val}")
            elif isinstance(st, ast.Assign):
                if len(st.targets) != 1 or not isinstance(st.targets[0], ast.Name):
                    raise Unsupported(st, "assignment target")
                name = st.targets[0].id
                if name == "self" or name in self.assigned:
                    raise Unsupported(st, f"re-assignment of {name}")
                self.assigned.add(name)
                if mut and self.is_path_expr(st.value):
                    # a local naming an object reachable from self: Python binds a *reference*.  The translation
                    # evaluates the path once here (so that an exception is raised where Python raises it) and re-reads
                    # it at every use — the same object as long as no list on the path changed its elements since
                    # (`structural` invalidates the alias otherwise).
                    out.append(f"{ind}let _ := {self.expr(st.value, cls)}")
                    self.aliases[name] = st.value
                else:
                    out.append(f"{ind}let {name} := {self.expr(st.value, cls)}")
            elif isinstance(st, ast.Assert):
                out.append(f"{ind}pyAssert (truthy ({self.expr(st.test, cls)}))")
            elif isinstance(st, ast.If):
                out.append(f"{ind}if truthy ({self.expr(st.test, cls)}) then")
                before = dict(self.aliases)
                out += self.stmts(st.body, cls, mut, ind + "  ") or [f"{ind}  pure ()"]
                after_then = self.aliases
                self.aliases = dict(before)
                if st.orelse:
                    out.append(f"{ind}else")
                    out += self.stmts(st.orelse, cls, mut, ind + "  ")
                after_else = self.aliases
                self.aliases = {n: (v if after_then.get(n) is not None and after_else.get(n) is not None else None)
                                for n, v in before.items()}
            elif isinstance(st, ast.Delete):
                if not mut or len(st.targets) != 1 or not isinstance(st.targets[0], ast.Subscript):
                    raise Unsupported(st, "del")
                t = st.targets[0]
                k = self.neg_index(t.slice)
                p = self.path(t.value)
                self.structural(p)
                out.append(f"{ind}self ← (do")
                out += self.update_path(p, f"delIdxNeg {{v}} {k}", ind + "  ")
                out[-1] += ")"
            elif isinstance(st, ast.Expr) and isinstance(st.value, ast.Call) and isinstance(st.value.func, ast.Attribute):
                call, fn = st.value, st.value.func
                if call.keywords:
                    raise Unsupported(st, "keyword arguments")
                if isinstance(fn.value, ast.Name) and fn.value.id == "self" and fn.attr in cls.methods:
                    args = " ".join(f"({self.expr(a, cls)})" for a in call.args)
                    if self.mutating(cls, fn.attr):
                        out.append(f"{ind}self := (← {cls.name}.{fn.attr} self {args}).2")
                    else:
                        out.append(f"{ind}let _ ← {cls.name}.{fn.attr} self {args}")
                    continue
                if fn.attr == "pop" and not call.args and mut:
                    # result unused: `P.pop()` is `del P[-1]` (IndexError on an empty list either way)
                    self.structural(self.path(fn.value))
                    out.append(f"{ind}self ← (do")
                    out += self.update_path(self.path(fn.value), "delIdxNeg {v} 1", ind + "  ")
                    out[-1] += ")"
                    continue
                if fn.attr not in ("append", "add", "remove") or len(call.args) != 1 or not mut:
                    raise Unsupported(st, f"expression statement {ast.unparse(st)}")
                arg = self.expr(call.args[0], cls)
                op = {"append": "pure (pyAppend {v} __a)", "add": "pure (pyAdd {v} __a)", "remove": "pyRemove {v} __a"}[fn.attr]
                p = self.path(fn.value)
                if fn.attr == "append":
                    self.structural(p)
                out.append(f"{ind}let __a := {arg}")
                out.append(f"{ind}self ← (do")
                out += self.update_path(p, op, ind + "  ")
                out[-1] += ")"
            else:
                raise Unsupported(st, f"statement {type(st).__name__}")
        return out

    # ------------------------------------------------------------------ definitions
    def ret_type(self, fn: ast.FunctionDef) -> str:
        if fn.name in HINTS[self.mod].get("ret", {}):
            return HINTS[self.mod]["ret"][fn.name]
        if fn.returns is None:
            raise Unsupported(fn, "missing return annotation")
        return ann_to_lean(fn.returns, "param", "", self.mod)

    def params(self, fn: ast.FunctionDef, skip_self: bool) -> str:
        a = fn.args
        if a.vararg or a.kwarg or a.kwonlyargs or a.defaults or a.posonlyargs:
            raise Unsupported(fn, "parameter kinds")
        ps = a.args[1:] if skip_self else a.args
        return " ".join(f"({p.arg} : {ann_to_lean(p.annotation, 'param', p.arg, self.mod)})" for p in ps)

    def ends_with_return(self, body) -> bool:
        last = body[-1]
        if isinstance(last, ast.Return):
            return True
        if isinstance(last, ast.If) and last.orelse:
            return self.ends_with_return(last.body) and self.ends_with_return(last.orelse)
        return False

    def emit_method(self, cls: Cls, name: str):
        fn = cls.methods[name]
        mut = self.mutating(cls, name)
        rt = self.ret_type(fn)
        ps = self.params(fn, True)
        full = f"{rt} × {cls.name}" if mut else rt
        self.out.append(f"/-- `{cls.name}.{name}`{' — mutates self: returns the new self' if mut else ''} -/")
        self.aliases, self.assigned = {}, {a.arg for a in fn.args.args}
        self.out.append(f"def {cls.name}.{name} (self : {cls.name}) {ps} : PyM ({full}) := do")
        if mut:
            self.out.append("  let mut self := self")
        body = self.stmts(fn.body, cls, mut, "  ")
        self.out += body
        if not self.ends_with_return(fn.body):
            if rt != "Unit":
                raise Unsupported(fn, "falls off the end but is not annotated -> None")
            self.out.append("  return ((), self)" if mut else "  return ()")
        self.out.append("")

    def emit_func(self, name: str):
        fn = self.funcs[name]
        self.out.append(f"/-- `{name}` -/")
        self.aliases, self.assigned = {}, {a.arg for a in fn.args.args}
        self.out.append(f"def {name} {self.params(fn, False)} : PyM ({self.ret_type(fn)}) := do")
        self.out += self.stmts(fn.body, None, False, "  ")
        self.out.append("")

    def emit_class(self, c: Cls):
        if c.kind == "enum":
            self.out.append(f"/-- `class {c.name}(enum.Enum)` -/")
            self.out.append(f"inductive {c.name}")
            self.out += [f"  | {m}" for m in c.members]
            self.out.append("deriving DecidableEq, Repr")
            self.out.append(f"instance : PyEq {c.name} := ⟨fun a b => decide (a = b)⟩")
            self.out.append("")
            return
        self.out.append(f"/-- `@frozen class {c.name}` -/")
        self.out.append(f"structure {c.name} where")
        self.out += [f"  {n} : {t}" for n, t, *_ in c.fields]
        self.out.append("")
        # constructor: positional init fields; a trailing init field with a factory may be omitted (only that form is used)
        init = [f for f in c.fields if f[2]]
        variants = [init]
        if init and init[-1][3] is not None:
            variants.append(init[:-1])
        for k, given in enumerate(variants):
            nm = "new" if k == 0 and len(variants) == 1 else ("newFull" if k == 0 else "new")
            ps = " ".join(f"({n} : {self.conv_in_type(f)})" for f in given for n in [f[0]])
            self.out.append(f"/-- `{c.name}({', '.join(f[0] for f in given)})`: attrs-generated `__init__` (factories, then converters) -/")
            self.out.append(f"def {c.name}.{nm} {ps} : PyM {c.name} := do")
            for f in c.fields:
                n, t, ini, factory, conv = f
                if f not in given:
                    if factory is None:
                        raise Unsupported(None, f"field {n} has no value")
                    self.out.append(f"  let {n} : {t} := {self.factory(factory, t)}")
                if conv is not None:
                    self.out.append(f"  let {n} : {t} ← {self.converter(conv, n)}")
            self.out.append(f"  return {{ {', '.join(f'{f[0]} := {f[0]}' for f in c.fields)} }}")
            self.out.append("")

    def conv_in_type(self, f):
        return f[1]

    def factory(self, name: str, ty: str) -> str:
        if name == "set" and ty.startswith("PySet"):
            return "PySet.empty"
        if name == "list" and ty.startswith("List"):
            return "[]"
        raise Unsupported(None, f"factory {name} for {ty}")

    def converter(self, name: str, arg: str) -> str:
        if name == "set":
            return f"pure (PySet.copy {arg})"
        if name in self.funcs:
            return f"{name} {arg}"
        raise Unsupported(None, f"converter {name}")

    def deps(self, node) -> set[str]:
        d = set()
        for n in ast.walk(node):
            if isinstance(n, ast.Name) and (n.id in self.funcs or n.id in self.classes):
                d.add(n.id)
        if isinstance(node, ast.ClassDef) and node.name in self.classes:
            import re
            for f in self.classes[node.name].fields:          # types that come from HINTS
                d |= {w for w in re.findall(r"[A-Za-z_][A-Za-z_0-9]*", f[1]) if w in self.classes}
            for m in self.classes[node.name].methods.values():
                for a in m.args.args[1:]:
                    t = ann_to_lean(a.annotation, "param", a.arg, self.mod)
                    d |= {w for w in re.findall(r"[A-Za-z_][A-Za-z_0-9]*", t) if w in self.classes}
        return d

    def translate(self, digest: str) -> str:
        self.out = [
            "import ProcSim.PyLite",
            f"/-! GENERATED by checks/py2lean.py from {MODULES[self.mod]} — do not edit.",
            "Regenerated and re-checked against the equivalence theorems on every check run. -/",
            f"namespace ProcSim.Gen.{self.mod}",
            "open PyLite",
            "",
        ]
        # order: functions and classes in dependency order (a class depends on what its fields' converters and its
        # methods mention); methods of a class in call order
        items = {**{n: ("f", f) for n, f in self.funcs.items()}, **{n: ("c", c) for n, c in self.classes.items()}}
        done: list[str] = []

        def node_of(n):
            kind, x = items[n]
            if kind == "f":
                return [x]
            cdef = next(c for c in self.tree.body if isinstance(c, ast.ClassDef) and c.name == n)
            return [cdef]

        def visit(n, stack=()):
            if n in done:
                return
            if n in stack:
                raise Unsupported(None, f"cyclic dependency through {n}")
            for nd in node_of(n):
                for d in sorted(self.deps(nd) - {n}):
                    visit(d, stack + (n,))
            done.append(n)

        for n in items:
            visit(n)
        for n in done:
            kind, x = items[n]
            if kind == "f":
                self.emit_func(n)
            else:
                self.emit_class(x)
                order: list[str] = []

                def mvisit(m, stack=()):
                    if m in order:
                        return
                    if m in stack:
                        raise Unsupported(x.methods[m], "recursive methods")
                    for node in ast.walk(x.methods[m]):
                        if isinstance(node, ast.Attribute) and isinstance(node.value, ast.Name) and node.value.id == "self" \
                                and node.attr in x.methods and node.attr != m:
                            mvisit(node.attr, stack + (m,))
                    order.append(m)

                for m in x.methods:
                    mvisit(m)
                for m in order:
                    self.emit_method(x, m)
        self.out.append(f"end ProcSim.Gen.{self.mod}")
        return "\n".join(self.out) + "\n"


# ======================================================================================================================
# Second translation scheme: selected *functions* whose parameters / locals are mutated (dicts of builders), with `for`
# loops.  A function that mutates a parameter returns the new value of that parameter next to its result.

HINTS["acc_plan"] = {
    # src/sim_services/__init__.py — only the four functions that build the register access plan are translated
    "select": ["_add_rd_access", "_add_wr_access", "_add_access", "_build_acc_plan"],
    "imports": ["ProcSim.Gen.RegAccess"],
    "opens": ["ProcSim.Gen.reg_access"],
    # register identifiers are arbitrary hashable objects compared by equality: a type parameter
    "prelude": [
        "variable {Reg : Type} [DecidableEq Reg]",
        "",
        "/-- the two attributes of `program_defs.HwInstruction` the plan builder reads (`sources` after its converter) -/",
        "structure HwInstruction (Reg : Type) where",
        "  sources : List Reg",
        "  destination : Reg",
    ],
    "types": {   # (function, parameter or local) -> Lean type
        ("_add_rd_access", "instr"): "Nat", ("_add_rd_access", "builders"): "PyDict Reg RegAccQBuilder",
        ("_add_rd_access", "registers"): "List Reg",
        ("_add_wr_access", "instr"): "Nat", ("_add_wr_access", "builder"): "RegAccQBuilder",
        ("_add_access", "instr"): "HwInstruction Reg", ("_add_access", "instr_index"): "Nat",
        ("_add_access", "builders"): "PyDict Reg RegAccQBuilder",
        ("_build_acc_plan", "program"): "List (Nat × HwInstruction Reg)",
        ("_build_acc_plan", "builders"): "PyDict Reg RegAccQBuilder",
    },
    "ret": {"_add_rd_access": "Unit", "_add_wr_access": "Unit", "_add_access": "Unit",
            "_build_acc_plan": "PyDict Reg RegAccessQueue"},
    "class_of": {"RegAccQBuilder": "reg_access"},     # classes translated in another module
}
MODULES["acc_plan"] = "src/sim_services/__init__.py"


class FuncTranslator:
    def __init__(self, mod: str, src: str, repo: str):
        self.mod, self.h = mod, HINTS[mod]
        tree = ast.parse(src)
        self.funcs = {n.name: n for n in tree.body if isinstance(n, ast.FunctionDef) and n.name in self.h["select"]}
        missing = [f for f in self.h["select"] if f not in self.funcs]
        if missing:
            raise Unsupported(None, f"selected functions not found: {missing}")
        # translators of the modules whose classes are used (to know which of their methods mutate)
        self.ext = {}
        for cls, m in self.h["class_of"].items():
            self.ext[cls] = Translator(m, open(os.path.join(repo, MODULES[m]), encoding="utf-8").read())
        self.mut_params = {f: self.find_mut_params(f, ()) for f in self.funcs}

    # -------- which parameters does a function mutate (through method calls or calls of other selected functions)
    def ty(self, fn, name):
        t = self.h["types"].get((fn, name))
        if t is None:
            raise Unsupported(self.funcs[fn], f"no type for {fn}.{name}")
        return t

    def elem_class(self, fn, root):
        t = self.ty(fn, root)
        for cls in self.h["class_of"]:
            if t == cls or t.endswith(" " + cls):
                return cls
        return None

    def root_of(self, e):
        """`r` or `r[key]` -> (r, key expression | None)"""
        if isinstance(e, ast.Name):
            return e.id, None
        if isinstance(e, ast.Subscript) and isinstance(e.value, ast.Name):
            return e.value.id, e.slice
        return None, None

    def find_mut_params(self, fn, stack):
        if fn in stack:
            raise Unsupported(self.funcs[fn], "recursive functions")
        f = self.funcs[fn]
        params = [a.arg for a in f.args.args]
        mut = set()
        for node in ast.walk(f):
            if isinstance(node, ast.Expr) and isinstance(node.value, ast.Call):
                c = node.value
                if isinstance(c.func, ast.Attribute):
                    r, _ = self.root_of(c.func.value)
                    if r in params:
                        cls = self.elem_class(fn, r)
                        if cls and self.ext[cls].mutating(self.ext[cls].classes[cls], c.func.attr):
                            mut.add(r)
                elif isinstance(c.func, ast.Name) and c.func.id in self.funcs:
                    callee = c.func.id
                    cm = self.find_mut_params(callee, stack + (fn,))
                    cparams = [a.arg for a in self.funcs[callee].args.args]
                    for a, pn in zip(c.args, cparams):
                        if pn in cm:
                            r, _ = self.root_of(a)
                            if r in params:
                                mut.add(r)
        return [p for p in params if p in mut]

    # -------- expressions (pure)
    def expr(self, e):
        if isinstance(e, ast.Name):
            return e.id
        if isinstance(e, ast.Attribute):
            if isinstance(e.value, ast.Name) and e.value.id in ("AccessType",):
                return f"{e.value.id}.{e.attr}"
            return f"({self.expr(e.value)}).{e.attr}"
        if isinstance(e, ast.Constant) and isinstance(e.value, int) and not isinstance(e.value, bool) and e.value >= 0:
            return str(e.value)
        raise Unsupported(e, f"expression {ast.unparse(e)}")

    # -------- a call that mutates `root` or `root[key]`: lines computing the new root
    def mutate(self, fn, root, key, call_fmt, ind):
        """call_fmt: Lean text with {v} for the current value of the mutated object, evaluating to PyM (_ × newvalue)"""
        if key is None:
            return [f"{ind}{root} := (← {call_fmt.format(v=root)}).2"]
        k = self.expr(key)
        return [f"{ind}{root} ← (do",
                f"{ind}  let (v1, d1) ← PyDict.getItem {root} ({k})",
                f"{ind}  let v1' := (← {call_fmt.format(v='v1')}).2",
                f"{ind}  pure (PyDict.setItem d1 ({k}) v1'))"]

    def stmts(self, fn, body, roots, ind):
        out = []
        for st in body:
            if isinstance(st, ast.Expr) and isinstance(st.value, ast.Constant) and isinstance(st.value.value, str):
                continue
            if isinstance(st, ast.AnnAssign) and isinstance(st.target, ast.Name) and isinstance(st.value, ast.Call) \
                    and ast.unparse(st.value.func) == "defaultdict" and len(st.value.args) == 1 \
                    and isinstance(st.value.args[0], ast.Name) and st.value.args[0].id in self.h["class_of"]:
                name, cls = st.target.id, st.value.args[0].id
                out.append(f"{ind}let mut {name} : {self.ty(fn, name)} := PyDict.emptyDefault ({cls}.new)")
                roots.append(name)
                continue
            if isinstance(st, ast.For) and not st.orelse and isinstance(st.iter, ast.Name):
                if len(roots) != 1:
                    raise Unsupported(st, "a loop needs exactly one mutable object in scope")
                root = roots[0]
                if isinstance(st.target, ast.Name):
                    pat = st.target.id
                elif isinstance(st.target, ast.Tuple) and all(isinstance(t, ast.Name) for t in st.target.elts):
                    pat = "(" + ", ".join(t.id for t in st.target.elts) + ")"
                else:
                    raise Unsupported(st, "loop target")
                out.append(f"{ind}{root} ← pyFor {st.iter.id} {root} (fun {pat} {root} => do")
                out.append(f"{ind}  let mut {root} := {root}")
                out += self.stmts(fn, st.body, roots, ind + "  ")
                out.append(f"{ind}  return {root})")
                continue
            if isinstance(st, ast.Expr) and isinstance(st.value, ast.Call) and not st.value.keywords:
                c = st.value
                if isinstance(c.func, ast.Attribute):                     # root[.key].method(args) of an external class
                    root, key = self.root_of(c.func.value)
                    if root not in roots:
                        raise Unsupported(st, f"method call on {ast.unparse(c.func.value)}")
                    cls = self.elem_class(fn, root)
                    if not cls or c.func.attr not in self.ext[cls].classes[cls].methods:
                        raise Unsupported(st, f"unknown method {c.func.attr}")
                    if not self.ext[cls].mutating(self.ext[cls].classes[cls], c.func.attr):
                        raise Unsupported(st, "non-mutating method call as a statement")
                    args = " ".join(f"({self.expr(a)})" for a in c.args)
                    out += self.mutate(fn, root, key, f"{cls}.{c.func.attr} {{v}} {args}", ind)
                    continue
                if isinstance(c.func, ast.Name) and c.func.id in self.funcs:
                    callee = c.func.id
                    cparams = [a.arg for a in self.funcs[callee].args.args]
                    cm = self.mut_params[callee]
                    if len(cm) != 1 or len(c.args) != len(cparams):
                        raise Unsupported(st, "call of a function mutating other than exactly one parameter")
                    pos = cparams.index(cm[0])
                    root, key = self.root_of(c.args[pos])
                    if root not in roots:
                        raise Unsupported(st, "mutated argument is not a mutable object in scope")
                    args = " ".join("{v}" if i == pos else f"({self.expr(a)})" for i, a in enumerate(c.args))
                    out += self.mutate(fn, root, key, f"{callee} {args}", ind)
                    continue
            if isinstance(st, ast.Return) and isinstance(st.value, ast.DictComp):
                dc = st.value
                g = dc.generators[0]
                ok = (len(dc.generators) == 1 and not g.ifs and isinstance(g.target, ast.Tuple) and len(g.target.elts) == 2
                      and all(isinstance(t, ast.Name) for t in g.target.elts) and isinstance(g.iter, ast.Call)
                      and isinstance(g.iter.func, ast.Attribute) and g.iter.func.attr == "items" and not g.iter.args
                      and isinstance(g.iter.func.value, ast.Name) and isinstance(dc.key, ast.Name)
                      and dc.key.id == g.target.elts[0].id and isinstance(dc.value, ast.Call)
                      and isinstance(dc.value.func, ast.Attribute) and isinstance(dc.value.func.value, ast.Name)
                      and dc.value.func.value.id == g.target.elts[1].id and not dc.value.args)
                if not ok:
                    raise Unsupported(st, "dict comprehension other than {k: v.m() for k, v in d.items()}")
                d, kname, vname, m = g.iter.func.value.id, g.target.elts[0].id, g.target.elts[1].id, dc.value.func.attr
                cls = self.elem_class(fn, d)
                if not cls or m not in self.ext[cls].classes[cls].methods or self.ext[cls].mutating(self.ext[cls].classes[cls], m):
                    raise Unsupported(st, f"method {m} in the dict comprehension")
                out.append(f"{ind}return (← PyDict.mapValsM {d} (fun {kname} {vname} => {cls}.{m} {vname}))")
                continue
            raise Unsupported(st, f"statement {type(st).__name__}: {ast.unparse(st)[:60]}")
        return out

    def emit(self, fn):
        f = self.funcs[fn]
        a = f.args
        if a.vararg or a.kwarg or a.kwonlyargs or a.defaults or a.posonlyargs:
            raise Unsupported(f, "parameter kinds")
        params = [p.arg for p in a.args]
        mut = self.mut_params[fn]
        if len(mut) > 1:
            raise Unsupported(f, "more than one mutated parameter")
        rt = self.h["ret"][fn]
        full = f"{rt} × {self.ty(fn, mut[0])}" if mut else rt
        ps = " ".join(f"({p} : {self.ty(fn, p)})" for p in params)
        out = [f"/-- `{fn}`{' — mutates `' + mut[0] + '`: returns its new value' if mut else ''} -/",
               f"def {fn} {ps} : PyM ({full}) := do"]
        roots = list(mut)
        for r in roots:
            out.append(f"  let mut {r} := {r}")
        body = self.stmts(fn, f.body, roots, "  ")
        out += body
        if not (f.body and isinstance(f.body[-1], ast.Return)):
            if rt != "Unit":
                raise Unsupported(f, "falls off the end but does not return None")
            out.append(f"  return ((), {mut[0]})" if mut else "  return ()")
        return out + [""]

    def translate(self) -> str:
        out = [f"import ProcSim.PyLite"] + [f"import {m}" for m in self.h["imports"]]
        out += [f"/-! GENERATED by checks/py2lean.py from {MODULES[self.mod]} (functions {', '.join(self.h['select'])}) — do not edit.",
                "Regenerated and re-checked against the equivalence theorems on every check run. -/",
                f"namespace ProcSim.Gen.{self.mod}", "open PyLite"] + [f"open {o}" for o in self.h["opens"]] + [""]
        out += self.h["prelude"] + [""]
        order = []

        def visit(fn, stack=()):
            if fn in order:
                return
            for node in ast.walk(self.funcs[fn]):
                if isinstance(node, ast.Call) and isinstance(node.func, ast.Name) and node.func.id in self.funcs and node.func.id != fn:
                    visit(node.func.id, stack + (fn,))
            order.append(fn)

        for fn in self.h["select"]:
            visit(fn)
        for fn in order:
            out += self.emit(fn)
        out.append(f"end ProcSim.Gen.{self.mod}")
        return "\n".join(out) + "\n"


def generate(mod: str, repo: str = "/repo") -> str:
    path = os.path.join(repo, MODULES[mod])
    src = open(path, encoding="utf-8").read()
    if "select" in HINTS[mod]:
        return FuncTranslator(mod, src, repo).translate()
    digest = hashlib.sha256(ast.dump(ast.parse(src), include_attributes=False).encode()).hexdigest()[:16]
    return Translator(mod, src).translate(digest)


if __name__ == "__main__":
    repo = "/repo"
    if "--repo" in sys.argv:
        repo = sys.argv[sys.argv.index("--repo") + 1]
    try:
        sys.stdout.write(generate(sys.argv[1], repo))
    except Unsupported as e:
        print("UNSUPPORTED:", e, file=sys.stderr)
        sys.exit(3)
