"""Audit of the Lean development: forbidden tokens, `#print axioms` of every registered theorem, leanchecker.

The registry `/verif/theorems.json` lists, per property, the property theorems that exist in `ProcSim/Props/*.lean`
(name, module, a one-line reading) and the ones still pending. A registered theorem that is missing or depends on an
axiom outside {propext, Classical.choice, Quot.sound} is an infrastructure error (exit 2), never a verdict.
"""
from __future__ import annotations

import hashlib
import json
import os
import re
import subprocess

from harness import core

ALLOWED = {"propext", "Classical.choice", "Quot.sound"}
FORBIDDEN = re.compile(r"\bsorry\b|\badmit\b|^\s*axiom\s|\bnative_decide\b|\bbv_decide\b|implemented_by|\bunsafe\s|maxHeartbeats\s+0\b|\bpartial\s+def\b", re.M)


def strip_comments(src: str) -> str:
    out, i, depth, n = [], 0, 0, len(src)
    while i < n:
        if src.startswith("/-", i):
            depth += 1
            i += 2
        elif depth and src.startswith("-/", i):
            depth -= 1
            i += 2
        elif depth:
            if src[i] == "\n":
                out.append("\n")
            i += 1
        elif src.startswith("--", i):
            while i < n and src[i] != "\n":
                i += 1
        elif src[i] == '"':
            j = i + 1
            while j < n and src[j] != '"':
                j += 2 if src[j] == "\\" else 1
            out.append('""')
            i = j + 1
        else:
            out.append(src[i])
            i += 1
    return "".join(out)


def _module_path(mod: str) -> str:
    return os.path.join(core.LEAN_DIR, *mod.split(".")) + ".lean"


def import_closure(roots: list[str]) -> list[str]:
    """files of the project reachable through `import` from the given modules"""
    seen, todo = set(), list(roots)
    while todo:
        m = todo.pop()
        path = _module_path(m)
        if m in seen or not os.path.exists(path):
            continue
        seen.add(m)
        for ln in open(path):
            mm = re.match(r"\s*(?:public\s+)?import\s+([A-Za-z0-9_.]+)", ln)
            if mm:
                todo.append(mm.group(1))
    return sorted(_module_path(m) for m in seen)


def forbidden_tokens() -> list[str]:
    """scan everything the registered theorems and the driver depend on (a colleague's unregistered work-in-progress
    file is not part of any claim; a registered theorem depending on `sorry` is caught by `#print axioms` anyway)"""
    hits = []
    reg = registry()
    roots = ["Main"] + sorted({t["module"] for ent in reg.values() for t in ent.get("theorems", [])})
    for p in import_closure(roots):
        if not p.endswith(".lean"):
            continue
        rel = os.path.relpath(p, core.LEAN_DIR)
        if rel.startswith("Driver") or rel == "Main.lean":
            # the driver is not part of any proof; `partial def loop` (stdin loop) is allowed there only
            txt = strip_comments(open(p).read())
            for m in FORBIDDEN.finditer(txt):
                if "partial" in m.group(0):
                    continue
                hits.append(f"{rel}: {m.group(0).strip()}")
            continue
        txt = strip_comments(open(p).read())
        for m in FORBIDDEN.finditer(txt):
            hits.append(f"{rel}: {m.group(0).strip()}")
    return hits


def registry() -> dict:
    with open(os.path.join(core.VERIF, "theorems.json")) as fh:
        return json.load(fh)


def _print_axioms_all(reg: dict) -> dict:
    """one Lean run for all registered theorems; cached on the Lean sources + registry"""
    names, modules = [], []
    for pid, ent in sorted(reg.items()):
        for t in ent.get("theorems", []):
            names.append(t["name"])
            if t["module"] not in modules:
                modules.append(t["module"])
    key = hashlib.sha256((core.lean_hash() + json.dumps(reg, sort_keys=True)).encode()).hexdigest()[:24]
    os.makedirs(core.CACHE, exist_ok=True)
    cache = os.path.join(core.CACHE, f"axioms-{key}.json")
    with core._flock("axioms-" + key):
        if os.path.exists(cache):
            with open(cache) as fh:
                return json.load(fh)
        if not names:
            res = {}
        else:
            src = "".join(f"import {m}\n" for m in modules) + "".join(f"#print axioms {n}\n" for n in names)
            path = os.path.join(core.CACHE, f"Audit_{key}.lean")
            with open(path, "w") as fh:
                fh.write(src)
            r = subprocess.run(["lake", "env", "lean", path], cwd=core.LEAN_DIR, capture_output=True, text=True)
            out = r.stdout + r.stderr
            res = {}
            for m in re.finditer(r"^'(.+)' depends on axioms: \[([^\]]*)\]", out, re.M):
                res[m.group(1)] = [a.strip() for a in m.group(2).replace("\n", " ").split(",") if a.strip()]
            for m in re.finditer(r"^'(.+)' does not depend on any axioms", out, re.M):
                res[m.group(1)] = []
            missing = [n for n in names if n not in res]
            if r.returncode != 0 or missing:
                raise core.InfraError("axiom audit failed (missing: %s)\n%s" % (missing, out[-3000:]))
            os.remove(path)
        with open(cache, "w") as fh:
            json.dump(res, fh)
        return res


def leanchecker(modules: list[str]) -> dict:
    key = hashlib.sha256((core.lean_hash() + ",".join(modules)).encode()).hexdigest()[:24]
    cache = os.path.join(core.CACHE, f"leanchecker-{key}.json")
    with core._flock("leanchecker-" + key):
        if os.path.exists(cache):
            with open(cache) as fh:
                return json.load(fh)
        r = subprocess.run(["lake", "env", "leanchecker", *modules], cwd=core.LEAN_DIR, capture_output=True, text=True)
        res = {"modules": modules, "returncode": r.returncode, "tail": (r.stdout + r.stderr)[-500:]}
        if r.returncode != 0:
            raise core.InfraError("leanchecker failed: " + res["tail"])
        with open(cache, "w") as fh:
            json.dump(res, fh)
        return res


def audit(prop: str, thorough: bool = False) -> dict:
    reg = registry()
    forb = forbidden_tokens()
    if forb:
        raise core.InfraError("forbidden tokens in the Lean development: " + "; ".join(forb[:10]))
    ax = _print_axioms_all(reg)
    ent = reg.get(prop, {})
    thms = []
    ok = True
    for t in ent.get("theorems", []):
        axs = ax.get(t["name"], ["<missing>"])
        good = set(axs) <= ALLOWED
        if not good:
            raise core.InfraError(f"theorem {t['name']} depends on axioms {axs}")
        thms.append({"name": t["name"], "module": t["module"], "reads": t.get("reads", ""), "axioms": axs, "ok": good})
        ok = ok and good
    res = {"ok": ok, "theorems": thms, "pending": ent.get("pending", []), "forbidden": forb}
    if thorough and thms:
        res["leanchecker"] = leanchecker(sorted({t["module"] for t in thms}))
    return res
