#!/venv/bin/python
"""Entry point of every registered check:   checks/run.py Cxx [--tier quick|thorough] [--replay FILE]

Steps: (1) `lake build` of the Lean development (models, specs, lemmas, property theorems, driver) — a failure is
an infrastructure error (exit 2), never a verdict; (2) audit: no sorry/admit/axiom/native_decide…, `#print axioms` of
every registered theorem within {propext, Classical.choice, Quot.sound}; (3) correspondence + oracle run of the
component the property belongs to, on /repo's *current* sources (content-addressed cache shared by the properties
of one component); (4) verdict, evidence/<id>.json, replay file on violation.

exit 0: property held on everything explored      exit 1: `VIOLATION property=<id> replay=<path>` printed
exit 2: infrastructure failure (no VIOLATION line)
"""
from __future__ import annotations

import argparse
import collections
import hashlib
import importlib
import json
import os
import sys
import time
import traceback

VERIF = os.path.dirname(os.path.dirname(os.path.abspath(__file__)))
sys.path.insert(0, VERIF)
os.chdir(VERIF)

from harness import core  # noqa: E402
from checks import audit as audit_mod  # noqa: E402

COMPONENTS = {
    "sim": "harness.comp_sim",
    "loader": "harness.comp_loader",
    "text": "harness.comp_text",
    "e2e": "harness.comp_e2e",
}
PROP_COMPONENT = {
    **{f"C{n:02d}": "sim" for n in range(1, 9)},
    **{f"C{n:02d}": "loader" for n in range(9, 13)},
    "C13": "e2e", "C14": "text", "C15": "text", "C16": "e2e", "C17": "text", "C18": "text", "C19": "queue", "C20": "e2e",
}
COMPONENTS["queue"] = "harness.comp_queue"

TRUSTED_BASE = [
    "Lean 4.33 kernel; axioms of every property theorem are printed by the audit and must be within {propext, Classical.choice, Quot.sound}; no native_decide / bv_decide / sorry / new axioms",
    "Lean compiler + runtime executing the model and the Bool specs inside psdriver (compiled code trusted to agree with the kernel-checked definitions)",
    "the correspondence check itself: generators, JSON transport, canonicalisation, and the step from 'model = implementation on everything explored' to 'model = implementation'",
    "fastcore-1.7 `Self` compatibility shim (harness/compat/fc_compat.py) under which the repository is imported",
    "modelled, not verified: networkx, attrs-generated methods, copy.deepcopy, re/str primitives on ASCII, PyYAML, typer, csv, logging, CPython",
]


def load_json(path, default):
    try:
        with open(path) as fh:
            return json.load(fh)
    except FileNotFoundError:
        return default


def flatten(res: list) -> list:
    """a case may stand for a small batch (`{"multi": [records…]}`)"""
    out = []
    for r in res:
        if isinstance(r, dict) and "multi" in r:
            out.extend(r["multi"])
        else:
            out.append(r)
    return out


def component_results(comp: str, tier: str) -> dict:
    mod = importlib.import_module(COMPONENTS[comp])

    def compute():
        t0 = time.time()
        cases = mod.cases(tier)
        res = flatten(core.pmap(COMPONENTS[comp], "run_case", cases, {"tier": tier}, chunk=getattr(mod, "CHUNK", 50)))
        return {"results": res, "wall_s": time.time() - t0}

    return core.cached(comp, tier, compute)


COV_FILES = {
    "sim": ("sim_services/", "reg_access.py"),
    "queue": ("reg_access.py",),
    "loader": ("processor_utils/", "errors.py"),
    "text": ("program_utils.py", "program_defs.py", "str_utils.py", "container_utils.py", "hw_loading.py", "processor_sim.py"),
}


def impl_coverage(comp: str) -> dict | None:
    """thorough tier only: branch coverage of the anchored implementation files under this component's generators
    (evidence about the strength of the tie, never a verdict)"""
    if comp not in COV_FILES:
        return None

    def compute():
        import subprocess

        n = {"sim": 1500, "queue": 600, "loader": 2500, "text": 1500}[comp]
        r = subprocess.run([sys.executable, "-m", "harness.covrun", comp, str(n)], cwd=VERIF, capture_output=True, text=True)
        if r.returncode != 0:
            return {"error": r.stderr[-500:]}
        d = json.loads(r.stdout.strip().splitlines()[-1])
        files = {f: v for f, v in d["files"].items() if f.startswith(COV_FILES[comp]) and v["statements"]}
        tot_b = sum(v["branches"] for v in files.values())
        mis_b = sum(v["missing_branches"] for v in files.values())
        tot_s = sum(v["statements"] for v in files.values())
        mis_s = sum(v["missing_statements"] for v in files.values())
        return {"cases": d["cases"], "statements": tot_s, "missing_statements": mis_s, "branches": tot_b,
                "missing_branches": mis_b, "files": files}

    return core.cached("cov-" + comp, "thorough", compute)


def kernel_samples(comp: str, tier: str) -> dict | None:
    """simulator, loader and parser: the Lean kernel itself (by decide) confirms model = implementation on small generated inputs"""
    if comp not in ("sim", "loader", "text", "queue"):
        return None
    if os.environ.get("VERIF_SKIP_KERNEL") == "1":     # development runs over many mutated trees (checks/seeded.py) only
        return None

    def compute():
        import subprocess

        n = 24 if tier == "quick" else 400
        r = subprocess.run([sys.executable, "-m", "checks.kernel_samples", str(n)], cwd=VERIF, capture_output=True, text=True,
                           env=dict(os.environ, VERIF_KERNEL_COMPONENT=comp))
        try:
            res = json.loads(r.stdout.strip().splitlines()[-1])
        except Exception:  # noqa: BLE001
            raise core.InfraError("kernel samples could not be run: " + (r.stdout + r.stderr)[-800:])
        if "infra_error" in res or r.returncode not in (0, 1):
            raise core.InfraError("kernel samples could not be checked by Lean: " + json.dumps(res)[:800])
        return res

    return core.cached("kernel-" + comp, tier, compute)


def write_replay(prop: str, payload: dict) -> str:
    os.makedirs(os.path.join(VERIF, "replays"), exist_ok=True)
    blob = json.dumps(payload, sort_keys=True, indent=1)
    h = hashlib.sha1(blob.encode()).hexdigest()[:12]
    path = os.path.join(VERIF, "replays", f"{prop}-{h}.json")
    with open(path, "w") as fh:
        fh.write(blob)
    return os.path.relpath(path, VERIF)


def finding_matches(entry: dict, prop: str, rec: dict) -> bool:
    if entry.get("property") != prop:
        return False
    if "digest" in entry and entry["digest"] == rec.get("digest"):
        return True
    if "input" in entry and entry["input"] == rec.get("input"):
        return True
    return False


def extended_search(prop: str, comp: str, mod, tier: str, failing: list) -> dict | None:
    """correspondence broke without an oracle failure: look harder for a concrete failing input.
    More seeds of the same generators (the component decides how many via EXTENDED), shrinking of the disagreeing
    inputs (a smaller disagreeing input often is a failing one)."""
    extra_seeds = getattr(mod, "EXTENDED_SEEDS", 3)
    base = core.base_seed()
    for k in range(1, extra_seeds + 1):
        os.environ["VERIF_SEED"] = str(base + 1000 * k)
        try:
            cases = mod.cases(tier)
            res = flatten(core.pmap(COMPONENTS[comp], "run_case", cases, {"tier": tier}, chunk=getattr(mod, "CHUNK", 50)))
        finally:
            os.environ["VERIF_SEED"] = str(base)
        for r in res:
            rec = r["props"].get(prop)
            if rec and rec["app"] and rec["o"] is not None:
                r["seed"] = base + 1000 * k
                return r
    return None


# properties whose anchored module is also tied by the translator (checks/py2lean.py + ProcSim/Props/*gen.lean)
TIE_MODULE = {"C19": "reg_access", "C04": "sim_utils", "C05": "sim_utils", "C01": "acc_plan", "C02": "acc_plan"}
# properties that are also observed through a secondary channel served by another component: the command line must
# reject (exit status, no table) what the library rejects / must not complete a run that stalls
SECONDARY = {"C08": "e2e", "C11": "e2e", "C14": "e2e", "C15": "e2e"}
TIE_SEARCH_TIER = {"queue": "thorough"}      # other components: the quick scope over further seeds (minutes, not hours)


def tie_search(prop: str, comp: str, mod) -> tuple[dict | None, dict | None, int]:
    """the translator tie no longer checks: look for a concrete failing input with the correspondence machinery at the
    thorough scope and further seeds.  Returns (first oracle failure, first projection disagreement, cases run)."""
    base = core.base_seed()
    first_k, n = None, 0
    for k in range(0, 1 + getattr(mod, "EXTENDED_SEEDS", 3)):
        os.environ["VERIF_SEED"] = str(base + 1000 * k)
        try:
            st = TIE_SEARCH_TIER.get(comp, "quick")
            if st == "quick" and k == 0:
                continue            # that run is the one the check has just evaluated
            cases = mod.cases(st)
            res = flatten(core.pmap(COMPONENTS[comp], "run_case", cases, {"tier": st}, chunk=getattr(mod, "CHUNK", 50)))
        finally:
            os.environ["VERIF_SEED"] = str(base)
        n += len(res)
        for r in res:
            rec = r["props"].get(prop)
            if not rec or not rec["app"]:
                continue
            if rec["o"] is not None:
                r["seed"] = base + 1000 * k
                return r, first_k, n
            if not rec["k"] and first_k is None:
                r["seed"] = base + 1000 * k
                first_k = r
    return None, first_k, n


def main() -> int:
    ap = argparse.ArgumentParser()
    ap.add_argument("prop")
    ap.add_argument("--tier", default=os.environ.get("VERIF_TIER", "quick"), choices=["quick", "thorough"])
    ap.add_argument("--replay")
    args = ap.parse_args()
    prop, tier = args.prop, args.tier
    t0 = time.time()
    seed = core.base_seed()
    comp = PROP_COMPONENT[prop]
    mod = importlib.import_module(COMPONENTS[comp])

    build_s = core.ensure_built()

    if args.replay:
        with open(args.replay) as fh:
            rp = json.load(fh)
        rmod = importlib.import_module(COMPONENTS[rp["component"]]) if rp.get("component") in COMPONENTS else mod
        rec = rmod.replay(prop, rp["input"])
        print(json.dumps(rec, indent=1))
        bad = rec["app"] and (rec["o"] is not None or not rec["k"])
        if bad:
            print(f"VIOLATION property={prop} replay={args.replay}")
        return 1 if bad else 0

    aud = audit_mod.audit(prop, thorough=(tier == "thorough"))

    comp_res = component_results(comp, tier)
    results = comp_res["results"]

    known = load_json(os.path.join(VERIF, "known_findings.json"), {"open": [], "fixed": []})
    ksamples = kernel_samples(comp, tier)

    evaluated = 0
    digests_nt = set()
    tags = collections.Counter()
    families = collections.Counter()
    o_fail, k_fail = [], []
    samples = []
    for r in results:
        rec = r["props"].get(prop)
        if rec is None or not rec.get("app"):
            continue
        evaluated += 1
        families[r.get("family", "?")] += 1
        for tg in r.get("tags", []):
            tags[tg] += 1
        if rec.get("nontrivial"):
            digests_nt.add(r.get("digest"))
        if rec.get("o") is not None:
            o_fail.append(r)
        elif not rec.get("k"):
            k_fail.append(r)
        if "input" in r and len(samples) < 3 and rec.get("o") is None and rec.get("k"):
            samples.append({"case": r["case"], "family": r.get("family"), "input": r["input"]})

    violations = []   # (replay path, suffix)
    known_lines = []

    def is_known(r):
        for e in known.get("open", []):
            if finding_matches(e, prop, r):
                return e
        return None

    # (1) oracle failures: the implementation's own output violates the property's predicate
    reported = 0
    for r in o_fail:
        e = is_known(r)
        if e is not None:
            known_lines.append(f"KNOWN-FINDING: property={prop} {e.get('what', '')}")
            continue
        inp = r.get("input")
        clause = r["props"][prop]["o"]
        if inp is not None and hasattr(mod, "shrink"):
            def still(cand, _clause=clause):
                rec2 = mod.replay(prop, cand)
                return rec2["app"] and rec2["o"] == _clause
            try:
                inp = mod.shrink(prop, inp, still)
            except Exception:  # noqa: BLE001
                pass
        if reported < 3:
            path = write_replay(prop, {"property": prop, "kind": "oracle", "failing_clause": clause, "seed": seed,
                                       "case": r["case"], "family": r.get("family"), "input": inp,
                                       "impl": r.get("impl"), "model": r.get("model"),
                                       "how_to_replay": f"checks/run.py {prop} --replay <this file>"})
            violations.append((path, ""))
        reported += 1

    # (1b) the property's secondary channel (command line), served by another component's run
    sec_cases = 0
    if prop in SECONDARY and not violations:
        sec = component_results(SECONDARY[prop], tier)["results"]
        for r in sec:
            rec = r["props"].get(prop)
            if rec is None or not rec.get("app"):
                continue
            sec_cases += 1
            if rec.get("o") is not None and is_known(r) is None and len(violations) < 2:
                path = write_replay(prop, {"property": prop, "kind": "oracle", "component": SECONDARY[prop],
                                           "failing_clause": rec["o"], "seed": seed, "case": r["case"], "input": r.get("input"),
                                           "impl": r.get("impl"), "how_to_replay": f"checks/run.py {prop} --replay <this file>"})
                violations.append((path, ""))

    # (2) correspondence failures with no oracle failure: search harder for a failing input
    if k_fail and not violations:
        found = None
        try:
            found = extended_search(prop, comp, mod, tier, k_fail)
        except core.InfraError:
            raise
        except Exception:  # noqa: BLE001
            traceback.print_exc()
        if found is not None and is_known(found) is None:
            path = write_replay(prop, {"property": prop, "kind": "oracle", "failing_clause": found["props"][prop]["o"],
                                       "seed": found.get("seed"), "case": found["case"], "family": found.get("family"),
                                       "input": found.get("input"), "impl": found.get("impl"), "model": found.get("model"),
                                       "note": "found by the extended search after the correspondence broke"})
            violations.append((path, ""))
        else:
            r = k_fail[0]
            if is_known(r) is None:
                path = write_replay(prop, {"property": prop, "kind": "correspondence",
                                           "broken": f"K.{comp}.pi_{prop[1:]} (model and implementation disagree on the projection {prop} is about)",
                                           "theorems_relying_on_it": [t["name"] for t in aud["theorems"]],
                                           "seed": seed, "case": r["case"], "family": r.get("family"),
                                           "input": r.get("input"), "impl": r.get("impl"), "model": r.get("model"),
                                           "disagreeing_cases": len(k_fail),
                                           "note": "no input was found on which the property's own predicate fails; the property is no longer shown to hold"})
                violations.append((path, " no-failing-input-found"))
            else:
                known_lines.append(f"KNOWN-FINDING: property={prop} {is_known(r).get('what', '')}")

    # (3) kernel samples refuted: the definitions the theorems are about disagree with the implementation
    if ksamples is not None and not ksamples.get("confirmed") and not violations:
        path = write_replay(prop, {"property": prop, "kind": "correspondence",
                                   "broken": f"K.kernel.{comp} (Lean kernel: model outcome = implementation's outcome refuted by `decide`)",
                                   "theorems_relying_on_it": [t["name"] for t in aud["theorems"]], "seed": seed,
                                   "detail": ksamples,
                                   "note": "no input was found on which the property's own predicate fails; the property is no longer shown to hold"})
        violations.append((path, " no-failing-input-found"))

    # (4) translator tie: the Lean text regenerated from the current source must still satisfy the equivalence theorems
    tie, tie_line = None, None
    if prop in TIE_MODULE:
        from checks import translator_tie

        tie = translator_tie.check(TIE_MODULE[prop])
        if tie["status"] in ("broken", "unsupported") and not violations:
            found_o, found_k, n_deep = tie_search(prop, comp, mod)
            tie["search"] = {"cases": n_deep, "oracle_failure": found_o is not None, "disagreement": found_k is not None}
            if found_o is not None and is_known(found_o) is None:
                path = write_replay(prop, {"property": prop, "kind": "oracle", "failing_clause": found_o["props"][prop]["o"],
                                           "seed": found_o.get("seed"), "case": found_o["case"], "family": found_o.get("family"),
                                           "input": found_o.get("input"), "impl": found_o.get("impl"), "model": found_o.get("model"),
                                           "note": "found by the search started because the translator tie no longer checks",
                                           "translator_tie": tie})
                violations.append((path, ""))
            elif found_k is not None and is_known(found_k) is None:
                path = write_replay(prop, {"property": prop, "kind": "correspondence",
                                           "broken": f"T.{TIE_MODULE[prop]} (equivalence theorems generated code = model: {tie.get('broken_declarations') or tie.get('detail')}) "
                                                     f"and K.{comp}.pi_{prop[1:]} (model and implementation disagree)",
                                           "theorems_relying_on_it": [t["name"] for t in aud["theorems"]],
                                           "seed": found_k.get("seed"), "case": found_k["case"], "input": found_k.get("input"),
                                           "impl": found_k.get("impl"), "model": found_k.get("model"), "translator_tie": tie,
                                           "note": "no input was found on which the property's own predicate fails; the property is no longer shown to hold"})
                violations.append((path, " no-failing-input-found"))
            else:
                # the hand-written model is still tied to this source by the correspondence (checked above and, just now, at
                # the thorough scope over further seeds); the stronger tie is unavailable for this tree — said, not hidden
                tie_line = (f"TIE-DEGRADED property={prop} translator tie for {tie['module']} is {tie['status']} "
                            f"({(tie.get('broken_declarations') or tie.get('detail'))}); correspondence tie holds on "
                            f"{evaluated} + {n_deep} cases, no failing input")

    # evidence
    n_thm = len(aud["theorems"])
    level = "proof" if n_thm > 0 and aud["ok"] else "other"
    wall = time.time() - t0
    coverage = {
        "evaluations": evaluated,
        "distinct_nontrivial": len(digests_nt),
        "rule": getattr(mod, "RULES", {}).get(prop, ""),
        "samples": samples or [{"note": "no sample retained"}],
        "obligations": n_thm,
        "discharged": sum(1 for t in aud["theorems"] if t["ok"]),
        "checker_cmd": "cd lean/ProcSim && lake build && lake env lean <generated #print axioms file>  (checks/audit.py); thorough tier adds `lake env leanchecker`",
        "trusted_base": TRUSTED_BASE,
        "theorems": aud["theorems"],
        "pending_theorems": aud.get("pending", []),
        "forbidden_tokens_found": aud.get("forbidden", []),
        "leanchecker": aud.get("leanchecker"),
        "correspondence": {"component": comp, "cases_run": len(results), "applicable": evaluated,
                           "oracle_failures": len(o_fail), "projection_disagreements": len(k_fail),
                           "families": dict(families), "distribution": dict(tags.most_common(40)),
                           "component_wall_s": comp_res.get("wall_s"),
                           "secondary_channel": ({"component": SECONDARY[prop], "what": "the command line rejects (exit status, no table) what the library rejects / a run that stalls",
                                                  "cases": sec_cases} if prop in SECONDARY else None)},
        "explanation": ("kernel-checked theorems about the executable Lean model (list under 'theorems') + differential "
                        "correspondence model/implementation on generated inputs + the property's Bool spec evaluated on the "
                        "implementation's output" if level == "proof" else
                        "differential check of the implementation against an executable Lean model and evaluation of the "
                        "property's Bool spec (Lean) on the implementation's output; no theorem registered yet"),
        "exhaustive": False,
        "impl_branch_coverage": impl_coverage(comp) if tier == "thorough" else None,
        "kernel_samples": ksamples,
        "translator_tie": tie,
        "lake_build_s": build_s,
    }
    assumptions = list(TRUSTED_BASE)
    if prop in TIE_MODULE:
        assumptions.append(
            "translator tie (second tie for this property's anchored module): checks/py2lean.py (syntax-directed printer over "
            "Python's ast, explicit subset, Unsupported otherwise), ProcSim/PyLite.lean's reading of list / set / negative "
            "index / truthiness / short-circuit / exceptions, the type-hint table (request owners are naturals; flags are "
            "consumed by truthiness), no aliasing between objects reachable from self, attrs __init__ = factories then converters")
        coverage["trusted_base"] = assumptions
    ev = {"property_id": prop, "tier": tier, "seed": seed, "level": level, "coverage": coverage,
          "assumptions": assumptions, "wall_s": round(wall, 2), "violations": len(violations)}
    os.makedirs(os.path.join(VERIF, "evidence"), exist_ok=True)
    with open(os.path.join(VERIF, "evidence", f"{prop}.json"), "w") as fh:
        json.dump(ev, fh, indent=1)

    for line in sorted(set(known_lines)):
        print(line)
    if tie_line:
        print(tie_line)
    for path, suffix in violations:
        print(f"VIOLATION property={prop} replay={path}{suffix}")
    if not violations:
        print(f"OK property={prop} tier={tier} seed={seed} level={level} theorems={n_thm} cases={evaluated} "
              f"nontrivial={len(digests_nt)} wall={wall:.1f}s")
    core.prune_cache()
    return 1 if violations else 0


if __name__ == "__main__":
    try:
        sys.exit(main())
    except core.InfraError as e:
        print("INFRASTRUCTURE ERROR (not a verdict):", e, file=sys.stderr)
        sys.exit(2)
    except Exception:  # noqa: BLE001
        traceback.print_exc()
        sys.exit(2)
