#!/venv/bin/python
"""Development tool (not a registered check): run every check against the semantics-preserving refactorings kept under
/verif/refactors/ — all of them must stay silent (exit 0, no VIOLATION line; a TIE-DEGRADED line is allowed and reported).

  checks/refactors.py run [R11 R15 …] [--props C01,C19]
"""
from __future__ import annotations

import os
import subprocess
import sys

VERIF = os.path.dirname(os.path.dirname(os.path.abspath(__file__)))
sys.path.insert(0, VERIF)
from checks.seeded import drop, scratch_copy  # noqa: E402

ALL = ["C%02d" % i for i in range(1, 21)]


def main() -> int:
    args = sys.argv[2:] if len(sys.argv) > 1 and sys.argv[1] == "run" else []
    props, ids = ALL, []
    i = 0
    while i < len(args):
        if args[i] == "--props":
            props = args[i + 1].split(",")
            i += 2
        else:
            ids.append(args[i])
            i += 1
    root = os.path.join(VERIF, "refactors")
    ids = ids or sorted((d for d in os.listdir(root) if os.path.isdir(os.path.join(root, d))), key=lambda s: int(s[1:]))
    bad = 0
    for rid in ids:
        d = scratch_copy()
        repo = os.path.join(d, "repo")
        try:
            subprocess.run(["git", "-C", repo, "apply", os.path.join(root, rid, "patch.diff")], check=True)
            out = {}
            for p in props:
                r = subprocess.run(["/venv/bin/python", os.path.join(VERIF, "checks", "run.py"), p, "--tier", "quick"],
                                   capture_output=True, text=True, env=dict(os.environ, VERIF_REPO=repo), cwd=VERIF)
                viol = [ln for ln in r.stdout.splitlines() if ln.startswith("VIOLATION")]
                deg = [ln for ln in r.stdout.splitlines() if ln.startswith("TIE-DEGRADED")]
                if r.returncode != 0 or viol:
                    out[p] = "ALARM(rc=%d) %s" % (r.returncode, (viol or [r.stderr[-300:]])[0])
                    bad += 1
                elif deg:
                    out[p] = "silent (tie degraded)"
            print(f"{rid}: {'all %d checks silent' % len(props) if not out else out}")
            sys.stdout.flush()
        finally:
            drop(d)
    return 1 if bad else 0


if __name__ == "__main__":
    sys.exit(main())
