"""Translator tie (DESIGN.md §12): re-generate the Lean text of the translated Python modules from the sources that are in
the repository *now* and re-check the equivalence theorems (generated code = hand-written model) against that text.

    status "in-sync"      the regenerated text equals the committed module that `lake build` compiled and the audit
                          covered: the registered `GenTie.*` theorems are theorems about the current source
    status "re-proved"    the text differs (the source was edited) but Lean accepts the same proofs against the new text
    status "broken"       Lean rejects some equivalence proof against the new text   -> the caller searches for a failing
                          input (correspondence at extended scope); the hand-written model's tie is then the
                          correspondence alone
    status "unsupported"  the source left the translated subset (py2lean.Unsupported)  -> same as "broken"

    python -m checks.translator_tie reg_access      prints the JSON status
"""
from __future__ import annotations

import hashlib
import json
import os
import re
import subprocess
import sys

VERIF = os.path.dirname(os.path.dirname(os.path.abspath(__file__)))
sys.path.insert(0, VERIF)
from checks import py2lean  # noqa: E402
from harness import core  # noqa: E402

# module -> (committed generated Lean module, proof module checked against it, modules the proof needs besides the generated one)
TIES = {
    "reg_access": {
        "gen": "ProcSim/Gen/RegAccess.lean",
        "proofs": "ProcSim/Props/C19gen.lean",
        "gen_module": "ProcSim.Gen.RegAccess",
        "theorems": ["gen_can_access", "gen_dequeue", "gen_append", "gen_create", "gen_build_eq", "gen_run_eq",
                     "C19_gen_served_iff", "C19_gen_dequeue_total"],
    },
    "acc_plan": {
        "gen": "ProcSim/Gen/AccPlan.lean",
        "proofs": "ProcSim/Props/AccPlanGen.lean",
        "gen_module": "ProcSim.Gen.AccPlan",
        "theorems": ["gen_add_rd_access", "gen_add_wr_access", "gen_add_access", "gen_build_acc_plan", "C01_gen_plan_requests"],
    },
    "sim_utils": {
        "gen": "ProcSim/Gen/SimUtils.lean",
        "proofs": "ProcSim/Props/SimUtilsGen.lean",
        "gen_module": "ProcSim.Gen.SimUtils",
        "theorems": ["gen_unit_full", "gen_mem_unavail", "fillLoop_cons_gen", "tryPorts_cons_gen"],
    },
}


def split_imports(text: str) -> tuple[list[str], str]:
    imports, rest = [], []
    for ln in text.splitlines():
        (imports if ln.startswith("import ") else rest).append(ln)
    return imports, "\n".join(rest) + "\n"


def check(mod: str) -> dict:
    tie = TIES[mod]
    repo = core.REPO if hasattr(core, "REPO") else os.environ.get("VERIF_REPO", "/repo")
    src_path = os.path.join(repo, py2lean.MODULES[mod])
    out = {"module": py2lean.MODULES[mod], "generated": tie["gen"], "proofs": tie["proofs"], "theorems": tie["theorems"],
           "source_sha256": hashlib.sha256(open(src_path, "rb").read()).hexdigest()}
    committed = open(os.path.join(core.LEAN_DIR, tie["gen"]), encoding="utf-8").read()
    try:
        fresh = py2lean.generate(mod, repo)
    except py2lean.Unsupported as e:
        out.update(status="unsupported", detail=str(e))
        return out
    except SyntaxError as e:
        out.update(status="unsupported", detail=f"source does not parse: {e}")
        return out
    out["generated_sha256"] = hashlib.sha256(fresh.encode()).hexdigest()
    if fresh == committed:
        out.update(status="in-sync",
                   detail="regenerated text is identical to the compiled and audited module; the GenTie theorems are about the current source")
        return out
    # the source changed: check the same proofs against the new text, outside the library (nothing in /verif is modified)
    gi, gbody = split_imports(fresh)
    pi, pbody = split_imports(open(os.path.join(core.LEAN_DIR, tie["proofs"]), encoding="utf-8").read())
    imports = [x for x in dict.fromkeys(gi + pi) if x != "import " + tie["gen_module"]]
    text = "\n".join(imports) + "\n" + gbody + "\n" + pbody
    key = hashlib.sha256(text.encode()).hexdigest()[:20]
    cache = os.path.join(core.CACHE, f"tie-{mod}-{key}.json")
    if os.path.exists(cache):
        with open(cache) as fh:
            out.update(json.load(fh))
        return out
    os.makedirs(core.CACHE, exist_ok=True)
    path = os.path.join(core.CACHE, f"Tie_{mod}_{os.getpid()}.lean")
    with open(path, "w", encoding="utf-8") as fh:
        fh.write(text)
    core.ensure_built()
    try:
        r = subprocess.run(["lake", "env", "lean", path], cwd=core.LEAN_DIR, capture_output=True, text=True, timeout=900)
        log = r.stdout + r.stderr
        rc = r.returncode
    except subprocess.TimeoutExpired:
        log, rc = "timeout", 1
    finally:
        os.remove(path)
    errs = [ln for ln in log.splitlines() if ": error" in ln]
    if rc == 0 and "sorry" not in log:
        res = {"status": "re-proved", "detail": "the source changed; Lean accepts the same equivalence proofs against the regenerated text"}
    else:
        # name the theorems whose proofs no longer check
        lines = text.splitlines()
        broken = []
        for e in errs:
            m = re.search(r":(\d+):\d+: error", e)
            if not m:
                continue
            ln = int(m.group(1))
            for k in range(min(ln, len(lines)) - 1, -1, -1):
                mm = re.match(r"\s*(theorem|def|structure|inductive|instance)\s+([^\s:(]+)", lines[k])
                if mm:
                    broken.append(mm.group(2))
                    break
        res = {"status": "broken", "detail": "Lean rejects the equivalence proofs against the regenerated text",
               "broken_declarations": sorted(set(broken)), "errors": errs[:6],
               "diff_vs_committed": [ln for ln in _diff(committed, fresh)][:40]}
    with open(cache, "w") as fh:
        json.dump(res, fh)
    out.update(res)
    return out


def _diff(a: str, b: str):
    import difflib

    return [ln for ln in difflib.unified_diff(a.splitlines(), b.splitlines(), "committed", "regenerated", lineterm="", n=1)]


if __name__ == "__main__":
    core.install_repo()
    print(json.dumps(check(sys.argv[1]), indent=1))
