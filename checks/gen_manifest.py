#!/usr/bin/env python3
"""Regenerate /verif/MANIFEST.json from checks/claims.json (texts per property) and theorems.json (what is proved).

A property is claimed at level `proof` only while at least one property theorem about it is registered in
theorems.json (and therefore audited on every run); otherwise at level `other` (differential check against the
executable Lean model + Lean Bool spec on the implementation's output). Properties without a working check are
listed under not_applicable with the reason.
"""
import json
import os

VERIF = os.path.dirname(os.path.dirname(os.path.abspath(__file__)))
props = [json.loads(line) for line in open(os.path.join(VERIF, "properties.jsonl"))]
claims = json.load(open(os.path.join(VERIF, "checks", "claims.json")))
thms = json.load(open(os.path.join(VERIF, "theorems.json")))

checks, na = [], []
for p in props:
    pid = p["id"]
    c = claims.get(pid)
    if not c or not c.get("built"):
        na.append({"property_id": pid, "reason": (c or {}).get("reason", "check not built yet")})
        continue
    ent = thms.get(pid, {})
    proved = [t["name"].split(".")[-1] for t in ent.get("theorems", [])]
    pending = ent.get("pending", [])
    level = "proof" if proved else "other"
    text = c["text"]
    if proved:
        main = ent["theorems"][0]
        text = ("PROVED in Lean 4 about the executable model, for every input with no bound on sizes, depths or steps (" +
                main["name"].split(".")[-1] + "): " + main["reads"] + ". TIE TO THE CODE, checked on every run: " + c["text"] +
                " A code change that breaks the property makes the implementation disagree with a model that provably has it, "
                "exactly on the inputs where the property fails; the check then reports the failing input as replay. "
                "All audited theorems of this property (#print axioms within propext / Classical.choice / Quot.sound): " +
                ", ".join(proved) + ".")
    if pending:
        text += " Not (yet) theorem-backed, covered by correspondence + Lean Bool spec on the implementation's output only: " + "; ".join(pending) + "."
    checks.append({
        "property_id": pid,
        "quick_cmd": f"/venv/bin/python checks/run.py {pid} --tier quick",
        "thorough_cmd": f"/venv/bin/python checks/run.py {pid} --tier thorough",
        "evidence_file": f"evidence/{pid}.json",
        "replay_cmd_template": f"/venv/bin/python checks/run.py {pid} --replay {{path}}",
        "engine": c.get("engine", "lean4-model+correspondence"),
        "level_claimed": {"category": level, "text": text, "design_ref": c.get("design_ref", "DESIGN.md §5")},
        "level_note": c["note"],
        "technique": c.get("technique", "machine-checked proof in Lean 4 about a hand-written executable model, tied to the code by a differential correspondence check (Lean driver vs in-process implementation) that also evaluates the theorem's predicate on the implementation's output"),
    })

manifest = {
    "version": 1,
    "setup_cmd": "cd lean/ProcSim && lake build",
    "hooks": {
        "guard": "MSK61_PROCESSORSIM_VERIF",
        "enable": "no source hooks are needed: every property is observable through public return values, exceptions and stdout; the harness imports /repo/src as it is, under harness/compat/fc_compat.py (fastcore 1.7 `Self` semantics)",
        "baseline_off_cmd": "cd /repo && /venv/bin/python -m pytest -ra -q -p no:cacheprovider --timeout=900 --continue-on-collection-errors",
        "source_commits": [],
        "add_only": True,
    },
    "engines": [
        {"name": "lean4-model+correspondence", "path": "lean/ProcSim", "serves_properties": [c["property_id"] for c in checks],
         "kind_free_text": "Lean 4 library (models, Bool specs, lemmas, property theorems) + compiled line-protocol driver psdriver; Python harness under harness/ runs the real code in-process and diffs"},
        {"name": "py2lean-translator-tie", "path": "checks/py2lean.py", "serves_properties": ["C01", "C02", "C04", "C05", "C19"],
         "kind_free_text": "translator Python ast -> Lean definitions over ProcSim/PyLite.lean (src/reg_access.py, the access-plan builder of src/sim_services/__init__.py, src/sim_services/_utils.py), regenerated on every run; equivalence theorems ProcSim.GenTie.* re-checked by Lean against the regenerated text (checks/translator_tie.py)"},
    ],
    "checks": checks,
    "notes": "Three genuine defects of the pinned tree were repaired with fix: commits in /repo (ba730e2, 58bded6, f90634d; see known_findings.json and DESIGN.md §11.3). Exit 2 of a check = infrastructure failure, never a verdict. theorems.json is the registry of audited theorems; DESIGN.md §11 is the as-built record.",
    "not_applicable": na,
}
with open(os.path.join(VERIF, "MANIFEST.json"), "w") as fh:
    json.dump(manifest, fh, indent=1)
print("checks:", [c["property_id"] + ":" + c["level_claimed"]["category"] for c in checks])
print("not_applicable:", [x["property_id"] for x in na])
