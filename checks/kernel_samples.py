"""Kernel samples (thorough tier, evidence + correspondence): the Lean *kernel* confirms model = implementation.

For a handful of small generated simulator inputs the real `simulate` is run, names are mapped to numbers
(order-preserving), and a Lean file of `example : outcomeCanon (simulate p prog) = <implementation's outcome> := by decide`
is generated and checked with `lake env lean` — no compiled model code is involved, so this ties the definitions the
theorems are about directly to the implementation's behaviour on those inputs.

    python -m checks.kernel_samples [n]      prints a JSON summary; exit 0 = all confirmed, 1 = some sample refuted
"""
from __future__ import annotations

import json
import os
import subprocess
import sys

VERIF = os.path.dirname(os.path.dirname(os.path.abspath(__file__)))
sys.path.insert(0, VERIF)
from harness import comp_sim, core  # noqa: E402

RANK = {"D": 0, "S": 1, "U": 2}


def lean_list(xs):
    return "[" + ", ".join(xs) + "]"


def unit_lean(u, nm):
    return (f"⟨{nm[u['name']]}, {u['width']}, {lean_list(str(nm[c]) for c in u['caps'])}, "
            f"{'true' if u['rd'] else 'false'}, {'true' if u['wr'] else 'false'}, {lean_list(str(nm[c]) for c in u['acl'])}⟩")


def fu_lean(f, nm):
    return f"⟨{unit_lean(f['model'], nm)}, {lean_list(str(nm[p]) for p in f['preds'])}⟩"


def sample_lean(k, inp, impl):
    pj, prog = inp["proc"], inp["prog"]
    names = set()
    for u in pj["in"] + pj["inout"]:
        names |= {u["name"], *u["caps"], *u["acl"]}
    for f in pj["out"] + pj["internal"]:
        names |= {f["model"]["name"], *f["model"]["caps"], *f["model"]["acl"], *f["preds"]}
    for i in prog:
        names |= {i["dst"], i["cap"], *i["srcs"]}
    nm = {s: n for n, s in enumerate(sorted(names))}   # order-preserving: Nat order = Python str order
    proc = (f"⟨{lean_list(unit_lean(u, nm) for u in pj['in'])}, {lean_list(fu_lean(f, nm) for f in pj['out'])}, "
            f"{lean_list(unit_lean(u, nm) for u in pj['inout'])}, {lean_list(fu_lean(f, nm) for f in pj['internal'])}⟩")
    prg = lean_list(f"⟨{lean_list(str(nm[s]) for s in i['srcs'])}, {nm[i['dst']]}, {nm[i['cap']]}⟩" for i in prog)
    kind = {"done": 0, "stall": 1}.get(impl["outcome"], 2)
    rows = []
    for row in impl.get("table", []):
        ents = sorted((nm[u], sorted((idx, RANK[lab]) for idx, lab in lst)) for u, lst in row if lst)
        rows.append(lean_list(f"({u}, {lean_list(f'({i}, {r})' for i, r in l)})" for u, l in ents))
    table = lean_list(rows)
    return (f"/-- sample {k}: {json.dumps(nm)} -/\n"
            f"example : outcomeCanon (simulate ({proc} : Proc Nat) {prg}) = ({kind}, {table}) := by decide\n")


def main(n: int = 16) -> int:
    core.install_repo()
    core.ensure_built(["ProcSim.Model.Canon"])
    out, meta = ["import ProcSim.Model.Canon", "open ProcSim", "set_option maxRecDepth 100000", ""], []
    case = 0
    while len(meta) < n and case < 40000:
        family, inp = comp_sim.gen_input(case, "quick")
        case += 1
        nunits = sum(len(inp["proc"][k]) for k in ("in", "out", "inout", "internal"))
        if nunits > 6 or not (1 <= len(inp["prog"]) <= 8):
            continue
        proc = comp_sim.proc_from_json(inp["proc"])
        inp = {"proc": comp_sim.proc_json(proc), "prog": inp["prog"]}
        impl = comp_sim.run_impl(proc, comp_sim.prog_from_json(inp["prog"]))
        if impl["outcome"] == "exc":
            continue
        if len(impl["table"]) > 18:
            continue
        out.append(sample_lean(len(meta), inp, impl))
        meta.append({"case": case - 1, "family": family, "units": nunits, "instructions": len(inp["prog"]),
                     "outcome": impl["outcome"], "cycles": len(impl["table"])})
    path = os.path.join(core.CACHE, f"KernelSamples_{os.getpid()}.lean")
    os.makedirs(core.CACHE, exist_ok=True)
    with open(path, "w") as fh:
        fh.write("\n".join(out))
    r = subprocess.run(["lake", "env", "lean", path], cwd=core.LEAN_DIR, capture_output=True, text=True)
    os.remove(path)
    errs = [ln for ln in (r.stdout + r.stderr).splitlines() if "error" in ln]
    res = {"samples": len(meta), "confirmed": r.returncode == 0, "errors": errs[:5], "cases": meta[:6],
           "what": "Lean kernel (`by decide`, no compiled code) confirms model outcome = implementation outcome on these inputs"}
    if r.returncode != 0:
        res["lean_file_excerpt"] = "\n".join(out)[:3000]
    print(json.dumps(res))
    return 0 if r.returncode == 0 else 1


if __name__ == "__main__":
    sys.exit(main(int(sys.argv[1]) if len(sys.argv) > 1 else 16))
