"""Kernel samples (thorough tier, evidence + correspondence): the Lean *kernel* confirms model = implementation.

For a handful of small generated simulator inputs the real `simulate` is run, names are mapped to numbers
(order-preserving), and a Lean file of `example : outcomeCanon (simulate p prog) = <implementation's outcome> := by decide`
is generated and checked with `lake env lean` — no compiled model code is involved, so this ties the definitions the
theorems are about directly to the implementation's behaviour on those inputs.

    python -m checks.kernel_samples [n]      prints a JSON summary; exit 0 = all confirmed, 1 = some sample refuted
"""
from __future__ import annotations

import json
import os
import subprocess
import sys

VERIF = os.path.dirname(os.path.dirname(os.path.abspath(__file__)))
sys.path.insert(0, VERIF)
from harness import comp_sim, core  # noqa: E402

RANK = {"D": 0, "S": 1, "U": 2}


def lean_list(xs):
    return "[" + ", ".join(xs) + "]"


def unit_lean(u, nm):
    return (f"⟨{nm[u['name']]}, {u['width']}, {lean_list(str(nm[c]) for c in u['caps'])}, "
            f"{'true' if u['rd'] else 'false'}, {'true' if u['wr'] else 'false'}, {lean_list(str(nm[c]) for c in u['acl'])}⟩")


def fu_lean(f, nm):
    return f"⟨{unit_lean(f['model'], nm)}, {lean_list(str(nm[p]) for p in f['preds'])}⟩"


def sample_lean(k, inp, impl):
    pj, prog = inp["proc"], inp["prog"]
    names = set()
    for u in pj["in"] + pj["inout"]:
        names |= {u["name"], *u["caps"], *u["acl"]}
    for f in pj["out"] + pj["internal"]:
        names |= {f["model"]["name"], *f["model"]["caps"], *f["model"]["acl"], *f["preds"]}
    for i in prog:
        names |= {i["dst"], i["cap"], *i["srcs"]}
    nm = {s: n for n, s in enumerate(sorted(names))}   # order-preserving: Nat order = Python str order
    proc = (f"⟨{lean_list(unit_lean(u, nm) for u in pj['in'])}, {lean_list(fu_lean(f, nm) for f in pj['out'])}, "
            f"{lean_list(unit_lean(u, nm) for u in pj['inout'])}, {lean_list(fu_lean(f, nm) for f in pj['internal'])}⟩")
    prg = lean_list(f"⟨{lean_list(str(nm[s]) for s in i['srcs'])}, {nm[i['dst']]}, {nm[i['cap']]}⟩" for i in prog)
    kind = {"done": 0, "stall": 1}.get(impl["outcome"], 2)
    rows = []
    for row in impl.get("table", []):
        ents = sorted((nm[u], sorted((idx, RANK[lab]) for idx, lab in lst)) for u, lst in row if lst)
        rows.append(lean_list(f"({u}, {lean_list(f'({i}, {r})' for i, r in l)})" for u, l in ents))
    table = lean_list(rows)
    return (f"/-- sample {k}: {json.dumps(nm)} -/\n"
            f"example : outcomeCanon (simulate ({proc} : Proc Nat) {prg}) = ({kind}, {table}) := by decide\n")


CLASS_CODE = {"DupElemError": 1, "BadWidthError": 2, "BadEdgeError": 3, "UndefElemError": 4, "NetworkXUnfeasible": 5,
              "DeadInputError": 6, "EmptyProcError": 7, "PathLockError": 8, "BlockedCapError": 9}


def loader_sample_lean(k, desc, res):
    """`desc` spells every name in one way only (checked by the caller), so case folding is the identity on it"""
    names = set()
    for u in desc["units"]:
        names |= {u["name"], *u["capabilities"], *u.get("memoryAccess", [])}
    for e in desc["dataPath"]:
        names |= set(e)
    nm = {s: n for n, s in enumerate(sorted(names))}
    b = lambda v: "true" if v else "false"   # noqa: E731
    units = lean_list(
        f"⟨{nm[u['name']]}, {u['width']}, {lean_list(str(nm[c]) for c in u['capabilities'])}, {b(u.get('readLock', False))}, "
        f"{b(u.get('writeLock', False))}, {lean_list(str(nm[c]) for c in u.get('memoryAccess', []))}⟩" for u in desc["units"])
    edges = lean_list(lean_list(str(nm[x]) for x in e) for e in desc["dataPath"])
    if res["ok"]:
        rows = []
        p = res["proc"]
        for cls, key in ((0, "inPorts"), (1, "inOut"), (2, "outPorts"), (3, "internal")):
            for u in p[key]:
                caps = [nm[c] for c in u["caps"]]
                acl = [nm[c] for c in u["acl"]]
                preds = sorted(nm[q] for q in u.get("preds", []))
                row = [cls, nm[u["name"]], u["width"], int(u["rd"]), int(u["wr"]), len(caps), *caps, len(acl), *acl, len(preds), *preds]
                rows.append((nm[u["name"]], lean_list(str(x) for x in row)))
        want = f"(0, {lean_list(r for _, r in sorted(rows))})"
    else:
        want = f"({CLASS_CODE[res['error']['class']]}, [])"
    return (f"/-- loader sample {k}: {json.dumps(nm)} -/\n"
            f"example : loadCanonNat (⟨{units}, {edges}⟩ : Loader.Desc Nat) = {want} := by decide\n")


def loader_samples(n: int):
    from harness import comp_loader

    out, meta = [], []
    case = 0
    while len(meta) < n and case < 20000:
        rng = core.case_rng("kernel-loader", case)
        case += 1
        fam = comp_loader.FAMILIES[case % len(comp_loader.FAMILIES)]
        if fam == "mkproc":
            continue
        desc, _ = comp_loader.gen_desc(rng, fam)
        if len(desc["units"]) > 6:
            continue
        strings = [u["name"] for u in desc["units"]] + [c for u in desc["units"] for c in u["capabilities"] + u.get("memoryAccess", [])] \
            + [x for e in desc["dataPath"] for x in e]
        spell = {}
        for s_ in strings:
            spell.setdefault(s_.lower(), set()).add(s_)
        if any(len(v) > 1 for v in spell.values()):
            continue            # keep case folding out of the kernel samples (fold := id)
        declared = {c for u in desc["units"] for c in u["capabilities"]}
        if any(c not in declared for u in desc["units"] for c in u.get("memoryAccess", [])):
            continue
        if any(not isinstance(u["width"], int) for u in desc["units"]):
            continue
        res = comp_loader.run_load(desc)
        if not res["ok"] and res["error"]["class"] not in CLASS_CODE:
            continue
        out.append(loader_sample_lean(len(meta), desc, res))
        meta.append({"case": case - 1, "family": fam, "units": len(desc["units"]),
                     "outcome": "accepted" if res["ok"] else res["error"]["class"]})
    return out, meta


def chars_lean(t: str) -> str:
    return lean_list("Char.ofNat %d" % ord(ch) for ch in t)


def text_samples(n: int):
    """parser: `readProgram` on generated ASCII texts vs the real `read_program`"""
    from harness import comp_text
    import program_utils

    out, meta = [], []
    case = 0
    while len(meta) < n and case < 20000:
        rng = core.case_rng("kernel-text", case)
        case += 1
        lines = comp_text.gen_raw_lines(rng) if case % 3 == 0 else None
        if lines is None:
            gen = comp_text.gen_program_gen(rng)
            ans = core.driver().ask({"op": "progtext", "gen": gen})
            lines = ans["lines"]
        if len(lines) > 8 or sum(len(x) for x in lines) > 160 or any(ord(ch) > 127 for x in lines for ch in x):
            continue
        try:
            res = program_utils.read_program(list(lines))
            want = ".ok " + lean_list(
                f"⟨{lean_list(chars_lean(x) for x in i.sources)}, {chars_lean(i.destination)}, {chars_lean(i.name)}, {i.line}⟩" for i in res)
            outcome = "ok"
        except program_utils.CodeError as e:
            msg = str(e)
            if msg.startswith("No operands"):
                want = f".error (.noOperands {e.line} {chars_lean(e.instr)})"
            else:
                k = int(msg.split()[1])
                want = f".error (.emptyOperand {e.line} {chars_lean(e.instr)} {k})"
            outcome = "CodeError"
        except Exception:  # noqa: BLE001
            continue
        out.append(f"/-- parser sample {len(meta)} -/\nexample : parseResultEq (Program.readProgram {lean_list(chars_lean(x) for x in lines)}) ({want}) = true := by decide\n")
        meta.append({"case": case - 1, "lines": len(lines), "outcome": outcome})
    return out, meta


def queue_samples(n: int):
    """register queues: a built queue and a random history of can_access / dequeue calls (rejected ones included)"""
    import random

    from reg_access import AccessType, RegAccQBuilder

    out, meta = [], []
    case = 0
    while len(meta) < n:
        rng = random.Random("kernel-queue:%s:%d" % (core.base_seed(), case))
        case += 1
        owners = rng.sample(range(0, 40), rng.randint(1, 4))
        reqs = []
        for o in sorted(owners):           # program order: per owner an optional read, then an optional write
            if rng.random() < 0.7:
                reqs.append((False, o))
            if rng.random() < 0.6:
                reqs.append((True, o))
        if not reqs:
            continue
        b = RegAccQBuilder()
        for w, o in reqs:
            b.append(AccessType.WRITE if w else AccessType.READ, o)
        q = b.create()
        ops, trace = [], []
        for _ in range(rng.randint(3, 12)):
            o = rng.choice(owners + [99])
            if rng.random() < 0.5:
                w = rng.random() < 0.5
                ops.append(f".can {'true' if w else 'false'} {o}")
                try:
                    trace.append(1 if q.can_access(AccessType.WRITE if w else AccessType.READ, o) else 0)
                except Exception:  # noqa: BLE001
                    trace.append(2)
            else:
                ops.append(f".deq {o}")
                try:
                    q.dequeue(o)
                    trace.append(1)
                except Exception:  # noqa: BLE001
                    trace.append(0)
        reqs_l = lean_list(f"({'true' if w else 'false'}, {o})" for w, o in reqs)
        out.append(f"/-- queue sample {len(meta)} -/\nexample : qTrace (Queue.build {reqs_l}) {lean_list(ops)} = {lean_list(str(t) for t in trace)} := by decide\n")
        meta.append({"case": case - 1, "requests": len(reqs), "calls": len(ops), "exceptions": sum(1 for t, o in zip(trace, ops) if (t == 2) or (t == 0 and o.startswith('.deq')))})
    return out, meta


def icase_samples(n: int):
    import random

    from harness import comp_text

    out, meta = [], []
    case = 0
    while len(meta) < n:
        rng = random.Random("kernel-icase:%s:%d" % (core.base_seed(), case))
        case += 1
        a = comp_text.rand_str18(rng)
        b = comp_text.rand_str18(rng, a)
        if len(a) > 12 or len(b) > 12:
            continue
        try:
            bits = comp_text.icase_obs(a, b)[0][:11]
        except Exception:  # noqa: BLE001
            continue
        want = lean_list("true" if c == "1" else "false" for c in bits)
        out.append(f"/-- ICaseString sample {len(meta)} -/\nexample : icaseCanon {chars_lean(a)} {chars_lean(b)} = {want} := by decide\n")
        meta.append({"case": case - 1, "a": a, "b": b, "equal": bits[0] == "1"})
    return out, meta


def bag_samples(n: int):
    import random

    from harness import comp_text

    out, meta = [], []
    case = 0
    while len(meta) < n:
        rng = random.Random("kernel-bag:%s:%d" % (core.base_seed(), case))
        case += 1
        rec = [[u, [rng.randrange(4) for _ in range(rng.randint(0, 3))]] for u in rng.sample(range(5), rng.randint(0, 3))]
        vars_ = comp_text.record_variants(rng, [[str(k), v] for k, v in rec], [0, 1, 2, 3])
        other = rng.choice(vars_) if vars_ else []
        other = [[int(k) if str(k).isdigit() else 9, list(v)] for k, v in other]
        a, b = comp_text.mk_bag([[k, v] for k, v in rec], "int"), comp_text.mk_bag([[k, v] for k, v in other], "int")
        try:
            want = f"({'true' if a == b else 'false'}, {'true' if b == a else 'false'}, {len(a)}, {len(b)})"
        except Exception:  # noqa: BLE001
            continue
        fmt = lambda r: lean_list(f"({k}, {lean_list(str(x) for x in v)})" for k, v in r)   # noqa: E731
        out.append(f"/-- cycle-record sample {len(meta)} -/\nexample : bagCanon {fmt(rec)} {fmt(other)} = {want} := by decide\n")
        meta.append({"case": case - 1, "units": len(rec), "equal": a == b})
    return out, meta


def main(n: int = 16) -> int:
    core.install_repo()
    core.ensure_built(["ProcSim.Model.Canon"])
    out, meta = ["import ProcSim.Model.Canon", "open ProcSim", "set_option maxRecDepth 100000", ""], []
    case = 0
    while len(meta) < n and case < 40000 and os.environ.get("VERIF_KERNEL_COMPONENT", "sim") == "sim":
        family, inp = comp_sim.gen_input(case, "quick")
        case += 1
        nunits = sum(len(inp["proc"][k]) for k in ("in", "out", "inout", "internal"))
        if nunits > 6 or not (1 <= len(inp["prog"]) <= 8):
            continue
        proc = comp_sim.proc_from_json(inp["proc"])
        inp = {"proc": comp_sim.proc_json(proc), "prog": inp["prog"]}
        impl = comp_sim.run_impl(proc, comp_sim.prog_from_json(inp["prog"]))
        if impl["outcome"] == "exc":
            continue
        if len(impl["table"]) > 18:
            continue
        out.append(sample_lean(len(meta), inp, impl))
        meta.append({"case": case - 1, "family": family, "units": nunits, "instructions": len(inp["prog"]),
                     "outcome": impl["outcome"], "cycles": len(impl["table"])})
    if os.environ.get("VERIF_KERNEL_COMPONENT", "sim") == "text":
        tout, meta = text_samples(n)
        iout, imeta = icase_samples(n)
        bout, bmeta = bag_samples(n)
        out = out[:4] + tout + iout + bout
        meta = meta[:2] + imeta[:2] + bmeta[:2] + [{"parser": len(tout), "ICaseString": len(iout), "records": len(bout)}]
    if os.environ.get("VERIF_KERNEL_COMPONENT", "sim") == "queue":
        qout, meta = queue_samples(2 * n)
        out = out[:4] + qout
    if os.environ.get("VERIF_KERNEL_COMPONENT", "sim") == "loader":
        lout, meta = loader_samples(n)
        out = out[:4] + lout
    path = os.path.join(core.CACHE, f"KernelSamples_{os.getpid()}.lean")
    os.makedirs(core.CACHE, exist_ok=True)
    with open(path, "w") as fh:
        fh.write("\n".join(out))
    r = subprocess.run(["lake", "env", "lean", path], cwd=core.LEAN_DIR, capture_output=True, text=True)
    os.remove(path)
    errs = [ln for ln in (r.stdout + r.stderr).splitlines() if "error" in ln]
    # only a `decide` that evaluated the proposition to `false` is a refutation; anything else (missing object file,
    # time-out, elaboration error, recursion depth) is an infrastructure failure and never a verdict
    refuted = [ln for ln in errs if "decide" in ln.lower() or "is false" in ln.lower()]
    full = r.stdout + r.stderr
    if r.returncode != 0 and "is false" not in full:
        print(json.dumps({"infra_error": (errs[:5] or [full[-600:]])}))
        return 2
    res = {"samples": len(meta), "confirmed": r.returncode == 0, "errors": (refuted or errs)[:5], "cases": meta[:6],
           "what": "Lean kernel (`by decide`, no compiled code) confirms model outcome = implementation outcome on these inputs"}
    if r.returncode != 0:
        res["lean_file_excerpt"] = "\n".join(out)[:3000]
    print(json.dumps(res))
    return 0 if r.returncode == 0 else 1


if __name__ == "__main__":
    sys.exit(main(int(sys.argv[1]) if len(sys.argv) > 1 else 16))
