#!/venv/bin/python
"""Development tool (not a registered check): run the checks against the seeded changes kept under /verif/seeded/.

  checks/seeded.py confirm <dir-with-patch.diff-demo.py-meta.json>   confirm a candidate (demo 0/1, baseline 32 pass)
  checks/seeded.py run [<id> …] [--props C01,C02] [--tier quick]       apply each seeded patch to a scratch copy of /repo
                                                                        (outside /repo and /verif), run the checks with
                                                                        VERIF_REPO=<copy>, print which checks flag it
Scratch copies live under /tmp/verif_seeded_* and are removed afterwards.
"""
from __future__ import annotations

import json
import os
import shutil
import subprocess
import sys
import tempfile

VERIF = os.path.dirname(os.path.dirname(os.path.abspath(__file__)))
BASELINE = json.load(open("/root/.vp/BASELINE.json"))


def scratch_copy() -> str:
    d = tempfile.mkdtemp(prefix="verif_seeded_")
    dst = os.path.join(d, "repo")
    subprocess.run(["git", "-C", "/repo", "worktree", "add", "-q", "--detach", dst, "HEAD"], check=True)
    shim = os.path.join(d, "shim")
    os.makedirs(shim)
    shutil.copy(os.path.join(VERIF, "harness", "compat", "fc_compat.py"), shim)
    os.makedirs(os.path.join(shim, "sc"))
    with open(os.path.join(shim, "sc", "sitecustomize.py"), "w") as fh:
        fh.write("import os, sys\nsys.path.insert(0, os.path.dirname(os.path.dirname(os.path.abspath(__file__))))\nimport fc_compat\n")
    return d


def drop(d: str) -> None:
    subprocess.run(["git", "-C", "/repo", "worktree", "remove", "--force", os.path.join(d, "repo")])
    shutil.rmtree(d, ignore_errors=True)


def baseline_ok(repo: str) -> tuple[bool, str]:
    junit = os.path.join(repo, "..", "junit.xml")
    subprocess.run(["/venv/bin/python", "-m", "pytest", "-q", "-p", "no:cacheprovider", "--timeout=900",
                    "--continue-on-collection-errors", f"--junitxml={junit}"], cwd=repo, capture_output=True, text=True)
    import xml.etree.ElementTree as ET

    passed = set()
    for tc in ET.parse(junit).getroot().iter("testcase"):
        if not list(tc):
            passed.add(f"{tc.get('classname')}::{tc.get('name')}")
    want = set(BASELINE["stable_pass"])
    missing = want - passed
    return (not missing, f"{len(passed & want)}/{len(want)} baseline tests pass" + (f"; missing {sorted(missing)[:3]}" if missing else ""))


def run_demo(demo: str, repo: str, shim: str) -> int:
    env = dict(os.environ, SHIM=shim)
    r = subprocess.run(["/venv/bin/python", demo, repo], capture_output=True, text=True, env=env, timeout=600)
    return r.returncode


def confirm(cand: str) -> bool:
    d = scratch_copy()
    repo, shim = os.path.join(d, "repo"), os.path.join(d, "shim")
    try:
        demo = os.path.join(cand, "demo.py")
        rc_clean = run_demo(demo, repo, shim)
        ap = subprocess.run(["git", "-C", repo, "apply", os.path.join(os.path.abspath(cand), "patch.diff")], capture_output=True, text=True)
        if ap.returncode != 0:
            print("patch does not apply:", ap.stderr)
            return False
        rc_mut = run_demo(demo, repo, shim)
        ok_b, msg = baseline_ok(repo)
        comp = subprocess.run(["/venv/bin/python", "-m", "compileall", "-q", os.path.join(repo, "src")], capture_output=True).returncode
        print(f"{cand}: demo clean={rc_clean} mutated={rc_mut}; {msg}; compileall={comp}")
        return rc_clean == 0 and rc_mut == 1 and ok_b and comp == 0
    finally:
        drop(d)


def run(ids: list[str], props: list[str] | None, tier: str, component: bool = False) -> None:
    root = os.path.join(VERIF, "seeded")
    ids = ids or sorted(os.listdir(root))
    for sid in ids:
        sdir = os.path.join(root, sid)
        meta = json.load(open(os.path.join(sdir, "meta.json")))
        meta["property"] = sid.split("-")[0]          # the directory name is authoritative
        targets = props or meta.get("check_props") or [meta["property"]]
        if component:
            # every property served by the same correspondence component (they share one cached component run)
            sys.path.insert(0, VERIF)
            from checks.run import PROP_COMPONENT
            comp = PROP_COMPONENT[meta["property"]]
            targets = sorted(p for p, c in PROP_COMPONENT.items() if c == comp)
        d = scratch_copy()
        repo = os.path.join(d, "repo")
        try:
            subprocess.run(["git", "-C", repo, "apply", os.path.join(sdir, "patch.diff")], check=True)
            out = {}
            for p in targets:
                env = dict(os.environ, VERIF_REPO=repo)
                r = subprocess.run(["/venv/bin/python", os.path.join(VERIF, "checks", "run.py"), p, "--tier", tier],
                                   capture_output=True, text=True, env=env, cwd=VERIF)
                lines = [ln for ln in r.stdout.splitlines() if ln.startswith("VIOLATION")]
                kind = "MISSED" if r.returncode == 0 else ("INFRA" if r.returncode == 2 else
                                                            ("caught(no-input)" if lines and all("no-failing-input-found" in ln for ln in lines) else "caught"))
                out[p] = kind
                if r.returncode == 2:
                    print(r.stderr[-800:])
            print(f"{sid} [{meta['property']}] {meta.get('summary', '')[:90]} -> {out}")
        finally:
            drop(d)


if __name__ == "__main__":
    if len(sys.argv) >= 3 and sys.argv[1] == "confirm":
        sys.exit(0 if confirm(sys.argv[2]) else 1)
    if len(sys.argv) >= 2 and sys.argv[1] == "run":
        args = sys.argv[2:]
        props, tier, ids, component = None, "quick", [], False
        i = 0
        while i < len(args):
            if args[i] == "--props":
                props = args[i + 1].split(",")
                i += 2
            elif args[i] == "--component":
                component = True
                i += 1
            elif args[i] == "--tier":
                tier = args[i + 1]
                i += 2
            else:
                ids.append(args[i])
                i += 1
        run(ids, props, tier, component)
        sys.exit(0)
    print(__doc__)
