import Driver.Util
import Driver.SimOps
import Driver.LoaderOps
import Driver.TextOps
import Driver.PipelineOps
/-!
`psdriver`: one JSON request per input line, one JSON answer per output line.
Every request has an `"op"` field; the component handlers live in `Driver/*Ops.lean`.
Answers: the handler's JSON object, or `{"error": "..."}` (protocol / decoding error — never a verdict).
-/
open Lean Driver

def handlers : List Handler := [SimOps.handle, LoaderOps.handle, TextOps.handle, PipelineOps.handle]

def dispatch (op : String) (j : Json) : List Handler → Except String Json
  | [] => .error s!"unknown op {op}"
  | h :: hs => match h op j with
    | some r => r
    | none => dispatch op j hs

def handleLine (line : String) : String :=
  match Json.parse line with
  | .error e => (Json.mkObj [("error", Json.str ("parse: " ++ e))]).compress
  | .ok j =>
    match (do let op ← getStr j "op"; dispatch op j handlers : Except String Json) with
    | .error e => (Json.mkObj [("error", Json.str e)]).compress
    | .ok r => r.compress

partial def loop (i o : IO.FS.Stream) : IO Unit := do
  let line ← i.getLine
  if line.isEmpty then return ()
  if line.trimAscii.isEmpty then loop i o else
  o.putStrLn (handleLine line)
  o.flush
  loop i o

def main : IO Unit := do loop (← IO.getStdin) (← IO.getStdout)
