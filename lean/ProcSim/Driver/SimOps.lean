import Driver.Util
open Lean
namespace Driver.SimOps
/-- stub: filled in by the Sim component -/
def handle : Driver.Handler := fun _ _ => none
end Driver.SimOps
