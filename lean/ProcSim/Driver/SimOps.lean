import Driver.Util
import ProcSim.Model.Sim
import ProcSim.Spec.Sim
import ProcSim.Spec.Queue
import ProcSim.Model.Loader
/-!
Op `"sim"`:
```
{"op":"sim","proc":{"in":[unit…],"out":[{"model":unit,"preds":[name…]}…],"inout":[unit…],"internal":[{…}]},
 "prog":[{"srcs":[…],"dst":"R1","cap":"ALU"}…],
 "impl":{"outcome":"done"|"stall"|"exc","table":[ [ [unit,[[idx,"U"|"S"|"D"]…]] … ] … ], "exc":"TypeName"}}
unit = {"name","width","caps":[…],"rd":bool,"wr":bool,"acl":[…]}
```
answer: `{"wf":bool,"model":{"outcome","table"(canonical),"fault"?},"k":{"C01":bool…},"o":{"C01":null|"clause"…},
         "stats":{…}}`
-/
open Lean ProcSim ProcSim.Spec
namespace Driver.SimOps

abbrev S := String

def parseUnit (j : Json) : Except String (UnitM S) := do
  return { name := ← getStr j "name", width := ← getNat j "width", caps := ← getStrs j "caps",
           rd := ← getBool j "rd", wr := ← getBool j "wr", acl := ← getStrs j "acl" }

def parseFU (j : Json) : Except String (FuncU S) := do
  return { model := ← parseUnit (← j.getObjVal? "model"), preds := ← getStrs j "preds" }

def parseProc (j : Json) : Except String (Proc S) := do
  return { inPorts := ← (← getArr j "in").mapM parseUnit,
           outPorts := ← (← getArr j "out").mapM parseFU,
           inOut := ← (← getArr j "inout").mapM parseUnit,
           internal := ← (← getArr j "internal").mapM parseFU }

def parseInstr (j : Json) : Except String (Instr S) := do
  return { srcs := ← getStrs j "srcs", dst := ← getStr j "dst", cap := ← getStr j "cap" }

def parseStall (s : String) : Except String Stall :=
  match s with
  | "U" => pure .U | "S" => pure .S | "D" => pure .D
  | _ => throw s!"bad label {s}"

def parseHI (j : Json) : Except String HI := do
  match ← asArr j with
  | [i, l] => return { idx := ← i.getNat?, st := ← parseStall (← l.getStr?) }
  | _ => throw "bad hosted instr"

def parseRow (j : Json) : Except String (Util S) := do
  let ents ← asArr j
  ents.foldlM (fun (u : Util S) e => do
    match ← asArr e with
    | [n, l] =>
      let n ← n.getStr?
      let his ← (← asArr l).mapM parseHI
      return u.set n (u.get n ++ his)
    | _ => throw "bad row entry") ([] : Util S)

def parseTable (j : Json) : Except String (List (Util S)) := do (← asArr j).mapM parseRow

/-- canonical row: non-empty units sorted by name, entries sorted -/
def canonRow (u : Util S) : List (S × List HI) :=
  isort (fun a b => decide ¬ (b.1 < a.1)) ((Util.items u).map (fun e => (e.1, sortHI e.2)))

def canonTable (t : List (Util S)) : List (List (S × List HI)) := t.map canonRow

def rowJson (r : List (S × List HI)) : Json :=
  jarr (r.map (fun (n, l) => jarr [Json.str n, jarr (l.map (fun h => jarr [jnat h.idx, Json.str h.st.code]))]))

def tableJson (t : List (Util S)) : Json := jarr ((canonTable t).map rowJson)

/-! projections π_xx (DESIGN §2): what each property's correspondence compares -/

def ctxOf (p : Proc S) (prog : List (Instr S)) (tbl : List (Util S)) (stalled : Bool) : Ctx S :=
  { p := p, prog := prog, tbl := tbl, stalled := stalled }

def pi01 (c : Ctx S) : List (List Nat × List Nat) := (List.range c.n).map (fun i => (c.accs false i, c.accs true i))
def pi04 (c : Ctx S) : List (List (S × Nat)) := (canonTable c.tbl).map (fun r => r.map (fun e => (e.1, e.2.length)))
def pi05 (c : Ctx S) : List Nat := (List.range c.T).map (memEntries c)
def pi06 (c : Ctx S) : List (Option (Nat × S)) :=
  (List.range c.n).map (fun i => (c.positions i).head?.map (fun x => (x.1, x.2.1.name)))
def pi07 (c : Ctx S) : List (List (S × List (Nat × Bool))) :=
  (canonTable c.tbl).map (fun r => r.map (fun e => (e.1, e.2.map (fun h => (h.idx, h.st == .D)))))
def pi08 (c : Ctx S) : Bool × Nat × Option (List (S × List HI)) := (c.stalled, c.T, (canonTable c.tbl).getLast?)

def kJson (cm ci : Ctx S) : Json :=
  let whole := canonTable cm.tbl == canonTable ci.tbl
  Json.mkObj [
    ("C01", pi01 cm == pi01 ci), ("C02", whole), ("C03", whole && cm.stalled == ci.stalled),
    ("C04", pi04 cm == pi04 ci), ("C05", pi05 cm == pi05 ci), ("C06", pi06 cm == pi06 ci),
    ("C07", pi07 cm == pi07 ci), ("C08", pi08 cm == pi08 ci)]

/-- C01's second sentence needs every access to be *shown*: in a returned diagram every instruction is unstalled once in
a read-locking unit and once in a write-locking unit (theorem `C01_access_exists`); otherwise "replaying reads and writes
in diagram order" is not even defined. Evaluated next to the clauses of `Spec.C01`. -/
def accessesShown (c : Ctx S) : Bool :=
  c.stalled || (List.range c.n).all (fun i => !(c.accs false i).isEmpty && !(c.accs true i).isEmpty)

def oJson (c : Ctx S) : Json :=
  Json.mkObj ((simClauses c).map (fun (id, cl0) =>
    -- C06 also on the stall path (`Spec.C06Stall`, theorem `C06_stall_held_back`)
    let cl := if id == "C06" then cl0 ++ C06Stall c else cl0
    (id, match cl.firstFail with
    | none => if id == "C01" && !accessesShown c
              then Json.str "every instruction of a returned diagram is shown performing its read and its write access"
              else Json.null
    | some s => Json.str s)))

def statsJson (c : Ctx S) : Json :=
  let labels := (List.range c.n).flatMap (fun i => (c.positions i).map (·.2.2))
  Json.mkObj [
    ("cycles", jnat c.T), ("issued", jnat c.enteredCount),
    ("D", jnat (labels.filter (· == .D)).length), ("S", jnat (labels.filter (· == .S)).length),
    ("mem", jnat ((List.range c.T).map (memEntries c)).sum)]

def handleSim (j : Json) : Except String Json := do
  let p ← parseProc (← j.getObjVal? "proc")
  let prog ← (← getArr j "prog").mapM parseInstr
  -- `wf` = the properties' precondition on the processor AND the program invariant of `HwInstruction` (sources are a
  -- de-duplicated tuple), which the hazard theorems take as the explicit hypothesis `ProgOK`
  -- Applicability must not depend on something the code under test produces: the ORDER of `internal_units` /
  -- `out_ports` is established by the `ProcessorDesc` constructor (property C12), so the well-formedness of the INPUT is
  -- judged on the unit graph only (`wfGraph`): with a correct constructor it coincides with `wfProc`
  -- (`Loader.C12_mkProc_order`), with a broken one the simulator properties are still evaluated — and fail.
  let graphOK := p.dests.all (fun d => d.preds.all (fun q => decide (q ∈ p.allUnits.map (·.name)) && !isOutB p q))
  let acyclic := (Loader.postOrder p.dests).isSome
  let routesOK := (allCaps p).all (fun c => (p.inBoundary.filter (fun u => decide (c ∈ u.caps))).all (fun s =>
      (routesFrom p c p.allUnits.length s).all routeLocksOK))
  let wfGraph := decide (p.allUnits.map (·.name)).Nodup && p.allUnits.all (fun u => !u.caps.isEmpty) && graphOK &&
      acyclic && routesOK && p.dests.all (fun d => decide d.preds.Nodup)
  let wf := wfGraph && prog.all (fun i => decide i.srcs.Nodup)
  let wfStrict := wfProc p
  let out := simulate p prog
  let (mkind, mtbl, mfault) : String × List (Util S) × String := match out with
    | .done t => ("done", t, "")
    | .stall t => ("stall", t, "")
    | .fault f => ("fault", [], toString (repr f))
  let cm := ctxOf p prog mtbl (mkind == "stall")
  let modelJ := Json.mkObj [("outcome", mkind), ("table", tableJson mtbl), ("fault", mfault)]
  match optField j "impl" with
  | none =>
    return Json.mkObj [("wf", wf), ("orderOK", wfStrict), ("model", modelJ), ("o", if mkind == "fault" then Json.null else oJson cm),
                       ("stats", statsJson cm)]
  | some ij =>
    let ikind ← getStr ij "outcome"
    if ikind == "done" || ikind == "stall" then
      let itbl ← parseTable (← ij.getObjVal? "table")
      let ci := ctxOf p prog itbl (ikind == "stall")
      let k := if mkind == "fault" then
          Json.mkObj (["C01","C02","C03","C04","C05","C06","C07","C08"].map (fun id => (id, Json.bool false)))
        else kJson cm ci
      return Json.mkObj [("wf", wf), ("orderOK", wfStrict), ("model", modelJ), ("k", k), ("o", oJson ci), ("stats", statsJson ci)]
    else
      -- another exception escaped from the implementation: only C08 speaks about that
      let ids := ["C01","C02","C03","C04","C05","C06","C07"]
      let k := Json.mkObj (ids.map (fun id => (id, Json.bool true)) ++ [("C08", Json.bool (mkind == "fault"))])
      let o := Json.mkObj (ids.map (fun id => (id, Json.null)) ++
        [("C08", Json.str "an exception other than the stall error escaped")])
      return Json.mkObj [("wf", wf), ("orderOK", wfStrict), ("model", modelJ), ("k", k), ("o", o), ("stats", statsJson cm)]

/-! Op `"queue"` (property C19): the harness explores the implementation's state graph of one register queue.
```
{"op":"queue","reqs":[[isWrite,owner]…],
 "states":[{"q":[[isWrite,[owner…]]…] (front first), "can":[[isWrite,owner,true|false|null(=exception)]…],
            "deq":[[owner, index of the next state | -1 (=exception, queue unchanged) | -2 (=exception, but the queue
                    changed)]…]} …]}     states[0] = the queue just built
```
answer `{"k":{"C19":bool},"o":{"C19":null|"clause"},"detail":…}` -/

def parseGroup (j : Json) : Except String Group := do
  match ← asArr j with
  | [w, os] =>
    let os ← (← asArr os).mapM (·.getNat?)
    return { wr := ← w.getBool?, owners := isort (fun a b => decide (a ≤ b)) os }
  | _ => throw "bad group"

def parseQueue (j : Json) : Except String Queue := do (← asArr j).mapM parseGroup

def canonQ (q : Queue) : Queue := q.map (fun g => { g with owners := isort (fun a b => decide (a ≤ b)) g.owners })

structure QState where
  q : Queue
  can : List (Bool × Nat × Option Bool)
  deq : List (Nat × Option Nat)
  /-- owners whose rejected `dequeue` (an exception) nevertheless changed the queue (`-2` in the protocol) -/
  dirty : List Nat := []

def parseQState (j : Json) : Except String QState := do
  let q ← parseQueue (← j.getObjVal? "q")
  let can ← (← getArr j "can").mapM (fun e => do
    match ← asArr e with
    | [w, o, r] => return (← w.getBool?, ← o.getNat?, (r.getBool?).toOption)
    | _ => throw "bad can")
  let deq ← (← getArr j "deq").mapM (fun e => do
    match ← asArr e with
    | [o, n] =>
      let n ← n.getInt?
      return (← o.getNat?, if n < 0 then none else some n.toNat)
    | _ => throw "bad deq")
  let dirty ← (← getArr j "deq").filterMapM (fun e => do
    match ← asArr e with
    | [o, n] => do
      let n ← n.getInt?
      if n == -2 then return some (← o.getNat?) else return none
    | _ => throw "bad deq")
  return { q, can, deq, dirty }

def firstBad (l : List (String × Bool)) : Option String := (l.find? (fun x => !x.2)).map (·.1)

def handleQueue (j : Json) : Except String Json := do
  let reqs ← (← getArr j "reqs").mapM (fun e => do
    match ← asArr e with
    | [w, o] => return ((← w.getBool?, ← o.getNat?) : Spec.Req)
    | _ => throw "bad req")
  let states ← (← getArr j "states").mapM parseQState
  let sArr := states.toArray
  let po := Spec.programOrder reqs
  let q0 := (states.head?.map (·.q)).getD []
  -- K: the model reproduces every observation of the implementation
  let kBuild := canonQ (Queue.build reqs) == q0
  let kCan := states.all (fun st => st.can.all (fun (w, o, r) => st.q.canAccess w o == r))
  let kDeq := states.all (fun st => st.dirty.isEmpty) && states.all (fun st => st.deq.all (fun (o, nx) =>
    match st.q.dequeue o, nx with
    | none, none => true
    | some q', some k => (match sArr[k]? with | some st' => canonQ q' == st'.q | none => false)
    | _, _ => false))
  -- O: the implementation's observations satisfy the request-level specification
  let o := firstBad [
    ("the built queue represents exactly the registered requests", !po || Spec.abs q0 == reqs),
    ("every reachable queue is well-formed", states.all (fun st => Spec.wfq st.q)),
    ("pending requests are an order-preserving sublist of the registered ones",
      !po || states.all (fun st => (Spec.abs st.q).isSublist reqs)),
    ("a request can be served exactly as the registration-order rule says",
      states.all (fun st => st.can.all (fun (w, o, r) => Spec.canServe (Spec.abs st.q) w o == r))),
    ("removing a servable request never fails and removes exactly that request",
      states.all (fun st => st.deq.all (fun (o, nx) =>
        match Spec.removeSpec (Spec.abs st.q) o, nx with
        | none, none => true
        | some pend, some k => (match sArr[k]? with | some st' => Spec.abs st'.q == pend | none => false)
        | _, _ => false))),
    ("a rejected removal removes nothing (the queue is as it was)", states.all (fun st => st.dirty.isEmpty)),
    ("a non-empty queue always has a servable request (removals end with an empty queue)",
      states.all (fun st => st.q.isEmpty || st.deq.any (fun (_, nx) => nx.isSome))),
    ("a granted write after its owner's own read can be removed right after the read",
      states.all (fun st => st.can.all (fun (w, o, r) =>
        !(w && r == some true && st.can.any (fun (w2, o2, r2) => !w2 && o2 == o && r2 == some true)) ||
        (match st.deq.find? (fun d => d.1 == o) with
         | some (_, some k) => (match sArr[k]? with
            | some st' => st'.deq.any (fun d => d.1 == o && d.2.isSome)
            | none => false)
         | _ => false))))]
  return Json.mkObj [("k", Json.mkObj [("C19", kBuild && kCan && kDeq)]),
    ("o", Json.mkObj [("C19", match o with | none => Json.null | some s => Json.str s)]),
    ("detail", Json.mkObj [("build", kBuild), ("can", kCan), ("deq", kDeq), ("programOrder", po),
                            ("states", jnat states.length)])]

/-! Op `"plan"`: the access plan `_build_acc_plan` builds for a program (the hazard theorems start from it).
`{"op":"plan","prog":[instr…],"impl":[[reg,[[isWrite,[owner…]]…]]…]}` (queues front first) → K: `buildPlan` gives the
same queue for every register; O: every queue represents exactly the program-order request list of its register. -/

/-- program-order requests of register `r`: per instruction its read (if a source), then its write (if the destination) -/
def reqsOfReg (prog : List (Instr S)) (r : S) : List Spec.Req :=
  (prog.zipIdx).flatMap (fun (ins, i) =>
    (if r ∈ ins.srcs then [(false, i)] else []) ++ (if ins.dst = r then [(true, i)] else []))

def handlePlan (j : Json) : Except String Json := do
  let prog ← (← getArr j "prog").mapM parseInstr
  let impl ← (← getArr j "impl").mapM (fun e => do
    match ← asArr e with
    | [r, q] => return (← r.getStr?, ← parseQueue q)
    | _ => throw "bad plan entry")
  let plan := buildPlan prog
  let regs := dedup (prog.flatMap (fun i => i.srcs ++ [i.dst]))
  let k := regs.all (fun r => (impl.lookup r).map canonQ == some (canonQ (Queues.get plan r))) &&
           impl.all (fun e => decide (e.1 ∈ regs))
  let o := firstBad [
    ("every register of the program has a queue", regs.all (fun r => (impl.lookup r).isSome)),
    ("every queue is well-formed", impl.all (fun e => Spec.wfq e.2)),
    ("every queue represents exactly the program-order requests of its register",
      impl.all (fun e => Spec.abs e.2 == reqsOfReg prog e.1)),
    ("the request list of every register is in program order", regs.all (fun r => Spec.programOrder (reqsOfReg prog r)))]
  return Json.mkObj [("k", Json.mkObj [("C19", k)]),
    ("o", Json.mkObj [("C19", match o with | none => Json.null | some s => Json.str s)])]

def handle : Driver.Handler := fun op j =>
  match op with
  | "sim" => some (handleSim j)
  | "plan" => some (handlePlan j)
  | "queue" => some (handleQueue j)
  | _ => none

end Driver.SimOps
