import Driver.Util
import Driver.LoaderOps
import ProcSim.Model.Pipeline
/-!
Op `"pipeline"` (components e2e: C13, C16, C20): the composed model on a (description, ISA, program text) triple.
```
{"op":"pipeline","desc":{units,dataPath},"isa":[[mnemonic,capability]…],"lines":["ADD r1, r2"…]}
```
answer: stage results in the canonical forms of harness/comp_e2e.py:
`{"proc":[unit…]|{"error":cls}, "isa":[[KEY,cap]…]|{"error":…}, "prog":[{srcs,dst,cap}…]|{"error":…},
  "sim":{"outcome":"done"|"stall"|"fault","table":[[[unit,[[idx,label]…]]…]…]}, "rows":[[cell…]…]|null}`
-/
open Lean ProcSim
namespace Driver.PipelineOps

abbrev C := List Char
def c (s : String) : C := s.toList
def s (l : C) : String := String.ofList l

def descC (d : Loader.Desc String) : Loader.Desc C :=
  ⟨d.units.map (fun u => ⟨c u.name, u.width, u.caps.map c, u.rd, u.wr, u.acl.map c⟩), d.edges.map (·.map c)⟩

def leC (a b : C) : Bool := !decide (b < a)

def unitJson (cls : String) (m : UnitM C) (preds : List C) : Json :=
  Json.mkObj [("cls", cls), ("name", s m.name), ("width", jnat m.width), ("caps", jstrs (m.caps.map s)),
              ("rd", m.rd), ("wr", m.wr), ("acl", jstrs (m.acl.map s)),
              ("preds", jstrs ((isort leC preds).map s))]

def procJson (p : Proc C) : Json :=
  let all : List (C × Json) :=
    p.inPorts.map (fun m => (m.name, unitJson "in" m [])) ++
    p.inOut.map (fun m => (m.name, unitJson "inout" m [])) ++
    p.outPorts.map (fun f => (f.model.name, unitJson "out" f.model f.preds)) ++
    p.internal.map (fun f => (f.model.name, unitJson "internal" f.model f.preds))
  jarr ((isort (fun a b => leC a.1 b.1) all).map (·.2))

def err (cls : String) : Json := Json.mkObj [("error", cls)]

def rowJson (u : Util C) : Json :=
  let ents := (Util.items u).map (fun e => (e.1, sortHI e.2))
  jarr ((isort (fun a b => leC a.1 b.1) ents).map (fun (n, l) =>
    jarr [Json.str (s n), jarr (l.map (fun h => jarr [jnat h.idx, Json.str h.st.code]))]))

def simJson : Outcome C → Json
  | .done t => Json.mkObj [("outcome", "done"), ("table", jarr (t.map rowJson))]
  | .stall t => Json.mkObj [("outcome", "stall"), ("table", jarr (t.map rowJson))]
  | .fault f => Json.mkObj [("outcome", "fault"), ("fault", toString (repr f))]

/-- reorder `l` to follow the name list `names` when that is a permutation of `l`'s names (else keep `l`) -/
def reorder {α : Type} (name : α → C) (l : List α) (names : List C) : List α :=
  let picked := names.filterMap (fun n => l.find? (fun x => name x == n))
  if picked.length == l.length && names.length == l.length && l.all (fun x => names.contains (name x)) then picked else l

/-- The order of `internal_units` (which valid sink-first order networkx returns) and of `in_ports` is not fixed by any
property, but the simulator's tie-breaks depend on it.  When the harness passes the implementation's stored orders
(`"order"`), the model simulates the *model's* processor listed in *that* order, so that diagrams are comparable. -/
def withOrder (p : Proc C) (o : Option Json) : Proc C :=
  match o with
  | none => p
  | some oj =>
    let names (k : String) : List C := ((getStrs oj k).toOption.getD []).map c
    { inPorts := reorder (·.name) p.inPorts (names "in"),
      outPorts := reorder (·.model.name) p.outPorts (names "out"),
      inOut := reorder (·.name) p.inOut (names "inout"),
      internal := reorder (·.model.name) p.internal (names "internal") }

def handlePipeline (j : Json) : Except String Json := do
  let d ← LoaderOps.decDesc (← j.getObjVal? "desc")
  let isa ← (← getArr j "isa").mapM (fun e => do
    match ← asArr e with
    | [m, cp] => return (c (← m.getStr?), c (← cp.getStr?))
    | _ => throw "bad isa entry")
  let lines := (← getStrs j "lines").map c
  let dC := descC d
  -- stage by stage, so that the answer shows how far the model got
  match Loader.load ICase.lower dC with
  | .error e => return Json.mkObj [("proc", err e.cls.pyName)]
  | .ok p =>
    let pj := procJson p
    match Isa.loadIsa isa (Isa.getAbilitiesProc p) with
    | .error e => return Json.mkObj [("proc", pj), ("isa", err (match e with | .dupInstr .. => "DupElemError" | .undefCap .. => "UndefElemError"))]
    | .ok im =>
      let ij := jarr ((isort (fun a b => leC a.1 b.1) im).map (fun (k, v) => jarr [Json.str (s k), Json.str (s v)]))
      match Program.readProgram lines with
      | .error _ => return Json.mkObj [("proc", pj), ("isa", ij), ("prog", err "CodeError")]
      | .ok parsed =>
        match Isa.compileProgram im parsed with
        | .error _ => return Json.mkObj [("proc", pj), ("isa", ij), ("prog", err "UndefElemError")]
        | .ok prog =>
          let progJ := jarr (prog.map (fun i => Json.mkObj [("srcs", jstrs (i.srcs.map s)), ("dst", s i.dst), ("cap", s i.cap)]))
          let out := simulate (withOrder p (optField j "order")) prog
          let rows : Json := match out with
            | .done tbl => (match Cli.render String.ofList tbl parsed.length with
                | .ok t => jarr (t.map jstrs)
                | .error _ => Json.null)
            | _ => Json.null
          return Json.mkObj [("proc", pj), ("isa", ij), ("prog", progJ), ("sim", simJson out), ("rows", rows)]

def handle : Driver.Handler := fun op j =>
  match op with
  | "pipeline" => some (handlePipeline j)
  | _ => none

end Driver.PipelineOps
