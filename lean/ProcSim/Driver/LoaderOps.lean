import Driver.Util
open Lean
namespace Driver.LoaderOps
/-- stub: filled in by the Loader component -/
def handle : Driver.Handler := fun _ _ => none
end Driver.LoaderOps
