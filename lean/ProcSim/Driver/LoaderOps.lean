import Driver.Util
import ProcSim.Model.Loader
import ProcSim.Model.LoaderMsg
import ProcSim.Spec.Loader
/-!
# Loader component of `psdriver`: ops `"load"` and `"mkproc"`

## `load`
Request
```
{"op":"load",
 "desc":{"units":[{"name":s,"width":int,"capabilities":[s],"readLock":bool?,"writeLock":bool?,"memoryAccess":[s]?}],
         "dataPath":[[s,…],…]},
 "impl": {"ok":true,"proc":PROC} | {"ok":false,"error":{"class":s,"fields":{…},"message":s}}      (optional)}
PROC  = {"inPorts":[UNIT],"outPorts":[FUNIT],"inOut":[UNIT],"internal":[FUNIT]}     (orders as stored)
UNIT  = {"name":s,"width":int,"caps":[s],"rd":bool,"wr":bool,"acl":[s]}     FUNIT = UNIT + {"preds":[s]}
fields by class: DupElemError{old,new} BadWidthError{unit,width} BadEdgeError{edge:[s]} UndefElemError{elem}
  NetworkXUnfeasible{} DeadInputError{port} EmptyProcError{} PathLockError{start,lockType:"read"|"write",capability}
  BlockedCapError{capability,port}; any other class name is reported as an unexpected exception.
```
Answer
```
{"model":{"ok":true,"proc":PROC} | {"ok":false,"error":{"class":s,"fields":{…}}},
 "defects":[class names of `Spec.defects`],
 -- with "impl":
 "k":{"C09":b,"C10":b,"C11":b,"C12":b}, "o":{"C09":null|clause,…}, "app":{"C09":b,…},
 "info":{"classEq":b,"implClass":s|null,"msgEq":b,"msgModelled":b}}
```
K (model vs implementation, projection-wise):
* C09: same accept/reject bit, and when both accept: same units (name, width, capabilities, locks, predecessors as sets).
* C10: same accept/reject bit, and when both accept: the full canonical processor (also memory ACLs) and the four port classes as sets.
* C11: same accept/reject bit, and when both reject: the implementation's class equals the model's or is among
  `Spec.defects` (the order of independent checks is not part of the property), and the implementation's message is
  one of the model's texts (`LoadError.messages`, Model/LoaderMsg.lean) for the implementation's *own* fields — so the
  comparison does not depend on which culprit was chosen (`msgEq`; both sides cut to the 2000 characters the harness
  transmits; not compared, `msgModelled = false`, when a bad-edge element has a non-ASCII character).
* C12: when the implementation accepts: its internal order is sink-first; when both accept: the four port classes
  agree as sets and the output-port order is the same.
O (checker on the implementation's output): `Spec.checkC09/10/11/12`; C11 additionally checks that the message
contains the fields. `app` says whether the property speaks about this case (C09/C12: implementation accepted;
C10: accepted and the description is syntactically correct and acyclic; C11: always).

## `mkproc`
Request `{"op":"mkproc","parts":PROC (any orders), "impl":{"ok":true,"proc":PROC} | {"ok":false,"error":{…}}}`;
answer `{"model":{"ok":true,"proc":PROC}|{"ok":false}, "k":{"C12":b}, "o":{"C12":null|clause}, "app":{"C12":b}}`.
K: same ok bit; input / in-out ports unchanged; output ports in the model's (name) order; the internal units are a
permutation of the supplied ones in a sink-first order (validity, not identity).
-/
open Lean
open ProcSim ProcSim.Loader
namespace Driver.LoaderOps

abbrev S := String

def foldS (s : S) : S := s.map Char.toLower

/-! ### decoding -/

def optBool (j : Json) (k : String) : Except String Bool :=
  match optField j k with
  | none => pure false
  | some v => match v with
    | .null => pure false
    | _ => v.getBool?

def optStrs (j : Json) (k : String) : Except String (List S) :=
  match optField j k with
  | none => pure []
  | some v => match v with
    | .null => pure []
    | _ => do (← asArr v).mapM (·.getStr?)

def decUnitD (j : Json) : Except String (UnitD S) := do
  return ⟨← getStr j "name", ← getInt j "width", ← getStrs j "capabilities",
          ← optBool j "readLock", ← optBool j "writeLock", ← optStrs j "memoryAccess"⟩

def decDesc (j : Json) : Except String (Desc S) := do
  let us ← (← getArr j "units").mapM decUnitD
  let es ← (← getArr j "dataPath").mapM (fun e => do (← asArr e).mapM (·.getStr?))
  return ⟨us, es⟩

/-- a negative width (only a broken loader lets it through) becomes 0, which the C09/C10 checkers reject -/
def decUnitM (j : Json) : Except String (UnitM S) := do
  return ⟨← getStr j "name", (← getInt j "width").toNat, ← getStrs j "caps", ← getBool j "rd", ← getBool j "wr",
          ← getStrs j "acl"⟩

def decFuncU (j : Json) : Except String (FuncU S) := do
  return ⟨← decUnitM j, ← getStrs j "preds"⟩

def decProc (j : Json) : Except String (Proc S) := do
  return ⟨← (← getArr j "inPorts").mapM decUnitM, ← (← getArr j "outPorts").mapM decFuncU,
          ← (← getArr j "inOut").mapM decUnitM, ← (← getArr j "internal").mapM decFuncU⟩

/-- implementation's exception: a known class with well-typed fields, or just its class name -/
def decError (j : Json) : Except String (Option (LoadError S) × String) := do
  let cls ← getStr j "class"
  let f := (optField j "fields").getD (Json.mkObj [])
  let r : Except String (LoadError S) :=
    match cls with
    | "DupElemError" => do return .dupElem (← getStr f "old") (← getStr f "new")
    | "BadWidthError" => do return .badWidth (← getStr f "unit") (← getInt f "width")
    | "BadEdgeError" => do return .badEdge (← getStrs f "edge")
    | "UndefElemError" => do return .undefElem (← getStr f "elem")
    | "NetworkXUnfeasible" => pure .cyclic
    | "DeadInputError" => do return .deadInput (← getStr f "port")
    | "EmptyProcError" => pure .emptyProc
    | "PathLockError" => do
      let t ← getStr f "lockType"
      let lt ← (if t == "read" then pure LockType.read else if t == "write" then pure LockType.write
                else throw "lockType")
      return .pathLock (← getStr f "start") lt (← getStr f "capability")
    | "BlockedCapError" => do return .blockedCap (← getStr f "capability") (← getStr f "port")
    | _ => throw "unknown class"
  return (r.toOption, cls)

/-! ### encoding -/

def encUnitM (m : UnitM S) : List (String × Json) :=
  [("name", Json.str m.name), ("width", jnat m.width), ("caps", jstrs m.caps), ("rd", Json.bool m.rd),
   ("wr", Json.bool m.wr), ("acl", jstrs m.acl)]

def encFuncU (f : FuncU S) : Json := Json.mkObj (encUnitM f.model ++ [("preds", jstrs f.preds)])

def encProc (p : Proc S) : Json :=
  Json.mkObj [("inPorts", jarr (p.inPorts.map (fun m => Json.mkObj (encUnitM m)))),
              ("outPorts", jarr (p.outPorts.map encFuncU)),
              ("inOut", jarr (p.inOut.map (fun m => Json.mkObj (encUnitM m)))),
              ("internal", jarr (p.internal.map encFuncU))]

def encError (e : LoadError S) : Json :=
  let fields : List (String × Json) := match e with
    | .dupElem o n => [("old", Json.str o), ("new", Json.str n)]
    | .badWidth u w => [("unit", Json.str u), ("width", jint w)]
    | .badEdge ed => [("edge", jstrs ed)]
    | .undefElem x => [("elem", Json.str x)]
    | .cyclic => []
    | .deadInput p => [("port", Json.str p)]
    | .emptyProc => []
    | .pathLock s t c => [("start", Json.str s), ("lockType", Json.str t.code), ("capability", Json.str c)]
    | .blockedCap c p => [("capability", Json.str c), ("port", Json.str p)]
  Json.mkObj [("class", Json.str e.cls.pyName), ("fields", Json.mkObj fields)]

def encOpt (o : Option String) : Json := match o with | none => Json.null | some s => Json.str s

/-! ### canonical forms (sets sorted, units by name) -/

structure CUnit where
  name : S
  width : Nat
  caps : List S
  rd : Bool
  wr : Bool
  acl : List S
  preds : List S
deriving DecidableEq, Repr

def canonUnits (p : Proc S) : List CUnit :=
  let mk := fun (m : UnitM S) (ps : List S) => (⟨m.name, m.width, sortNames m.caps, m.rd, m.wr, sortNames m.acl, sortNames ps⟩ : CUnit)
  isort (fun a b => !decide (b.name < a.name))
    (p.inPorts.map (mk · []) ++ p.inOut.map (mk · []) ++ p.outPorts.map (fun f => mk f.model f.preds) ++
     p.internal.map (fun f => mk f.model f.preds))

def classes (p : Proc S) : List (List S) :=
  [sortNames (p.inPorts.map (·.name)), sortNames (p.outPorts.map (·.model.name)),
   sortNames (p.inOut.map (·.name)), sortNames (p.internal.map (·.model.name))]

/-! ### "message contains the fields" -/

def isPrefixC : List Char → List Char → Bool
  | [], _ => true
  | _ :: _, [] => false
  | a :: as, b :: bs => a == b && isPrefixC as bs

def isInfixC (pat : List Char) : List Char → Bool
  | [] => pat.isEmpty
  | c :: cs => isPrefixC pat (c :: cs) || isInfixC pat cs

def contains (msg part : String) : Bool := isInfixC part.toList msg.toList

def fieldStrings : LoadError S → List String
  | .dupElem o n => [o, n]
  | .badWidth u w => [u, toString w]
  | .badEdge e => [Loader.pyStrList e]   -- the field is the edge (a list): its `str()` is what the message must contain
  | .undefElem x => [x]
  | .cyclic => []
  | .deadInput p => [p]
  | .emptyProc => []
  | .pathLock s t c => [s, t.code, c]
  | .blockedCap c p => [c, p]

def fieldsInMessage (e : LoadError S) (msg : String) : Bool := (fieldStrings e).all (contains msg)

/-- the implementation's text is one of the model's candidate texts for the implementation's own fields
(the harness transmits `str(exc)[:2000]`) -/
def messageMatches (e : LoadError S) (msg : String) : Bool :=
  (e.messages id).any (fun m => String.ofList (m.toList.take 2000) == msg)

/-! ### op `load` -/

def encResult (r : Except (LoadError S) (Proc S)) : Json :=
  match r with
  | .ok p => Json.mkObj [("ok", Json.bool true), ("proc", encProc p)]
  | .error e => Json.mkObj [("ok", Json.bool false), ("error", encError e)]

inductive Impl
  | ok (p : Proc S)
  | err (e : Option (LoadError S)) (cls : String) (msg : String)

def decImpl (j : Json) : Except String Impl := do
  if ← getBool j "ok" then
    return .ok (← decProc (← j.getObjVal? "proc"))
  else
    let ej ← j.getObjVal? "error"
    let (e, cls) ← decError ej
    let msg := ((getStr ej "message").toOption).getD ""
    return .err e cls msg

def props (f : String → Json) : Json := Json.mkObj (["C09", "C10", "C11", "C12"].map (fun k => (k, f k)))

def opLoad (j : Json) : Except String Json := do
  let d ← decDesc (← j.getObjVal? "desc")
  let m := load foldS d
  let defs := Spec.defects foldS d
  let base : List (String × Json) :=
    [("model", encResult m), ("defects", jstrs (defs.map (·.pyName)))]
  match optField j "impl" with
  | none => return Json.mkObj base
  | some ij =>
    let impl ← decImpl ij
    -- syntactically correct and acyclic: the usable part (C10) is defined
    let structural := defs.all (fun c => decide (Spec.stageOf c > 3))
    match impl with
    | .ok ip =>
      let acceptEq := match m with | .ok _ => true | .error _ => false
      let k09 := match m with
        | .ok mp => (canonUnits mp).map (fun u => { u with acl := [] }) == (canonUnits ip).map (fun u => { u with acl := [] })
        | .error _ => false
      let k10 := match m with
        | .ok mp => canonUnits mp == canonUnits ip && classes mp == classes ip
        | .error _ => false
      let k12 := Spec.sinkFirstB ip.internal && (match m with
        | .ok mp => classes mp == classes ip && mp.outPorts.map (·.model.name) == ip.outPorts.map (·.model.name)
        | .error _ => true)
      let o09 := Spec.firstFail (Spec.clausesC09 foldS ip)
      let o10 := if structural then Spec.firstFail (Spec.clausesC10 foldS d ip) else none
      let o11 := Spec.firstFail (Spec.clausesC11 foldS d .accepted)
      let o12 := Spec.firstFail (Spec.clausesC12 ip)
      return Json.mkObj (base ++
        [("k", props (fun k => Json.bool (match k with | "C09" => k09 | "C10" => k10 | "C11" => acceptEq | _ => k12))),
         ("o", props (fun k => encOpt (match k with | "C09" => o09 | "C10" => o10 | "C11" => o11 | _ => o12))),
         ("app", props (fun k => Json.bool (match k with | "C10" => structural | _ => true))),
         ("info", Json.mkObj [("classEq", Json.bool acceptEq), ("implClass", Json.null)])])
    | .err e cls msg =>
      let rejectEq := match m with | .ok _ => false | .error _ => true
      let classEq := match m, e with
        | .error me, some ie => decide (me.cls = ie.cls)
        | _, _ => false
      let classIn := match e with
        | some ie => decide (ie.cls ∈ defs)
        | none => false
      let msgModelled := match e with
        | some ie => ie.msgModelled id
        | none => false
      let msgEq := match e with
        | some ie => !ie.msgModelled id || messageMatches ie msg
        | none => true
      let k11 := rejectEq && (classEq || classIn) && msgEq
      let o11 := match e with
        | none => some ("C11.class: unexpected exception class " ++ cls)
        | some ie =>
          match Spec.firstFail (Spec.clausesC11 foldS d (.rejected ie)) with
          | some c => some c
          | none => if fieldsInMessage ie msg then none else some "C11.message: the message does not contain the exception's fields"
      return Json.mkObj (base ++
        [("k", props (fun k => Json.bool (match k with | "C11" => k11 | "C12" => true | _ => rejectEq))),
         ("o", props (fun k => encOpt (match k with | "C11" => o11 | _ => none))),
         ("app", props (fun k => Json.bool (match k with | "C11" => true | _ => false))),
         ("info", Json.mkObj [("classEq", Json.bool classEq), ("implClass", Json.str cls),
                              ("msgEq", Json.bool msgEq), ("msgModelled", Json.bool msgModelled)])])

/-! ### op `mkproc` -/

def sameBag (a b : List (FuncU S)) : Bool :=
  let key := fun (l : List (FuncU S)) =>
    isort (fun (x y : FuncU S) => !decide (y.model.name < x.model.name)) l
  key a == key b

def opMkProc (j : Json) : Except String Json := do
  let parts ← decProc (← j.getObjVal? "parts")
  let m := mkProc parts.inPorts (parts.outPorts.map (fun f => mkFuncU f.model f.preds)) parts.inOut
    (parts.internal.map (fun f => mkFuncU f.model f.preds))
  let mj := match m with
    | some p => Json.mkObj [("ok", Json.bool true), ("proc", encProc p)]
    | none => Json.mkObj [("ok", Json.bool false)]
  match optField j "impl" with
  | none => return Json.mkObj [("model", mj)]
  | some ij =>
    if ← getBool ij "ok" then
      let ip ← decProc (← ij.getObjVal? "proc")
      let k := match m with
        | none => false
        | some mp =>
          ip.inPorts == mp.inPorts && ip.inOut == mp.inOut && ip.outPorts == mp.outPorts &&
          sameBag ip.internal mp.internal && Spec.sinkFirstB ip.internal
      let o := Spec.firstFail (Spec.clausesC12Order ip)
      return Json.mkObj [("model", mj), ("k", Json.mkObj [("C12", Json.bool k)]),
                         ("o", Json.mkObj [("C12", encOpt o)]), ("app", Json.mkObj [("C12", Json.bool true)])]
    else
      let cls := ((do getStr (← ij.getObjVal? "error") "class" : Except String String).toOption).getD "?"
      -- the property quantifies over DAGs: a constructor that fails on one violates it
      let k := match m with | none => cls == "NetworkXUnfeasible" | some _ => false
      let o := match m with
        | none => none
        | some _ => some ("C12.construct: ProcessorDesc(...) raised " ++ cls ++ " on an acyclic set of parts")
      return Json.mkObj [("model", mj), ("k", Json.mkObj [("C12", Json.bool k)]),
                         ("o", Json.mkObj [("C12", encOpt o)]), ("app", Json.mkObj [("C12", Json.bool m.isSome)])]

def handle : Driver.Handler := fun op j =>
  match op with
  | "load" => some (opLoad j)
  | "mkproc" => some (opMkProc j)
  | _ => none

end Driver.LoaderOps
