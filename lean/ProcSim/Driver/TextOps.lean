import Driver.Util
open Lean
namespace Driver.TextOps
/-- stub: filled in by the Text component -/
def handle : Driver.Handler := fun _ _ => none
end Driver.TextOps
