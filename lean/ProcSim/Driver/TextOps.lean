import Driver.Util
import ProcSim.Model.ICase
import ProcSim.Model.Bag
import ProcSim.Model.Program
import ProcSim.Model.Isa
import ProcSim.Model.Cli
import ProcSim.Spec.Text
/-!
JSON ops of the component "text" (C14 – C18). Protocol: see the doc comment of every `op…` below and
`harness/comp_text.py`. Strings cross the boundary as JSON strings and are `List Char` inside.
Errors of the implementation arrive as `{"class": …, "fields": {…}, "message": …}`.
-/
open Lean ProcSim
namespace Driver.TextOps
open ProcSim.Spec.Text

abbrev E := Except String

def chars (j : Json) : E (List Char) := do return (← j.getStr?).toList
def jchars (l : List Char) : Json := Json.str (String.ofList l)
def getChars (j : Json) (k : String) : E (List Char) := do chars (← j.getObjVal? k)
def charsList (j : Json) : E (List (List Char)) := do (← asArr j).mapM chars
def jcharsList (l : List (List Char)) : Json := jarr (l.map jchars)
def jopt (o : Option String) : Json := match o with | none => Json.null | some s => Json.str s
def jbool (b : Bool) : Json := Json.bool b
def verdict (prop : String) (k : Bool) (o : Option String) : List (String × Json) :=
  [("k", Json.mkObj [(prop, jbool k)]), ("o", Json.mkObj [(prop, jopt o)])]

/-- `"brief": true` — batch ops then leave out the per-item model outputs (they are repeated inside `fail` entries) -/
def isBrief (j : Json) : Bool := ((optField j "brief").bind (fun b => b.getBool?.toOption)).getD false

def pair2 (j : Json) : E (Json × Json) := do
  match (← asArr j) with
  | [a, b] => return (a, b)
  | _ => throw "expected a 2-element array"

/-- `{"class","fields","message"}` of an implementation error -/
structure ImplErr where
  cls : String
  fields : Json
  msg : String

def implErr (j : Json) : E ImplErr := do
  return { cls := ← getStr j "class", fields := (optField j "fields").getD Json.null,
           msg := ((optField j "message").bind (fun m => m.getStr?.toOption)).getD "" }

def jerr (cls : String) (fields : List (String × Json)) (msg : String) : Json :=
  Json.mkObj [("err", Json.mkObj [("class", Json.str cls), ("fields", Json.mkObj fields), ("message", Json.str msg)])]

/-! ## C18 `icase` -/

def bit (b : Bool) : Char := if b then '1' else '0'

def obsBits (o : PairObs) : String :=
  String.ofList [bit o.eqAB, bit o.eqBA, bit o.neAB, bit o.ltAB, bit o.ltBA, bit o.leAB, bit o.leBA,
    bit o.gtAB, bit o.geAB, bit o.bInA, bit o.aInB, bit o.hashEq]

def jobs (o : PairObs) : Json := jarr [Json.str (obsBits o), jchars o.strA, jchars o.strB]

def parseObs (j : Json) : E PairObs := do
  match (← asArr j) with
  | [b, sa, sb] =>
    let bs := (← b.getStr?).toList.map (· == '1')
    match bs with
    | [e1, e2, ne, l1, l2, le1, le2, g, ge, c1, c2, h] =>
      return { eqAB := e1, eqBA := e2, neAB := ne, ltAB := l1, ltBA := l2, leAB := le1, leBA := le2,
               gtAB := g, geAB := ge, bInA := c1, aInB := c2, hashEq := h, strA := ← chars sa, strB := ← chars sb }
    | _ => throw "icase: 12 observation bits expected"
  | _ => throw "icase: observation = [bits, strA, strB]"

/-- model hash: the folded text itself, read as a number (injective enough; any function would do) -/
def hashFn (s : List Char) : Nat := s.foldl (fun h c => h * 1114112 + c.toNat + 1) 0

/-- correspondence on one pair: everything equal, except the hash bit, which is only constrained when equal -/
def pairK (m i : PairObs) : Bool :=
  ({ i with hashEq := m.hashEq } : PairObs) == m && (!m.eqAB || i.hashEq)

/--
`{"op":"icase","items":[[a,b] | [a,b,c], …], "impl":[[obs_ab] | [obs_ab,obs_bc,obs_ac], …]}`
obs = `["<12 bits: eqAB eqBA neAB ltAB ltBA leAB leBA gtAB geAB bInA aInB hashEq>", str(A), str(B)]`.
Answer: `{"model":[…same shape…], "k":{"C18":b}, "o":{"C18":null|clause}, "fail":[{"i":…,"k":b,"o":…,"model":…}]}`
(`"brief":true` omits `model`).
-/
def opIcase (j : Json) : E Json := do
  let items ← getArr j "items"
  let impl := (optField j "impl")
  let implArr ← match impl with
    | some a => do let l ← asArr a; pure (some l)
    | none => pure none
  -- optional `"lowers":[null | [str.lower(a), str.lower(b) (, str.lower(c))], …]`: for items outside the ASCII model the
  -- harness supplies Python's own folded texts; the property's sentence is then checked literally on them
  -- (`checkC18Folded`) and the ASCII model is not consulted for that item
  let lowersArr ← match optField j "lowers" with
    | some a => do let l ← asArr a; pure (some l)
    | none => pure none
  let mut models : Array Json := #[]
  let mut fails : Array Json := #[]
  let mut kAll := true
  let mut oFirst : Option String := none
  let mut idx := 0
  for it in items do
    let ss ← charsList it
    let prs : List (List Char × List Char) ← match ss with
      | [a, b] => pure [(a, b)]
      | [a, b, c] => pure [(a, b), (b, c), (a, c)]
      | _ => throw "icase: item must have 2 or 3 strings"
    let lowJ := match lowersArr with
      | some l => l.getD idx Json.null
      | none => Json.null
    let lows : Option (List (List Char × List Char)) ← match lowJ with
      | Json.null => pure none
      | lj => do
        let ls ← charsList lj
        match ls with
        | [a, b] => pure (some [(a, b)])
        | [a, b, c] => pure (some [(a, b), (b, c), (a, c)])
        | _ => throw "icase: lowers must have 2 or 3 strings"
    let ms := prs.map (fun p => modelPairObs hashFn p.1 p.2)
    models := models.push (jarr (ms.map jobs))
    if let some ia := implArr then
      let io ← (← asArr (ia.getD idx Json.null)).mapM parseObs
      if io.length != ms.length then throw "icase: impl/ items shape mismatch"
      let k := match lows with
        | some _ => true
        | none => (ms.zip io).all (fun p => pairK p.1 p.2)
      let o1 := match lows with
        | some lw => ((prs.zip lw).zip io).findSome? (fun p => checkC18Folded p.1.2.1 p.1.2.2 p.1.1.1 p.1.1.2 p.2)
        | none => (prs.zip io).findSome? (fun p => checkC18 p.1.1 p.1.2 p.2)
      let o := match o1, io with
        | some e, _ => some e
        | none, [ab, bc, ac] => checkC18Triple ab bc ac
        | none, _ => none
      if !k || o.isSome then
        fails := fails.push (Json.mkObj [("i", jnat idx), ("k", jbool k), ("o", jopt o), ("model", jarr (ms.map jobs))])
        kAll := kAll && k
        if oFirst.isNone then oFirst := o
    idx := idx + 1
  let base := if isBrief j then [] else [("model", Json.arr models)]
  if implArr.isSome then
    return Json.mkObj (base ++ verdict "C18" kAll oFirst ++ [("fail", Json.arr fails)])
  else return Json.mkObj base

/-! ## C17 `bag` -/

def stallOf (s : String) : E Stall :=
  match s with
  | "U" => pure .U | "S" => pure .S | "D" => pure .D
  | _ => throw s!"bad stall label {s}"

def decHI (j : Json) : E HI := do
  let (i, l) ← pair2 j
  return { idx := ← i.getNat?, st := ← stallOf (← l.getStr?) }

def stallName : Stall → String
  | .U => "NO_STALL" | .S => "STRUCTURAL" | .D => "DATA"

/-- `repr(InstrState(...))` (attrs default repr; `stalled` is a `StrEnum`) -/
def reprHI (h : HI) : String :=
  "InstrState(instr=" ++ toString h.idx ++ ", stalled=<StallState." ++ stallName h.st ++ ": '" ++ h.st.code ++ "'>)"

/-- `repr` of a `str` key without quotes, backslashes or non-printables (the harness's key alphabet) -/
def reprKey (k : String) : String := "'" ++ k ++ "'"

def strLeS (a b : String) : Bool := !(decide (b < a))

def decRec {V : Type} (dec : Json → E V) (j : Json) : E (Bag.BagValDict String V) := do
  let ents ← (← asArr j).mapM (fun e => do
    let (k, vs) ← pair2 e
    let vals ← (← asArr vs).mapM dec
    pure ((← k.getStr?), vals))
  return Bag.ofPairs ents

def bagRun {V : Type} [DecidableEq V] (le : V → V → Bool) (vp : V → String) (dec : Json → E V) (j : Json) : E Json := do
  let recs ← (← getArr j "recs").mapM (decRec dec)
  let recsA := recs.toArray
  let pairs ← (← getArr j "pairs").mapM (fun p => do let (a, b) ← pair2 p; pure ((← a.getNat?), (← b.getNat?)))
  let mrecs := recs.map (fun r => (Bag.len r, Bag.repr strLeS le reprKey vp r))
  let mrecsA := mrecs.toArray
  let getRec (i : Nat) : E (Bag.BagValDict String V) :=
    match recsA[i]? with | some r => pure r | none => throw "bag: record index out of range"
  let impl := optField j "impl"
  let implRecs ← match impl with
    | some im => do
      let l ← getArr im "recs"
      let l' ← l.mapM (fun e => do let (n, r) ← pair2 e; pure ((← n.getNat?), (← r.getStr?)))
      pure (some l'.toArray)
    | none => pure none
  let implPairs ← match impl with
    | some im => do pure (some (← getArr im "pairs").toArray)
    | none => pure none
  let mut out : Array Json := #[]
  let mut fails : Array Json := #[]
  let mut kAll := true
  let mut oFirst : Option String := none
  -- per-record observations
  if let some ir := implRecs then
    if ir.size != mrecsA.size then throw "bag: impl.recs shape mismatch"
    let mut ri := 0
    for m in mrecs do
      let i := ir.getD ri (0, "")
      if i != m then
        kAll := false
        fails := fails.push (Json.mkObj [("rec", jnat ri), ("k", jbool false), ("model", jarr [jnat m.1, Json.str m.2])])
      ri := ri + 1
  let mut idx := 0
  for (ia, ib) in pairs do
    let a ← getRec ia
    let b ← getRec ib
    let m := modelBagObs strLeS le reprKey vp a b
    if !isBrief j then
      out := out.push (jarr [Json.str (String.ofList [bit m.eqAB, bit m.eqBA, bit m.eqAB2]), jnat m.lenA2, Json.str m.reprA2])
    if let (some ir, some ip) := (implRecs, implPairs) then
      match (← asArr (ip.getD idx Json.null)) with
      | [bits, l2, r2] =>
        let bs := (← bits.getStr?).toList.map (· == '1')
        let (ra, rb) := (ir.getD ia (0, ""), ir.getD ib (0, ""))
        let r2s := match r2.getStr? with | .ok s => s | .error _ => ra.2
        match bs with
        | [e1, e2, e3] =>
          let o : BagObs := { eqAB := e1, eqBA := e2, eqAB2 := e3, lenA := ra.1, lenB := rb.1, lenA2 := ← l2.getNat?,
                              reprA := ra.2, reprB := rb.2, reprA2 := r2s }
          let k := o == m
          let oc := checkC17 a b o
          if !k || oc.isSome then
            fails := fails.push (Json.mkObj [("i", jnat idx), ("k", jbool k), ("o", jopt oc),
              ("model", jarr [Json.str (String.ofList [bit m.eqAB, bit m.eqBA, bit m.eqAB2]), jnat m.lenA2, Json.str m.reprA2])])
            kAll := kAll && k
            if oFirst.isNone then oFirst := oc
        | _ => throw "bag: 3 bits expected"
      | _ => throw "bag: impl pair = [bits, lenA2, reprA2|null]"
    idx := idx + 1
  let base := if isBrief j then [] else [("model", Json.mkObj [("recs", jarr (mrecs.map (fun m => jarr [jnat m.1, Json.str m.2]))), ("pairs", Json.arr out)])]
  if impl.isSome then return Json.mkObj (base ++ verdict "C17" kAll oFirst ++ [("fail", Json.arr fails)])
  else return Json.mkObj base

/--
`{"op":"bag","vt":"hi"|"int","recs":[[[key,[v…]],…],…],"pairs":[[i,j],…],
  "impl":{"recs":[[len,repr],…],"pairs":[["<eqAB eqBA eqAB2>",lenA2,reprA2|null],…]}}`
values: `[idx,"U"|"S"|"D"]` (vt=hi) or integers (vt=int); `reprA2 = null` means "identical to repr before".
-/
def opBag (j : Json) : E Json := do
  match (← getStr j "vt") with
  | "hi" => bagRun HI.le reprHI decHI j
  | "int" => bagRun (fun (a b : Int) => decide (a ≤ b)) (fun (i : Int) => toString i) (fun v => v.getInt?) j
  | v => throw s!"bag: unknown value type {v}"

/-! ## C14 `progtext`, `parse` -/

def decWs (j : Json) : E LineWs := do
  let commas ← (← getArr j "commas").mapM (fun p => do let (l, r) ← pair2 p; pure ((← chars l), (← chars r)))
  return { blanks := ← charsList (← j.getObjVal? "blanks"), pre := ← getChars j "pre", sep := ← getChars j "sep",
           commas := commas, post := ← getChars j "post" }

def decFault (j : Json) : E (Option Fault) := do
  if j.isNull then return none
  match (← asArr j) with
  | [k, a] => match (← k.getStr?) with
    | "noops" => return some (.noOps (← a.getNat?))
    | _ => throw "bad fault"
  | [k, a, b] => match (← k.getStr?) with
    | "empty" => return some (.emptyOp (← a.getNat?) (← b.getNat?))
    | "extra" => return some (.extraEmpty (← a.getNat?) (← b.getNat?))
    | _ => throw "bad fault"
  | _ => throw "bad fault"

structure Gen where
  instrs : List SrcInstr      -- after applying the fault
  ws : List LineWs
  tail : List (List Char)
  pre : Bool                  -- tokens / blanks satisfy the theorem's hypotheses

def decGen (j : Json) : E Gen := do
  let is ← (← getArr j "instrs").mapM (fun e => do
    let (m, ops) ← pair2 e
    pure ({ name := ← chars m, ops := ← charsList ops } : SrcInstr))
  let ws ← (← getArr j "ws").mapM decWs
  let tail ← charsList (← j.getObjVal? "tail")
  let fault ← decFault ((optField j "fault").getD Json.null)
  let pre := is.all (fun i => instrOK i && !i.ops.isEmpty && i.ops.all (fun o => !o.isEmpty)) &&
    ws.all wsOK && tail.all blankB && ws.length == is.length
  let is' := match fault with | none => is | some f => applyFault f is
  return { instrs := is', ws := ws, tail := tail, pre := pre }

def jprog (p : List Program.ProgInstr) : Json :=
  jarr (p.map (fun i => jarr [jcharsList i.srcs, jchars i.dst, jchars i.name, jnat i.line]))

def decProgInstr (j : Json) : E Program.ProgInstr := do
  match (← asArr j) with
  | [s, d, n, l] => return { srcs := ← charsList s, dst := ← chars d, name := ← chars n, line := ← l.getNat? }
  | _ => throw "program instruction = [srcs, dst, name, line]"

def jParseObs : ParseObs → Json
  | .ok p => Json.mkObj [("ok", jprog p)]
  | .err e => jerr e.cls [("line", jnat e.line), ("instr", jchars e.instr)] e.msg
  | .other c => jerr c [] ""

def decParseObs (j : Json) : E ParseObs := do
  match optField j "ok" with
  | some p => return .ok (← (← asArr p).mapM decProgInstr)
  | none =>
    let e ← implErr (← j.getObjVal? "err")
    if e.cls == "CodeError" then
      match (e.fields.getObjVal? "line").bind (·.getNat?), (e.fields.getObjVal? "instr").bind (·.getStr?) with
      | .ok l, .ok i => return .err { cls := e.cls, line := l, instr := i.toList, msg := e.msg }
      | _, _ => return .other (e.cls ++ "(ill-typed fields)")
    else return .other e.cls

def parseObsEq : ParseObs → ParseObs → Bool
  | .ok a, .ok b => a == b
  | .err a, .err b => a == b
  | _, _ => false

/--
`{"op":"progtext","gen":{"instrs":[[mnemonic,[op…]],…],"ws":[{"blanks":[…],"pre":s,"sep":s,"commas":[[l,r],…],"post":s},…],
   "tail":[…],"fault":null|["noops",j]|["empty",j,k]|["extra",j,k]}}`
→ `{"lines":[…], "pre":bool}` : the text `renderProgram (applyFault fault instrs) ws tail`.
-/
def opProgtext (j : Json) : E Json := do
  let g ← decGen (← j.getObjVal? "gen")
  return Json.mkObj [("lines", jcharsList (renderProgram g.instrs g.ws g.tail)), ("pre", jbool g.pre)]

/--
`{"op":"parse","lines":[…],"gen":<as in progtext, optional>,
  "impl":{"ok":[[[src…],dst,name,line],…]} | {"err":{"class":"CodeError","fields":{"line":n,"instr":s},"message":s}}}`
→ `{"model":…same shape…, "k":{"C14":b}, "o":{"C14":null|clause}, "oapp":bool, "lines_match":bool}`.
K: result equal (instructions / class, line, instr, message). O (only with `gen` whose hypotheses hold):
`checkC14` of the implementation's result against the written instruction list.
-/
def opParse (j : Json) : E Json := do
  let lines ← charsList (← j.getObjVal? "lines")
  let m := modelParseObs lines
  let base := [("model", jParseObs m)]
  match optField j "impl" with
  | none => return Json.mkObj base
  | some ij =>
    let io ← decParseObs ij
    let k := parseObsEq m io
    match optField j "gen" with
    | none => return Json.mkObj (base ++ verdict "C14" k none ++ [("oapp", jbool false)])
    | some gj =>
      let g ← decGen gj
      let lm := renderProgram g.instrs g.ws g.tail == lines
      let o := if g.pre && lm then checkC14 g.instrs g.ws io else none
      return Json.mkObj (base ++ verdict "C14" k o ++ [("oapp", jbool (g.pre && lm)), ("lines_match", jbool lm)])

/-! ## C15 `isa`, `abilities`, `compile` -/

def decPairs (j : Json) : E (List (List Char × List Char)) := do
  (← asArr j).mapM (fun e => do let (a, b) ← pair2 e; pure ((← chars a), (← chars b)))

def jpairs (l : List (List Char × List Char)) : Json := jarr (l.map (fun p => jarr [jchars p.1, jchars p.2]))

def charsLe (a b : List Char) : Bool := ICase.strLe a b

def sortPairs (l : List (List Char × List Char)) : List (List Char × List Char) :=
  isort (fun a b => ICase.strLt a.1 b.1 || (a.1 == b.1 && charsLe a.2 b.2)) l

def fieldChars (f : Json) (k : String) : Option (List Char) :=
  match (f.getObjVal? k).bind (·.getStr?) with | .ok s => some s.toList | .error _ => none

def decIsaObs (j : Json) : E (IsaObs × String) := do
  match optField j "ok" with
  | some p => return (.ok (← decPairs p), "")
  | none =>
    let e ← implErr (← j.getObjVal? "err")
    match e.cls, fieldChars e.fields "old", fieldChars e.fields "new", fieldChars e.fields "elem" with
    | "DupElemError", some o, some n, _ => return (.dup o n, e.msg)
    | "UndefElemError", _, _, some c => return (.undef c, e.msg)
    | c, _, _, _ => return (.other c, e.msg)

def jIsaObs : IsaObs → Json
  | .ok m => Json.mkObj [("ok", jpairs m)]
  | .dup o n => jerr "DupElemError" [("old", jchars o), ("new", jchars n)] (Isa.IsaError.dupInstr o n).message
  | .undef c => jerr "UndefElemError" [("elem", jchars c)] (Isa.IsaError.undefCap c).message
  | .other c => jerr c [] ""

/-- K for `load_isa`. Same accept/reject bit; accepted: the dict as a set of items; rejected with the same kind of
error: fields and message equal. A table holding *both* kinds of defect may be rejected with either (the property
does not fix the order of the two independent checks — DESIGN §2): then the implementation's error must name a
real culprit (the oracle's test) with the canonical message for its own fields. -/
def isaObsEq (isa : List (List Char × List Char)) (caps : List (List Char)) (m : IsaObs) (i : IsaObs) (imsg : String) : Bool :=
  match m, i with
  | .ok a, .ok b => sortPairs a == sortPairs b
  | .dup o n, .dup o' n' => o == o' && n == n' && imsg == (Isa.IsaError.dupInstr o n).message
  | .undef c, .undef c' => c == c' && imsg == (Isa.IsaError.undefCap c).message
  | .dup _ _, .undef c' => (checkC15Load isa caps i).isNone && imsg == (Isa.IsaError.undefCap c').message
  | .undef _, .dup o' n' => (checkC15Load isa caps i).isNone && imsg == (Isa.IsaError.dupInstr o' n').message
  | _, _ => false

/--
`{"op":"isa","isa":[[mnemonic,cap],…],"caps":[…],
  "impl":{"ok":[[KEY,cap],…]} | {"err":{"class":"DupElemError","fields":{"old":s,"new":s},"message":s}}
                              | {"err":{"class":"UndefElemError","fields":{"elem":s},"message":s}}}`
→ `{"model":…, "k":{"C15":b}, "o":{"C15":…}}`; K: see `isaObsEq`.
-/
def opIsa (j : Json) : E Json := do
  let isa ← decPairs (← j.getObjVal? "isa")
  let caps ← charsList (← j.getObjVal? "caps")
  let m := modelIsaObs isa caps
  let base := [("model", jIsaObs m)]
  match optField j "impl" with
  | none => return Json.mkObj base
  | some ij =>
    let (io, msg) ← decIsaObs ij
    return Json.mkObj (base ++ verdict "C15" (isaObsEq isa caps m io msg) (checkC15Load isa caps io))

/-- `{"op":"abilities","ports":[[cap…],…] (in-out ports then input ports),"impl":[cap…]}` → model (sorted), k (equal as sets), o -/
def opAbilities (j : Json) : E Json := do
  let ports ← (← getArr j "ports").mapM charsList
  let m := isort charsLe (Isa.getAbilities ports)
  let base := [("model", jcharsList m)]
  match optField j "impl" with
  | none => return Json.mkObj base
  | some ij =>
    let io ← charsList ij
    return Json.mkObj (base ++ verdict "C15" (isort charsLe io == m) (checkC15Abilities ports io))

def decHw (j : Json) : E (Instr (List Char)) := do
  match (← asArr j) with
  | [s, d, c] => return { srcs := ← charsList s, dst := ← chars d, cap := ← chars c }
  | _ => throw "hardware instruction = [srcs, dst, cap]"

def jhw (p : List (Instr (List Char))) : Json :=
  jarr (p.map (fun i => jarr [jcharsList i.srcs, jchars i.dst, jchars i.cap]))

def decCompileObs (j : Json) : E CompileObs := do
  match optField j "ok" with
  | some p => return .ok (← (← asArr p).mapM decHw)
  | none =>
    let e ← implErr (← j.getObjVal? "err")
    match e.cls, fieldChars e.fields "elem" with
    | "UndefElemError", some n => return .undef n e.msg
    | c, _ => return .other c

def jCompileObs : CompileObs → Json
  | .ok p => Json.mkObj [("ok", jhw p)]
  | .undef n msg => jerr "UndefElemError" [("elem", jchars n)] msg
  | .other c => jerr c [] ""

def compileObsEq : CompileObs → CompileObs → Bool
  | .ok a, .ok b => a == b
  | .undef n m, .undef n' m' => n == n' && m == m'
  | _, _ => false

/--
`{"op":"compile","prog":[[[src…],dst,name,line],…],"isa":[[KEY,cap],…],
  "impl":{"ok":[[[src…],dst,cap],…]} | {"err":{"class":"UndefElemError","fields":{"elem":name},"message":s}}}`
-/
def opCompile (j : Json) : E Json := do
  let prog ← (← getArr j "prog").mapM decProgInstr
  let isa : List (List Char × List Char) :=
    (← decPairs (← j.getObjVal? "isa")).foldl (fun m p => AMap.set m p.1 p.2) ([] : List (List Char × List Char))
  let m := modelCompileObs isa prog
  let base := [("model", jCompileObs m)]
  match optField j "impl" with
  | none => return Json.mkObj base
  | some ij =>
    let io ← decCompileObs ij
    return Json.mkObj (base ++ verdict "C15" (compileObsEq m io) (checkC15Compile isa prog io))

/-! ## C16 `render` -/

def decCycle (j : Json) : E (Cli.Cycle String) := do
  let ents ← (← asArr j).mapM (fun e => do
    let (u, l) ← pair2 e
    pure ((← u.getStr?), (← (← asArr l).mapM decHI)))
  return Bag.ofPairs ents

def jrows (r : List (List String)) : Json := jarr (r.map jstrs)

def decRows (j : Json) : E (List (List String)) := do (← asArr j).mapM (fun r => do (← asArr r).mapM (·.getStr?))

/--
`{"op":"render","diagram":[[[unit,[[idx,"U"|"S"|"D"],…]],…],…],"n":n,"textsafe":bool,
  "impl":{"ok":{"rows":[[cell…],…],"table":[[cell…],…],"text":s}} | {"err":{"class":…}}}`
`rows` = `_get_sim_rows(enumerate(diagram), n)`, `table` = what `ResultWriter.print_sim_res(rows)` printed, read back
with `csv.reader("excel-tab")`, `text` = the raw printed text (compared only when `textsafe`).
→ `{"model":{"ok":{rows,table,text}}|{"err":{"class",…}}, "pre":diagramOK, "k":{"C16":b}, "o":{"C16":…}}`;
O is evaluated on the implementation's table when `pre` holds.
-/
def opRender (j : Json) : E Json := do
  let d ← (← getArr j "diagram").mapM decCycle
  let n ← getNat j "n"
  let pre := diagramOK d n
  let m := Cli.simRows id d n
  let mj := match m with
    | .ok rows => Json.mkObj [("ok", Json.mkObj [("rows", jrows rows), ("table", jrows (Cli.table rows)),
                                                 ("text", Json.str (Cli.csvText (Cli.table rows)))])]
    | .error e => jerr e.pyClass [] (toString (repr e))
  let base := [("model", mj), ("pre", jbool pre)]
  match optField j "impl" with
  | none => return Json.mkObj base
  | some ij =>
    match optField ij "ok" with
    | some okj =>
      let rows ← decRows (← okj.getObjVal? "rows")
      let tbl ← decRows (← okj.getObjVal? "table")
      let text ← getStr okj "text"
      let safe := ((optField j "textsafe").bind (fun b => b.getBool?.toOption)).getD false
      let k := match m with
        | .ok mrows => mrows == rows && Cli.table mrows == tbl && (!safe || Cli.csvText (Cli.table mrows) == text)
        | .error _ => false
      let o := if pre then checkC16 id d n tbl else none
      return Json.mkObj (base ++ verdict "C16" k o)
    | none =>
      let e ← implErr (← ij.getObjVal? "err")
      let k := match m with
        | .ok _ => false
        | .error me => me.pyClass == e.cls
      let o := if pre then some s!"gap-free diagram not rendered ({e.cls})" else none
      return Json.mkObj (base ++ verdict "C16" k o)

def handle : Driver.Handler := fun op j =>
  match op with
  | "icase" => some (opIcase j)
  | "bag" => some (opBag j)
  | "progtext" => some (opProgtext j)
  | "parse" => some (opParse j)
  | "isa" => some (opIsa j)
  | "abilities" => some (opAbilities j)
  | "compile" => some (opCompile j)
  | "render" => some (opRender j)
  | _ => none

end Driver.TextOps
