import Lean.Data.Json
/-! JSON helpers for the line-protocol driver (no Mathlib). -/
open Lean
namespace Driver

def getStr (j : Json) (k : String) : Except String String := do (← j.getObjVal? k).getStr?
def getNat (j : Json) (k : String) : Except String Nat := do (← j.getObjVal? k).getNat?
def getInt (j : Json) (k : String) : Except String Int := do (← j.getObjVal? k).getInt?
def getBool (j : Json) (k : String) : Except String Bool := do (← j.getObjVal? k).getBool?
def getArr (j : Json) (k : String) : Except String (List Json) := do
  return (← (← j.getObjVal? k).getArr?).toList
def getStrs (j : Json) (k : String) : Except String (List String) := do
  (← getArr j k).mapM (·.getStr?)
def getNats (j : Json) (k : String) : Except String (List Nat) := do
  (← getArr j k).mapM (·.getNat?)
def optField (j : Json) (k : String) : Option Json := (j.getObjVal? k).toOption
def asArr (j : Json) : Except String (List Json) := do return (← j.getArr?).toList

def jarr (l : List Json) : Json := Json.arr l.toArray
def jstrs (l : List String) : Json := jarr (l.map Json.str)
def jnats (l : List Nat) : Json := jarr (l.map (fun n => Json.num (JsonNumber.fromNat n)))
def jnat (n : Nat) : Json := Json.num (JsonNumber.fromNat n)
def jint (n : Int) : Json := Json.num (JsonNumber.fromInt n)

/-- A handler looks at the `op` field; `none` = "not my op". -/
abbrev Handler := String → Json → Option (Except String Json)

end Driver
