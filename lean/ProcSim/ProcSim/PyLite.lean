/-!
# PyLite — the small typed runtime that *translated* Python code is written against

`checks/py2lean.py` reads functions and attrs classes from `/repo/src` with Python's own `ast` module and prints
them as Lean definitions over this runtime (module `ProcSim.Gen.*`, regenerated on every check run).  The runtime
fixes what the handful of Python primitives used by the translated code mean:

* a Python exception is an explicit `Except PyErr` result — never a default value;
* `list` is `List`; `set` is `PySet` (a duplicate-free list in insertion order; only membership, `add`, `remove`,
  `len`, truthiness and set equality are available, none of which can observe the order);
* negative constant indexes `xs[-k]` address from the tail, and raise `IndexError` when out of range;
* objects are immutable Lean structures; a Python statement that mutates through a path
  (`self._queue[-1].reqs.remove(x)`, `del self._queue[-1]`) is translated into the functional update of that path
  — which is Python's meaning as long as the objects reachable from `self` form a tree (no aliasing; recorded in
  the trusted base of the translator tie);
* `and` / `or` / `not` / `if` consume their operands by *truthiness* (`Truthy`), evaluated left to right with
  short-circuiting, so that an operand guarding a later one (`self._queue and self._queue[-1] …`) keeps guarding it.

Nothing here imports anything; everything is executable.
-/
namespace PyLite

/-- the Python exceptions the translated code can raise -/
inductive PyErr
  | indexError
  | keyError
  | assertionError
  | typeError
deriving DecidableEq, Repr, Inhabited

/-- result of a Python expression / statement -/
abbrev PyM := Except PyErr

/-- Python `set` restricted to the operations the translated code uses -/
structure PySet (α : Type) where
  elems : List α
deriving Repr

namespace PySet
variable {α : Type} [DecidableEq α]

/-- `set()` -/
def empty : PySet α := ⟨[]⟩
/-- `{x}` -/
def single (x : α) : PySet α := ⟨[x]⟩
/-- `set(iterable)` -/
def ofList (xs : List α) : PySet α := ⟨xs.eraseDups⟩
/-- `x in s` -/
def contains (s : PySet α) (x : α) : Bool := decide (x ∈ s.elems)
/-- `s.add(x)` -/
def add (s : PySet α) (x : α) : PySet α := if x ∈ s.elems then s else ⟨s.elems ++ [x]⟩
/-- `s.remove(x)`; `KeyError` when absent -/
def remove (s : PySet α) (x : α) : PyM (PySet α) :=
  if x ∈ s.elems then .ok ⟨s.elems.erase x⟩ else .error .keyError
/-- `len(s)` -/
def len (s : PySet α) : Nat := s.elems.length
/-- `s == t` for sets: mutual inclusion -/
def eq (s t : PySet α) : Bool := s.elems.all (fun x => decide (x ∈ t.elems)) && t.elems.all (fun x => decide (x ∈ s.elems))
/-- `set(s)` for a set `s` -/
def copy (s : PySet α) : PySet α := ofList s.elems

end PySet

/-- Python truthiness of a value used in a Boolean context -/
class Truthy (α : Type) where
  truthy : α → Bool

instance : Truthy Bool := ⟨id⟩
instance {α : Type} : Truthy (List α) := ⟨fun xs => !xs.isEmpty⟩
instance {α : Type} : Truthy (PySet α) := ⟨fun s => !s.elems.isEmpty⟩
instance : Truthy Nat := ⟨fun n => n != 0⟩

export Truthy (truthy)

/-- Python `==` on the types the translated code compares -/
class PyEq (α : Type) where
  pyEq : α → α → Bool
export PyEq (pyEq)
instance : PyEq Nat := ⟨fun a b => decide (a = b)⟩
instance : PyEq Bool := ⟨fun a b => decide (a = b)⟩
instance {α : Type} [DecidableEq α] : PyEq (PySet α) := ⟨PySet.eq⟩

/-- `x in c` -/
def pyIn {α : Type} [DecidableEq α] (x : α) (s : PySet α) : Bool := s.contains x
/-- `s.add(x)` -/
def pyAdd {α : Type} [DecidableEq α] (s : PySet α) (x : α) : PySet α := s.add x
/-- `s.remove(x)` -/
def pyRemove {α : Type} [DecidableEq α] (s : PySet α) (x : α) : PyM (PySet α) := s.remove x

/-- `len(c)` -/
class PyLen (α : Type) where
  pyLen : α → Nat
export PyLen (pyLen)
instance {α : Type} : PyLen (List α) := ⟨List.length⟩
instance {α : Type} : PyLen (PySet α) := ⟨fun s => s.elems.length⟩

/-- `xs[-k]` for a constant `k ≥ 1` -/
def idxNeg {α : Type} (xs : List α) (k : Nat) : PyM α :=
  if k = 0 ∨ xs.length < k then .error .indexError
  else match xs[xs.length - k]? with
    | some x => .ok x
    | none => .error .indexError

/-- `xs[-k] = v` (functional update of the path through a negative constant index) -/
def setIdxNeg {α : Type} (xs : List α) (k : Nat) (v : α) : PyM (List α) :=
  if k = 0 ∨ xs.length < k then .error .indexError
  else .ok (xs.set (xs.length - k) v)

/-- `del xs[-k]` -/
def delIdxNeg {α : Type} (xs : List α) (k : Nat) : PyM (List α) :=
  if k = 0 ∨ xs.length < k then .error .indexError
  else .ok (xs.eraseIdx (xs.length - k))

/-- `xs.append(v)` -/
def pyAppend {α : Type} (xs : List α) (v : α) : List α := xs ++ [v]

/-- `list(reversed(xs))` -/
def reversedList {α : Type} (xs : List α) : List α := xs.reverse

/-- `a and b` consumed by truthiness: `b` is evaluated only when `a` is truthy -/
def pyAnd (a : PyM Bool) (b : PyM Bool) : PyM Bool := do
  if (← a) then b else pure false

/-- `a or b` consumed by truthiness -/
def pyOr (a : PyM Bool) (b : PyM Bool) : PyM Bool := do
  if (← a) then pure true else b

/-- Python `dict` (insertion-ordered) / `collections.defaultdict`: `dflt` is the default factory's call (`none` for a
plain dict, whose `d[k]` raises `KeyError` on a missing key) -/
structure PyDict (κ ν : Type) where
  items : List (κ × ν)
  dflt : Option (PyM ν)

namespace PyDict
variable {κ ν μ : Type} [DecidableEq κ]

/-- `defaultdict(factory)` -/
def emptyDefault (fac : PyM ν) : PyDict κ ν := ⟨[], some fac⟩

def lookup : List (κ × ν) → κ → Option ν
  | [], _ => none
  | (k', v) :: m, k => if k' = k then some v else lookup m k

def replace : List (κ × ν) → κ → ν → List (κ × ν)
  | [], k, v => [(k, v)]
  | (k', v') :: m, k, v => if k' = k then (k, v) :: m else (k', v') :: replace m k v

/-- `d[k]` as an expression: the stored value; on a missing key a `defaultdict` calls its factory, stores the result
under `k` (at the end: insertion order) and returns it, a plain dict raises `KeyError`.  Returns the dict as it is
afterwards. -/
def getItem (d : PyDict κ ν) (k : κ) : PyM (ν × PyDict κ ν) :=
  match lookup d.items k with
  | some v => .ok (v, d)
  | none =>
    match d.dflt with
    | none => .error .keyError
    | some fac => do
      let v ← fac
      pure (v, ⟨d.items ++ [(k, v)], d.dflt⟩)

/-- functional update of the path `d[k]` (the key keeps its position; a new key goes to the end) -/
def setItem (d : PyDict κ ν) (k : κ) (v : ν) : PyDict κ ν := ⟨replace d.items k v, d.dflt⟩

/-- `{k: f(k, v) for k, v in d.items()}`: a plain dict with the same keys in the same order -/
def mapValsM (d : PyDict κ ν) (f : κ → ν → PyM μ) : PyM (PyDict κ μ) := do
  let items ← d.items.mapM (fun kv => do pure (kv.1, ← f kv.1 kv.2))
  pure ⟨items, none⟩

end PyDict

/-- `for x in xs: body` where the body updates the mutable objects `s` in scope (an exception ends the loop) -/
def pyFor {α σ : Type} : List α → σ → (α → σ → PyM σ) → PyM σ
  | [], s, _ => pure s
  | x :: xs, s, f => do
    let s' ← f x s
    pyFor xs s' f

/-- `assert c` -/
def pyAssert (c : Bool) : PyM Unit := if c then pure () else .error .assertionError

end PyLite
