import ProcSim.Model.Basic
/-!
# Data types shared by the loader, compiler and simulator models

Names (units, capabilities, registers) are a type parameter `N` with decidable equality and a decidable
strict order (`String` in the driver — `String`'s `<` is code-point lexicographic like Python's `str` —
and `Nat` in `decide`-checked examples).

Mirrors `processor_utils.units.UnitModel/FuncUnit`, `processor_utils.ProcessorDesc`,
`program_defs.HwInstruction`, `sim_services.sim_defs.InstrState/StallState`.
-/
namespace ProcSim

/-- `StallState`: `U` = NO_STALL, `S` = STRUCTURAL, `D` = DATA. -/
inductive Stall | U | S | D
deriving DecidableEq, Repr, Inhabited

def Stall.code : Stall → String
  | .U => "U" | .S => "S" | .D => "D"

/-- order of `StrEnum` values as strings: "D" < "S" < "U" -/
def Stall.rank : Stall → Nat
  | .D => 0 | .S => 1 | .U => 2

/-- `InstrState(instr, stalled)` -/
structure HI where
  idx : Nat
  st : Stall
deriving DecidableEq, Repr, Inhabited

/-- attrs `order=True` on `(instr, stalled)` -/
def HI.le (a b : HI) : Bool := a.idx < b.idx || (a.idx == b.idx && a.st.rank ≤ b.st.rank)

/-- `UnitModel(name, width, capabilities, LockInfo(rd_lock, wr_lock), mem_acl)`.
`caps`/`acl` are kept in the order the implementation exposes them (sorted tuples); only membership is used. -/
structure UnitM (N : Type) where
  name : N
  width : Nat
  caps : List N
  rd : Bool
  wr : Bool
  acl : List N
deriving DecidableEq, Repr, Inhabited

/-- `FuncUnit(model, predecessors)`; the simulator only ever uses the *names* of predecessors. -/
structure FuncU (N : Type) where
  model : UnitM N
  preds : List N
deriving DecidableEq, Repr, Inhabited

/-- `ProcessorDesc(in_ports, out_ports, in_out_ports, internal_units)` with the orders as stored:
`outPorts` sorted by name, `internal` in sink-first (post-)order, `inPorts`/`inOut` in insertion order. -/
structure Proc (N : Type) where
  inPorts : List (UnitM N)
  outPorts : List (FuncU N)
  inOut : List (UnitM N)
  internal : List (FuncU N)
deriving DecidableEq, Repr, Inhabited

/-- `HwInstruction(sources, destination, categ)`; `srcs` is the sorted, de-duplicated tuple. -/
structure Instr (N : Type) where
  srcs : List N
  dst : N
  cap : N
deriving DecidableEq, Repr, Inhabited

namespace Proc
variable {N : Type}

/-- every unit model, in the order of `HwSpec.name_unit_map` construction -/
def allUnits (p : Proc N) : List (UnitM N) :=
  p.inPorts ++ p.inOut ++ p.outPorts.map (·.model) ++ p.internal.map (·.model)

/-- names at the output boundary: in-out ports, then output ports (`_get_out_ports`) -/
def outBoundary (p : Proc N) : List N := p.inOut.map (·.name) ++ p.outPorts.map (·.model.name)

/-- destination units in processing order: output ports, then internal units (`_fill_cp_util`) -/
def dests (p : Proc N) : List (FuncU N) := p.outPorts ++ p.internal

/-- input boundary in the order of `chain(in_out_ports, in_ports)` (before sorting by name) -/
def inBoundary (p : Proc N) : List (UnitM N) := p.inOut ++ p.inPorts

end Proc
end ProcSim
