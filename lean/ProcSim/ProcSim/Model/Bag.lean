import ProcSim.Model.Basic
/-!
# `container_utils.BagValDict` as `AMap K (List V)` (core Lean only)

```python
class BagValDict:                                   # _dict: defaultdict(list)
    def __eq__(self, other):
        other_items = tuple(other.items())
        lst_pairs = ((sorted(lst) for lst in [val_lst, self[key]]) for key, val_lst in other_items)
        return len(self) == len(other_items) and all(starmap(eq, lst_pairs))
    def __getitem__(self, key): return self._dict[key]          # defaultdict: inserts [] for a missing key
    def __len__(self): return ilen(self.items())
    def items(self): return filter(itemgetter(1), self._dict.items())      # non-empty lists only
    def _format_elems(self):
        elems = starmap(lambda key, val_lst: (key, sorted(val_lst)), self.items())
        elems = sorted(elems, key=itemgetter(0))
        return ", ".join(starmap(lambda key, val_lst: f"{key!r}: {val_lst}", elems))
    def __repr__(self): return f"BagValDict({{{self._format_elems()}}})"
```

`sorted` on values is `isort le` for a Boolean `le` supplied by the caller (stable, like `sorted`); `sorted(...,
key=itemgetter(0))` on entries is `isort` by a Boolean `leK` on keys. `beq` follows `__eq__` literally: the length
test, then — lazily, only if the lengths agree — one sorted-list comparison per non-empty entry of `other`.

`__getitem__` on a `defaultdict` *inserts* an empty list for a missing key. `getM`/`beqM` model that side effect
(state-passing); `beq` is the pure reading. The inserted lists are empty, hence invisible to `items`, `len`,
`repr`, `get` and `beq` (Spec: `C17` touch-invariance).
-/
namespace ProcSim
namespace Bag

variable {K V : Type} [DecidableEq K]

/-- the `_dict` of a `BagValDict` (insertion-ordered) -/
abbrev BagValDict (K V : Type) := AMap K (List V)

/-- `BagValDict(d)` for a mapping given as its item list (a later duplicate key replaces the value in place,
like building a `dict` from pairs) -/
def ofPairs (l : List (K × List V)) : BagValDict K V :=
  l.foldl (fun m p => AMap.set m p.1 p.2) ([] : List (K × List V))

/-- `self[key]` read purely: the stored list, `[]` for a missing key -/
def get (m : BagValDict K V) (k : K) : List V := (AMap.get? m k).getD []

/-- `self.items()`: entries with a non-empty list, in insertion order -/
def items (m : BagValDict K V) : List (K × List V) := List.filter (fun p => !p.2.isEmpty) m

/-- `len(self)` -/
def len (m : BagValDict K V) : Nat := (items m).length

/-- `sorted(a) == sorted(b)` -/
def sameSorted [DecidableEq V] (le : V → V → Bool) (a b : List V) : Bool := isort le a == isort le b

/-- the `all(starmap(eq, lst_pairs))` part of `__eq__` -/
def allItemsMatch [DecidableEq V] (le : V → V → Bool) (self : BagValDict K V) : List (K × List V) → Bool
  | [] => true
  | (k, vs) :: rest => sameSorted le vs (get self k) && allItemsMatch le self rest

/-- `self == other` (pure reading) -/
def beq [DecidableEq V] (le : V → V → Bool) (self other : BagValDict K V) : Bool :=
  (len self == (items other).length) && allItemsMatch le self (items other)

/-! ### the side effect of `__getitem__` -/

/-- `self[key]` on the `defaultdict`: a missing key is appended with an empty list -/
def getM (m : BagValDict K V) (k : K) : List V × BagValDict K V :=
  match AMap.get? m k with
  | some v => (v, m)
  | none => ([], AMap.set m k [])

/-- `all(...)` with the side effects of the lookups made before the first mismatch (short-circuit) -/
def allItemsMatchM [DecidableEq V] (le : V → V → Bool) :
    BagValDict K V → List (K × List V) → Bool × BagValDict K V
  | self, [] => (true, self)
  | self, (k, vs) :: rest =>
    let (mine, self') := getM self k
    if sameSorted le vs mine then allItemsMatchM le self' rest else (false, self')

/-- `self == other` together with `self._dict` afterwards (`other` is only read through `items()`) -/
def beqM [DecidableEq V] (le : V → V → Bool) (self other : BagValDict K V) : Bool × BagValDict K V :=
  if len self == (items other).length then allItemsMatchM le self (items other) else (false, self)

/-! ### `repr` -/

/-- `str(list)` given the element printer: `[e1, e2, …]` -/
def listStr (vp : V → String) (l : List V) : String := "[" ++ ", ".intercalate (l.map vp) ++ "]"

/-- the canonical entry list of `_format_elems`: non-empty entries, values sorted, entries sorted by key -/
def canonEntries (leK : K → K → Bool) (le : V → V → Bool) (m : BagValDict K V) : List (K × List V) :=
  isort (fun a b => leK a.1 b.1) ((items m).map (fun p => (p.1, isort le p.2)))

/-- `_format_elems` -/
def formatElems (leK : K → K → Bool) (le : V → V → Bool) (kp : K → String) (vp : V → String)
    (m : BagValDict K V) : String :=
  ", ".intercalate ((canonEntries leK le m).map (fun p => kp p.1 ++ ": " ++ listStr vp p.2))

/-- `repr(self)`; `kp` is `repr` of a key, `vp` is `repr` of a value -/
def repr (leK : K → K → Bool) (le : V → V → Bool) (kp : K → String) (vp : V → String)
    (m : BagValDict K V) : String :=
  "BagValDict({" ++ formatElems leK le kp vp m ++ "})"

end Bag
end ProcSim
