import ProcSim.Model.Basic
import ProcSim.Model.Types
import ProcSim.Model.Bag
/-!
# The table printed by `processor_sim` (core Lean only)

```python
def _get_sim_rows(sim_res, instructions):        # sim_res = enumerate(diagram): cycle numbers start at 0
    flights = map(_create_flight, _cui_to_icu(sim_res, instructions))            # lazy
    return [_get_flight_row(flight) for flight in flights]
def _cui_to_icu(cxuxi, instructions):
    ixcxu = [dict() for _ in range(instructions)]
    for cur_cp, uxi_util in cxuxi:
        for unit, instr_lst in uxi_util.items():                 # BagValDict.items(): non-empty lists
            for instr in instr_lst:
                ixcxu[instr.instr][cur_cp] = _InstrPosition(unit, instr.stalled)
    return ixcxu
def _create_flight(instr_util):
    start_time = min(instr_util.keys()); time_span = len(instr_util)
    return _InstrFlight(start_time, map(instr_util.__getitem__, range(start_time, start_time + time_span)))
def _get_flight_row(flight):
    return [*repeat("", flight.start_time), *(str(stop) for stop in flight.stops)]     # "L:unit"
class ResultWriter:
    def print_sim_res(cls, sim_res):             # sim_res = the ROWS returned by _get_sim_rows
        writerow(["", *range(1, max(map(len, sim_res), default=0) + 1)])
        for row_idx, fields in enumerate(sim_res, 1): writerow(["I" + str(row_idx), *fields])
```

Exceptions the Python code can raise are explicit results (`RenderError`), never defaults:
* `IndexError` — `ixcxu[instr.instr]` for `instr ≥ instructions` (raised while the whole map is being filled, hence
  before any row is produced; program indices are naturals here, Python's negative indexing is outside the model);
* `ValueError` — `min()` of the empty key set of an instruction that never appears;
* `KeyError` — a cycle missing inside `range(start, start + len)` (the instruction's cycles are not contiguous).
The last two surface lazily, row by row, so the first offending instruction in program order is reported.
When one instruction is listed twice in one cycle the later entry (unit order of the record, then list order)
overwrites the earlier one, as the dict assignment does.

`csvText` is what the `excel-tab` writer prints **for cells that need no quoting** (no tab, CR, LF or double
quote): cells joined by tabs, `\n` after every row, and — the writer's rule for a record that would otherwise be
empty — a row consisting of one empty cell is printed as `""`. Quoting of other cells is not modelled.
-/
namespace ProcSim
namespace Cli

variable {N : Type} [DecidableEq N]

/-- one cycle record of the diagram -/
abbrev Cycle (N : Type) := AMap N (List HI)

/-- `_InstrPosition(unit, stalled)` -/
structure Pos (N : Type) where
  unit : N
  st : Stall
deriving DecidableEq, Repr

/-- `str(_InstrPosition)` = `"<label>:<unit>"` -/
def Pos.str (sh : N → String) (p : Pos N) : String := p.st.code ++ ":" ++ sh p.unit

inductive RenderError
  | badIndex (cycle idx : Nat)
  | neverAppears (k : Nat)
  | gap (k cycle : Nat)
deriving DecidableEq, Repr, Inhabited

/-- Python exception class of each error -/
def RenderError.pyClass : RenderError → String
  | .badIndex _ _ => "IndexError"
  | .neverAppears _ => "ValueError"
  | .gap _ _ => "KeyError"

/-- instruction ↦ (cycle ↦ position), one dict per instruction -/
abbrev ICU (N : Type) := List (AMap Nat (Pos N))

/-- `lst[i] = f(lst[i])`, `none` for an index out of range -/
def updateAt {α : Type} : List α → Nat → (α → α) → Option (List α)
  | [], _, _ => none
  | x :: xs, 0, f => some (f x :: xs)
  | x :: xs, i + 1, f => (updateAt xs i f).map (x :: ·)

/-- inner loop of `_fill_cp_util` -/
def fillInstrs (cp : Nat) (unit : N) : List HI → ICU N → Except RenderError (ICU N)
  | [], icu => .ok icu
  | h :: hs, icu =>
    match updateAt icu h.idx (fun m => AMap.set m cp { unit := unit, st := h.st }) with
    | none => .error (.badIndex cp h.idx)
    | some icu' => fillInstrs cp unit hs icu'

/-- `_fill_cp_util` -/
def fillUnits (cp : Nat) : List (N × List HI) → ICU N → Except RenderError (ICU N)
  | [], icu => .ok icu
  | (u, l) :: rest, icu =>
    match fillInstrs cp u l icu with
    | .error e => .error e
    | .ok icu' => fillUnits cp rest icu'

/-- the loop of `_cui_to_icu` from cycle number `cp` on -/
def fillCycles : Nat → List (Cycle N) → ICU N → Except RenderError (ICU N)
  | _, [], icu => .ok icu
  | cp, c :: cs, icu =>
    match fillUnits cp (Bag.items c) icu with
    | .error e => .error e
    | .ok icu' => fillCycles (cp + 1) cs icu'

/-- `_cui_to_icu(enumerate(diagram), n)` -/
def cuiToIcu (diagram : List (Cycle N)) (n : Nat) : Except RenderError (ICU N) :=
  fillCycles 0 diagram (List.replicate n [])

/-- `min(keys)` -/
def minKey : List Nat → Option Nat
  | [] => none
  | k :: ks => some (ks.foldl min k)

/-- `[util[c] for c in range(c, c + span)]` -/
def lookupRange (k : Nat) (util : AMap Nat (Pos N)) : Nat → Nat → Except RenderError (List (Pos N))
  | _, 0 => .ok []
  | c, span + 1 =>
    match AMap.get? util c with
    | none => .error (.gap k c)
    | some p =>
      match lookupRange k util (c + 1) span with
      | .error e => .error e
      | .ok ps => .ok (p :: ps)

/-- `_get_flight_row(_create_flight(util))` for instruction `k` (0-based) -/
def flightRow (sh : N → String) (k : Nat) (util : AMap Nat (Pos N)) : Except RenderError (List String) :=
  match minKey (AMap.keys util) with
  | none => .error (.neverAppears k)
  | some start =>
    match lookupRange k util start (List.length util) with
    | .error e => .error e
    | .ok stops => .ok (List.replicate start "" ++ stops.map (Pos.str sh))

/-- rows of instructions `k, k+1, …` -/
def flightRows (sh : N → String) : Nat → ICU N → Except RenderError (List (List String))
  | _, [] => .ok []
  | k, u :: us =>
    match flightRow sh k u with
    | .error e => .error e
    | .ok r =>
      match flightRows sh (k + 1) us with
      | .error e => .error e
      | .ok rs => .ok (r :: rs)

/-- `_get_sim_rows(enumerate(diagram), n)` -/
def simRows (sh : N → String) (diagram : List (Cycle N)) (n : Nat) : Except RenderError (List (List String)) :=
  match cuiToIcu diagram n with
  | .error e => .error e
  | .ok icu => flightRows sh 0 icu

/-- `ResultWriter._get_last_tick(rows)`: the longest row -/
def lastTick : List (List String) → Nat
  | [] => 0
  | r :: rs => max r.length (lastTick rs)

/-- `["", 1, …, T]` as printed -/
def header (rows : List (List String)) : List String :=
  "" :: (List.range (lastTick rows)).map (fun t => toString (t + 1))

/-- `"I<k>"` prepended to every row, `k` counting from the given number -/
def keyRows : Nat → List (List String) → List (List String)
  | _, [] => []
  | k, r :: rs => (("I" ++ toString k) :: r) :: keyRows (k + 1) rs

/-- everything `ResultWriter.print_sim_res(rows)` hands to `writerow`, in order -/
def table (rows : List (List String)) : List (List String) := header rows :: keyRows 1 rows

/-- the table printed for a diagram and an instruction count -/
def render (sh : N → String) (diagram : List (Cycle N)) (n : Nat) : Except RenderError (List (List String)) :=
  match simRows sh diagram n with
  | .error e => .error e
  | .ok rows => .ok (table rows)

/-- one record of the `excel-tab` writer, cells needing no quoting -/
def csvLine (row : List String) : String :=
  if row == [""] then "\"\"\n" else "\t".intercalate row ++ "\n"

/-- the printed text (cells needing no quoting) -/
def csvText (tbl : List (List String)) : String := String.join (tbl.map csvLine)

end Cli
end ProcSim
