import ProcSim.Model.Sim
import ProcSim.Model.Loader
import ProcSim.Model.Program
import ProcSim.Model.ICase
import ProcSim.Model.Bag
/-!
Canonical, `decide`-friendly form of a simulation outcome over `Nat` names — used by the generated "kernel samples"
(checks/kernel_samples.py): the harness takes inputs and the *implementation's* outputs, maps names to numbers
(order-preserving) and asks the Lean **kernel** (`by decide`, no compiled code involved) to confirm that the model
produces exactly that outcome.
-/
namespace ProcSim

/-- non-empty units by name, entries as (index, label rank D=0 S=1 U=2) sorted -/
def canonRowNat (u : Util Nat) : List (Nat × List (Nat × Nat)) :=
  isort (fun a b => decide (a.1 ≤ b.1))
    ((Util.items u).map (fun e => (e.1, (sortHI e.2).map (fun h => (h.idx, h.st.rank)))))

/-- (0 = returned diagram, 1 = stall error, 2 = another exception; the canonical table) -/
def outcomeCanon : Outcome Nat → Nat × List (List (Nat × List (Nat × Nat)))
  | .done t => (0, t.map canonRowNat)
  | .stall t => (1, t.map canonRowNat)
  | .fault _ => (2, [])

end ProcSim

namespace ProcSim

/-- one unit as a flat list of numbers: class (0 input, 1 in-out, 2 output, 3 internal), name, width, read lock,
write lock, then three length-prefixed lists: capabilities, memory-access list, predecessor names (sorted) -/
def unitRowNat (cls : Nat) (m : UnitM Nat) (preds : List Nat) : List Nat :=
  [cls, m.name, m.width, m.rd.toNat, m.wr.toNat] ++ (m.caps.length :: m.caps) ++ (m.acl.length :: m.acl) ++
    (preds.length :: isort (fun a b => decide (a ≤ b)) preds)

/-- canonical loaded processor: one row per unit, rows sorted by name -/
def procCanonNat (p : Proc Nat) : List (List Nat) :=
  isort (fun a b => decide (a.getD 1 0 ≤ b.getD 1 0))
    (p.inPorts.map (fun m => unitRowNat 0 m []) ++ p.inOut.map (fun m => unitRowNat 1 m []) ++
     p.outPorts.map (fun f => unitRowNat 2 f.model f.preds) ++ p.internal.map (fun f => unitRowNat 3 f.model f.preds))

/-- error class codes in the order of `DefectClass` -/
def classCode : Loader.DefectClass → Nat
  | .dupElem => 1 | .badWidth => 2 | .badEdge => 3 | .undefElem => 4 | .cyclic => 5 | .deadInput => 6
  | .emptyProc => 7 | .pathLock => 8 | .blockedCap => 9

/-- (0, canonical processor) for an accepted description, (class code, []) for a rejected one -/
def loadCanonNat (d : Loader.Desc Nat) : Nat × List (List Nat) :=
  match Loader.load id d with
  | .ok p => (0, procCanonNat p)
  | .error e => (classCode e.cls, [])

end ProcSim

namespace ProcSim
open Program in
/-- decidable comparison of a parse result with an expected one (`Except` has no `DecidableEq` in core) -/
def parseResultEq : Except Program.ParseError (List Program.ProgInstr) → Except Program.ParseError (List Program.ProgInstr) → Bool
  | .ok a, .ok b => decide (a = b)
  | .error e, .error f => decide (e = f)
  | _, _ => false
end ProcSim

/-! ### kernel samples for the register queues (C19), `ICaseString` (C18) and cycle records (C17) -/
namespace ProcSim

/-- one call on a queue: `can_access(type, owner)` or `dequeue(owner)` -/
inductive QOp
  | can (w : Bool) (o : Nat)
  | deq (o : Nat)

/-- the observable trace of a history of calls: `can` -> 0 (False) / 1 (True) / 2 (exception);
`deq` -> 1 (removed) / 0 (exception, queue unchanged) -/
def qTrace : Queue → List QOp → List Nat
  | _, [] => []
  | q, .can w o :: r => (match q.canAccess w o with | none => 2 | some true => 1 | some false => 0) :: qTrace q r
  | q, .deq o :: r => match q.dequeue o with
    | none => 0 :: qTrace q r
    | some q' => 1 :: qTrace q' r

/-- the eleven hash-independent observations on `ICaseString(a)`, `ICaseString(b)`:
`A==B, B==A, A!=B, A<B, B<A, A<=B, B<=A, A>B, A>=B, b in A, a in B` -/
def icaseCanon (a b : List Char) : List Bool :=
  let A : ICase.ICaseString := ⟨a⟩
  let B : ICase.ICaseString := ⟨b⟩
  [ICase.eq A B, ICase.eq B A, ICase.ne A B, ICase.lt A B, ICase.lt B A, ICase.le A B, ICase.le B A,
   ICase.gt A B, ICase.ge A B, ICase.contains A b, ICase.contains B a]

/-- `(a == b, b == a, len a, len b)` for two cycle records over numbered units and numbered entries -/
def bagCanon (a b : List (Nat × List Nat)) : Bool × Bool × Nat × Nat :=
  let x : Bag.BagValDict Nat Nat := Bag.ofPairs a
  let y : Bag.BagValDict Nat Nat := Bag.ofPairs b
  (Bag.beq (fun u v => decide (u ≤ v)) x y, Bag.beq (fun u v => decide (u ≤ v)) y x, Bag.len x, Bag.len y)

end ProcSim
