import ProcSim.Model.Sim
/-!
Canonical, `decide`-friendly form of a simulation outcome over `Nat` names — used by the generated "kernel samples"
(checks/kernel_samples.py): the harness takes inputs and the *implementation's* outputs, maps names to numbers
(order-preserving) and asks the Lean **kernel** (`by decide`, no compiled code involved) to confirm that the model
produces exactly that outcome.
-/
namespace ProcSim

/-- non-empty units by name, entries as (index, label rank D=0 S=1 U=2) sorted -/
def canonRowNat (u : Util Nat) : List (Nat × List (Nat × Nat)) :=
  isort (fun a b => decide (a.1 ≤ b.1))
    ((Util.items u).map (fun e => (e.1, (sortHI e.2).map (fun h => (h.idx, h.st.rank)))))

/-- (0 = returned diagram, 1 = stall error, 2 = another exception; the canonical table) -/
def outcomeCanon : Outcome Nat → Nat × List (List (Nat × List (Nat × Nat)))
  | .done t => (0, t.map canonRowNat)
  | .stall t => (1, t.map canonRowNat)
  | .fault _ => (2, [])

end ProcSim
