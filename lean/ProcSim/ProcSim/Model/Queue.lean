import ProcSim.Model.Basic
/-!
# Register access queues (`reg_access.py`)

`RegAccQBuilder.append` / `RegAccessQueue.can_access` / `RegAccessQueue.dequeue`, as they are after the
`fix:` commit for defect D1 (a write directly following its owner's own sole read is served with that read).

The Python object stores the groups reversed (queue front = list tail); the model stores them front first.
Group members are a Python `set`; the model keeps a duplicate-free list (`push` never adds a member twice).
Python exceptions (`IndexError` on an empty queue, `KeyError` when the owner is not in the front group) are the
explicit `none` results — never a default value.
-/
namespace ProcSim

/-- `AccessGroup(access_type, reqs)`; `wr = true` for `AccessType.WRITE`. -/
structure Group where
  wr : Bool
  owners : List Nat
deriving DecidableEq, Repr, Inhabited

/-- queue of access groups, front first -/
abbrev Queue := List Group

namespace Queue

/-- add `o` to a set-like member list -/
def addOwner (os : List Nat) (o : Nat) : List Nat := if o ∈ os then os else os ++ [o]

/-- `RegAccQBuilder.append(req_type, req_owner)`: a read merges into a trailing read group, anything else
opens a new group at the back. -/
def push : Queue → Bool → Nat → Queue
  | [], wr, o => [⟨wr, [o]⟩]
  | [g], wr, o =>
      if !wr && !g.wr then [⟨false, addOwner g.owners o⟩] else [g, ⟨wr, [o]⟩]
  | g :: g' :: rest, wr, o => g :: push (g' :: rest) wr o

/-- `RegAccessQueue.can_access(req_type, req_owner)`; `none` = `IndexError` (empty queue). -/
def canAccess : Queue → Bool → Nat → Option Bool
  | [], _, _ => none
  | g :: rest, wr, o =>
      if wr = g.wr then some (decide (o ∈ g.owners))
      else some (wr && g.owners == [o] &&
        (match rest with
         | [] => false
         | g2 :: _ => decide (o ∈ g2.owners)))

/-- `RegAccessQueue.dequeue(req_owner)`; `none` = `IndexError` / `KeyError`. -/
def dequeue : Queue → Nat → Option Queue
  | [], _ => none
  | g :: rest, o =>
      if o ∈ g.owners then
        (let os := g.owners.erase o
         if os.isEmpty then some rest else some (⟨g.wr, os⟩ :: rest))
      else none

/-- build a queue from a request sequence `(isWrite, owner)` in registration order -/
def build (reqs : List (Bool × Nat)) : Queue := reqs.foldl (fun q r => q.push r.1 r.2) []

end Queue
end ProcSim
