import ProcSim.Model.Loader
/-!
# The *text* of the loader's exceptions (`str(exc)`)

`errors.SimErrorBase._init` builds the message as `string.Template(msg_tmpl).substitute({key: displayed})`:
every `$key` placeholder of the template of the raising site is replaced by `str(displayed value)`; a value that
itself contains `$` is *not* substituted again.  All loader sites use `_init_simple` (displayed = stored = the
field) except `BlockedCapError`, whose displayed values are the reporting names `"Capability " + cap` and
`"port " + port` (`_checks._chk_cap_flow` / `_chk_unit_flow`), the stored ones the bare names.

| class / raising site                                   | template                                                              |
|--------------------------------------------------------|-----------------------------------------------------------------------|
| `DupElemError`   `__init__._chk_unit_name`             | `Functional unit $new_elem previously added as $old_elem`             |
| `BadWidthError`  `__init__._chk_unit_width`            | `Functional unit $unit has a bad width $width.`                       |
| `BadEdgeError`   `__init__._add_edge`                  | `Edge $edge doesn't connect exactly 2 functional units.`              |
| `UndefElemError` `__init__._get_unit_name`             | `Undefined functional unit $elem`                                     |
| `NetworkXUnfeasible` `_checks.chk_cycles`              | (no text: `str(exc) == ""`)                                           |
| `DeadInputError` `_optimization._rm_dead_end`          | `No feasible path found from input port $port to any output ports`    |
| `EmptyProcError` `_checks.chk_non_empty`               | `No input ports found`                                                |
| `PathLockError`  `_checks._chk_in_lock`                | `Found a path starting at input port $start with no $lock_type locks for capability $capability.` |
| `PathLockError`  `_checks._chk_seg_lock`               | `Found a path passing through $start with multiple $lock_type locks for capability $capability.`  |
| `PathLockError`  `_checks._update_lock`                | `Paths passing through $start have different $lock_type locks for capability $capability.`         |
| `BlockedCapError` `_checks._chk_unit_flow`             | `$capability blocked from $port` with `Capability <cap>` / `port <port>`                          |

Rendering of the values (`str(v)`): a name is itself; the width is the decimal numeral (`-` for negatives); the lock
type is the word `read` / `write`; the bad edge is a Python **list**, rendered by `str(list)` = `[` + the `repr`
of each element joined by `", "` + `]`.  `repr(str)` (CPython `unicode_repr`) is modelled by `pyReprStr`:

* quote: `"` if the string contains `'` and no `"`, otherwise `'`;
* `\` and the chosen quote are preceded by `\`; TAB, LF, CR become `\t`, `\n`, `\r`; every other character below
  U+0020 and U+007F become `\xhh` (two lower-case hex digits); every other ASCII character is kept.

**Restriction.** Characters ≥ U+0080 are *kept* here; CPython keeps exactly the ones `str.isprintable` accepts and
escapes the others (`\xhh`, `\uhhhh`, `\Uhhhhhhhh`, e.g. U+0080–U+00A0, U+00AD, U+2028) — that depends on the Unicode
database and is outside the model.  `msgModelled` says whether an error is inside the modelled domain (all
characters of all bad-edge elements are ASCII); the other classes have no restriction.

`LoadError` (Model/Loader.lean) does not record *which* of the three `PathLockError` sites raised, so the text of a
path-lock error is one of three candidates: `LoadError.messages`.
-/
namespace ProcSim
namespace Loader

/-! ## `repr(str)` and `str(list)` -/

/-- the quote `repr` chooses -/
def pyQuote (s : List Char) : Char :=
  if s.contains '\'' && !s.contains '"' then '"' else '\''

def hexDigit (n : Nat) : Char := (if n < 10 then Char.ofNat (48 + n) else Char.ofNat (87 + n))

/-- one character of `repr(str)` inside the quotes `q` -/
def pyEscChar (q : Char) (c : Char) : List Char :=
  if c = q ∨ c = '\\' then ['\\', c]
  else if c = '\t' then ['\\', 't']
  else if c = '\n' then ['\\', 'n']
  else if c = '\r' then ['\\', 'r']
  else if c.toNat < 32 ∨ c.toNat = 127 then ['\\', 'x', hexDigit (c.toNat / 16), hexDigit (c.toNat % 16)]
  else [c]

/-- `repr(s)` for a `str` (characters ≥ U+0080 kept, see the header) -/
def pyReprChars (s : List Char) : List Char :=
  pyQuote s :: (s.flatMap (pyEscChar (pyQuote s)) ++ [pyQuote s])

/-- `", ".join(items)` -/
def joinComma : List (List Char) → List Char
  | [] => []
  | [x] => x
  | x :: y :: r => x ++ (',' :: ' ' :: joinComma (y :: r))

/-- `str(l)` for a list of `str` -/
def pyStrListChars (l : List (List Char)) : List Char :=
  '[' :: (joinComma (l.map pyReprChars) ++ [']'])

def pyReprStr (s : String) : String := String.ofList (pyReprChars s.toList)

def pyStrList (l : List String) : String := String.ofList (pyStrListChars (l.map String.toList))

/-- `repr(s)` is `s` between quotes: no character is escaped -/
def ReprVerbatim (s : String) : Prop := ∀ c ∈ s.toList, pyEscChar (pyQuote s.toList) c = [c]

instance (s : String) : Decidable (ReprVerbatim s) := by unfold ReprVerbatim; exact inferInstance

/-- a sufficient condition: printable ASCII / non-ASCII characters other than `'` and `\` -/
def PlainName (s : String) : Prop := ∀ c ∈ s.toList, c ≠ '\'' ∧ c ≠ '\\' ∧ 32 ≤ c.toNat ∧ c.toNat ≠ 127

instance (s : String) : Decidable (PlainName s) := by unfold PlainName; exact inferInstance

/-! ## The messages -/

/-- which of the three `PathLockError` sites raised -/
inductive LockSite
  | noLock      -- `_chk_in_lock`: a path from an input port without a lock
  | multiple    -- `_chk_seg_lock`: a path with more than one lock
  | different   -- `_update_lock`: paths through a unit with different lock counts
deriving DecidableEq, Repr, Inhabited

def LockSite.all : List LockSite := [.noLock, .multiple, .different]

def pathLockMessage {N : Type} (sh : N → String) (site : LockSite) (start : N) (t : LockType) (cap : N) : String :=
  match site with
  | .noLock =>
    "Found a path starting at input port " ++ sh start ++ " with no " ++ t.code ++ " locks for capability " ++ sh cap ++ "."
  | .multiple =>
    "Found a path passing through " ++ sh start ++ " with multiple " ++ t.code ++ " locks for capability " ++ sh cap ++ "."
  | .different =>
    "Paths passing through " ++ sh start ++ " have different " ++ t.code ++ " locks for capability " ++ sh cap ++ "."

/-- the three candidate texts of a `PathLockError` with these fields -/
def pathLockMessages {N : Type} (sh : N → String) (start : N) (t : LockType) (cap : N) : List String :=
  LockSite.all.map (fun site => pathLockMessage sh site start t cap)

/-- `str(exc)`; `site` matters for `pathLock` only -/
def LoadError.messageAt {N : Type} (sh : N → String) (site : LockSite) : LoadError N → String
  | .dupElem old new => "Functional unit " ++ sh new ++ " previously added as " ++ sh old
  | .badWidth unit width => "Functional unit " ++ sh unit ++ " has a bad width " ++ toString width ++ "."
  | .badEdge edge => "Edge " ++ pyStrList (edge.map sh) ++ " doesn't connect exactly 2 functional units."
  | .undefElem elem => "Undefined functional unit " ++ sh elem
  | .cyclic => ""
  | .deadInput port => "No feasible path found from input port " ++ sh port ++ " to any output ports"
  | .emptyProc => "No input ports found"
  | .pathLock start t cap => pathLockMessage sh site start t cap
  | .blockedCap cap port => "Capability " ++ sh cap ++ " blocked from " ++ "port " ++ sh port

/-- `str(exc)` for every class whose text is a function of the fields (`pathLock`: the `_chk_in_lock` text) -/
def LoadError.message {N : Type} (sh : N → String) (e : LoadError N) : String := e.messageAt sh .noLock

/-- all texts an exception with these fields can carry -/
def LoadError.messages {N : Type} (sh : N → String) : LoadError N → List String
  | .pathLock start t cap => pathLockMessages sh start t cap
  | e => [e.message sh]

/-- the fields as the message displays them (`str(field)`; the elements of a bad edge one by one) -/
def LoadError.fieldStrs {N : Type} (sh : N → String) : LoadError N → List String
  | .dupElem old new => [sh old, sh new]
  | .badWidth unit width => [sh unit, toString width]
  | .badEdge edge => edge.map sh
  | .undefElem elem => [sh elem]
  | .cyclic => []
  | .deadInput port => [sh port]
  | .emptyProc => []
  | .pathLock start t cap => [sh start, t.code, sh cap]
  | .blockedCap cap port => [sh cap, sh port]

/-- inside the modelled domain of `repr`: every character of every bad-edge element is ASCII -/
def LoadError.msgModelled {N : Type} (sh : N → String) : LoadError N → Bool
  | .badEdge edge => edge.all (fun x => (sh x).toList.all (fun c => decide (c.toNat < 128)))
  | _ => true

end Loader
end ProcSim
