/-!
# Basic containers shared by all models (core Lean only)

* `AMap K V` — association list used as a finite map (`dict` in the Python code).
* `isort` — stable insertion sort (Python's `sorted` is stable; every use in the code sorts by a key).
-/
namespace ProcSim

/-- Association list used as a finite map. `set` never creates duplicate keys. -/
def AMap (K V : Type) := List (K × V)

instance {K V : Type} : Inhabited (AMap K V) := ⟨([] : List (K × V))⟩
instance {K V : Type} [Repr K] [Repr V] : Repr (AMap K V) := inferInstanceAs (Repr (List (K × V)))
instance {K V : Type} [DecidableEq K] [DecidableEq V] : DecidableEq (AMap K V) := inferInstanceAs (DecidableEq (List (K × V)))

namespace AMap
variable {K V : Type} [DecidableEq K]

def get? : AMap K V → K → Option V
  | [], _ => none
  | (k', v) :: m, k => if k' = k then some v else get? m k

def set : AMap K V → K → V → AMap K V
  | [], k, v => [(k, v)]
  | (k', v') :: m, k, v => if k' = k then (k, v) :: m else (k', v') :: set m k v

def erase : AMap K V → K → AMap K V
  | [], _ => []
  | (k', v') :: m, k => if k' = k then m else (k', v') :: erase m k

def keys (m : AMap K V) : List K := List.map (·.1) m

def contains (m : AMap K V) (k : K) : Bool := (m.get? k).isSome

@[simp] theorem get?_nil (k : K) : AMap.get? ([] : List (K × V)) k = none := rfl

@[simp] theorem get?_set_eq (m : AMap K V) (k : K) (v : V) : (m.set k v).get? k = some v := by
  induction m with
  | nil => simp [set, get?]
  | cons p m ih =>
    obtain ⟨k', v'⟩ := p
    by_cases h : k' = k <;> simp [set, get?, h, ih]

theorem get?_set_ne (m : AMap K V) {k k' : K} (v : V) (h : k ≠ k') : (m.set k v).get? k' = m.get? k' := by
  induction m with
  | nil => simp [set, get?, h]
  | cons p m ih =>
    obtain ⟨k₀, v₀⟩ := p
    by_cases h0 : k₀ = k
    · subst h0; simp [set, get?, h]
    · by_cases h1 : k₀ = k'
      · subst h1; simp [set, get?, h0]
      · simp [set, get?, h0, h1, ih]

end AMap

/-- Insert `x` after every element `y` with `le y x` … i.e. before the first `y` with `¬ le y x`.
Together with `isort` (a right fold) this is a *stable* sort, as Python's `sorted`. -/
def insertBy {α : Type} (le : α → α → Bool) (x : α) : List α → List α
  | [] => [x]
  | y :: ys => if le x y then x :: y :: ys else y :: insertBy le x ys

/-- Stable insertion sort w.r.t. a Boolean `≤`. (Same recursion as Mathlib's `List.insertionSort`.) -/
def isort {α : Type} (le : α → α → Bool) : List α → List α
  | [] => []
  | x :: xs => insertBy le x (isort le xs)

/-- Sort by a natural-number key (stable). -/
def sortByKey {α : Type} (key : α → Nat) (l : List α) : List α := isort (fun a b => key a ≤ key b) l

/-- Remove duplicates keeping the first occurrence (like iterating a list into an insertion-ordered `dict`). -/
def dedup {α : Type} [DecidableEq α] : List α → List α
  | [] => []
  | x :: xs => x :: (dedup xs).filter (· ≠ x)

end ProcSim
