import ProcSim.Model.Basic
import ProcSim.Model.Types
import ProcSim.Model.ICase
import ProcSim.Model.Program
/-!
# `processor_utils.load_isa`, `get_abilities`, `program_utils.compile_program` (core Lean only)

```python
def load_isa(raw_isa, capabilities):
    return _create_isa(raw_isa, SelfIndexSet[ICaseString].create(capabilities))
def _create_isa(isa_spec, cap_registry):
    instr_registry = SelfIndexSet[ICaseString]()
    return {instr.upper(): _add_instr(instr_registry, cap_registry, instr, cap) for instr, cap in isa_spec}
def _add_instr(instr_registry, cap_registry, instr, cap):
    _chk_instr(instr, instr_registry)            # DupElemError(old spelling, new spelling), else register
    return _get_cap_name(cap, cap_registry)      # UndefElemError(cap) or the registry's spelling
def get_abilities(processor):
    return frozenset(ICaseString(c) for port in chain(in_out_ports, in_ports) for c in port.capabilities)
def compile_program(prog, isa):
    return [HwInstruction(p.sources, p.destination, _get_cap(isa, p)) for p in prog]   # isa[p.name.upper()]
```

Modelling decisions
* A registry (`SelfIndexSet`/dict keyed by `ICaseString`) is an `AMap` from the folded text to a spelling.
  `SelfIndexSet.add` *overwrites* (`dict[k] = v`), so `create(capabilities)` keeps the **last** spelling of
  case-insensitively equal capabilities; a `frozenset` keeps the **first** inserted of equal elements, so
  `get_abilities` keeps the first spelling in `chain(in_out_ports, in_ports)` order.
* Per ISA entry the mnemonic is checked (and registered) *before* its capability is looked up, so a colliding
  mnemonic with an unsupported capability reports `DupElemError`. Entries are processed in order and the first
  error wins.
* The result dict is built with `AMap.set` on the key `upper(instr)` exactly as the comprehension does (a repeated
  key would overwrite in place); for ASCII text `upper a = upper b ↔ lower a = lower b`, so a repeated key always
  raises first (Spec: `C15`).
* `HwInstruction(...)` runs the `_sorted_uniq` converter on the sources again; on the sources of a
  `ProgInstruction` (already sorted and duplicate-free) that is the identity.
* ASCII folding only (see `ICase`).
-/
namespace ProcSim
namespace Isa

open ICase (lower upper)
open Program (ProgInstr sortedUniq)

abbrev Str := List Char

/-- registry: folded text ↦ spelling -/
abbrev Registry := AMap Str Str

/-- errors of `load_isa` -/
inductive IsaError
  | dupInstr (old new : Str)      -- `DupElemError(old_element, new_element)`
  | undefCap (cap : Str)          -- `UndefElemError(element)`
deriving DecidableEq, Repr, Inhabited

def IsaError.message : IsaError → String
  | .dupInstr old new => "Instruction " ++ String.ofList new ++ " previously added as " ++ String.ofList old
  | .undefCap cap => "Unsupported capability " ++ String.ofList cap

/-- `SelfIndexSet[ICaseString].create(capabilities)`: later spellings overwrite -/
def capRegistry (caps : List Str) : Registry :=
  caps.foldl (fun m c => AMap.set m (lower c) c) ([] : List (Str × Str))

/-- the comprehension of `_create_isa`, threading the instruction registry and the dict built so far -/
def createIsa (capReg : Registry) : Registry → AMap Str Str → List (Str × Str) → Except IsaError (AMap Str Str)
  | _, acc, [] => .ok acc
  | instrReg, acc, (instr, cap) :: rest =>
    match AMap.get? instrReg (lower instr) with
    | some old => .error (.dupInstr old instr)
    | none =>
      match AMap.get? capReg (lower cap) with
      | none => .error (.undefCap cap)
      | some std => createIsa capReg (AMap.set instrReg (lower instr) instr) (AMap.set acc (upper instr) std) rest

/-- `load_isa(raw_isa, capabilities)`; the result lists the dict's items in insertion order -/
def loadIsa (rawIsa : List (Str × Str)) (caps : List Str) : Except IsaError (AMap Str Str) :=
  createIsa (capRegistry caps) [] [] rawIsa

/-- building a `frozenset` of `ICaseString`: the first of case-insensitively equal elements stays -/
def icaseSet : List Str → List Str
  | [] => []
  | c :: cs => c :: (icaseSet cs).filter (fun d => lower d != lower c)

/-- `get_abilities` from the capability tuples of `chain(in_out_ports, in_ports)`; a set — order is immaterial -/
def getAbilities (portCaps : List (List Str)) : List Str := icaseSet portCaps.flatten

/-- `get_abilities(processor)` -/
def getAbilitiesProc (p : Proc Str) : List Str := getAbilities (p.inBoundary.map (·.caps))

/-- `UndefElemError("Unsupported instruction $elem at line <line>", name)` -/
structure CompileError where
  name : Str
  line : Nat
deriving DecidableEq, Repr, Inhabited

def CompileError.message (e : CompileError) : String :=
  "Unsupported instruction " ++ String.ofList e.name ++ " at line " ++ toString e.line

/-- `compile_program(prog, isa)` -/
def compileProgram (isa : AMap Str Str) : List ProgInstr → Except CompileError (List (Instr Str))
  | [] => .ok []
  | p :: ps =>
    match AMap.get? isa (upper p.name) with
    | none => .error { name := p.name, line := p.line }
    | some cap =>
      match compileProgram isa ps with
      | .error e => .error e
      | .ok rest => .ok ({ srcs := sortedUniq p.srcs, dst := p.dst, cap := cap } :: rest)

end Isa
end ProcSim
