import ProcSim.Model.Basic
import ProcSim.Model.ICase
/-!
# `program_utils.read_program` over lines given as `List (List Char)` (core Lean only)

```python
def read_program(prog_file):
    prog = enumerate(map(str.strip, prog_file), 1)
    reg_registry = IndexedSet[_OperandInfo](Self.name())          # keyed by ICaseString(operand)
    return [_create_instr(line_no, line, reg_registry) for line_no, line in prog if line]
def _create_instr(line_num, line_txt, reg_registry):
    src_line_info = _get_line_parts(line_num, line_txt)             # re.split("\\s+", line_txt, 1)
    dst, *sources = _get_operands(src_line_info, line_num, reg_registry)   # re.split(r"\s*,\s*", operands)
    return ProgInstruction(sources, dst, src_line_info.instruction, line_num)  # sources: sorted(frozenset(..))
```

**Whitespace.** Measured on CPython 3.12 (`/venv`): `str.strip()`, `str.isspace()` and `\s` of `re` on `str`
patterns agree on ASCII, the set being `{\t \n \x0b \x0c \r \x1c \x1d \x1e \x1f ' '}` (code points 9–13, 28–31,
32). `isWs` is that set. Beyond ASCII both functions also treat U+0085, U+00A0, U+1680, U+2000–200A, U+2028/9,
U+202F, U+205F, U+3000 as blanks; non-ASCII text is outside the model and the generators.

**`re.split` semantics that matter.**
* `split("\\s+", line, 1)`: first maximal blank run; no run → the whole line is the only part (→ "No operands").
  The model is literal for *any* line (a leading run gives an empty mnemonic, a trailing run an empty operand
  text), although `read_program` only ever passes stripped, non-empty lines.
* `split(r"\s*,\s*", text)`: leftmost-longest, non-overlapping matches, each containing exactly one comma with
  all adjacent blanks. Hence: split at commas; every piece but the last loses its trailing blanks, every piece
  but the first its leading blanks; with no comma the text is returned untouched. Inner blanks of an operand stay.

Errors are raised at the first offending operand of the first offending line, left to right; nothing of the
registry survives an error. The register registry maps the folded operand text to the first spelling seen
(`get_from_set`); the line stored with it is used for a log message only and is not modelled.
-/
namespace ProcSim
namespace Program

open ICase (lower strLe)

/-- ASCII white space as `str.strip` / `re`'s `\s` see it -/
def isWs (c : Char) : Bool :=
  let n := c.toNat
  (9 ≤ n && n ≤ 13) || (28 ≤ n && n ≤ 32)

/-- `s.lstrip()` -/
def lstrip : List Char → List Char
  | [] => []
  | c :: cs => if isWs c then lstrip cs else c :: cs

/-- `s.rstrip()` -/
def rstrip : List Char → List Char
  | [] => []
  | c :: cs =>
    match rstrip cs with
    | [] => if isWs c then [] else [c]
    | r => c :: r

/-- `s.strip()` -/
def strip (s : List Char) : List Char := rstrip (lstrip s)

/-- longest prefix without a blank, and the remainder -/
def spanNonWs : List Char → List Char × List Char
  | [] => ([], [])
  | c :: cs => if isWs c then ([], c :: cs) else let (h, r) := spanNonWs cs; (c :: h, r)

/-- `re.split("\\s+", line, 1)`: `(first part, some second part)` or `(line, none)` when there is no blank -/
def splitOnce (line : List Char) : List Char × Option (List Char) :=
  match spanNonWs line with
  | (_, []) => (line, none)
  | (h, r) => (h, some (lstrip r))

/-- split at commas: `(first piece, remaining pieces)` -/
def splitOnComma : List Char → List Char × List (List Char)
  | [] => ([], [])
  | c :: cs =>
    let (p, ps) := splitOnComma cs
    if c == ',' then ([], p :: ps) else (c :: p, ps)

/-- pieces after the first comma: leading blanks go with the preceding separator, trailing blanks with the next -/
def trimRest : List (List Char) → List (List Char)
  | [] => []
  | [last] => [lstrip last]
  | q :: q' :: qs => strip q :: trimRest (q' :: qs)

/-- `re.split(r"\s*,\s*", text)` as `(first operand, other operands)` — never empty -/
def splitOperands (text : List Char) : List Char × List (List Char) :=
  match splitOnComma text with
  | (p, []) => (p, [])
  | (p, q :: qs) => (rstrip p, trimRest (q :: qs))

/-- `ProgInstruction(sources, destination, name, line)` -/
structure ProgInstr where
  srcs : List (List Char)
  dst : List Char
  name : List Char
  line : Nat
deriving DecidableEq, Repr, Inhabited

/-- `CodeError(msg, line, instr)`; the two message templates are the two constructors -/
inductive ParseError
  | noOperands (line : Nat) (instr : List Char)
  | emptyOperand (line : Nat) (instr : List Char) (pos : Nat)
deriving DecidableEq, Repr, Inhabited

def ParseError.line : ParseError → Nat
  | .noOperands l _ => l
  | .emptyOperand l _ _ => l

def ParseError.instr : ParseError → List Char
  | .noOperands _ i => i
  | .emptyOperand _ i _ => i

/-- `str(err)` -/
def ParseError.message : ParseError → String
  | .noOperands l i => "No operands provided for instruction " ++ String.ofList i ++ " at line " ++ toString l
  | .emptyOperand l i k =>
    "Operand " ++ toString k ++ " empty for instruction " ++ String.ofList i ++ " at line " ++ toString l

/-- register registry: folded text ↦ first spelling -/
abbrev Registry := AMap (List Char) (List Char)

/-- `get_from_set(reg_registry, _OperandInfo(ICaseString(op), line)).name.raw_str` -/
def stdReg (reg : Registry) (op : List Char) : List Char × Registry :=
  match AMap.get? reg (lower op) with
  | some first => (first, reg)
  | none => (op, AMap.set reg (lower op) op)

/-- the loop of `_get_operands` from operand number `k` on -/
def getOperands (line : Nat) (instr : List Char) :
    Registry → Nat → List (List Char) → Except ParseError (List (List Char) × Registry)
  | reg, _, [] => .ok ([], reg)
  | reg, k, op :: ops =>
    if op.isEmpty then .error (.emptyOperand line instr k)
    else
      let (r, reg') := stdReg reg op
      match getOperands line instr reg' (k + 1) ops with
      | .error e => .error e
      | .ok (rs, reg'') => .ok (r :: rs, reg'')

/-- `_sorted_uniq`: `sorted(frozenset(elems))` on `str` elements -/
def sortedUniq (l : List (List Char)) : List (List Char) := isort strLe (dedup l)

/-- `_create_instr` on a stripped, non-empty line -/
def createInstr (line : Nat) (txt : List Char) (reg : Registry) : Except ParseError (ProgInstr × Registry) :=
  match splitOnce txt with
  | (instr, none) => .error (.noOperands line instr)
  | (instr, some operands) =>
    -- `dst, *sources = _get_operands(...)`: `re.split` returns at least one piece, so the unpacking cannot fail;
    -- the loop `getOperands … 1 (first :: others)` is unrolled once to make that evident
    let (first, others) := splitOperands operands
    if first.isEmpty then .error (.emptyOperand line instr 1)
    else
      let (dst, reg1) := stdReg reg first
      match getOperands line instr reg1 2 others with
      | .error e => .error e
      | .ok (sources, reg') => .ok ({ srcs := sortedUniq sources, dst := dst, name := instr, line := line }, reg')

/-- the list comprehension of `read_program`, `n` = number of the next physical line -/
def readLines : Registry → Nat → List (List Char) → Except ParseError (List ProgInstr)
  | _, _, [] => .ok []
  | reg, n, l :: ls =>
    let s := strip l
    if s.isEmpty then readLines reg (n + 1) ls
    else
      match createInstr n s reg with
      | .error e => .error e
      | .ok (ins, reg') =>
        match readLines reg' (n + 1) ls with
        | .error e => .error e
        | .ok rest => .ok (ins :: rest)

/-- `read_program(prog_file)` -/
def readProgram (lines : List (List Char)) : Except ParseError (List ProgInstr) := readLines [] 1 lines

end Program
end ProcSim
