import ProcSim.Model.Loader
import ProcSim.Model.Isa
import ProcSim.Model.Pipeline
/-!
# Order-parametrised variants of the loader and of `load_isa` (core Lean only)

`Model/Loader.lean` and `Model/Isa.lean` fix one iteration order wherever the Python code iterates over a
`set`/`frozenset` (whose order depends on `PYTHONHASHSEED` for `str` elements).  This file follows those loops
*literally*, one element at a time, with the iteration order as a parameter.  Property C20 (`Props/C20.lean`)
proves that the accepted result and the error class do not depend on the parameter.

```python
def chk_terminals(processor, orig_port_info):
    while new_out_ports := frozenset(get_out_ports(processor)).difference(orig_port_info.out_ports):
        for out_port in new_out_ports:                       # <- frozenset order
            _rm_dead_end(processor, out_port, orig_port_info.in_ports)
def _rm_dead_end(processor, dead_end, in_ports):
    if dead_end in in_ports:
        raise DeadInputError(..., dead_end)
    processor.remove_node(dead_end)
def load_isa(raw_isa, capabilities):                         # capabilities = get_abilities(...): a frozenset
    return _create_isa(raw_isa, SelfIndexSet[ICaseString].create(capabilities))   # <- frozenset order
```

* `rmDeadEnds in0 ps g` — the `for out_port in new_out_ports` loop over the list `ps` (the set in iteration order):
  the first original input port met raises `DeadInputError` naming it (the nodes removed before are lost with the
  discarded graph), every other element is removed on its own (`remove_node`).
* `chkTerminalsP ord in0 out0 fuel g` — the `while` loop; in each round the set `newOut` (computed once per round,
  as the walrus expression does) is iterated in the order `ord newOut`.  `ord` stands for "the order in which
  CPython iterates this frozenset under the current hash seed"; any function may be passed, the theorems assume
  only that `ord l` is a permutation of `l`.
* `prepareP`/`loadP` — `Loader.prepare`/`Loader.load` with `chkTerminals` replaced by `chkTerminalsP ord`; every other
  stage is the function of `Model/Loader.lean` itself.
* `loadIsaP ord isa caps` — `load_isa` where `SelfIndexSet.create` receives the capabilities in the order `ord caps`.
* `frontP`/`runP` — `Pipeline.front`/`Pipeline.run` with both replacements.

No function here (or in any other model file) has state: all are pure total functions of their arguments.
-/
namespace ProcSim
namespace LoaderOrder

open Loader

section
variable {N : Type} [DecidableEq N]

/-- the `for out_port in new_out_ports: _rm_dead_end(...)` loop, one dead end at a time -/
def rmDeadEnds (in0 : List N) : List N → Graph N → Except (LoadError N) (Graph N)
  | [], g => .ok g
  | p :: ps, g => if p ∈ in0 then .error (.deadInput p) else rmDeadEnds in0 ps (g.removeNodes [p])

/-- `chk_terminals`: one `while` iteration per unit of fuel; the round's dead ends are visited in the order `ord newOut` -/
def chkTerminalsP (ord : List N → List N) (in0 out0 : List N) : Nat → Graph N → Except (LoadError N) (Graph N)
  | 0, g => .ok g
  | fuel + 1, g =>
    let newOut := g.outPorts.filter (fun u => !decide (u ∈ out0))
    if newOut.isEmpty then .ok g else
    match rmDeadEnds in0 (ord newOut) g with
    | .error e => .error e
    | .ok g' => chkTerminalsP ord in0 out0 fuel g'

/-- `Loader.prepare` with the order-parametrised dead-end removal -/
def prepareP (ord : List N → List N) (g : Graph N) : Except (LoadError N) (Graph N) :=
  if !isAcyclic g then .error .cyclic else
  let in0 := g.inPorts
  let out0 := g.outPorts
  let g1 := rmEmpty (cleanStruct g)
  match chkTerminalsP ord in0 out0 (g1.nodes.length + 1) g1 with
  | .error e => .error e
  | .ok g2 =>
    if !(in0.any (fun p => decide (p ∈ g2.names))) then .error .emptyProc else
    match chkCaps g2 with
    | .error e => .error e
    | .ok _ => .ok g2

/-- `Loader.load` with the order-parametrised dead-end removal -/
def loadP [LT N] [DecidableRel (α := N) (· < ·)] (ord : List N → List N) (fold : N → N) (d : Desc N) :
    Except (LoadError N) (Proc N) :=
  match createGraph fold d with
  | .error e => .error e
  | .ok gr =>
    match prepareP ord gr.1 with
    | .error e => .error e
    | .ok g2 =>
      match makeProcessor fold gr.2 g2 with
      | some p => .ok p
      | none => .error .cyclic

end

/-- `load_isa(raw_isa, capabilities)` where the frozenset `capabilities` is iterated in the order `ord caps` -/
def loadIsaP (ord : List Isa.Str → List Isa.Str) (rawIsa : List (Isa.Str × Isa.Str)) (caps : List Isa.Str) :
    Except Isa.IsaError (AMap Isa.Str Isa.Str) :=
  Isa.loadIsa rawIsa (ord caps)

open Pipeline in
/-- `Pipeline.front` with both set iterations parametrised -/
def frontP (ordT ordC : List Str → List Str) (desc : Loader.Desc Str) (rawIsa : List (Str × Str)) (lines : List Str) :
    Except Failure Stages :=
  match loadP ordT ICase.lower desc with
  | .error e => .error (.load e)
  | .ok p =>
    match loadIsaP ordC rawIsa (Isa.getAbilitiesProc p) with
    | .error e => .error (.isa e)
    | .ok isa =>
      match Program.readProgram lines with
      | .error e => .error (.parse e)
      | .ok parsed =>
        match Isa.compileProgram isa parsed with
        | .error e => .error (.compile e)
        | .ok prog => .ok { proc := p, isa := isa, parsed := parsed, prog := prog }

open Pipeline in
/-- `Pipeline.run` with both set iterations parametrised -/
def runP (ordT ordC : List Str → List Str) (desc : Loader.Desc Str) (rawIsa : List (Str × Str)) (lines : List Str) :
    Except Failure (Stages × Outcome Str) :=
  match frontP ordT ordC desc rawIsa lines with
  | .error e => .error e
  | .ok st => .ok (st, simulate st.proc st.prog)

end LoaderOrder
end ProcSim
