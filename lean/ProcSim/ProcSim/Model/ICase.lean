/-!
# `str_utils.ICaseString` over `List Char` (core Lean only)

```python
@attr.frozen(auto_attribs=False, order=True)
class ICaseString:
    def __contains__(self, item: str): return lower(item) in lower(self.raw_str)
    def __str__(self): return self.raw_str
    raw_str: str = attr.field(eq=str.lower, order=str.lower)
```
attrs generates `__eq__`/`__ne__` on `(lower(raw_str),)`, `__lt__/__le__/__gt__/__ge__` on the same 1-tuple and
(frozen + eq) a `__hash__` of that tuple.

**Scope.** Case folding is ASCII: `Char.toLower` / `Char.toUpper` of core Lean change exactly `A–Z` / `a–z`
(by ±32) and nothing else, which is what `str.lower` / `str.upper` do on ASCII text. Non-ASCII text
(where Python applies the Unicode tables, e.g. `'İ'.lower()` has length 2) is outside this model and
outside every generator.

Python compares `str` by code point, lexicographically; `strLt` is that order on `List Char`.
-/
namespace ProcSim
namespace ICase

/-- `str.lower` on ASCII text -/
def lower (s : List Char) : List Char := s.map Char.toLower

/-- `str.upper` on ASCII text -/
def upper (s : List Char) : List Char := s.map Char.toUpper

/-- Python `a < b` on `str`: lexicographic by code point; a proper prefix is smaller. -/
def strLt : List Char → List Char → Bool
  | _, [] => false
  | [], _ :: _ => true
  | a :: as, b :: bs => a.toNat < b.toNat || (a == b && strLt as bs)

/-- Python `a <= b` on `str` -/
def strLe (a b : List Char) : Bool := !strLt b a

/-- `s.startswith(p)` -/
def isPrefix : List Char → List Char → Bool
  | [], _ => true
  | _ :: _, [] => false
  | p :: ps, c :: cs => p == c && isPrefix ps cs

/-- Python `p in s` on `str` (substring test); the empty string is a substring of everything. -/
def isInfix (p : List Char) : List Char → Bool
  | [] => p.isEmpty
  | c :: cs => isPrefix p (c :: cs) || isInfix p cs

/-- `ICaseString(raw_str)` -/
structure ICaseString where
  raw : List Char
deriving Repr, Inhabited, DecidableEq

/-- the attrs comparison key `str.lower(raw_str)` -/
def ICaseString.key (a : ICaseString) : List Char := lower a.raw

/-- `a == b` -/
def eq (a b : ICaseString) : Bool := a.key == b.key
/-- `a != b` -/
def ne (a b : ICaseString) : Bool := !eq a b
/-- `a < b` -/
def lt (a b : ICaseString) : Bool := strLt a.key b.key
/-- `a <= b` (tuple comparison of the keys) -/
def le (a b : ICaseString) : Bool := strLe a.key b.key
/-- `a > b` -/
def gt (a b : ICaseString) : Bool := strLt b.key a.key
/-- `a >= b` -/
def ge (a b : ICaseString) : Bool := strLe b.key a.key
/-- `item in a` (`item` is a plain `str`) -/
def contains (a : ICaseString) (item : List Char) : Bool := isInfix (lower item) a.key
/-- `str(a)` -/
def str (a : ICaseString) : List Char := a.raw
/-- `hash(a)`: CPython's tuple/str hash is not modelled; it is an *arbitrary* function `h` of the folded text. -/
def hash (h : List Char → Nat) (a : ICaseString) : Nat := h a.key

end ICase
end ProcSim
