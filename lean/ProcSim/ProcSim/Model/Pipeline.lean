import ProcSim.Model.Loader
import ProcSim.Model.Isa
import ProcSim.Model.Program
import ProcSim.Model.Sim
import ProcSim.Model.Cli
/-!
# The whole pipeline as one function (`processor_sim._get_sim_res` / the command line)

`hw_loading.read_processor` → `program_utils.read_program` → `compile_program` → `sim_services.simulate` →
`processor_sim._get_sim_rows` / `ResultWriter`.  Names are `List Char` here (the text-level models work on
characters); `List Char`'s `<` is the lexicographic code-point order, i.e. Python's `str` order.

Composition is *definitional*: the table printed by the model CLI is `Cli.render` applied to the diagram
`simulate` returns for the loaded processor and the compiled program, so every theorem about `simulate`'s diagrams
(C01–C08) transfers to the printed table through `C16_render_cells`.
-/
namespace ProcSim
namespace Pipeline

abbrev Str := List Char

/-- where the pipeline stopped -/
inductive Failure
  | load (e : Loader.LoadError Str)
  | isa (e : Isa.IsaError)
  | parse (e : Program.ParseError)
  | compile (e : Isa.CompileError)
deriving Repr, Inhabited

structure Stages where
  proc : Proc Str
  isa : AMap Str Str
  parsed : List Program.ProgInstr
  prog : List (Instr Str)
deriving Inhabited

/-- everything up to and including `compile_program` (the loader and ISA come first: `read_processor` runs before
`read_program`) -/
def front (desc : Loader.Desc Str) (rawIsa : List (Str × Str)) (lines : List Str) : Except Failure Stages :=
  match Loader.load ICase.lower desc with
  | .error e => .error (.load e)
  | .ok p =>
    match Isa.loadIsa rawIsa (Isa.getAbilitiesProc p) with
    | .error e => .error (.isa e)
    | .ok isa =>
      match Program.readProgram lines with
      | .error e => .error (.parse e)
      | .ok parsed =>
        match Isa.compileProgram isa parsed with
        | .error e => .error (.compile e)
        | .ok prog => .ok { proc := p, isa := isa, parsed := parsed, prog := prog }

/-- `simulate(compile(parse text), HwSpec(load desc))` -/
def run (desc : Loader.Desc Str) (rawIsa : List (Str × Str)) (lines : List Str) : Except Failure (Stages × Outcome Str) :=
  match front desc rawIsa lines with
  | .error e => .error e
  | .ok st => .ok (st, simulate st.proc st.prog)

/-- what the command line prints when the simulation completes (`none`: it does not complete / a stage fails) -/
def cliTable (desc : Loader.Desc Str) (rawIsa : List (Str × Str)) (lines : List Str) : Option (List (List String)) :=
  match run desc rawIsa lines with
  | .ok (st, .done tbl) =>
    (match Cli.render String.ofList tbl st.parsed.length with
     | .ok t => some t
     | .error _ => none)
  | _ => none

end Pipeline
end ProcSim
