import ProcSim.Model.Types
import ProcSim.Model.Queue
/-!
# Executable model of `sim_services.simulate`

One cycle (`_run_cycle`) = copy the previous record → flush non-`D` instructions from the output boundary →
fill every destination unit (output ports, then internal units, in the stored order) from its predecessors →
issue new instructions in program order → label every hosted instruction (`S` / `U` / `D`) against the access
queues *as of the start of the cycle* → apply the deferred dequeues → stall test (record equal to the previous
one as per-unit multisets) → count retirements.

Every loop of the Python code is a structural recursion here. Python exceptions other than `StallError` are
explicit `Fault` results (never a default value); the fuel of `simulate` is the bound claimed by property C08
and running out of it is `Fault.fuel`.

Modelling notes (checked by the correspondence run, see DESIGN.md §1.3):
* deletion of moved instructions from their hosts by descending list position (`_clr_src_units`) is modelled
  as removing the moved program index from the host's list (equal whenever a unit never hosts an index twice);
* `reqs_to_clear` is a dict register → list of owners, applied register by register; the model applies the same
  dequeues in encounter order (dequeues on different registers commute, per-register order is identical);
* `prog[i]?` = `none` stands for the `IndexError` of `program[i]`; it is a `Fault` where the code would raise and
  "not a candidate" inside `_accepts_cap`/`needs_mem`, where only hosted (hence valid) indices arrive.
-/
namespace ProcSim

variable {N : Type} [DecidableEq N]

/-- one cycle record: unit name ↦ hosted instructions (`BagValDict[str, InstrState]`) -/
abbrev Util (N : Type) := AMap N (List HI)

namespace Util
def get (u : Util N) (n : N) : List HI := (AMap.get? u n).getD []
def set (u : Util N) (n : N) (l : List HI) : Util N := AMap.set u n l
/-- `BagValDict.items()`: entries with a non-empty list -/
def items (u : Util N) : Util N := List.filter (fun p => !p.2.isEmpty) u
end Util

/-- `sorted(list of InstrState)` -/
def sortHI (l : List HI) : List HI := isort HI.le l

/-- `BagValDict.__eq__(self, other)`, literally: same number of non-empty keys and, for every non-empty entry of
`other`, the sorted lists agree. -/
def Util.beq (self other : Util N) : Bool :=
  (Util.items self).length == (Util.items other).length &&
  (Util.items other).all (fun p => sortHI p.2 == sortHI (Util.get self p.1))

/-- register ↦ access queue -/
abbrev Queues (N : Type) := AMap N Queue

def Queues.get (qs : Queues N) (r : N) : Queue := (AMap.get? qs r).getD []
def Queues.set (qs : Queues N) (r : N) (q : Queue) : Queues N := AMap.set qs r q

/-! ### access plan (`_build_acc_plan`) -/

def addReads (qs : Queues N) (i : Nat) : List N → Queues N
  | [] => qs
  | r :: rs => addReads (qs.set r ((qs.get r).push false i)) i rs

/-- `_add_access`: reads of all sources, then the write of the destination -/
def addInstr (qs : Queues N) (i : Nat) (ins : Instr N) : Queues N :=
  let qs' := addReads qs i ins.srcs
  qs'.set ins.dst ((qs'.get ins.dst).push true i)

def buildPlanFrom (qs : Queues N) (i : Nat) : List (Instr N) → Queues N
  | [] => qs
  | ins :: rest => buildPlanFrom (addInstr qs i ins) (i + 1) rest

def buildPlan (prog : List (Instr N)) : Queues N := buildPlanFrom [] 0 prog

/-! ### flush and fill (`_mov_flights`) -/

/-- capability of instruction `i` is among `caps` -/
def capIn (prog : List (Instr N)) (i : Nat) (caps : List N) : Bool :=
  match prog[i]? with
  | some ins => decide (ins.cap ∈ caps)
  | none => false

/-- `OutSink`: every non-`D` instruction leaves the output boundary -/
def flushOutputs (outs : List N) (u : Util N) : Util N :=
  outs.foldl (fun u n => u.set n ((u.get n).filter (fun h => h.st == .D))) u

/-- `IInstrSink._valid_candid` for a unit sink -/
def validCand (prog : List (Instr N)) (d : UnitM N) (h : HI) : Bool :=
  h.st != .D && capIn prog h.idx d.caps

def candsOf (prog : List (Instr N)) (d : UnitM N) (u : Util N) (host : N) : List (N × Nat) :=
  ((u.get host).filter (validCand prog d)).map (fun h => (host, h.idx))

/-- `_get_candidates` + `_pick_guests`: candidates of all predecessors, oldest (smallest program index) first -/
def candidates (prog : List (Instr N)) (d : FuncU N) (u : Util N) : List (N × Nat) :=
  sortByKey (fun c => c.2) (d.preds.flatMap (candsOf prog d.model u))

/-- The loop of `UnitSink._fill` / `_mov_candidate`: stop when the unit is full or candidates are exhausted; a
candidate needing the busy memory port is skipped. State: destination content, memory flag
(`mem_busy or mov_res.mem_used`), moved candidates. -/
def fillLoop (prog : List (Instr N)) (d : UnitM N) :
    List (N × Nat) → List HI → Bool → List (N × Nat) → List HI × Bool × List (N × Nat)
  | [], cur, mem, moved => (cur, mem, moved)
  | c :: cs, cur, mem, moved =>
    if cur.length = d.width then (cur, mem, moved)
    else
      let ma := capIn prog c.2 d.acl
      if mem && ma then fillLoop prog d cs cur mem moved
      else fillLoop prog d cs (cur ++ [⟨c.2, .U⟩]) (mem || ma) (moved ++ [c])

/-- `_clr_src_units` -/
def removeMoved (u : Util N) : List (N × Nat) → Util N
  | [] => u
  | (h, i) :: ms => removeMoved (u.set h ((u.get h).filter (fun x => x.idx != i))) ms

/-- `_fill_unit` for a `UnitSink` -/
def fillUnit (prog : List (Instr N)) (d : FuncU N) (u : Util N) (mem : Bool) : Util N × Bool :=
  let r := fillLoop prog d.model (candidates prog d u) (u.get d.model.name) mem []
  (removeMoved (u.set d.model.name r.1) r.2.2, r.2.1)

def fillDests (prog : List (Instr N)) : List (FuncU N) → Util N → Bool → Util N × Bool
  | [], u, mem => (u, mem)
  | d :: ds, u, mem =>
    let r := fillUnit prog d u mem
    fillDests prog ds r.1 r.2

/-- `_mov_flights`: flush the output boundary, then fill the destinations in the stored order -/
def moveFlights (p : Proc N) (prog : List (Instr N)) (u : Util N) : Util N × Bool :=
  fillDests prog p.dests (flushOutputs p.outBoundary u) false

/-! ### issue (`_fill_inputs`) -/

/-- `_accept_instr` / `_accept_in_unit` over the ports supporting `cap`, in the given order -/
def tryPorts (cap : N) (i : Nat) : List (UnitM N) → Util N → Bool → Option (Util N × Bool)
  | [], _, _ => none
  | port :: ps, u, mem =>
    if cap ∈ port.caps then
      let ma := decide (cap ∈ port.acl)
      if (mem && ma) || (u.get port.name).length = port.width then tryPorts cap i ps u mem
      else some (u.set port.name (u.get port.name ++ [⟨i, .U⟩]), mem || ma)
    else tryPorts cap i ps u mem

/-- issue in program order until the first instruction that no port takes -/
def issueLoop (ports : List (UnitM N)) : List (Instr N) → Util N → Bool → Nat → Util N × Nat
  | [], u, _, e => (u, e)
  | ins :: rest, u, mem, e =>
    match tryPorts ins.cap e ports u mem with
    | none => (u, e)
    | some r => issueLoop ports rest r.1 r.2 (e + 1)

variable [LT N] [DecidableRel (α := N) (· < ·)]

/-- `sorted_models(chain(in_out_ports, in_ports))` (stable, by name) -/
def sortedInputs (p : Proc N) : List (UnitM N) :=
  isort (fun a b => decide ¬ (b.name < a.name)) p.inBoundary

/-- `_fill_cp_util` -/
def fillCycle (p : Proc N) (prog : List (Instr N)) (old : Util N) (entered : Nat) : Util N × Nat :=
  let r := moveFlights p prog old
  issueLoop (sortedInputs p) (prog.drop entered) r.1 r.2 entered

omit [LT N] [DecidableRel (α := N) (· < ·)]

/-! ### labels (`_chk_hazards`) -/

inductive Fault
  | queueEmpty   -- IndexError: `can_access` on an emptied queue
  | badDequeue   -- KeyError / IndexError in `dequeue`
  | badIndex     -- IndexError: `program[i]`
  | noUnit       -- KeyError: `name_unit_map[unit]`
  | fuel         -- did not finish within the C08 bound
deriving DecidableEq, Repr, Inhabited

/-- `all(acc_queues[reg].can_access(type, owner) for reg in regs)` with Python's short-circuit -/
def canAll (qs : Queues N) (wr : Bool) (i : Nat) : List N → Except Fault Bool
  | [] => .ok true
  | r :: rs =>
    match (qs.get r).canAccess wr i with
    | none => .error .queueEmpty
    | some false => .ok false
    | some true => canAll qs wr i rs

/-- `_regs_avail`: `none` = not available (data stall), `some regs` = available, `regs` to be cleared -/
def regsAvail (qs : Queues N) (unit : UnitM N) (i : Nat) (ins : Instr N) : Except Fault (Option (List N)) :=
  match (if unit.rd then canAll qs false i ins.srcs else .ok true) with
  | .error f => .error f
  | .ok false => .ok none
  | .ok true =>
    match (if unit.wr then canAll qs true i [ins.dst] else .ok true) with
    | .error f => .error f
    | .ok false => .ok none
    | .ok true => .ok (some ((if unit.rd then ins.srcs else []) ++ (if unit.wr then [ins.dst] else [])))

/-- `_regs_loaded`: the instruction was in this unit in the previous cycle and not data-stalled -/
def wasLoaded (old : List HI) (i : Nat) : Bool := old.any (fun o => o.idx == i && o.st != .D)

/-- `_stall_unit`: new labels of one unit and the clears it requests, in order -/
def labelList (prog : List (Instr N)) (qs : Queues N) (unit : UnitM N) (old : List HI) :
    List HI → Except Fault (List HI × List (N × Nat))
  | [] => .ok ([], [])
  | h :: hs =>
    if wasLoaded old h.idx then
      match labelList prog qs unit old hs with
      | .error f => .error f
      | .ok r => .ok (⟨h.idx, .S⟩ :: r.1, r.2)
    else
      match prog[h.idx]? with
      | none => .error .badIndex
      | some ins =>
        match regsAvail qs unit h.idx ins with
        | .error f => .error f
        | .ok none =>
          (match labelList prog qs unit old hs with
           | .error f => .error f
           | .ok r => .ok (⟨h.idx, .D⟩ :: r.1, r.2))
        | .ok (some regs) =>
          (match labelList prog qs unit old hs with
           | .error f => .error f
           | .ok r => .ok (⟨h.idx, .U⟩ :: r.1, regs.map (fun x => (x, h.idx)) ++ r.2))

/-- `HwSpec.name_unit_map[name]`: a dict built in order, so the *last* unit of that name wins -/
def lookupUnit : List (UnitM N) → N → Option (UnitM N)
  | [], _ => none
  | u :: us, n =>
    match lookupUnit us n with
    | some v => some v
    | none => if u.name = n then some u else none

/-- `_chk_hazards` without the dequeues: relabel every non-empty unit of the new record -/
def labelAll (units : List (UnitM N)) (prog : List (Instr N)) (qs : Queues N) (old : Util N) :
    Util N → Except Fault (Util N × List (N × Nat))
  | [] => .ok ([], [])
  | (n, l) :: rest =>
    if l.isEmpty then
      match labelAll units prog qs old rest with
      | .error f => .error f
      | .ok r => .ok ((n, []) :: r.1, r.2)
    else
      match lookupUnit units n with
      | none => .error .noUnit
      | some unit =>
        match labelList prog qs unit (old.get n) l with
        | .error f => .error f
        | .ok rl =>
          match labelAll units prog qs old rest with
          | .error f => .error f
          | .ok r => .ok ((n, rl.1) :: r.1, rl.2 ++ r.2)

/-- the deferred `dequeue` calls at the end of `_chk_hazards` -/
def applyClears (qs : Queues N) : List (N × Nat) → Except Fault (Queues N)
  | [] => .ok qs
  | (r, i) :: cs =>
    match (qs.get r).dequeue i with
    | none => .error .badDequeue
    | some q => applyClears (qs.set r q) cs

/-! ### the cycle and the run -/

/-- `_count_outputs`: unstalled instructions at the output boundary -/
def countOut (outs : List N) (u : Util N) : Nat :=
  (outs.map (fun n => ((u.get n).filter (fun h => h.st == .U)).length)).sum

structure SimState (N : Type) where
  util : Util N            -- last recorded cycle (`[]` before the first)
  queues : Queues N
  entered : Nat
  exited : Nat
  table : List (Util N)    -- recorded cycles, newest first
deriving Inhabited

variable [LT N] [DecidableRel (α := N) (· < ·)]

/-- `_run_cycle`; `.ok none` = `StallError` -/
def runCycle (p : Proc N) (prog : List (Instr N)) (s : SimState N) : Except Fault (Option (SimState N)) :=
  let r := fillCycle p prog s.util s.entered
  match labelAll p.allUnits prog s.queues s.util r.1 with
  | .error f => .error f
  | .ok lab =>
    match applyClears s.queues lab.2 with
    | .error f => .error f
    | .ok qs =>
      if Util.beq lab.1 s.util then .ok none
      else .ok (some { util := lab.1, queues := qs, entered := r.2,
                       exited := s.exited + countOut p.outBoundary lab.1, table := lab.1 :: s.table })

inductive Outcome (N : Type)
  | done (table : List (Util N))     -- diagram returned by `simulate` (oldest cycle first)
  | stall (table : List (Util N))    -- `StallError.processor_state`
  | fault (f : Fault)                -- any other exception / fuel exhausted
deriving Inhabited

def SimState.finished (prog : List (Instr N)) (s : SimState N) : Bool :=
  !(s.entered < prog.length || s.exited < s.entered)

def simLoop (p : Proc N) (prog : List (Instr N)) : Nat → SimState N → Outcome N
  | 0, s => if s.finished prog then .done s.table.reverse else .fault .fuel
  | fuel + 1, s =>
    if s.finished prog then .done s.table.reverse
    else match runCycle p prog s with
      | .error f => .fault f
      | .ok none => .stall s.table.reverse
      | .ok (some s') => simLoop p prog fuel s'

/-- the C08 bound on the number of cycles run: instructions × (3 × units + 1) + 1 -/
def cycleBound (p : Proc N) (prog : List (Instr N)) : Nat := prog.length * (3 * p.allUnits.length + 1) + 1

def initState (prog : List (Instr N)) : SimState N :=
  { util := [], queues := buildPlan prog, entered := 0, exited := 0, table := [] }

def simulate (p : Proc N) (prog : List (Instr N)) : Outcome N :=
  simLoop p prog (cycleBound p prog) (initState prog)

end ProcSim
