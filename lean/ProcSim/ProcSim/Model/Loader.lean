import ProcSim.Model.Basic
import ProcSim.Model.Types
/-!
# Executable model of `processor_utils.load_proc_desc` and of the `ProcessorDesc` constructor

The model mirrors the *algorithm* of the loader (DESIGN.md §1.3 "Loader"), stage by stage:

| Python                                              | here                      |
|-----------------------------------------------------|---------------------------|
| `_create_graph` / `_add_unit` / `_load_caps`        | `addUnits`, `loadCaps`    |
| `_add_edge` / `_get_std_edge` / `_get_unit_name`    | `addEdges`                |
| `_checks.chk_cycles`                                | `isAcyclic` (`topoOrder`) |
| `_port_defs.PortGroup`                              | `Graph.inPorts/outPorts`  |
| `_optimization.clean_struct` / `_clean_unit`        | `cleanStruct`/`cleanUnit` |
| `_optimization.rm_empty_units`                      | `rmEmpty`                 |
| `_optimization.chk_terminals` / `_rm_dead_end`      | `chkTerminals`            |
| `_checks.chk_non_empty`                             | inside `load`             |
| `_checks.chk_caps` / `_do_cap_checks`               | `chkCaps` / `chkCapList`  |
| `_chk_multilock` / `_PathLockCalc` / `_update_lock` | `lockPass` / `calcLock` / `updLocks` |
| `_chk_in_locks`                                     | `chkInLocks`              |
| `_chk_cap_flow` (max-flow to the unified output)    | `reachPass` / `chkFlow`   |
| `_make_processor` / `_get_unit_entry`               | `makeProcessor`           |
| `ProcessorDesc(...)`, `_sorted_units`, `_post_order`| `mkProc`, `sortFU`, `postOrder` |

Names are a type parameter `N`; "equal up to case" is `fold a = fold b` for a parameter `fold : N → N`
(the driver passes ASCII lower-casing). Name order is `<` on `N` (code-point order on `String` = Python `str` order).

External library calls are replaced by simple functions with the same contract:

* `networkx.topological_sort` / `is_directed_acyclic_graph` → `topoOrder`: repeated selection of the first (in unit
  order) remaining unit without a remaining predecessor, fuel = number of units; the graph is acyclic iff every
  unit is consumed.
* `networkx.dfs_postorder_nodes` → the reverse of `topoOrder` (a successors-first order).
* `networkx.maximum_flow_value(...) > 0` → reachability of an output port through units supporting the
  capability (`reachPass`): after `cap_anal_utils.split_nodes` every node of the analysis graph has a unique
  in-edge or a unique out-edge, `_dist_edge_caps` gives that edge the capacity `min(width, width) ≥ 1`
  (widths are ≥ 1 after `_chk_unit_width`; the unified output's width is a sum of ≥ 1 widths), all other edges are
  uncapacitated, and every source→sink path contains the source's unique out-edge; hence flow value > 0 ⇔ a path exists.

Under-determined choices of the implementation, made deterministic here (documented; the correspondence never
compares them — it compares the error *class*, the canonical processor and the validity of orders):

* which topological / post order networkx returns → the orders above;
* the iteration order of `frozenset`s (`new_out_ports`, capability sets) → unit order of the description;
  consequently *which* dead input port / lock culprit is named when several exist;
* `dict` defaults that the Python code never needs (`path_locks[succ]` is always present because successors are
  processed first) are `(0, 0)` here.

Outside the model (as in DESIGN.md §7): descriptions that are not structurally typed; a memory ACL naming a
capability no unit declares (`AssertionError` in `_get_acl_cap`) — the model keeps the raw spelling.
-/
namespace ProcSim
namespace Loader

/-! ## Data types (shared with `Spec/Loader.lean`) -/

/-- one entry of `units:` in a description; `width` may be ≤ 0, locks default to `false`, ACL to `[]` -/
structure UnitD (N : Type) where
  name : N
  width : Int
  caps : List N
  rd : Bool
  wr : Bool
  acl : List N
deriving DecidableEq, Repr, Inhabited

/-- a raw processor description: `units` and `dataPath` (connections as name lists of any length) -/
structure Desc (N : Type) where
  units : List (UnitD N)
  edges : List (List N)
deriving DecidableEq, Repr, Inhabited

inductive LockType | read | write
deriving DecidableEq, Repr, Inhabited

def LockType.code : LockType → String
  | .read => "read" | .write => "write"

/-- the documented defect classes, one per exception class -/
inductive DefectClass
  | dupElem | badWidth | badEdge | undefElem | cyclic | deadInput | emptyProc | pathLock | blockedCap
deriving DecidableEq, Repr, Inhabited

/-- Python exception class names -/
def DefectClass.pyName : DefectClass → String
  | .dupElem => "DupElemError" | .badWidth => "BadWidthError" | .badEdge => "BadEdgeError"
  | .undefElem => "UndefElemError" | .cyclic => "NetworkXUnfeasible" | .deadInput => "DeadInputError"
  | .emptyProc => "EmptyProcError" | .pathLock => "PathLockError" | .blockedCap => "BlockedCapError"

/-- loader exceptions with the fields the Python exception objects carry -/
inductive LoadError (N : Type)
  | dupElem (old new : N)                               -- `DupElemError.old_element/new_element`
  | badWidth (unit : N) (width : Int)                   -- `BadWidthError.unit/width`
  | badEdge (edge : List N)                             -- `BadEdgeError.edge`
  | undefElem (elem : N)                                -- `UndefElemError.element`
  | cyclic                                              -- `networkx.NetworkXUnfeasible`
  | deadInput (port : N)                                -- `DeadInputError.port`
  | emptyProc                                           -- `EmptyProcError`
  | pathLock (start : N) (lockType : LockType) (cap : N) -- `PathLockError.start/lock_type/capability`
  | blockedCap (cap : N) (port : N)                     -- `BlockedCapError.capability/port`
deriving DecidableEq, Repr, Inhabited

def LoadError.cls {N : Type} : LoadError N → DefectClass
  | .dupElem .. => .dupElem | .badWidth .. => .badWidth | .badEdge .. => .badEdge
  | .undefElem .. => .undefElem | .cyclic => .cyclic | .deadInput .. => .deadInput
  | .emptyProc => .emptyProc | .pathLock .. => .pathLock | .blockedCap .. => .blockedCap

section
variable {N : Type} [DecidableEq N]

/-! ## The `ProcessorDesc` constructor -/

section Order
variable [LT N] [DecidableRel (α := N) (· < ·)]

/-- `sorted(names)` (stable insertion sort with `a ≤ b :⇔ ¬ b < a`) -/
def sortNames (l : List N) : List N := isort (fun a b => !decide (b < a)) l

/-- `_sorted_units`: `sorted(units, key=unit.model.name)` -/
def sortFU (l : List (FuncU N)) : List (FuncU N) :=
  isort (fun a b => !decide (b.model.name < a.model.name)) l

/-- `FuncUnit(model, predecessors)`: the converter sorts the predecessors by name -/
def mkFuncU (m : UnitM N) (preds : List N) : FuncU N := ⟨m, sortNames preds⟩
end Order

/-- first remaining unit that is a predecessor of no remaining unit (a source of the reversed graph of
`_get_unit_graph`; a self-loop makes a unit unselectable) -/
def pickSink (rem : List (FuncU N)) : Option (FuncU N) :=
  rem.find? (fun u => rem.all (fun w => !decide (u.model.name ∈ w.preds)))

/-- `networkx.topological_sort(rev_graph)`: repeated source selection; `none` = `NetworkXUnfeasible` -/
def postOrderAux : Nat → List (FuncU N) → Option (List (FuncU N))
  | _, [] => some []
  | 0, _ :: _ => none
  | fuel + 1, u :: us =>
    match pickSink (u :: us) with
    | none => none
    | some s => (postOrderAux fuel ((u :: us).filter (fun w => !decide (w.model.name = s.model.name)))).map (s :: ·)

/-- `_post_order`: every unit before all of its predecessors; predecessors that are not internal units are ignored -/
def postOrder (internal : List (FuncU N)) : Option (List (FuncU N)) := postOrderAux internal.length internal

/-- `ProcessorDesc(in_ports, out_ports, in_out_ports, internal_units)`; `none` = the internal units are cyclic
(`NetworkXUnfeasible` escapes from the converter) -/
def mkProc [LT N] [DecidableRel (α := N) (· < ·)]
    (inPorts : List (UnitM N)) (outPorts : List (FuncU N)) (inOut : List (UnitM N)) (internal : List (FuncU N)) :
    Option (Proc N) :=
  (postOrder internal).map (fun io => ⟨inPorts, sortFU outPorts, inOut, io⟩)

/-! ## Stage 1: units (`_add_unit`) -/

variable (fold : N → N)

/-- `SelfIndexSet.get(ICaseString(x))` on a registry kept as the list of stored spellings -/
def lookupFold (reg : List N) (x : N) : Option N := reg.find? (fun y => decide (fold y = fold x))

/-- `_load_caps`: per-unit de-duplication (`seen` = `unit_cap_reg`) and standardisation against the global
registry `reg` (`get_from_set`: first spelling wins, new spellings are appended). Returns the unit's capability
list and the updated registry. -/
def loadCaps : List N → List N → List N → List N × List N
  | [], _, reg => ([], reg)
  | c :: cs, seen, reg =>
    match lookupFold fold seen c with
    | some _ => loadCaps cs seen reg
    | none =>
      match lookupFold fold reg c with
      | some s => let r := loadCaps cs (c :: seen) reg; (s :: r.1, r.2)
      | none => let r := loadCaps cs (c :: seen) (reg ++ [c]); (c :: r.1, r.2)

/-- node of the working graph (networkx node attributes) -/
structure GNode (N : Type) where
  name : N
  width : Int
  caps : List N
  rd : Bool
  wr : Bool
  /-- raw memory ACL: `_load_mem_acl` is a generator, consumed only when the unit model is built -/
  acl : List N
deriving Repr, Inhabited

/-- the `for cur_unit in hw_units: _add_unit(...)` loop: name check, width check, capabilities — in this order, unit by unit -/
def addUnits : List (UnitD N) → List N → List N → Except (LoadError N) (List (GNode N) × List N)
  | [], _, reg => .ok ([], reg)
  | u :: us, names, reg =>
    match lookupFold fold names u.name with
    | some old => .error (.dupElem old u.name)
    | none =>
      if u.width ≤ 0 then .error (.badWidth u.name u.width) else
      let cl := loadCaps fold u.caps [] reg
      match addUnits us (names ++ [u.name]) cl.2 with
      | .error e => .error e
      | .ok r => .ok (⟨u.name, u.width, cl.1, u.rd, u.wr, u.acl⟩ :: r.1, r.2)

/-! ## Stage 2: connections (`_add_edge`) -/

/-- the `for cur_link in links: _add_edge(...)` loop; a repeated connection is ignored (`DiGraph.add_edge`) -/
def addEdges (names : List N) : List (List N) → List (N × N) → Except (LoadError N) (List (N × N))
  | [], acc => .ok acc
  | e :: es, acc =>
    match e with
    | [a, b] =>
      match lookupFold fold names a with
      | none => .error (.undefElem a)
      | some a' =>
        match lookupFold fold names b with
        | none => .error (.undefElem b)
        | some b' => addEdges names es (if (a', b') ∈ acc then acc else acc ++ [(a', b')])
    | _ => .error (.badEdge e)

/-! ## The working graph -/

structure Graph (N : Type) where
  nodes : List (GNode N)
  edges : List (N × N)
deriving Repr, Inhabited

namespace Graph
def names (g : Graph N) : List N := g.nodes.map (·.name)
def preds (g : Graph N) (u : N) : List N := (g.edges.filter (fun e => decide (e.2 = u))).map (·.1)
def succs (g : Graph N) (u : N) : List N := (g.edges.filter (fun e => decide (e.1 = u))).map (·.2)
/-- `_port_defs.get_in_ports`: units of in-degree 0, in node order -/
def inPorts (g : Graph N) : List N := g.names.filter (fun u => (g.preds u).isEmpty)
/-- `_port_defs.get_out_ports` -/
def outPorts (g : Graph N) : List N := g.names.filter (fun u => (g.succs u).isEmpty)
def node? (g : Graph N) (u : N) : Option (GNode N) := g.nodes.find? (fun n => decide (n.name = u))
def capsOf (g : Graph N) (u : N) : List N := match g.node? u with | some n => n.caps | none => []
/-- `remove_node` for every unit of `dead` (incident connections disappear with the node) -/
def removeNodes (g : Graph N) (dead : List N) : Graph N :=
  ⟨g.nodes.filter (fun n => !decide (n.name ∈ dead)),
   g.edges.filter (fun e => !decide (e.1 ∈ dead) && !decide (e.2 ∈ dead))⟩
def setCaps (g : Graph N) (u : N) (caps : List N) : Graph N :=
  ⟨g.nodes.map (fun n => if n.name = u then { n with caps := caps } else n), g.edges⟩
end Graph

/-! ## Stage 3: acyclicity and topological order -/

/-- first unit of `rem` without a predecessor in `rem` -/
def pickSource (edges : List (N × N)) (rem : List N) : Option N :=
  rem.find? (fun u => edges.all (fun e => !(decide (e.2 = u) && decide (e.1 ∈ rem))))

def topoAux (edges : List (N × N)) : Nat → List N → List N
  | 0, _ => []
  | fuel + 1, rem =>
    match pickSource edges rem with
    | none => []
    | some u => u :: topoAux edges fuel (rem.filter (fun v => !decide (v = u)))

/-- a topological order of the units consumed by repeated source selection (all of them iff acyclic) -/
def topoOrder (g : Graph N) : List N := topoAux g.edges g.nodes.length g.names

/-- `networkx.is_directed_acyclic_graph` -/
def isAcyclic (g : Graph N) : Bool := (topoOrder g).length == g.nodes.length

/-! ## Stage 4: forward capability propagation (`clean_struct`) -/

/-- `_clean_unit` (skipped for units of in-degree 0): the unit keeps the declared capabilities some predecessor
supports (`⋃ₚ declared(u) ∩ caps(p)`); a connection whose ends share none is removed (`_chk_edge`) -/
def cleanUnit (g : Graph N) (u : N) : Graph N :=
  let ps := g.preds u
  if ps.isEmpty then g else
  let decl := g.capsOf u
  let newCaps := decl.filter (fun c => ps.any (fun p => decide (c ∈ g.capsOf p)))
  let g' := g.setCaps u newCaps
  ⟨g'.nodes, g.edges.filter (fun e => !(decide (e.2 = u) && (decl.filter (fun c => decide (c ∈ g.capsOf e.1))).isEmpty))⟩

def cleanStruct (g : Graph N) : Graph N := (topoOrder g).foldl cleanUnit g

/-- `rm_empty_units` -/
def rmEmpty (g : Graph N) : Graph N :=
  g.removeNodes ((g.nodes.filter (fun n => n.caps.isEmpty)).map (·.name))

/-! ## Stage 5: iterated dead-end removal (`chk_terminals`) -/

/-- one `while` iteration per unit of fuel: the current sinks that were not output ports originally are dead ends;
an original input port among them is `DeadInputError` (the first in unit order is named), otherwise they are all
removed. Every iteration removes a unit, so `fuel = number of units + 1` is never exhausted. -/
def chkTerminals (in0 out0 : List N) : Nat → Graph N → Except (LoadError N) (Graph N)
  | 0, g => .ok g
  | fuel + 1, g =>
    let newOut := g.outPorts.filter (fun u => !decide (u ∈ out0))
    if newOut.isEmpty then .ok g else
    match newOut.find? (fun u => decide (u ∈ in0)) with
    | some p => .error (.deadInput p)
    | none => chkTerminals in0 out0 fuel (g.removeNodes newOut)

/-! ## Stage 6: per-capability checks (`chk_caps`) -/

/-- `_get_cap_units`: capability ↦ supporting input ports, in order of first appearance (`dict.setdefault`) -/
def addCapPort (m : List (N × List N)) (cap port : N) : List (N × List N) :=
  match m with
  | [] => [(cap, [port])]
  | (c, ps) :: rest => if c = cap then (c, ps ++ [port]) :: rest else (c, ps) :: addCapPort rest cap port

def capUnits (g : Graph N) : List (N × List N) :=
  g.inPorts.foldl (fun m p => (g.capsOf p).foldl (fun m c => addCapPort m c p) m) []

/-- successors in the capability graph of `_make_cap_graph` (`u` itself is known to support `cap`) -/
def capSuccs (g : Graph N) (cap u : N) : List N := (g.succs u).filter (fun v => decide (cap ∈ g.capsOf v))

/-- `_get_tail_lock` / `_update_lock`: the common lock count of the successors (`none` = the initial `-1`) -/
def updLocks (start : N) (t : LockType) (cap : N) : List Nat → Option Nat → Except (LoadError N) (Option Nat)
  | [], acc => .ok acc
  | v :: vs, none => updLocks start t cap vs (some v)
  | v :: vs, some o => if v = o then updLocks start t cap vs (some v) else .error (.pathLock start t cap)

/-- `_PathLockCalc._calc_path_lock` followed by `_chk_seg_lock` -/
def calcLock (start : N) (t : LockType) (cap : N) (unitLock : Bool) (succVals : List Nat) : Except (LoadError N) Nat :=
  match updLocks start t cap succVals none with
  | .error e => .error e
  | .ok tail =>
    let pl := (if unitLock then 1 else 0) + tail.getD 0
    if pl > 1 then .error (.pathLock start t cap) else .ok pl

/-- `path_locks`: unit ↦ (read count, write count) -/
abbrev Locks (N : Type) := AMap N (Nat × Nat)

def Locks.get (l : Locks N) (u : N) : Nat × Nat := (AMap.get? l u).getD (0, 0)

/-- `_chk_path_locks`: read lock first, then write lock -/
def chkPathLocks (g : Graph N) (cap : N) (locks : Locks N) (u : N) : Except (LoadError N) (Locks N) :=
  let sv := (capSuccs g cap u).map (Locks.get locks)
  let rd := match g.node? u with | some n => n.rd | none => false
  let wr := match g.node? u with | some n => n.wr | none => false
  match calcLock u .read cap rd (sv.map (·.1)) with
  | .error e => .error e
  | .ok r =>
    match calcLock u .write cap wr (sv.map (·.2)) with
    | .error e => .error e
    | .ok w => .ok (AMap.set locks u (r, w))

/-- the `for unit in post_ord` loop of `_chk_multilock` -/
def lockPass (g : Graph N) (cap : N) : List N → Locks N → Except (LoadError N) (Locks N)
  | [], l => .ok l
  | u :: us, l =>
    match chkPathLocks g cap l u with
    | .error e => .error e
    | .ok l' => lockPass g cap us l'

/-- `_chk_in_locks`: every supporting input port needs a read lock and a write lock on its routes -/
def chkInLocks (cap : N) (locks : Locks N) : List N → Except (LoadError N) Unit
  | [] => .ok ()
  | p :: ps =>
    if (Locks.get locks p).1 = 0 then .error (.pathLock p .read cap)
    else if (Locks.get locks p).2 = 0 then .error (.pathLock p .write cap)
    else chkInLocks cap locks ps

/-- units (supporting `cap`, visited successors-first) from which an output port is reachable through supporting
units — the contract of `maximum_flow_value(...) > 0` (see the header) -/
def reachPass (g : Graph N) (cap : N) (outs : List N) : List N → List N → List N
  | [], acc => acc
  | u :: us, acc =>
    if decide (u ∈ outs) || (capSuccs g cap u).any (fun v => decide (v ∈ acc))
    then reachPass g cap outs us (u :: acc) else reachPass g cap outs us acc

/-- `_chk_cap_flow` / `_chk_unit_flow` -/
def chkFlow (cap : N) (reach : List N) : List N → Except (LoadError N) Unit
  | [] => .ok ()
  | p :: ps => if p ∈ reach then chkFlow cap reach ps else .error (.blockedCap cap p)

/-- `_do_cap_checks`: capability by capability, the lock check and then (only for processors of more than one unit) the flow check -/
def chkCapList (g : Graph N) (post outs : List N) (multi : Bool) : List (N × List N) → Except (LoadError N) Unit
  | [] => .ok ()
  | (cap, ports) :: rest =>
    let pc := post.filter (fun u => decide (cap ∈ g.capsOf u))
    match lockPass g cap pc [] with
    | .error e => .error e
    | .ok locks =>
      match chkInLocks cap locks ports with
      | .error e => .error e
      | .ok _ =>
        match (if multi then chkFlow cap (reachPass g cap outs pc []) ports else .ok ()) with
        | .error e => .error e
        | .ok _ => chkCapList g post outs multi rest

def chkCaps (g : Graph N) : Except (LoadError N) Unit :=
  chkCapList g (topoOrder g).reverse g.outPorts (decide (g.nodes.length > 1)) (capUnits g)

/-! ## Stage 7: classification and unit models (`_make_processor`) -/

section Order
variable [LT N] [DecidableRel (α := N) (· < ·)]

/-- `_get_acl_cap` on a known capability; an unknown one (outside the model) keeps its spelling -/
def stdCap (reg : List N) (c : N) : N := (lookupFold fold reg c).getD c

/-- `_get_unit_entry`: `UnitModel`'s converters sort the capabilities and the memory ACL -/
def mkModel (reg : List N) (n : GNode N) : UnitM N :=
  ⟨n.name, n.width.toNat, sortNames n.caps, n.rd, n.wr, sortNames (n.acl.map (stdCap fold reg))⟩

def makeProcessor (reg : List N) (g : Graph N) : Option (Proc N) :=
  let hasIn := fun (n : GNode N) => !(g.preds n.name).isEmpty
  let hasOut := fun (n : GNode N) => !(g.succs n.name).isEmpty
  let fu := fun (n : GNode N) => mkFuncU (mkModel fold reg n) (g.preds n.name)
  mkProc ((g.nodes.filter (fun n => !hasIn n && hasOut n)).map (mkModel fold reg))
         ((g.nodes.filter (fun n => hasIn n && !hasOut n)).map fu)
         ((g.nodes.filter (fun n => !hasIn n && !hasOut n)).map (mkModel fold reg))
         ((g.nodes.filter (fun n => hasIn n && hasOut n)).map fu)

/-! ## `load_proc_desc` -/

/-- the graph after `_create_graph`, with the capability registry -/
def createGraph (d : Desc N) : Except (LoadError N) (Graph N × List N) :=
  match addUnits fold d.units [] [] with
  | .error e => .error e
  | .ok r =>
    match addEdges fold (r.1.map (·.name)) d.edges [] with
    | .error e => .error e
    | .ok es => .ok (⟨r.1, es⟩, r.2)

/-- `_prep_proc_desc`: the pruned graph all checks accepted -/
def prepare (g : Graph N) : Except (LoadError N) (Graph N) :=
  if !isAcyclic g then .error .cyclic else
  let in0 := g.inPorts
  let out0 := g.outPorts
  let g1 := rmEmpty (cleanStruct g)
  match chkTerminals in0 out0 (g1.nodes.length + 1) g1 with
  | .error e => .error e
  | .ok g2 =>
    if !(in0.any (fun p => decide (p ∈ g2.names))) then .error .emptyProc else
    match chkCaps g2 with
    | .error e => .error e
    | .ok _ => .ok g2

/-- `load_proc_desc`. (`makeProcessor` cannot fail on a sub-graph of an acyclic graph; Python would let
`NetworkXUnfeasible` escape from the converter, hence `.cyclic`.) -/
def load (d : Desc N) : Except (LoadError N) (Proc N) :=
  match createGraph fold d with
  | .error e => .error e
  | .ok gr =>
    match prepare gr.1 with
    | .error e => .error e
    | .ok g2 =>
      match makeProcessor fold gr.2 g2 with
      | some p => .ok p
      | none => .error .cyclic

end Order
end
end Loader
end ProcSim
