import ProcSim.Model.Queue
/-!
# Request-level specification of the register access queues (property C19)

The specification forgets groups: a queue *is* the list of requests still pending, in registration order.

* `canServe pending wr o` — may request `(wr, o)` be served now?  The head of the pending list; or any read inside the
  leading run of reads; or the write that directly follows its owner's own read when that read is the only
  request of the leading run ("once no other reader remains").
* `removeSpec pending o` — what `dequeue o` does: removes `o`'s request from the leading run / the head.
* `abs q` — the pending list a concrete queue stands for; `WFq q` — representation invariant of queues built by
  `push` and shrunk by `dequeue`.
* `ProgramOrder reqs` — what "registered in program order" means for one register: owners never decrease and an
  owner registers at most one read, then at most one write.
-/
namespace ProcSim
namespace Spec

/-- a request: (isWrite, owner) -/
abbrev Req := Bool × Nat

/-- owners of the leading run of reads -/
def leadReads : List Req → List Nat
  | (false, o) :: rest => o :: leadReads rest
  | _ => []

/-- what follows the leading run of reads -/
def afterReads : List Req → List Req
  | (false, _) :: rest => afterReads rest
  | l => l

/-- `none` on an empty pending list (the implementation raises there) -/
def canServe (pending : List Req) (wr : Bool) (o : Nat) : Option Bool :=
  match pending with
  | [] => none
  | (true, o') :: _ => some (wr && o == o')
  | (false, _) :: _ =>
    if wr then some (leadReads pending == [o] && (afterReads pending).head? == some (true, o))
    else some (decide (o ∈ leadReads pending))

/-- remove `o`'s request from the front: from the leading run of reads, or the head write -/
def removeSpec (pending : List Req) (o : Nat) : Option (List Req) :=
  match pending with
  | [] => none
  | (true, o') :: rest => if o = o' then some rest else none
  | (false, _) :: _ =>
    if o ∈ leadReads pending then some (pending.erase (false, o)) else none

/-- the owner has something that can be removed now (a permitted removal) -/
def removable (pending : List Req) (o : Nat) : Bool := (removeSpec pending o).isSome

/-- pending requests represented by a queue, in registration order -/
def abs (q : Queue) : List Req := q.flatMap (fun g => g.owners.map (fun o => (g.wr, o)))

/-- representation invariant: no empty group, members distinct, write groups are singletons, no two adjacent read
groups -/
def WFq : Queue → Prop
  | [] => True
  | [g] => g.owners ≠ [] ∧ g.owners.Nodup ∧ (g.wr = true → g.owners.length = 1)
  | g :: g' :: rest => g.owners ≠ [] ∧ g.owners.Nodup ∧ (g.wr = true → g.owners.length = 1) ∧
      ¬(g.wr = false ∧ g'.wr = false) ∧ WFq (g' :: rest)

/-- Bool version of `WFq` for the driver -/
def wfq : Queue → Bool
  | [] => true
  | [g] => !g.owners.isEmpty && decide g.owners.Nodup && (!g.wr || g.owners.length == 1)
  | g :: g' :: rest => !g.owners.isEmpty && decide g.owners.Nodup && (!g.wr || g.owners.length == 1) &&
      !(!g.wr && !g'.wr) && wfq (g' :: rest)

/-- no read is registered twice inside one run of reads (Python's `set` would silently merge them) -/
def RunsDistinct : List Req → Prop
  | [] => True
  | (true, _) :: rest => RunsDistinct rest
  | (false, o) :: rest => o ∉ leadReads rest ∧ RunsDistinct rest

def runsDistinct : List Req → Bool
  | [] => true
  | (true, _) :: rest => runsDistinct rest
  | (false, o) :: rest => !(decide (o ∈ leadReads rest)) && runsDistinct rest

/-- "registered in program order": owners never decrease; per owner at most one read, then at most one write -/
def programOrder : List Req → Bool
  | [] => true
  | [_] => true
  | (w1, o1) :: (w2, o2) :: rest =>
    (decide (o1 < o2) || (o1 == o2 && !w1 && w2)) && programOrder ((w2, o2) :: rest)

/-! ### histories of removals (used by the statements of C19) -/

/-- fold `dequeue` over a history of owners; `none` as soon as one `dequeue` raises -/
def runHistory : Queue → List Nat → Option Queue
  | q, [] => some q
  | q, o :: os =>
    match q.dequeue o with
    | none => none
    | some q' => runHistory q' os

/-- request-level counterpart of `runHistory`: fold `removeSpec`; `none` as soon as one removal is not permitted -/
def runSpec : List Req → List Nat → Option (List Req)
  | p, [] => some p
  | p, o :: os =>
    match removeSpec p o with
    | none => none
    | some p' => runSpec p' os

/-- a permitted history of removals: every owner in turn has a removable request (`removable`) in the pending
list as it is at that moment -/
def PermittedHistory : List Req → List Nat → Prop
  | _, [] => True
  | p, o :: os => removable p o = true ∧ ∀ p', removeSpec p o = some p' → PermittedHistory p' os

/-- `q` is reachable from the queue built for `reqs` by a history of successful `dequeue`s -/
def Reachable (reqs : List Req) (q : Queue) : Prop := ∃ os, runHistory (Queue.build reqs) os = some q

end Spec
end ProcSim
