import ProcSim.Model.Sim
/-!
# Specifications of the simulator properties C01–C08 as decidable predicates on a diagram

Everything here talks about *a diagram* `tbl : List (Util N)` (oldest cycle first), a processor and a program —
never about how the diagram was computed. The same Boolean checkers are (a) what the theorems in
`ProcSim/Props/C0x.lean` prove about `simulate`'s output for every well-formed processor and every program and
(b) what the driver evaluates on the diagram the *implementation* produced (the oracle of DESIGN §2).

`wfProc` is the properties' own precondition ("well-formed processor"): unique names, every unit has a
capability, predecessor lists refer to units, stored orders are sink-first, and on every maximal route a capability
can take from an input port exactly one read-locking and one write-locking unit, the former not after the latter.
-/
namespace ProcSim
namespace Spec

variable {N : Type} [DecidableEq N]

/-! ## processor structure -/

def predsOf (p : Proc N) (n : N) : List N :=
  match (p.dests.find? (fun d => d.model.name = n)) with
  | some d => d.preds
  | none => []

/-- successors of unit `n`: destination units listing `n` as a predecessor -/
def succsOf (p : Proc N) (n : N) : List (UnitM N) :=
  (p.dests.filter (fun d => decide (n ∈ d.preds))).map (·.model)

def isOutB (p : Proc N) (n : N) : Bool := decide (n ∈ p.outBoundary)
def isInB (p : Proc N) (n : N) : Bool := decide (n ∈ p.inBoundary.map (·.name))

def capOf (prog : List (Instr N)) (i : Nat) : Option N := (prog[i]?).map (·.cap)

def supports (prog : List (Instr N)) (i : Nat) (u : UnitM N) : Bool := capIn prog i u.caps
def needsMem (prog : List (Instr N)) (i : Nat) (u : UnitM N) : Bool := capIn prog i u.acl

/-- all maximal routes capability `c` can take starting at `u` (fuel = number of units suffices on a DAG) -/
def routesFrom (p : Proc N) (c : N) : Nat → UnitM N → List (List (UnitM N))
  | 0, u => [[u]]
  | fuel + 1, u =>
    let nxt := (succsOf p u.name).filter (fun v => decide (c ∈ v.caps))
    if nxt.isEmpty then [[u]]
    else (nxt.flatMap (routesFrom p c fuel)).map (fun r => u :: r)

/-- exactly one read-locking and one write-locking unit, read lock not after write lock -/
def routeLocksOK (r : List (UnitM N)) : Bool :=
  let rd := (List.range r.length).filter (fun k => (r[k]?.map (·.rd)).getD false)
  let wr := (List.range r.length).filter (fun k => (r[k]?.map (·.wr)).getD false)
  match rd, wr with
  | [a], [b] => decide (a ≤ b)
  | _, _ => false

def allCaps (p : Proc N) : List N := dedup (p.allUnits.flatMap (·.caps))

/-- position of a destination in the processing order -/
def destPos (p : Proc N) (n : N) : Option Nat := p.dests.findIdx? (fun d => d.model.name = n)

/-- sink-first order: every destination is processed before each of its predecessors that is a destination;
no output-boundary unit is anybody's predecessor; predecessors exist. -/
def orderOK (p : Proc N) : Bool :=
  p.dests.all (fun d =>
    d.preds.all (fun q =>
      decide (q ∈ p.allUnits.map (·.name)) && !isOutB p q &&
      (match destPos p q, destPos p d.model.name with
       | some kq, some kd => decide (kd < kq)
       | none, _ => true
       | _, none => false)))

def wfProc (p : Proc N) : Bool :=
  decide (p.allUnits.map (·.name)).Nodup &&
  p.allUnits.all (fun u => !u.caps.isEmpty) &&
  orderOK p &&
  (allCaps p).all (fun c =>
    (p.inBoundary.filter (fun u => decide (c ∈ u.caps))).all (fun s =>
      (routesFrom p c p.allUnits.length s).all routeLocksOK)) &&
  -- connections form a graph, not a multigraph: no unit lists a predecessor twice (with a repeated predecessor
  -- the real code raises IndexError in `_clr_src_units`; excluded point recorded in DESIGN.md)
  p.dests.all (fun d => decide d.preds.Nodup)

/-! ## reading a diagram -/

structure Ctx (N : Type) where
  p : Proc N
  prog : List (Instr N)
  tbl : List (Util N)
  stalled : Bool

namespace Ctx
variable (c : Ctx N)

def T : Nat := c.tbl.length
def n : Nat := c.prog.length
def row (t : Nat) : Util N := c.tbl.getD t []
def occ (t : Nat) (u : N) : List HI := (c.row t).get u
/-- instruction `i` is in unit `u` in cycle `t` -/
def isIn (t : Nat) (u : N) (i : Nat) : Bool := (c.occ t u).any (fun h => h.idx == i)
/-- hosted in cycle `t` and not in the same unit in cycle `t-1`: entered `u` in cycle `t` -/
def entersAt (t : Nat) (u : N) (i : Nat) : Bool :=
  c.isIn t u i && !(t ≠ 0 && c.isIn (t - 1) u i)
def units : List (UnitM N) := c.p.allUnits
/-- all `(cycle, unit, label)` positions of instruction `i`, by cycle then unit order -/
def positions (i : Nat) : List (Nat × UnitM N × Stall) :=
  (List.range c.T).flatMap (fun t =>
    c.units.flatMap (fun u => ((c.occ t u.name).filter (fun h => h.idx == i)).map (fun h => (t, u, h.st))))
def issued (i : Nat) : Bool := !(c.positions i).isEmpty
def firstCycle (i : Nat) : Option Nat := (c.positions i).head?.map (·.1)
/-- number of instructions that appear in the diagram -/
def enteredCount : Nat := ((List.range c.n).filter c.issued).length
/-- cycles in which `i` is unstalled in a unit holding the read (`wr = false`) / write lock -/
def accs (wr : Bool) (i : Nat) : List Nat :=
  ((c.positions i).filter (fun x => x.2.2 == .U && (if wr then x.2.1.wr else x.2.1.rd))).map (·.1)
/-- `i` performed that access in a cycle `< t` -/
def doneBefore (wr : Bool) (i t : Nat) : Bool := (c.accs wr i).any (fun t' => decide (t' < t))
def srcs (i : Nat) : List N := ((c.prog[i]?).map (·.srcs)).getD []
def dst? (i : Nat) : Option N := (c.prog[i]?).map (·.dst)
def writes (i : Nat) (r : N) : Bool := c.dst? i == some r
def reads (i : Nat) (r : N) : Bool := decide (r ∈ c.srcs i)
/-- somebody other than `i` entered, in cycle `t`, a unit whose ACL names its capability -/
def memTakenByOther (t i : Nat) : Bool :=
  c.units.any (fun u => (c.occ t u.name).any (fun h =>
    h.idx != i && c.entersAt t u.name h.idx && needsMem c.prog h.idx u))
def full (t : Nat) (u : UnitM N) : Bool := decide (u.width ≤ (c.occ t u.name).length)

end Ctx

/-- named clauses; the property holds iff all are true -/
abbrev Clauses := List (String × Bool)
def Clauses.ok (cs : Clauses) : Bool := cs.all (·.2)
def Clauses.firstFail (cs : Clauses) : Option String := (cs.find? (fun x => !x.2)).map (·.1)

/-! ## C01 — conflicting accesses occur in program order -/

/-- every access (of kind `kj`) of `j` to `r` is preceded by an access (of kind `ki`) of `i` in a strictly
earlier cycle -/
def orderedAcc (c : Ctx N) (ki kj : Bool) (i j : Nat) : Bool :=
  (c.accs kj j).all (fun tj => (c.accs ki i).any (fun ti => decide (ti < tj)))

def C01 (c : Ctx N) : Clauses :=
  let pairs := (List.range c.n).flatMap (fun j => (List.range j).map (fun i => (i, j)))
  [ ("RAW: an older write precedes a younger read of the same register",
      pairs.all (fun (i, j) => (c.srcs j).all (fun r => !c.writes i r || orderedAcc c true false i j))),
    ("WAW: an older write precedes a younger write of the same register",
      pairs.all (fun (i, j) => match c.dst? j with
        | some r => !c.writes i r || orderedAcc c true true i j
        | none => true)),
    ("WAR: an older read precedes a younger write of the same register",
      pairs.all (fun (i, j) => match c.dst? j with
        | some r => !c.reads i r || orderedAcc c false true i j
        | none => true)) ]

/-! ## C02 — data stalls are exact -/

/-- an older instruction still has a conflicting access outstanding before cycle `t` on a register that unit `u`
must lock for `i` (the instruction's own read counts only if `u` cannot grant it together with the write) -/
def mustWait (c : Ctx N) (i t : Nat) (u : UnitM N) : Bool :=
  (u.rd && (c.srcs i).any (fun r => (List.range i).any (fun h => c.writes h r && !c.doneBefore true h t))) ||
  (u.wr && (match c.dst? i with
    | none => false
    | some r =>
      (List.range i).any (fun h => (c.writes h r && !c.doneBefore true h t) || (c.reads h r && !c.doneBefore false h t))
      || (c.reads i r && !(c.doneBefore false i t || u.rd))))

def C02 (c : Ctx N) : Clauses :=
  let all := (List.range c.n).flatMap (fun i => (c.positions i).map (fun x => (i, x)))
  [ ("label D exactly when an older conflicting access is outstanding (else U)",
      all.all (fun (i, t, u, l) => l == .S || ((l == .D) == mustWait c i t u))),
    ("never D in a unit without locks",
      all.all (fun (_, _, u, l) => !(l == .D) || u.rd || u.wr)) ]

/-! ## C03 — one legal gap-free route per instruction -/

/-- labels of one stay in a unit read `D* U S*` (`openEnd`: the stay reaches the frozen last cycle of a stall
diagram, where `D+` alone is allowed too) -/
def stayOK (openEnd : Bool) : List Stall → Bool
  | [] => false
  | .D :: rest => if rest.isEmpty then openEnd else stayOK openEnd rest
  | .U :: rest => rest.all (· == .S)
  | .S :: _ => false

/-- split positions into maximal runs in the same unit -/
def stays : List (Nat × UnitM N × Stall) → List (List (Nat × UnitM N × Stall))
  | [] => []
  | x :: xs =>
    match stays xs with
    | [] => [[x]]
    | (y :: ys) :: rest => if x.2.1.name = y.2.1.name then (x :: y :: ys) :: rest else [x] :: (y :: ys) :: rest
    | [] :: rest => [x] :: rest

def consec : List Nat → Bool
  | [] => true
  | [_] => true
  | a :: b :: rest => decide (b = a + 1) && consec (b :: rest)

def pairsOK {α : Type} (f : α → α → Bool) : List α → Bool
  | [] => true
  | [_] => true
  | a :: b :: rest => f a b && pairsOK f (b :: rest)

def C03 (c : Ctx N) : Clauses :=
  let k := c.enteredCount
  let is := List.range k
  [ ("the instructions in the diagram are a prefix 0..k-1 of the program",
      (List.range c.n).all (fun i => c.issued i == decide (i < k))),
    ("only program instructions appear",
      (List.range c.T).all (fun t => c.units.all (fun u => (c.occ t u.name).all (fun h => decide (h.idx < c.n))))
      && (List.range c.T).all (fun t => (c.row t).all (fun e => e.2.isEmpty || decide (e.1 ∈ c.units.map (·.name))))),
    ("a returned diagram contains every instruction", c.stalled || k == c.n),
    ("one unit per cycle over one contiguous span", is.all (fun i => consec ((c.positions i).map (·.1)))),
    ("starts in an input port", is.all (fun i => match (c.positions i).head? with
        | some x => isInB c.p x.2.1.name
        | none => false)),
    ("every occupied unit supports the capability", is.all (fun i => (c.positions i).all (fun x => supports c.prog i x.2.1))),
    ("labels in each unit read D..D,U,S..S", is.all (fun i => (stays (c.positions i)).all (fun s =>
        stayOK (c.stalled && (s.getLast?.map (·.1 + 1)) == some c.T) (s.map (·.2.2))))),
    ("unit changes follow declared connections and never leave from D", is.all (fun i =>
        pairsOK (fun a b => a.2.1.name = b.2.1.name || (decide (a.2.1.name ∈ predsOf c.p b.2.1.name) && a.2.2 != .D)) (c.positions i))),
    ("ends unstalled in an output-boundary port", is.all (fun i => match (c.positions i).getLast? with
        | some x => (c.stalled && x.1 + 1 == c.T) || (isOutB c.p x.2.1.name && x.2.2 == .U)
        | none => false)) ]

/-! ## C04 — width -/

def C04 (c : Ctx N) : Clauses :=
  [ ("every unit hosts at most `width` instructions in every cycle",
      (List.range c.T).all (fun t => c.units.all (fun u => decide ((c.occ t u.name).length ≤ u.width)))) ]

/-! ## C05 — single memory port -/

def memEntries (c : Ctx N) (t : Nat) : Nat :=
  (c.units.map (fun u => ((c.occ t u.name).filter (fun h => c.entersAt t u.name h.idx && needsMem c.prog h.idx u)).length)).sum

def C05 (c : Ctx N) : Clauses :=
  [ ("at most one instruction per cycle enters a unit whose memory-access list names its capability",
      (List.range c.T).all (fun t => decide (memEntries c t ≤ 1))) ]

/-! ## C06 — in-order eager issue into the first usable input port -/

variable [LT N] [DecidableRel (α := N) (· < ·)]

/-- number of instructions that have appeared by the end of cycle `t` -/
def issuedBy (c : Ctx N) (t : Nat) : Nat :=
  ((List.range c.n).filter (fun i => match c.firstCycle i with | some f => decide (f ≤ t) | none => false)).length

/-- at `i`'s turn in cycle `t`: the memory port was already taken by a move or by an earlier issue -/
def memBefore (c : Ctx N) (t i : Nat) : Bool :=
  c.units.any (fun u => (c.occ t u.name).any (fun h =>
    h.idx != i && c.entersAt t u.name h.idx && needsMem c.prog h.idx u &&
    (!(c.firstCycle h.idx == some t) || decide (h.idx < i))))

/-- occupancy of input port `u` at `i`'s turn: residents that stayed plus instructions issued before `i` -/
def occAtTurn (c : Ctx N) (t i : Nat) (u : UnitM N) : Nat :=
  ((c.occ t u.name).filter (fun h => !c.entersAt t u.name h.idx || decide (h.idx < i))).length

def usableAtTurn (c : Ctx N) (t i : Nat) (u : UnitM N) : Bool :=
  decide (occAtTurn c t i u < u.width) && !(needsMem c.prog i u && memBefore c t i)

def C06 (c : Ctx N) : Clauses :=
  let k := c.enteredCount
  let is := List.range k
  let inputs := c.p.inBoundary
  [ ("instructions enter in program order",
      (List.range c.n).all (fun i => c.issued i == decide (i < k)) &&
      pairsOK (fun a b => match a, b with | some x, some y => decide (x ≤ y) | _, _ => false) (is.map c.firstCycle)),
    ("each enters at an input port supporting its capability", is.all (fun i => match (c.positions i).head? with
        | some x => isInB c.p x.2.1.name && supports c.prog i x.2.1
        | none => false)),
    ("held back only if every supporting input port is full or needs the taken memory port",
      (List.range c.T).all (fun t =>
        let nxt := issuedBy c t
        decide (c.n ≤ nxt) || inputs.all (fun u => !supports c.prog nxt u || c.full t u ||
          (needsMem c.prog nxt u && c.memTakenByOther t nxt)))),
    ("enters the usable input port whose name sorts first", is.all (fun i => match (c.positions i).head? with
        | some x => usableAtTurn c x.1 i x.2.1 &&
            inputs.all (fun u => !(supports c.prog i u && decide (u.name < x.2.1.name)) || !usableAtTurn c x.1 i u)
        | none => false)) ]

omit [LT N] [DecidableRel (α := N) (· < ·)]

/-! ## C07 — eager advance, oldest first -/

def C07 (c : Ctx N) : Clauses :=
  let ts := (List.range c.T).filter (· ≠ 0)
  [ ("no bubble: a ready instruction stays only if every supporting successor is full or memory-blocked",
      ts.all (fun t => c.units.all (fun u => isOutB c.p u.name || (c.occ (t - 1) u.name).all (fun h =>
        h.st == .D || !c.isIn t u.name h.idx ||
        (succsOf c.p u.name).all (fun v => !supports c.prog h.idx v || c.full t v ||
          (needsMem c.prog h.idx v && c.memTakenByOther t h.idx)))))),
    ("a ready instruction in an output port is gone in the next cycle",
      ts.all (fun t => c.units.all (fun u => !isOutB c.p u.name || (c.occ (t - 1) u.name).all (fun h =>
        h.st == .D || !c.isIn t u.name h.idx)))),
    ("oldest first: a younger instruction never takes a place an older ready one could have used",
      ts.all (fun t => c.units.all (fun d => (c.occ t d.name).all (fun y => !c.entersAt t d.name y.idx ||
        (predsOf c.p d.name).all (fun pn => (c.occ (t - 1) pn).all (fun x =>
          !(decide (x.idx < y.idx) && x.st != .D && supports c.prog x.idx d && c.isIn t pn x.idx) ||
          (needsMem c.prog x.idx d && !needsMem c.prog y.idx d && c.memTakenByOther t x.idx))))))) ]

/-! ## C08 — termination bound; stall error = genuine dead-lock -/

/-- like `mustWait` but counting accesses performed up to and including cycle `t` -/
def stillBlocked (c : Ctx N) (i t : Nat) (u : UnitM N) : Bool := mustWait c i (t + 1) u

/-- nothing can progress from the row with index `t` (`none` = the empty record before the first cycle) -/
def frozen (c : Ctx N) (t : Option Nat) : Bool :=
  let row : Util N := match t with | some t => c.row t | none => []
  let tEnd : Nat := match t with | some t => t + 1 | none => 0
  c.units.all (fun u => (row.get u.name).all (fun h =>
    match h.st with
    | .U => false
    | .S => !isOutB c.p u.name &&
        (succsOf c.p u.name).all (fun v => !supports c.prog h.idx v || decide (v.width ≤ (row.get v.name).length))
    | .D => mustWait c h.idx tEnd u)) &&
  (let nxt := match t with | some t => issuedBy c t | none => 0
   decide (c.n ≤ nxt) || c.p.inBoundary.all (fun u => !supports c.prog nxt u || decide (u.width ≤ (row.get u.name).length)))

def C08 (c : Ctx N) : Clauses :=
  [ ("finishes within instructions x (3 x units + 1) + 1 cycles",
      decide (c.T + (if c.stalled then 1 else 0) ≤ c.n * (3 * c.units.length + 1) + 1)),
    ("a stall error is raised only from a frozen cycle", !c.stalled || frozen c (if c.T = 0 then none else some (c.T - 1))),
    ("no earlier recorded cycle was frozen",
      (c.n == 0 || c.T == 0 || !frozen c none) &&
      (List.range (c.T - 1)).all (fun t => !frozen c (some t))) ]

/-- C06 on the stall path: the cycle in which the dead-lock is detected is not recorded, so `C06`'s "held back only
if …" has no row to speak about it; in that cycle nothing moved (no instruction took the memory port), hence the next
instruction was held back with every supporting input port *full* — in the last recorded row, or, for an empty diagram,
in the empty record before the first cycle (seeded change C06-10: a re-used hardware object that had lost its input
ports raised the stall error with an empty diagram). -/
def C06Stall (c : Ctx N) : Clauses :=
  [ ("a stall error: the next instruction found every supporting input port full",
      !c.stalled ||
      (let t : Option Nat := if c.T = 0 then none else some (c.T - 1)
       let row : Util N := match t with | some t => c.row t | none => []
       let nxt := match t with | some t => issuedBy c t | none => 0
       decide (c.n ≤ nxt) ||
         c.p.inBoundary.all (fun u => !supports c.prog nxt u || decide (u.width ≤ (row.get u.name).length)))) ]

/-- all simulator properties, by id -/
def simClauses [LT N] [DecidableRel (α := N) (· < ·)] (c : Ctx N) : List (String × Clauses) :=
  [("C01", C01 c), ("C02", C02 c), ("C03", C03 c), ("C04", C04 c), ("C05", C05 c), ("C06", C06 c), ("C07", C07 c), ("C08", C08 c)]

/-- `tbl` is a diagram the simulator hands to its caller for `p` and `prog`: the returned one (`stalled = false`) or
the one carried by the stall error (`stalled = true`). All simulator theorems quantify over these. -/
def Diagram [LT N] [DecidableRel (α := N) (· < ·)] (p : Proc N) (prog : List (Instr N)) (tbl : List (Util N))
    (stalled : Bool) : Prop :=
  (stalled = false ∧ simulate p prog = .done tbl) ∨ (stalled = true ∧ simulate p prog = .stall tbl)

/-- the context the Bool specs read, for a diagram of `simulate` -/
def ctx (p : Proc N) (prog : List (Instr N)) (tbl : List (Util N)) (stalled : Bool) : Ctx N :=
  { p := p, prog := prog, tbl := tbl, stalled := stalled }

end Spec
end ProcSim
