import ProcSim.Model.Loader
/-!
# Specifications of the loader properties C09 – C12

Declarative `Prop`s (`C09_Holds … C12_Holds`, `C11_Holds`) in terms of walks, capability routes and reachability,
and `Bool` checkers (`checkC09 … checkC12`) that the driver evaluates on the **implementation's** output.
Every checker is a list of named clauses (`clausesCxx`), so that the first failing clause can be reported.

This file shares only the *data types* of `Model/Loader.lean` (`UnitD`, `Desc`, `LoadError`, `DefectClass`,
`LockType`) and `sortNames`; it does not use the model's algorithm: where the model propagates capabilities in a
topological order, counts locks by dynamic programming and removes sinks iteratively, the specification talks
about paths ("some input port feeds `u` along units that all declare `c`", "`u` reaches an original output port
along kept connections", "every maximal route has exactly one lock") and the checkers enumerate paths / routes
with a fuel equal to the number of units.

Intended lemmas are stated next to each checker as `-- TODO(proof)`; nothing here is assumed.
-/
namespace ProcSim
namespace Loader
namespace Spec

/-- first failing clause of a list of named checks -/
def firstFail : List (String × Bool) → Option String
  | [] => none
  | (n, b) :: rest => if b then firstFail rest else some n

def allPass (l : List (String × Bool)) : Bool := l.all (·.2)
-- TODO(proof) firstFail l = none ↔ allPass l = true

section
variable {N : Type} [DecidableEq N]

/-! ## Generic capability graphs, walks and routes -/

/-- consecutive elements of the list are related by `R` (the empty and the one-element list qualify) -/
def WalkR (R : N → N → Prop) : List N → Prop
  | [] => True
  | [_] => True
  | a :: b :: l => R a b ∧ WalkR R (b :: l)

/-- what C09/C11 need to know about a processor: units, connections, which unit supports which capability, locks -/
structure RG (N : Type) where
  names : List N
  conn : N → N → Bool
  sup : N → N → Bool
  lock : LockType → N → Bool

namespace RG
variable (g : RG N)

def succs (u : N) : List N := g.names.filter (fun v => g.conn u v)
def preds (u : N) : List N := g.names.filter (fun v => g.conn v u)
def isIn (u : N) : Bool := (g.preds u).isEmpty
def isOut (u : N) : Bool := (g.succs u).isEmpty

/-- consecutive elements are connected (the empty and the one-element list are walks) -/
def Walk (r : List N) : Prop := WalkR (fun a b => g.conn a b = true) r

/-- acyclic: no closed walk with at least one connection -/
def Acyclic : Prop := ¬ ∃ (u : N) (l : List N), g.Walk (u :: l ++ [u])

/-- is there a walk with `k` connections starting at `u` (inside `names`)? -/
def longWalkFrom : Nat → N → Bool
  | 0, _ => true
  | k + 1, u => (g.succs u).any (longWalkFrom k)

/-- no walk with `|names|` connections exists (it would visit `|names|+1` units, i.e. one of them twice) -/
def acyclicB : Bool := g.names.all (fun u => !g.longWalkFrom g.names.length u)
-- TODO(proof) (connections only between `names`) → (acyclicB = true ↔ Acyclic):
--   ← a closed walk can be repeated to any length; → pigeonhole on a walk of |names|+1 units.

/-- a route of capability `c`: a non-empty walk all of whose units support `c` -/
def IsRoute (c : N) (r : List N) : Prop := r ≠ [] ∧ (∀ u ∈ r, g.sup u c = true) ∧ g.Walk r

/-- the route cannot be extended: its last unit has no successor supporting `c` -/
def IsMaxRoute (c : N) (r : List N) : Prop :=
  g.IsRoute c r ∧ ∀ u, r.getLast? = some u → ∀ v ∈ g.names, ¬ (g.conn u v = true ∧ g.sup v c = true)

/-- number of units on the route holding the lock of type `t` -/
def lockCount (t : LockType) (r : List N) : Nat := (r.filter (g.lock t)).length

/-- all maximal `c`-routes starting at `u` (which is assumed to support `c`), by enumeration with fuel -/
def routesFrom (c : N) : Nat → N → List (List N)
  | 0, u => [[u]]
  | k + 1, u =>
    let nx := (g.succs u).filter (fun v => g.sup v c)
    if nx.isEmpty then [[u]] else nx.flatMap (fun v => (routesFrom c k v).map (u :: ·))

def maxRoutes (c u : N) : List (List N) := g.routesFrom c g.names.length u
-- TODO(proof) Acyclic g → sup u c → (r ∈ maxRoutes c u ↔ IsMaxRoute c r ∧ r.head? = some u)

/-- `c` fed at `u` can reach an output port (a unit without any successor) through units supporting `c` -/
def ReachesOut (c u : N) : Prop := ∃ r, g.IsRoute c r ∧ r.head? = some u ∧ ∃ o, r.getLast? = some o ∧ g.isOut o = true

def reachesOutB (c u : N) : Bool := (g.maxRoutes c u).any (fun r => match r.getLast? with | some o => g.isOut o | none => false)
-- TODO(proof) Acyclic g → sup u c → (reachesOutB c u = true ↔ ReachesOut c u)   (an output port ends every route through it)

/-- exactly one read-locking and one write-locking unit on every maximal `c`-route from `u` -/
def LocksExact (c u : N) : Prop :=
  ∀ r, g.IsMaxRoute c r → r.head? = some u → g.lockCount .read r = 1 ∧ g.lockCount .write r = 1

def locksExactB (c u : N) : Bool :=
  (g.maxRoutes c u).all (fun r => g.lockCount .read r == 1 && g.lockCount .write r == 1)
-- TODO(proof) Acyclic g → sup u c → (locksExactB c u = true ↔ LocksExact c u)

end RG

/-! ## The graph of a processor object -/

/-- `a → b`: `a` is listed among the predecessors of `b` -/
def edgeB (p : Proc N) (a b : N) : Bool :=
  (p.outPorts ++ p.internal).any (fun f => decide (f.model.name = b) && decide (a ∈ f.preds))

def procNames (p : Proc N) : List N := p.allUnits.map (·.name)

def supB (p : Proc N) (u c : N) : Bool := p.allUnits.any (fun m => decide (m.name = u) && decide (c ∈ m.caps))

def lockB (p : Proc N) (t : LockType) (u : N) : Bool :=
  p.allUnits.any (fun m => decide (m.name = u) && (match t with | .read => m.rd | .write => m.wr))

def rgOfProc (p : Proc N) : RG N := ⟨procNames p, edgeB p, supB p, lockB p⟩

/-! ## C09 — accepted descriptions are well-formed -/

variable (fold : N → N)

/-- C09 for a loaded processor `p` (`fold` = case folding). Input ports are `in_out_ports ++ in_ports`, output
ports `in_out_ports ++ out_ports`. -/
structure C09_Holds (p : Proc N) : Prop where
  predsKnown : ∀ f ∈ p.outPorts ++ p.internal, ∀ q ∈ f.preds, q ∈ procNames p
  acyclic : (rgOfProc p).Acyclic
  widths : ∀ m ∈ p.allUnits, 0 < m.width
  uniqueNames : (procNames p).Pairwise (fun a b => fold a ≠ fold b)
  noEmptyUnit : ∀ m ∈ p.allUnits, m.caps ≠ []
  compatible : ∀ a b, edgeB p a b = true → ∃ c, supB p a c = true ∧ supB p b c = true
  reachesOutput : ∀ m ∈ p.inBoundary, ∀ c ∈ m.caps, (rgOfProc p).ReachesOut c m.name
  exactLocks : ∀ m ∈ p.inBoundary, ∀ c ∈ m.caps, (rgOfProc p).LocksExact c m.name

/-- `l.Pairwise (fold a ≠ fold b)` as a `Bool` -/
def uniqueUpToFold : List N → Bool
  | [] => true
  | a :: l => l.all (fun b => !decide (fold a = fold b)) && uniqueUpToFold l

def clausesC09 (p : Proc N) : List (String × Bool) :=
  let g := rgOfProc p
  [ ("C09.predsKnown: a predecessor is not a unit of the processor",
      (p.outPorts ++ p.internal).all (fun f => f.preds.all (fun q => decide (q ∈ procNames p)))),
    ("C09.acyclic: the connections contain a cycle", g.acyclicB),
    ("C09.widths: a unit has a non-positive width", p.allUnits.all (fun m => decide (0 < m.width))),
    ("C09.uniqueNames: two units have the same name up to case", uniqueUpToFold fold (procNames p)),
    ("C09.noEmptyUnit: a unit has no capability", p.allUnits.all (fun m => !m.caps.isEmpty)),
    ("C09.compatible: a connection joins units sharing no capability",
      (p.outPorts ++ p.internal).all (fun f => f.preds.all (fun q =>
        f.model.caps.any (fun c => supB p q c)))),
    ("C09.reachesOutput: a capability offered at an input port reaches no output port",
      p.inBoundary.all (fun m => m.caps.all (fun c => g.reachesOutB c m.name))),
    ("C09.exactLocks: a capability route from an input port does not cross exactly one read lock and one write lock",
      p.inBoundary.all (fun m => m.caps.all (fun c => g.locksExactB c m.name))) ]

def checkC09 (p : Proc N) : Bool := allPass (clausesC09 fold p)
-- TODO(proof) checkC09 fold p = true ↔ C09_Holds fold p
--   (clause by clause; later clauses use `acyclic`/`predsKnown` established by the earlier ones; `compatible` needs
--    unique names so that `f.model.caps` are the capabilities `supB` sees for `f.model.name`)

/-! ## The description as a graph (declarative reading, used by C10 and C11) -/

section Order
variable [LT N] [DecidableRel (α := N) (· < ·)]

/-- standard spelling of a unit name: the first unit with the same folded name -/
def stdName (d : Desc N) (x : N) : Option N := (d.units.map (·.name)).find? (fun y => decide (fold y = fold x))

/-- standard spelling of a capability: its first spelling in the units' capability lists, read in order -/
def stdCapName (d : Desc N) (c : N) : N :=
  ((d.units.flatMap (·.caps)).find? (fun y => decide (fold y = fold c))).getD c

/-- capabilities a unit declares, in standard spelling, each once -/
def declared (d : Desc N) (u : UnitD N) : List N := dedup (u.caps.map (stdCapName fold d))

/-- the connections of the description between standard unit names (only meaningful once all connections name two known units) -/
def connections (d : Desc N) : List (N × N) :=
  d.edges.filterMap (fun e => match e with
    | [a, b] => match stdName fold d a, stdName fold d b with
      | some a', some b' => some (a', b')
      | _, _ => none
    | _ => none)

/-- declarative view of a (syntactically correct) description -/
structure DG (N : Type) where
  units : List (UnitD N)          -- capabilities and ACL in standard spelling
  conns : List (N × N)

def dgOf (d : Desc N) : DG N :=
  ⟨d.units.map (fun u => { u with caps := declared fold d u, acl := u.acl.map (stdCapName fold d) }), connections fold d⟩
end Order

/-- lookup in a unit ↦ capabilities table (first entry of that name; none = no capability) -/
def capsIn (t : List (N × List N)) (u : N) : List N :=
  match t.find? (fun p => decide (p.1 = u)) with
  | some p => p.2
  | none => []

namespace DG
variable (g : DG N)

def names : List N := g.units.map (·.name)
def conn (a b : N) : Bool := decide ((a, b) ∈ g.conns)
def succs (u : N) : List N := g.names.filter (fun v => g.conn u v)
def preds (u : N) : List N := g.names.filter (fun v => g.conn v u)
/-- original input port: no incoming connection in the description -/
def origIn (u : N) : Bool := decide (u ∈ g.names) && (g.preds u).isEmpty
/-- original output port: no outgoing connection in the description -/
def origOut (u : N) : Bool := decide (u ∈ g.names) && (g.succs u).isEmpty
def declares (u c : N) : Bool := g.units.any (fun x => decide (x.name = u) && decide (c ∈ x.caps))
def unit? (u : N) : Option (UnitD N) := g.units.find? (fun x => decide (x.name = u))

/-- the description's own connection graph (every unit "supports" everything: used for walks only) -/
def rgAll : RG N := ⟨g.names, g.conn, fun _ _ => true, fun _ _ => false⟩

/-- **kept capability**: some original input port feeds `c` to `u` along connections whose units all declare `c` -/
def Feeds (c u : N) : Prop :=
  ∃ r : List N, g.rgAll.Walk r ∧ (∀ x ∈ r, g.declares x c = true) ∧
    (∃ i, r.head? = some i ∧ g.origIn i = true) ∧ r.getLast? = some u

/-- path search backwards from `u`, fuel = number of units -/
def feedsAux (c : N) : Nat → N → Bool
  | 0, _ => false
  | k + 1, u => g.declares u c && (g.origIn u || (g.preds u).any (feedsAux c k))

def feedsB (c u : N) : Bool := g.feedsAux c g.names.length u
-- TODO(proof) Acyclic g.rgAll → (feedsB c u = true ↔ Feeds c u)

def keptCaps (u : N) : List N :=
  match g.unit? u with
  | some x => x.caps.filter (fun c => g.feedsB c u)
  | none => []

/-- **kept connection**: a connection of the description whose ends share a kept capability -/
def KeptConn (a b : N) : Prop := g.conn a b = true ∧ ∃ c, g.Feeds c a ∧ g.Feeds c b

/-- **live unit**: it keeps some capability and reaches an original output port along kept connections -/
def Live (u : N) : Prop :=
  (∃ c, g.Feeds c u) ∧ ∃ r : List N, r.head? = some u ∧ (∃ o, r.getLast? = some o ∧ g.origOut o = true) ∧
    WalkR g.KeptConn r

/-! The checkers tabulate `keptCaps` once (`keptTable`) and look it up (`capsIn`), so that the path searches built on
top of each other do not recompute the lower ones at every step. -/

/-- unit ↦ kept capabilities, for every unit of the description -/
def keptTable : List (N × List N) := g.units.map (fun x => (x.name, x.caps.filter (fun c => g.feedsB c x.name)))
-- TODO(proof) capsIn g.keptTable u = g.keptCaps u

def keptConnT (t : List (N × List N)) (a b : N) : Bool :=
  g.conn a b && (capsIn t a).any (fun c => decide (c ∈ capsIn t b))

def keptConnB (a b : N) : Bool := g.keptConnT g.keptTable a b
-- TODO(proof) Acyclic → unique names → (keptConnB a b = true ↔ KeptConn a b)

/-- path search forwards from `u` along kept connections, fuel = number of units -/
def liveAux (t : List (N × List N)) : Nat → N → Bool
  | 0, _ => false
  | k + 1, u => !(capsIn t u).isEmpty && (g.origOut u || (g.succs u).any (fun v => g.keptConnT t u v && liveAux t k v))

def liveIn (t : List (N × List N)) : List N := g.names.filter (g.liveAux t g.names.length)

def liveB (u : N) : Bool := g.liveAux g.keptTable g.names.length u
-- TODO(proof) Acyclic → unique names → (liveB u = true ↔ Live u)

def liveUnits : List N := g.liveIn g.keptTable

/-- the usable part as a capability graph: live units, kept connections, kept capabilities, declared locks -/
def usableOf (t : List (N × List N)) (live : List N) : RG N :=
  ⟨live,
   fun a b => decide (a ∈ live) && decide (b ∈ live) && g.keptConnT t a b,
   fun u c => decide (c ∈ capsIn t u),
   fun lt u => match g.unit? u with
     | some x => (match lt with | .read => x.rd | .write => x.wr)
     | none => false⟩

def usable : RG N := let t := g.keptTable; g.usableOf t (g.liveIn t)

end DG

/-! ## C10 — the loaded processor is exactly the usable part -/

section Order
variable [LT N] [DecidableRel (α := N) (· < ·)]

/-- C10 for an acyclic, syntactically correct description `d` and the processor `p` loaded from it -/
structure C10_Holds (d : Desc N) (p : Proc N) : Prop where
  nodup : (procNames p).Nodup
  unitsExact : ∀ u, u ∈ procNames p ↔ (dgOf fold d).Live u
  capsExact : ∀ m ∈ p.allUnits, m.caps.Nodup ∧ ∀ c, c ∈ m.caps ↔ (dgOf fold d).Feeds c m.name
  retained : ∀ m ∈ p.allUnits, ∃ x ∈ (dgOf fold d).units,
      x.name = m.name ∧ x.width = (m.width : Int) ∧ x.rd = m.rd ∧ x.wr = m.wr ∧ List.Perm x.acl m.acl
  predsExact : ∀ a b, edgeB p a b = true ↔
      ((dgOf fold d).KeptConn a b ∧ (dgOf fold d).Live a ∧ (dgOf fold d).Live b)
  predsNodup : ∀ f ∈ p.outPorts ++ p.internal, f.preds.Nodup
  inputsOriginal : ∀ m ∈ p.inBoundary, (dgOf fold d).origIn m.name = true
  outputsOriginal : ∀ o ∈ p.outBoundary, (dgOf fold d).origOut o = true

def nodupB : List N → Bool
  | [] => true
  | a :: l => !decide (a ∈ l) && nodupB l

/-- equal as sets (used on duplicate-free lists) -/
def sameSet (a b : List N) : Bool := a.all (fun x => decide (x ∈ b)) && b.all (fun x => decide (x ∈ a))

def clausesC10 (d : Desc N) (p : Proc N) : List (String × Bool) :=
  let g := dgOf fold d
  let t := g.keptTable
  let live := g.liveIn t
  [ ("C10.nodup: a unit is listed twice", nodupB (procNames p)),
    ("C10.unitsExact: the loaded units are not exactly the units that keep a capability and reach an original output",
      sameSet (procNames p) live),
    ("C10.capsExact: a unit's capabilities are not exactly those an input port can feed it",
      p.allUnits.all (fun m => nodupB m.caps && sameSet m.caps (capsIn t m.name))),
    ("C10.retained: width, locks or memory-access list differ from the description",
      p.allUnits.all (fun m => match g.unit? m.name with
        | some x => decide (x.width = (m.width : Int)) && x.rd == m.rd && x.wr == m.wr && sortNames x.acl == sortNames m.acl
        | none => false)),
    ("C10.predsExact: the predecessors are not exactly the kept connections",
      (p.outPorts ++ p.internal).all (fun f => nodupB f.preds &&
        sameSet f.preds (live.filter (fun a => g.keptConnT t a f.model.name))) &&
      (p.inPorts ++ p.inOut).all (fun m => (live.filter (fun a => g.keptConnT t a m.name)).isEmpty)),
    ("C10.inputsOriginal: an input port of the result had an incoming connection in the description",
      p.inBoundary.all (fun m => g.origIn m.name)),
    ("C10.outputsOriginal: an output port of the result had an outgoing connection in the description",
      p.outBoundary.all (fun o => g.origOut o)) ]

def checkC10 (d : Desc N) (p : Proc N) : Bool := allPass (clausesC10 fold d p)
-- TODO(proof) syntactically correct d → Acyclic (dgOf fold d).rgAll → (checkC10 fold d p = true ↔ C10_Holds fold d p)

/-! ## C11 — rejected iff defective, documented class, real culprit -/

def hasDupName (d : Desc N) : Bool := !uniqueUpToFold fold (d.units.map (·.name))
def hasBadWidth (d : Desc N) : Bool := d.units.any (fun u => decide (u.width ≤ 0))
def hasBadEdge (d : Desc N) : Bool := d.edges.any (fun e => e.length != 2)
def hasUndef (d : Desc N) : Bool :=
  d.edges.any (fun e => e.length == 2 && e.any (fun x => (stdName fold d x).isNone))

/-- an original input port that keeps a capability but is cut off from every original output -/
def deadInputs (g : DG N) : List N :=
  let t := g.keptTable
  let live := g.liveIn t
  g.names.filter (fun u => g.origIn u && !(capsIn t u).isEmpty && !decide (u ∈ live))

def hasLiveInput (g : DG N) : Bool :=
  let live := g.liveUnits
  g.names.any (fun u => g.origIn u && decide (u ∈ live))

/-- capabilities offered at the input ports of a (usable) part, as (port, capability) pairs -/
def offered (u : RG N) (capsOf : N → List N) : List (N × N) :=
  (u.names.filter u.isIn).flatMap (fun p => (capsOf p).map (fun c => (p, c)))

/-- some capability route from an input port of the usable part has zero, several or inconsistent locks -/
def hasPathLock (u : RG N) (capsOf : N → List N) : Bool := (offered u capsOf).any (fun pc => !u.locksExactB pc.2 pc.1)
/-- some capability offered at an input port of the usable part reaches none of its output ports -/
def hasBlockedCap (u : RG N) (capsOf : N → List N) : Bool := (offered u capsOf).any (fun pc => !u.reachesOutB pc.2 pc.1)

def flag (b : Bool) (c : DefectClass) : List DefectClass := if b then [c] else []

/-- stage 6 of `defects`: the per-capability defects of the usable part -/
def capDefects (g : DG N) : List DefectClass :=
  let t := g.keptTable
  let u := g.usableOf t (g.liveIn t)
  flag (hasPathLock u (capsIn t)) .pathLock ++ flag (hasBlockedCap u (capsIn t)) .blockedCap

/-- the first non-empty stage; later stages are not even looked at -/
def firstStage : List (Unit → List DefectClass) → List DefectClass
  | [] => []
  | s :: rest => let r := s (); if r.isEmpty then firstStage rest else r

/-- The documented defects present in `d`, **staged** as the loader documents: the defects of a stage are only
defined (looked for) when all earlier stages are clean.
1. units: duplicate name (up to case), non-positive width;
2. connections: not exactly two names, unknown unit;
3. a cycle;
4. an input port cut off from every output;
5. no usable input port;
6. on the usable part: a capability route with zero, several or inconsistent locks; a capability that reaches no output. -/
def defects (d : Desc N) : List DefectClass :=
  firstStage
    [ fun _ => flag (hasDupName fold d) .dupElem ++ flag (hasBadWidth d) .badWidth,
      fun _ => flag (hasBadEdge d) .badEdge ++ flag (hasUndef fold d) .undefElem,
      fun _ => flag (!(dgOf fold d).rgAll.acyclicB) .cyclic,
      fun _ => flag (!(deadInputs (dgOf fold d)).isEmpty) .deadInput,
      fun _ => flag (!hasLiveInput (dgOf fold d)) .emptyProc,
      fun _ => capDefects (dgOf fold d) ]

/-- which stage a class belongs to (for reporting) -/
def stageOf : DefectClass → Nat
  | .dupElem | .badWidth => 1 | .badEdge | .undefElem => 2 | .cyclic => 3
  | .deadInput => 4 | .emptyProc => 5 | .pathLock | .blockedCap => 6

/-- `i < j`, `names[i] = old`, `names[j] = new` for some `i j` -/
def occursBefore (old new : N) : List N → Bool
  | [] => false
  | a :: l => (decide (a = old) && decide (new ∈ l)) || occursBefore old new l

/-- the fields of the exception name a real culprit of its class in `d` -/
def culpritReal (d : Desc N) : LoadError N → Bool
  | .dupElem old new => decide (fold old = fold new) && occursBefore old new (d.units.map (·.name))
  | .badWidth u w => d.units.any (fun x => decide (x.name = u) && decide (x.width = w)) && decide (w ≤ 0)
  | .badEdge e => decide (e ∈ d.edges) && e.length != 2
  | .undefElem x => d.edges.any (fun e => decide (x ∈ e)) && (stdName fold d x).isNone
  | .cyclic => !(dgOf fold d).rgAll.acyclicB
  | .deadInput p => decide (p ∈ deadInputs (dgOf fold d))
  | .emptyProc => !hasLiveInput (dgOf fold d)
  | .pathLock start t cap =>
    let u := (dgOf fold d).usable
    let counts := (u.maxRoutes cap start).map (u.lockCount t)
    decide (start ∈ u.names) && u.sup start cap &&
      (counts.any (fun k => decide (2 ≤ k)) ||
       counts.any (fun k => counts.any (fun k' => k != k')) ||
       (u.isIn start && counts.any (fun k => k == 0)))
  | .blockedCap cap port =>
    let u := (dgOf fold d).usable
    decide (port ∈ u.names) && u.isIn port && u.sup port cap && !u.reachesOutB cap port
-- TODO(proof) on the usable part `counts` ranges over the lock counts of exactly the maximal `cap`-routes from `start`.

/-- outcome of a load as the property sees it -/
inductive Outcome (N : Type)
  | accepted
  | rejected (e : LoadError N)

/-- C11: rejected iff a documented defect is present; the class is that of a present defect; the culprit is real.
(The third part of the statement, "the message contains the fields", is about the exception text and is checked
by `fieldsInMessage` in the driver.) -/
structure C11_Holds (d : Desc N) (o : Outcome N) : Prop where
  iff_defective : (match o with | .accepted => True | .rejected _ => False) ↔ defects fold d = []
  classPresent : ∀ e, o = .rejected e → e.cls ∈ defects fold d
  culprit : ∀ e, o = .rejected e → culpritReal fold d e = true

def clausesC11 (d : Desc N) : Outcome N → List (String × Bool)
  | .accepted => [ ("C11.accepted although a documented defect is present", (defects fold d).isEmpty) ]
  | .rejected e =>
    [ ("C11.rejected although no documented defect is present", !(defects fold d).isEmpty),
      ("C11.class: the exception class is not the class of a defect present at the first defective stage",
        decide (e.cls ∈ defects fold d)),
      ("C11.culprit: the exception's fields do not name a real culprit", culpritReal fold d e) ]

def checkC11 (d : Desc N) (o : Outcome N) : Bool := allPass (clausesC11 fold d o)
-- TODO(proof) checkC11 fold d o = true ↔ C11_Holds fold d o      (direct; both sides are the same three statements)

end Order

/-! ## C12 — sink-first order and port classification -/

/-- every internal unit comes before all of its predecessors: a unit is never a predecessor of itself or of a unit listed after it -/
def SinkFirst (l : List (FuncU N)) : Prop :=
  l.Pairwise (fun a b => a.model.name ∉ b.preds) ∧ ∀ a ∈ l, a.model.name ∉ a.preds

def sinkFirstB : List (FuncU N) → Bool
  | [] => true
  | a :: l => !decide (a.model.name ∈ a.preds) && l.all (fun b => !decide (a.model.name ∈ b.preds)) && sinkFirstB l
-- TODO(proof) sinkFirstB l = true ↔ SinkFirst l

section Order
variable [LT N] [DecidableRel (α := N) (· < ·)]

/-- output ports in name order -/
def OutSorted (l : List (FuncU N)) : Prop := l.Pairwise (fun a b => ¬ b.model.name < a.model.name)

def outSortedB : List (FuncU N) → Bool
  | [] => true
  | a :: l => l.all (fun b => !decide (b.model.name < a.model.name)) && outSortedB l
-- TODO(proof) outSortedB l = true ↔ OutSorted l

/-- the part of C12 that holds for *any* processor object, loaded or built from parts in any order -/
structure C12_Order (p : Proc N) : Prop where
  sinkFirst : SinkFirst p.internal
  outSorted : OutSorted p.outPorts

/-- C12 for a loaded processor: order, and classification by connectivity -/
structure C12_Holds (p : Proc N) : Prop extends C12_Order p where
  inputIff : ∀ u ∈ procNames p, u ∈ p.inPorts.map (·.name) ↔ ((∀ a, edgeB p a u = false) ∧ ∃ b ∈ procNames p, edgeB p u b = true)
  outputIff : ∀ u ∈ procNames p, u ∈ p.outPorts.map (·.model.name) ↔ ((∃ a, edgeB p a u = true) ∧ ∀ b ∈ procNames p, edgeB p u b = false)
  inOutIff : ∀ u ∈ procNames p, u ∈ p.inOut.map (·.name) ↔ ((∀ a, edgeB p a u = false) ∧ ∀ b ∈ procNames p, edgeB p u b = false)
  internalIff : ∀ u ∈ procNames p, u ∈ p.internal.map (·.model.name) ↔ ((∃ a, edgeB p a u = true) ∧ ∃ b ∈ procNames p, edgeB p u b = true)

def hasPredB (p : Proc N) (u : N) : Bool :=
  (p.outPorts ++ p.internal).any (fun f => decide (f.model.name = u) && !f.preds.isEmpty)
def hasSuccB (p : Proc N) (u : N) : Bool := (procNames p).any (fun b => edgeB p u b)

def clausesC12Order (p : Proc N) : List (String × Bool) :=
  [ ("C12.sinkFirst: an internal unit is listed after one of its predecessors", sinkFirstB p.internal),
    ("C12.outSorted: the output ports are not in name order", outSortedB p.outPorts) ]

def clausesC12 (p : Proc N) : List (String × Bool) :=
  clausesC12Order p ++
  [ ("C12.input: an input port has a predecessor or no successor",
      p.inPorts.all (fun m => !hasPredB p m.name && hasSuccB p m.name)),
    ("C12.output: an output port has no predecessor or has a successor",
      p.outPorts.all (fun f => hasPredB p f.model.name && !hasSuccB p f.model.name)),
    ("C12.inOut: an in-out port is not isolated",
      p.inOut.all (fun m => !hasPredB p m.name && !hasSuccB p m.name)),
    ("C12.internal: an internal unit lacks a predecessor or a successor",
      p.internal.all (fun f => hasPredB p f.model.name && hasSuccB p f.model.name)) ]

def checkC12Order (p : Proc N) : Bool := allPass (clausesC12Order p)
-- TODO(proof) checkC12Order p = true ↔ C12_Order p

def checkC12 (p : Proc N) : Bool := allPass (clausesC12 p)
-- TODO(proof) (procNames p).Nodup → checkC12 p = true ↔ C12_Holds p
--   (the four classes partition the units and the four connectivity patterns are exclusive, so the four
--    one-directional checks give the four equivalences)

end Order
end
end Spec
end Loader
end ProcSim

/-! ## The outcome of a model load, as C11 sees it (appended for `Props/C11.lean`; core Lean only) -/
namespace ProcSim
namespace Loader
namespace Spec

/-- accepted / rejected with the exception -/
def outcomeOf {N : Type} (r : Except (LoadError N) (Proc N)) : Outcome N :=
  match r with
  | .ok _ => .accepted
  | .error e => .rejected e

end Spec
end Loader
end ProcSim
