import ProcSim.Model.ICase
import ProcSim.Model.Bag
import ProcSim.Model.Program
import ProcSim.Model.Isa
import ProcSim.Model.Cli
/-!
# Specifications of C14 – C18 (core Lean only)

For every property: a readable `Prop` (`Cxx_…`), a `Bool`/`Option String` checker that evaluates it on an
*observed* output (`checkCxx… = none` means "holds", otherwise the name of the first failing clause), and — as
`-- TODO(proof)` comments — the statements to be proved in `Props/Cxx.lean`:
(a) checker ↔ `Prop`, (b) the model's output satisfies the `Prop` for every input.

The specs are deliberately phrased *differently* from the models (core `List` order instead of `strLt`, windows
instead of `isInfix`, `List.Perm`/counting instead of sorting, the structured instruction list instead of the
text, membership in the diagram instead of the transposition loops), so that the oracle is not the model again.
-/
namespace ProcSim
namespace Spec
namespace Text

open ICase (lower upper)

/-- pointwise relation between two lists of equal length (Mathlib's `List.Forall₂`, as a structural recursion) -/
def Forall2 {α β : Type} (R : α → β → Prop) : List α → List β → Prop
  | [], [] => True
  | a :: as, b :: bs => R a b ∧ Forall2 R as bs
  | _, _ => False

/-! ## C18 — `ICaseString` laws -/

/-- everything the harness observes on a pair of strings `(a, b)` wrapped as `A = ICaseString(a)`, `B = …(b)` -/
structure PairObs where
  eqAB : Bool    -- A == B
  eqBA : Bool    -- B == A
  neAB : Bool    -- A != B
  ltAB : Bool    -- A < B
  ltBA : Bool    -- B < A
  leAB : Bool    -- A <= B
  leBA : Bool    -- B <= A
  gtAB : Bool    -- A > B
  geAB : Bool    -- A >= B
  bInA : Bool    -- b in A
  aInB : Bool    -- a in B
  hashEq : Bool  -- hash(A) == hash(B)
  strA : List Char  -- str(A)
  strB : List Char  -- str(B)
deriving DecidableEq, Repr

/-- the model's observation; `h` is the arbitrary hash of the folded text -/
def modelPairObs (h : List Char → Nat) (a b : List Char) : PairObs :=
  let A : ICase.ICaseString := ⟨a⟩
  let B : ICase.ICaseString := ⟨b⟩
  { eqAB := ICase.eq A B, eqBA := ICase.eq B A, neAB := ICase.ne A B,
    ltAB := ICase.lt A B, ltBA := ICase.lt B A, leAB := ICase.le A B, leBA := ICase.le B A,
    gtAB := ICase.gt A B, geAB := ICase.ge A B,
    bInA := ICase.contains A b, aInB := ICase.contains B a,
    hashEq := ICase.hash h A == ICase.hash h B, strA := ICase.str A, strB := ICase.str B }

/-- `p` occurs in `s` as a contiguous block -/
def Occurs (p s : List Char) : Prop := ∃ pre suf, s = pre ++ p ++ suf

/-- window search: some `drop i` of `s` starts with `p` -/
def occursB (p s : List Char) : Bool :=
  (List.range (s.length + 1)).any (fun i => ((s.drop i).take p.length) == p)

/-- C18: equal iff lower-cased texts are equal; equal ⇒ equal hashes; ordered as the lower-cased texts
(core `List` order on `Char` = code-point lexicographic); containment ignoring case; `str` = original spelling. -/
def C18_Holds (a b : List Char) (o : PairObs) : Prop :=
  (o.eqAB = true ↔ lower a = lower b) ∧ (o.eqBA = true ↔ lower b = lower a) ∧ (o.neAB = !o.eqAB) ∧
  (o.eqAB = true → o.hashEq = true) ∧
  (o.ltAB = true ↔ lower a < lower b) ∧ (o.ltBA = true ↔ lower b < lower a) ∧
  (o.leAB = true ↔ lower a ≤ lower b) ∧ (o.leBA = true ↔ lower b ≤ lower a) ∧
  (o.gtAB = true ↔ lower b < lower a) ∧ (o.geAB = true ↔ lower b ≤ lower a) ∧
  (o.bInA = true ↔ Occurs (lower b) (lower a)) ∧ (o.aInB = true ↔ Occurs (lower a) (lower b)) ∧
  o.strA = a ∧ o.strB = b

def checkC18 (a b : List Char) (o : PairObs) : Option String :=
  let la := lower a
  let lb := lower b
  if o.eqAB != (la == lb) then some "eq-iff-lower-equal"
  else if o.eqBA != (lb == la) then some "eq-symmetric"
  else if o.neAB != !o.eqAB then some "ne-is-not-eq"
  else if o.eqAB && !o.hashEq then some "equal-hash-equally"
  else if o.ltAB != decide (la < lb) then some "lt-as-lower-texts"
  else if o.ltBA != decide (lb < la) then some "lt-as-lower-texts(swapped)"
  else if o.leAB != decide (la ≤ lb) then some "le-as-lower-texts"
  else if o.leBA != decide (lb ≤ la) then some "le-as-lower-texts(swapped)"
  else if o.gtAB != decide (lb < la) then some "gt-as-lower-texts"
  else if o.geAB != decide (lb ≤ la) then some "ge-as-lower-texts"
  else if o.bInA != occursB lb la then some "contains-ignoring-case"
  else if o.aInB != occursB la lb then some "contains-ignoring-case(swapped)"
  else if o.strA != a then some "str-original-spelling"
  else if o.strB != b then some "str-original-spelling(b)"
  else none
/-- C18 read literally for *supplied* lower-cased texts `la = str.lower(a)`, `lb = str.lower(b)`: whatever the
folding is (Python's Unicode-aware `str.lower` for non-ASCII text, where the harness supplies the two folded texts), the
observations must be those of the folded texts.  `C18_Holds a b o` is the instance `la = lower a`, `lb = lower b`. -/
def C18_HoldsFolded (la lb a b : List Char) (o : PairObs) : Prop :=
  (o.eqAB = true ↔ la = lb) ∧ (o.eqBA = true ↔ lb = la) ∧ (o.neAB = !o.eqAB) ∧
  (o.eqAB = true → o.hashEq = true) ∧
  (o.ltAB = true ↔ la < lb) ∧ (o.ltBA = true ↔ lb < la) ∧
  (o.leAB = true ↔ la ≤ lb) ∧ (o.leBA = true ↔ lb ≤ la) ∧
  (o.gtAB = true ↔ lb < la) ∧ (o.geAB = true ↔ lb ≤ la) ∧
  (o.bInA = true ↔ Occurs lb la) ∧ (o.aInB = true ↔ Occurs la lb) ∧
  o.strA = a ∧ o.strB = b

def checkC18Folded (la lb a b : List Char) (o : PairObs) : Option String :=
  if o.eqAB != (la == lb) then some "eq-iff-lower-equal"
  else if o.eqBA != (lb == la) then some "eq-symmetric"
  else if o.neAB != !o.eqAB then some "ne-is-not-eq"
  else if o.eqAB && !o.hashEq then some "equal-hash-equally"
  else if o.ltAB != decide (la < lb) then some "lt-as-lower-texts"
  else if o.ltBA != decide (lb < la) then some "lt-as-lower-texts(swapped)"
  else if o.leAB != decide (la ≤ lb) then some "le-as-lower-texts"
  else if o.leBA != decide (lb ≤ la) then some "le-as-lower-texts(swapped)"
  else if o.gtAB != decide (lb < la) then some "gt-as-lower-texts"
  else if o.geAB != decide (lb ≤ la) then some "ge-as-lower-texts"
  else if o.bInA != occursB lb la then some "contains-ignoring-case"
  else if o.aInB != occursB la lb then some "contains-ignoring-case(swapped)"
  else if o.strA != a then some "str-original-spelling"
  else if o.strB != b then some "str-original-spelling(b)"
  else none
-- TODO(proof) checkC18_iff : checkC18 a b o = none ↔ C18_Holds a b o
-- TODO(proof) C18_eq / C18_hash / C18_order / C18_contains / C18_str, bundled as
--   C18_model : ∀ h a b, C18_Holds a b (modelPairObs h a b)
--   (needs  strLt_iff : ICase.strLt x y = true ↔ x < y   and   isInfix_iff : ICase.isInfix p s = true ↔ Occurs p s)

/-- the order/equality laws on three strings, evaluated on the observations of (a,b), (b,c), (a,c) alone -/
def C18_TripleLaws (ab bc ac : PairObs) : Prop :=
  (ab.eqAB = true → bc.eqAB = true → ac.eqAB = true) ∧
  (ab.ltAB = true → bc.ltAB = true → ac.ltAB = true) ∧
  (ab.eqAB = true → ac.ltAB = bc.ltAB) ∧ (bc.eqAB = true → ac.ltAB = ab.ltAB) ∧
  (ab.eqAB = true → ab.hashEq = true → bc.hashEq = ac.hashEq)

/-- exactly one of `A < B`, `A == B`, `B < A` -/
def trichotomyB (o : PairObs) : Bool :=
  (o.ltAB && !o.eqAB && !o.ltBA) || (!o.ltAB && o.eqAB && !o.ltBA) || (!o.ltAB && !o.eqAB && o.ltBA)

def checkC18Triple (ab bc ac : PairObs) : Option String :=
  if !(trichotomyB ab && trichotomyB bc && trichotomyB ac) then some "trichotomy"
  else if ab.eqAB && bc.eqAB && !ac.eqAB then some "eq-transitive"
  else if ab.ltAB && bc.ltAB && !ac.ltAB then some "lt-transitive"
  else if ab.eqAB && (ac.ltAB != bc.ltAB) then some "lt-respects-eq(left)"
  else if bc.eqAB && (ac.ltAB != ab.ltAB) then some "lt-respects-eq(right)"
  else if ab.eqAB && ab.hashEq && (bc.hashEq != ac.hashEq) then some "hash-respects-eq"
  else none
-- TODO(proof) C18_triple : ∀ h a b c, checkC18Triple (modelPairObs h a b) (modelPairObs h b c) (modelPairObs h a c) = none
--   (for an injective-on-folded-texts or arbitrary `h`: the hash clause only needs `eq → same key`)

/-! ## C17 — cycle records compare as multisets per unit -/

section C17
variable {K V : Type} [DecidableEq K] [DecidableEq V]

open Bag (BagValDict)

/-- same multiset under every key; a missing key and an empty list are the same thing -/
def C17_SameBags (a b : BagValDict K V) : Prop := ∀ k, List.Perm (Bag.get a k) (Bag.get b k)

/-- counting formulation of `List.Perm` -/
def permB (x y : List V) : Bool :=
  x.length == y.length && x.all (fun v => x.count v == y.count v)

def sameBagsB (a b : BagValDict K V) : Bool :=
  (AMap.keys a ++ AMap.keys b).all (fun k => permB (Bag.get a k) (Bag.get b k))
-- TODO(proof) sameBagsB_iff : sameBagsB a b = true ↔ C17_SameBags a b

/-- number of distinct keys holding at least one entry -/
def nonEmptyKeys (a : BagValDict K V) : Nat :=
  ((dedup (AMap.keys a)).filter (fun k => !(Bag.get a k).isEmpty)).length

/-- observations on a pair of records -/
structure BagObs where
  eqAB : Bool       -- a == b
  eqBA : Bool       -- b == a
  eqAB2 : Bool      -- a == b again (after the look-ups of the first comparison inserted empty lists)
  lenA : Nat        -- len(a) before any comparison
  lenB : Nat
  lenA2 : Nat       -- len(a) after the comparisons
  reprA : String
  reprB : String
  reprA2 : String   -- repr(a) after the comparisons
deriving DecidableEq, Repr

/-- C17: `==` ⇔ same multiset under every unit (order and empty units irrelevant); `len` counts non-empty
units; equal records print identically; comparing changes nothing observable. -/
def C17_Holds (a b : BagValDict K V) (o : BagObs) : Prop :=
  (o.eqAB = true ↔ C17_SameBags a b) ∧ (o.eqBA = true ↔ C17_SameBags b a) ∧ o.eqAB2 = o.eqAB ∧
  o.lenA = nonEmptyKeys a ∧ o.lenB = nonEmptyKeys b ∧ o.lenA2 = o.lenA ∧
  (C17_SameBags a b → o.reprA = o.reprB) ∧ o.reprA2 = o.reprA

def checkC17 (a b : BagValDict K V) (o : BagObs) : Option String :=
  if o.eqAB != sameBagsB a b then some "eq-iff-same-multisets"
  else if o.eqBA != sameBagsB b a then some "eq-iff-same-multisets(swapped)"
  else if o.eqAB2 != o.eqAB then some "eq-stable-after-comparison"
  else if o.lenA != nonEmptyKeys a then some "len-counts-nonempty-units"
  else if o.lenB != nonEmptyKeys b then some "len-counts-nonempty-units(b)"
  else if o.lenA2 != o.lenA then some "len-stable-after-comparison"
  else if sameBagsB a b && o.reprA != o.reprB then some "equal-records-print-identically"
  else if o.reprA2 != o.reprA then some "repr-stable-after-comparison"
  else none
-- TODO(proof) checkC17_iff : NoDupKeys a → NoDupKeys b → (checkC17 a b o = none ↔ C17_Holds a b o)

/-- the model's observation (pure `beq`; `beqM` gives the record after the comparison) -/
def modelBagObs (leK : K → K → Bool) (le : V → V → Bool) (kp : K → String) (vp : V → String)
    (a b : BagValDict K V) : BagObs :=
  let r := Bag.beqM le a b
  { eqAB := r.1, eqBA := Bag.beq le b a, eqAB2 := (Bag.beqM le r.2 b).1,
    lenA := Bag.len a, lenB := Bag.len b, lenA2 := Bag.len r.2,
    reprA := Bag.repr leK le kp vp a, reprB := Bag.repr leK le kp vp b, reprA2 := Bag.repr leK le kp vp r.2 }

/-- `le` is a total order whose equivalence is equality (true of `HI.le` and of `≤` on numbers) -/
def TotalOrderB (le : V → V → Bool) : Prop :=
  (∀ x y, le x y = true ∨ le y x = true) ∧ (∀ x y z, le x y = true → le y z = true → le x z = true) ∧
  (∀ x y, le x y = true → le y x = true → x = y)

-- TODO(proof) C17_eq_iff_multiset : TotalOrderB le → NoDupKeys a → NoDupKeys b →
--     (Bag.beq le a b = true ↔ C17_SameBags a b)
--   (isort of permutations agree under a total order; conversely equal sorted lists are permutations; the length
--    test + "every non-empty entry of b matches" gives the keys of a not in b empty by counting)
-- TODO(proof) C17_beqM : (Bag.beqM le a b).1 = Bag.beq le a b ∧ ∀ k, Bag.get (Bag.beqM le a b).2 k = Bag.get a k
-- TODO(proof) C17_len : NoDupKeys a → Bag.len a = nonEmptyKeys a
-- TODO(proof) C17_repr : TotalOrderB le → TotalOrderB leK → NoDupKeys a → NoDupKeys b → C17_SameBags a b →
--     Bag.repr leK le kp vp a = Bag.repr leK le kp vp b          (for arbitrary printers kp, vp)
-- TODO(proof) C17_model : … → C17_Holds a b (modelBagObs leK le kp vp a b)
end C17

/-! ## C14 — program text parses to the written instructions -/

open Program (ProgInstr ParseError isWs sortedUniq)

/-- an instruction as written: mnemonic and operand tokens (destination first); a corrupted line may have no
operand or empty operands -/
structure SrcInstr where
  name : List Char
  ops : List (List Char)
deriving DecidableEq, Repr, Inhabited

/-- the free choices of a rendering of one instruction line -/
structure LineWs where
  blanks : List (List Char) := []              -- blank lines before this line
  pre : List Char := []                        -- leading blanks
  sep : List Char := [' ']                     -- blanks between mnemonic and operands (non-empty)
  commas : List (List Char × List Char) := []  -- blanks before / after each comma (missing ones: none)
  post : List Char := []                       -- trailing blanks (may contain the line terminator)
deriving DecidableEq, Repr, Inhabited

def joinOps : List (List Char) → List (List Char × List Char) → List Char
  | [], _ => []
  | [o], _ => o
  | o :: o' :: os, [] => o ++ [','] ++ joinOps (o' :: os) []
  | o :: o' :: os, (l, r) :: cs => o ++ l ++ [','] ++ r ++ joinOps (o' :: os) cs

def renderLine (i : SrcInstr) (w : LineWs) : List Char :=
  w.pre ++ i.name ++ w.sep ++ joinOps i.ops w.commas ++ w.post

/-- instruction list × whitespace choices → text lines (`tail` = blank lines after the last instruction) -/
def renderProgram : List SrcInstr → List LineWs → List (List Char) → List (List Char)
  | [], _, tail => tail
  | i :: is, [], tail => renderLine i {} :: renderProgram is [] tail
  | i :: is, w :: ws, tail => w.blanks ++ renderLine i w :: renderProgram is ws tail

/-- single-fault corruptions of instruction `j` (0-based); operand positions are 1-based -/
inductive Fault
  | noOps (j : Nat)               -- all operands removed
  | emptyOp (j k : Nat)           -- operand k replaced by nothing
  | extraEmpty (j k : Nat)        -- an empty operand inserted at position k (k = 1: leading comma, k = len+1: trailing comma)
deriving DecidableEq, Repr

def setNth {α : Type} (x : α) : Nat → List α → List α
  | _, [] => []
  | 0, _ :: ys => x :: ys
  | k + 1, y :: ys => y :: setNth x k ys

def insertNth {α : Type} (x : α) : Nat → List α → List α
  | 0, ys => x :: ys
  | _ + 1, [] => [x]
  | k + 1, y :: ys => y :: insertNth x k ys

def mapNth {α : Type} (f : α → α) : Nat → List α → List α
  | _, [] => []
  | 0, y :: ys => f y :: ys
  | k + 1, y :: ys => y :: mapNth f k ys

def applyFault : Fault → List SrcInstr → List SrcInstr
  | .noOps j, is => mapNth (fun i => { i with ops := [] }) j is
  | .emptyOp j k, is => mapNth (fun i => { i with ops := setNth [] (k - 1) i.ops }) j is
  | .extraEmpty j k, is => mapNth (fun i => { i with ops := insertNth [] (k - 1) i.ops }) j is

/-- a token: non-empty, no blank, no comma -/
def tokOK (t : List Char) : Bool := !t.isEmpty && t.all (fun c => !isWs c && c != ',')
/-- a mnemonic: non-empty, no blank -/
def nameOK (t : List Char) : Bool := !t.isEmpty && t.all (fun c => !isWs c)
def blankB (s : List Char) : Bool := s.all isWs
/-- written instruction: mnemonic fine, every operand a token or (corruption) empty -/
def instrOK (i : SrcInstr) : Bool := nameOK i.name && i.ops.all (fun o => o.isEmpty || tokOK o)
def wsOK (w : LineWs) : Bool :=
  w.blanks.all blankB && blankB w.pre && blankB w.sep && !w.sep.isEmpty &&
  w.commas.all (fun p => blankB p.1 && blankB p.2) && blankB w.post

/-- the instruction a well-formed line stands for: registers in their first spelling, sources still a list -/
structure Written where
  name : List Char
  dst : List Char
  srcs : List (List Char)
  line : Nat
deriving DecidableEq, Repr

def firstEmpty : Nat → List (List Char) → Option Nat
  | _, [] => none
  | k, o :: os => if o.isEmpty then some k else firstEmpty (k + 1) os

/-- first spelling among the operands read so far, else the operand itself -/
def firstSpelling (seen : List (List Char)) (op : List Char) : List Char :=
  match seen.find? (fun s => lower s == lower op) with
  | some s => s
  | none => op

def stdOps : List (List Char) → List (List Char) → List (List Char)
  | _, [] => []
  | seen, o :: os => firstSpelling seen o :: stdOps (seen ++ [o]) os

/-- what the text of `is` rendered with `ws` means. `seen` = operands of earlier lines in reading order,
`line` = physical number of the next line. The first defective line decides. -/
def expectedFrom : List (List Char) → Nat → List SrcInstr → List LineWs → Except ParseError (List Written)
  | _, _, [], _ => .ok []
  | seen, line, i :: is, wss =>
    let ln := line + (wss.headD {}).blanks.length
    match i.ops with
    | [] => .error (.noOperands ln i.name)
    | [[]] => .error (.noOperands ln i.name)      -- "add  " strips to "add"
    | o :: os =>
      match firstEmpty 1 (o :: os) with
      | some k => .error (.emptyOperand ln i.name k)
      | none =>
        match expectedFrom (seen ++ o :: os) (ln + 1) is wss.tail with
        | .error e => .error e
        | .ok rest =>
          .ok ({ name := i.name, dst := firstSpelling seen o, srcs := stdOps (seen ++ [o]) os, line := ln } :: rest)

def expected (is : List SrcInstr) (ws : List LineWs) : Except ParseError (List Written) := expectedFrom [] 1 is ws

def strictSorted : List (List Char) → Bool
  | [] => true
  | [_] => true
  | a :: b :: r => decide (a < b) && strictSorted (b :: r)

def sameMembers (x y : List (List Char)) : Bool := x.all (fun a => y.contains a) && y.all (fun a => x.contains a)

/-- a parsed instruction is the written one: mnemonic = first token, destination = first operand, sources = the
*set* of remaining operands (as the strictly increasing tuple), 1-based physical line number -/
def Matches (w : Written) (p : ProgInstr) : Prop :=
  p.name = w.name ∧ p.dst = w.dst ∧ p.line = w.line ∧ strictSorted p.srcs = true ∧ ∀ x, x ∈ p.srcs ↔ x ∈ w.srcs

/-- an observed syntax error: class name, `line` and `instr` fields, message -/
structure ErrObs where
  cls : String
  line : Nat
  instr : List Char
  msg : String
deriving DecidableEq, Repr

/-- an observed result of `read_program` -/
inductive ParseObs
  | ok (prog : List ProgInstr)
  | err (e : ErrObs)
  | other (cls : String)       -- any other exception
deriving Repr

def words (s : String) : List String := (s.splitOn " ").filter (· != "")

/-- the message names operand position `k`, the line and the mnemonic -/
def namesPosition (e : ErrObs) (k : Nat) : Bool := (words e.msg).contains (toString k)

def ErrMatches (want : ParseError) (e : ErrObs) : Prop :=
  e.cls = "CodeError" ∧ e.line = want.line ∧ e.instr = want.instr ∧
  match want with
  | .noOperands _ _ => True
  | .emptyOperand _ _ k => namesPosition e k = true

/-- C14 for the text `renderProgram is ws tail` -/
def C14_Holds (is : List SrcInstr) (ws : List LineWs) (out : ParseObs) : Prop :=
  match expected is ws, out with
  | .ok want, .ok got => Forall2 Matches want got
  | .error want, .err e => ErrMatches want e
  | _, _ => False

def checkInstrs : Nat → List Written → List ProgInstr → Option String
  | _, [], [] => none
  | _, [], _ :: _ => some "more instructions than non-blank lines"
  | _, _ :: _, [] => some "fewer instructions than non-blank lines"
  | j, w :: ws, p :: ps =>
    if p.name != w.name then some s!"instruction {j}: mnemonic is the first token"
    else if p.dst != w.dst then some s!"instruction {j}: destination is the first operand (first spelling)"
    else if p.line != w.line then some s!"instruction {j}: 1-based physical line number"
    else if !strictSorted p.srcs then some s!"instruction {j}: sources sorted and duplicate-free"
    else if !sameMembers p.srcs w.srcs then some s!"instruction {j}: sources are the set of remaining operands"
    else checkInstrs (j + 1) ws ps

def checkC14 (is : List SrcInstr) (ws : List LineWs) (out : ParseObs) : Option String :=
  match expected is ws, out with
  | .ok want, .ok got => checkInstrs 0 want got
  | .ok _, .err e => some s!"well-formed text rejected ({e.cls})"
  | .error _, .ok _ => some "corrupted line accepted"
  | _, .other c => some s!"unexpected exception {c}"
  | .error want, .err e =>
    if e.cls != "CodeError" then some "syntax error class"
    else if e.line != want.line then some "syntax error carries the line number"
    else if e.instr != want.instr then some "syntax error carries the mnemonic"
    else match want with
      | .noOperands _ _ => none
      | .emptyOperand _ _ k => if namesPosition e k then none else some "message states the empty operand's position"
-- TODO(proof) checkC14_iff : checkC14 is ws out = none ↔ C14_Holds is ws out
-- TODO(proof) C14_parse_render : (∀ i ∈ is, instrOK i = true) → (∀ w ∈ ws, wsOK w = true) → (∀ l ∈ tail, blankB l = true) →
--     match Program.readProgram (renderProgram is ws tail), expected is ws with
--     | .ok got, .ok want => Forall2 Matches want got
--     | .error e, .error want => e = want            -- same constructor ⇒ same line, mnemonic, position, message
--     | _, _ => False
--   (lemmas: strip (pre ++ body ++ post) = body for blank pre/post and body with non-blank ends;
--    splitOnce (name ++ sep ++ rest) = (name, some rest); splitOperands (joinOps ops commas) = ops for tokens;
--    the registry invariant  reg.get? (lower x) = (seen.find? (lower · == lower x))  ;
--    sortedUniq l strictly sorted with the members of l)
-- TODO(proof) C14_syntax_errors : instance of the above for `applyFault f is` with `is` fault-free:
--     readProgram … = .error (.noOperands/.emptyOperand (line of instruction j) name k)

/-- model observation in the observed form (for the driver) -/
def modelParseObs (lines : List (List Char)) : ParseObs :=
  match Program.readProgram lines with
  | .ok p => .ok p
  | .error e => .err { cls := "CodeError", line := e.line, instr := e.instr, msg := e.message }

/-! ## C15 — instruction sets load and programs compile faithfully -/

open Isa (Str IsaError CompileError)

/-- two entries whose mnemonics are equal ignoring case -/
def Collides (isa : List (Str × Str)) : Prop :=
  ∃ i j : Nat, i < j ∧ ∃ x y : Str × Str, isa[i]? = some x ∧ isa[j]? = some y ∧ lower x.1 = lower y.1

def collidesB : List (Str × Str) → Bool
  | [] => false
  | e :: es => es.any (fun f => lower f.1 == lower e.1) || collidesB es

/-- `cap` is offered by the processor (`caps` = union over input and in-out ports), ignoring case -/
def offeredB (caps : List Str) (cap : Str) : Bool := caps.any (fun c => lower c == lower cap)

/-- observed result of `load_isa` -/
inductive IsaObs
  | ok (items : List (Str × Str))                 -- the dict's items
  | dup (old new : Str)                           -- DupElemError fields
  | undef (cap : Str)                             -- UndefElemError field
  | other (cls : String)
deriving Repr

def lookup (m : List (Str × Str)) (k : Str) : Option Str := AMap.get? m k

/-- C15 (loading): accepted iff no collision and every capability offered; then exactly one upper-cased entry per
declared instruction, mapped to a spelling the processor uses; a rejection names a real collision (earlier
spelling, later spelling) or a really unsupported capability as written. -/
def C15_LoadHolds (isa : List (Str × Str)) (caps : List Str) (out : IsaObs) : Prop :=
  match out with
  | .ok m =>
    ¬ Collides isa ∧ (∀ e ∈ isa, offeredB caps e.2 = true) ∧ m.length = isa.length ∧
    (∀ e ∈ isa, ∃ std, lookup m (upper e.1) = some std ∧ std ∈ caps ∧ lower std = lower e.2) ∧
    (∀ kv ∈ m, ∃ e ∈ isa, kv.1 = upper e.1)
  | .dup old new =>
    ∃ i j : Nat, i < j ∧ ∃ x y : Str × Str, isa[i]? = some x ∧ isa[j]? = some y ∧ x.1 = old ∧ y.1 = new ∧ lower old = lower new
  | .undef cap => (∃ e ∈ isa, e.2 = cap) ∧ offeredB caps cap = false
  | .other _ => False

def realDup (old new : Str) : List (Str × Str) → Bool
  | [] => false
  | e :: es => (e.1 == old && es.any (fun f => f.1 == new)) || realDup old new es

def checkC15Load (isa : List (Str × Str)) (caps : List Str) (out : IsaObs) : Option String :=
  let defective := collidesB isa || isa.any (fun e => !offeredB caps e.2)
  match out with
  | .other c => some s!"unexpected exception {c}"
  | .ok m =>
    if defective then some "defective instruction set accepted"
    else if m.length != isa.length then some "one entry per declared instruction"
    else if !isa.all (fun e => match lookup m (upper e.1) with
        | some std => caps.contains std && lower std == lower e.2
        | none => false) then some "upper-cased mnemonic maps to the processor's spelling of its capability"
    else if !m.all (fun kv => isa.any (fun e => upper e.1 == kv.1)) then some "no entry beyond the declared ones"
    else none
  | .dup old new =>
    if !defective then some "sound instruction set rejected"
    else if !(lower old == lower new && realDup old new isa) then some "duplicate error names a real collision"
    else none
  | .undef cap =>
    if !defective then some "sound instruction set rejected"
    else if !(isa.any (fun e => e.2 == cap) && !offeredB caps cap) then some "unsupported-capability error names a real culprit"
    else none
-- TODO(proof) checkC15Load_iff : checkC15Load isa caps out = none ↔ C15_LoadHolds isa caps out
--   (needs `NoCaseDup caps` for the ⇐ direction of the spelling clause to be unambiguous — not required for ⇒)
-- TODO(proof) C15_isa_load / C15_isa_reject_iff :
--     ∀ isa caps, C15_LoadHolds isa caps (modelIsaObs isa caps)
--   (registry invariant: instrReg.get? (lower x) = first earlier mnemonic with that folding;
--    upper_eq_iff_lower_eq on ASCII ⇒ `AMap.set acc (upper instr)` always appends)

def modelIsaObs (isa : List (Str × Str)) (caps : List Str) : IsaObs :=
  match Isa.loadIsa isa caps with
  | .ok m => .ok m
  | .error (.dupInstr old new) => .dup old new
  | .error (.undefCap cap) => .undef cap

/-- C15 (offered set): the union, ignoring case, of the capabilities of all in-out and input ports -/
def C15_AbilitiesHolds (portCaps : List (List Str)) (out : List Str) : Prop :=
  (∀ c, offeredB out c = true ↔ ∃ p ∈ portCaps, offeredB p c = true) ∧
  (∀ c ∈ out, ∃ p ∈ portCaps, c ∈ p) ∧
  out.Pairwise (fun x y => lower x ≠ lower y)

def noCaseDup : List Str → Bool
  | [] => true
  | c :: cs => !cs.any (fun d => lower d == lower c) && noCaseDup cs

def checkC15Abilities (portCaps : List (List Str)) (out : List Str) : Option String :=
  let all := portCaps.flatten
  if !all.all (fun c => offeredB out c) then some "every port capability is offered"
  else if !out.all (fun c => all.contains c) then some "offered capabilities come from the ports (their spelling)"
  else if !noCaseDup out then some "offered set has one element per capability ignoring case"
  else none
-- TODO(proof) C15_abilities : C15_AbilitiesHolds portCaps (Isa.getAbilities portCaps)

/-- observed result of `compile_program` -/
inductive CompileObs
  | ok (prog : List (Instr Str))
  | undef (name : Str) (msg : String)             -- UndefElemError: element, message
  | other (cls : String)
deriving Repr

def firstUnsupported (isa : List (Str × Str)) : List ProgInstr → Option ProgInstr
  | [] => none
  | p :: ps => if (lookup isa (upper p.name)).isSome then firstUnsupported isa ps else some p

/-- C15 (compiling): order, length and operands preserved, mnemonic replaced by its capability; fails exactly
on the first unsupported mnemonic, reporting its name and line. -/
def C15_CompileHolds (isa : List (Str × Str)) (prog : List ProgInstr) (out : CompileObs) : Prop :=
  match firstUnsupported isa prog, out with
  | none, .ok hw =>
    Forall2 (fun (p : ProgInstr) (h : Instr Str) =>
      h.srcs = p.srcs ∧ h.dst = p.dst ∧ lookup isa (upper p.name) = some h.cap) prog hw
  | some p, .undef name msg => name = p.name ∧ (words msg).contains (toString p.line) = true
  | _, _ => False

def checkCompiled : Nat → List (Str × Str) → List ProgInstr → List (Instr Str) → Option String
  | _, _, [], [] => none
  | _, _, [], _ :: _ => some "compiled program longer than the source"
  | _, _, _ :: _, [] => some "compiled program shorter than the source"
  | j, isa, p :: ps, h :: hs =>
    if h.srcs != p.srcs then some s!"instruction {j}: sources preserved"
    else if h.dst != p.dst then some s!"instruction {j}: destination preserved"
    else if lookup isa (upper p.name) != some h.cap then some s!"instruction {j}: mnemonic replaced by its capability"
    else checkCompiled (j + 1) isa ps hs

def checkC15Compile (isa : List (Str × Str)) (prog : List ProgInstr) (out : CompileObs) : Option String :=
  match firstUnsupported isa prog, out with
  | _, .other c => some s!"unexpected exception {c}"
  | none, .ok hw => checkCompiled 0 isa prog hw
  | none, .undef _ _ => some "supported program rejected"
  | some _, .ok _ => some "unsupported mnemonic accepted"
  | some p, .undef name msg =>
    if name != p.name then some "error names the first unsupported mnemonic"
    else if !(words msg).contains (toString p.line) then some "error reports the line"
    else none
-- TODO(proof) checkC15Compile_iff : checkC15Compile isa prog out = none ↔ C15_CompileHolds isa prog out
-- TODO(proof) C15_compile : (∀ p ∈ prog, sortedUniq p.srcs = p.srcs) → C15_CompileHolds isa prog (modelCompileObs isa prog)

def modelCompileObs (isa : List (Str × Str)) (prog : List ProgInstr) : CompileObs :=
  match Isa.compileProgram isa prog with
  | .ok hw => .ok hw
  | .error e => .undef e.name e.message

/-! ## C16 — the printed table renders the diagram -/

section C16
variable {N : Type} [DecidableEq N]
open Cli (Cycle)

/-- cell in row `k` (1-based, row 0 is the header), column `t` (1-based, column 0 is the key); absent = empty -/
def cell (tbl : List (List String)) (k t : Nat) : String := ((tbl[k]?).bind (·[t]?)).getD ""

/-- `(i, L) ∈ tbl[t][u]` -/
def Hosted (d : List (Cycle N)) (t : Nat) (u : N) (i : Nat) (L : Stall) : Prop :=
  ∃ c, d[t]? = some c ∧ ({ idx := i, st := L } : HI) ∈ Bag.get c u

/-- last cycle (1-based) in which any unit hosts anything; 0 for an idle or empty diagram -/
def lastBusy : List (Cycle N) → Nat
  | [] => 0
  | c :: cs => let r := lastBusy cs; if r > 0 then r + 1 else if (Bag.items c).isEmpty then 0 else 1

/-- C16: header `"" , 1 … T`; one row per instruction keyed `I<k>`; cell `(k, t)` is `"<L>:<u>"` exactly when the
diagram has `(k-1, L)` in `tbl[t-1][u]`, and empty exactly when it has instruction `k-1` nowhere in that cycle. -/
def C16_Holds (sh : N → String) (d : List (Cycle N)) (n : Nat) (tbl : List (List String)) : Prop :=
  tbl.length = n + 1 ∧
  tbl[0]? = some ("" :: (List.range (lastBusy d)).map (fun t => toString (t + 1))) ∧
  (∀ k, 1 ≤ k → k ≤ n → cell tbl k 0 = "I" ++ toString k) ∧
  (∀ k t, 1 ≤ k → k ≤ n → 1 ≤ t →
    (∀ L u, cell tbl k t = L.code ++ ":" ++ sh u ↔ Hosted d (t - 1) u (k - 1) L) ∧
    (cell tbl k t = "" ↔ ∀ L u, ¬ Hosted d (t - 1) u (k - 1) L))

/-- all `"<L>:<u>"` of instruction `i` in one cycle record -/
def hostStrs (sh : N → String) (c : Cycle N) (i : Nat) : List String :=
  (c.map (fun p => (p.2.filter (fun h => h.idx == i)).map (fun h => h.st.code ++ ":" ++ sh p.1))).flatten

def checkRowCells (sh : N → String) (d : List (Cycle N)) (tbl : List (List String)) (k : Nat) : Nat → Nat → Option String
  | _, 0 => none
  | t, fuel + 1 =>
    let hs := match d[t - 1]? with
      | some c => hostStrs sh c (k - 1)
      | none => []
    let x := cell tbl k t
    let bad := match hs with
      | [] => x != ""
      | h :: rest => !(x == h && rest.all (· == h))
    if bad then some s!"cell (I{k}, {t}) is '<label>:<unit>' exactly when the diagram places the instruction there"
    else checkRowCells sh d tbl k (t + 1) fuel

def checkRows (sh : N → String) (d : List (Cycle N)) (tbl : List (List String)) (width : Nat) : Nat → Nat → Option String
  | _, 0 => none
  | k, fuel + 1 =>
    if cell tbl k 0 != "I" ++ toString k then some s!"row {k} is keyed I{k}"
    else match checkRowCells sh d tbl k 1 width with
      | some e => some e
      | none => checkRows sh d tbl width (k + 1) fuel

def checkC16 (sh : N → String) (d : List (Cycle N)) (n : Nat) (tbl : List (List String)) : Option String :=
  if tbl.length != n + 1 then some "one header and one row per instruction"
  else if tbl[0]? != some ("" :: (List.range (lastBusy d)).map (fun t => toString (t + 1))) then
    some "header lists cycles 1..T"
  else
    let width := tbl.foldl (fun m r => max m r.length) (d.length + 1)
    checkRows sh d tbl width 1 n
-- TODO(proof) checkC16_iff : Function.Injective sh → (checkC16 sh d n tbl = none ↔ C16_Holds sh d n tbl)
--   (the label is a single character, so `L.code ++ ":" ++ sh u` determines `(L, u)` for injective `sh`)

/-- every instruction `< n` appears, in one unit with one label per cycle, over contiguous cycles, and nothing
else appears (what C03's `routeOK` gives for a finished simulation) -/
def diagramOK (d : List (Cycle N)) (n : Nat) : Bool :=
  let occ (i : Nat) : List Nat := (d.map (fun c => ((c.map (fun p => p.2.filter (fun h => h.idx == i))).flatten).length))
  d.all (fun c => c.all (fun p => p.2.all (fun h => h.idx < n))) &&
  (List.range n).all (fun i =>
    let o := occ i
    o.all (· ≤ 1) && o.any (· == 1) &&
    -- contiguous: after the first 1 and a following 0, no further 1
    ((o.dropWhile (· == 0)).dropWhile (· == 1)).all (· == 0))
-- TODO(proof) C16_render_cells : diagramOK d n = true → NoDupKeys in every cycle →
--     ∃ tbl, Cli.render sh d n = .ok tbl ∧ C16_Holds sh d n tbl
--   (in particular the explicit `RenderError` results are unreachable for gap-free diagrams)
-- TODO(proof) C16_cli_composition : the CLI model is `render ∘ simulate ∘ compile ∘ (load, parse)` by definition,
--     and `routeOK` (C03) ⇒ `diagramOK`, so the printed table inherits C01–C08.
end C16

end Text
end Spec
end ProcSim

/-! ## C14 (appendix) — what a single-fault corruption must be answered with (used by `C14_syntax_errors`) -/
namespace ProcSim
namespace Spec
namespace Text

open Program (ParseError)

/-- a written instruction without fault: mnemonic fine, at least one operand, every operand a token -/
def faultFree (i : SrcInstr) : Bool := nameOK i.name && !i.ops.isEmpty && i.ops.all tokOK

/-- physical number of the line of instruction `j` (0-based) when the text starts at line `n`: the blank lines
chosen before instructions `0..j` are counted, each earlier instruction occupies one line -/
def lineFrom : Nat → List LineWs → Nat → Nat
  | n, ws, 0 => n + (ws.headD {}).blanks.length
  | n, ws, j + 1 => lineFrom (n + (ws.headD {}).blanks.length + 1) ws.tail j

/-- 1-based physical line of instruction `j` of `renderProgram is ws tail` -/
def lineOf (ws : List LineWs) (j : Nat) : Nat := lineFrom 1 ws j

/-- the syntax error that fault `f` of the fault-free list `is` must raise; `none`: the fault changes nothing
(instruction or operand index out of range).
* all operands removed → "No operands";
* operand `k` emptied → "Operand k empty" — but the sole operand emptied leaves the bare mnemonic → "No operands";
* an empty operand inserted at position `k` (clamped to `1 .. len+1`) → "Operand k empty". -/
def faultError (f : Fault) (is : List SrcInstr) (ws : List LineWs) : Option ParseError :=
  match f with
  | .noOps j => is[j]?.map (fun i => .noOperands (lineOf ws j) i.name)
  | .emptyOp j k =>
    is[j]?.bind (fun i =>
      if 1 ≤ k ∧ k ≤ i.ops.length then
        some (if i.ops.length = 1 then .noOperands (lineOf ws j) i.name else .emptyOperand (lineOf ws j) i.name k)
      else none)
  | .extraEmpty j k =>
    is[j]?.map (fun i => .emptyOperand (lineOf ws j) i.name (min (max k 1) (i.ops.length + 1)))

end Text
end Spec
end ProcSim
