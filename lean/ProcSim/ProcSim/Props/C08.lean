import ProcSim.Lemmas.TerminationBridge
import ProcSim.Props.C02
/-!
# C08 — the simulation always ends; a stall error means genuine dead-lock

"For every program and well-formed processor the simulator finishes within instructions × (3 × units + 1) + 1
cycles, either returning a diagram in which every instruction retires or raising a stall error; no other exception
escapes. A stall error is raised exactly when nothing can progress from the last recorded cycle, and it carries the
diagram up to that frozen cycle."

* `C08_bound` — clause 1 of `Spec.C08` for every diagram (no hypothesis on the processor).
* `C08_no_fuel_fault` — the real content of the bound: `simulate` is over (returned, stall or another fault) within
  `cycleBound p prog` cycles; the model's `Fault.fuel` is unreachable. Proof (`Lemmas/Termination.lean`): rank of an
  instruction = `0` before issue, `3·pos(unit) + 1/2/3` while hosted with label `D/U/S` (`pos` increases along every
  connection), `3·|units| + 1` once retired; no rank ever decreases, and in a productive cycle (new record ≠ old
  record as per-unit multisets) some rank strictly increases.
* `C08_outcome`, `C08_no_noUnit_badIndex`, `C08_no_fault_of_queue_ok` — which outcomes are possible; with the
  register-queue invariant of `Lemmas/Hazards.lean` (`Hazards.no_queue_fault`): `C08_no_fault`.
* `C08_genuine_deadlock` — the whole checker `Spec.C08` (bound, stall ⇒ frozen, no earlier frozen row) for every
  diagram; the clauses about data-stalled instructions come from C02 (`Hazards.stalled_D_mustWait`,
  `C02_data_stall_exact`), everything else from `Lemmas/Termination.lean`. Hypothesis on programs inherited from C02:
  `Hazards.ProgOK prog` (source tuples are duplicate-free, as `HwInstruction.sources` always is).
-/
namespace ProcSim
open Spec Term

attribute [local implicit_reducible] AMap

variable {N : Type} [DecidableEq N] [LT N] [DecidableRel (α := N) (· < ·)]

/-! ## Clause 1: the bound -/

/-- **C08, clause 1 (readable form).** Every diagram `simulate` hands out has at most `cycleBound` rows, and a stall
diagram one row less (the stall is detected in a cycle of its own, which is not recorded). No hypothesis on `p`. -/
theorem C08_bound (p : Proc N) (prog : List (Instr N)) (tbl : List (Util N)) (stalled : Bool)
    (h : Diagram p prog tbl stalled) :
    tbl.length + (if stalled then 1 else 0) ≤ prog.length * (3 * p.allUnits.length + 1) + 1 := by
  have hl := simLoop_length p prog (cycleBound p prog) (initState prog)
  have h0 : (initState prog).table.length = 0 := rfl
  have hb : cycleBound p prog = prog.length * (3 * p.allUnits.length + 1) + 1 := rfl
  rcases h with ⟨rfl, hd⟩ | ⟨rfl, hd⟩
  · have := hl.1 tbl hd
    simp only [Bool.false_eq_true, if_false]; omega
  · have := hl.2 tbl hd
    simp only [if_true]; omega

/-- **C08, clause 1**, as evaluated by the checker -/
theorem C08_bound_clause (p : Proc N) (prog : List (Instr N)) (tbl : List (Util N)) (stalled : Bool)
    (h : Diagram p prog tbl stalled) :
    ((Spec.C08 (ctx p prog tbl stalled)).getD 0 ("", false)).2 = true := by
  simp only [Spec.C08, List.getD_cons_zero, Ctx.T, Ctx.n, Ctx.units, ctx]
  exact decide_eq_true (C08_bound p prog tbl stalled h)

/-! ## The run is over within the bound -/

/-- **C08, termination.** For a well-formed processor the run is over — returned diagram, stall error or another
fault — within `cycleBound p prog = instructions × (3 × units + 1) + 1` cycles: the fuel of `simulate` never runs
out. -/
theorem C08_no_fuel_fault (p : Proc N) (prog : List (Instr N)) (hwf : wfProc p = true) :
    simulate p prog ≠ .fault .fuel :=
  simulate_no_fuel prog hwf

/-- **C08, outcomes.** The run returns a diagram, raises the stall error, or raises a fault other than `fuel`. -/
theorem C08_outcome (p : Proc N) (prog : List (Instr N)) (hwf : wfProc p = true) :
    (∃ tbl, simulate p prog = .done tbl) ∨ (∃ tbl, simulate p prog = .stall tbl) ∨
    (∃ f, f ≠ .fuel ∧ simulate p prog = .fault f) := by
  cases h : simulate p prog with
  | done tbl => exact Or.inl ⟨tbl, rfl⟩
  | stall tbl => exact Or.inr (Or.inl ⟨tbl, rfl⟩)
  | fault f =>
    refine Or.inr (Or.inr ⟨f, ?_, rfl⟩)
    intro e; rw [e] at h
    exact C08_no_fuel_fault p prog hwf h

/-- **C08, no `KeyError` on a unit name and no `IndexError` on the program.** Every non-empty key of a record is a unit
name and every hosted index is a program index (`BaseInv`), so `name_unit_map[unit]` and `program[i]` never fail. -/
theorem C08_no_noUnit_badIndex (p : Proc N) (prog : List (Instr N)) (hwf : wfProc p = true) :
    simulate p prog ≠ .fault .noUnit ∧ simulate p prog ≠ .fault .badIndex := by
  constructor <;> intro h <;> rcases simulate_fault_cases prog hwf h with e | e <;> cases e

/-- the only faults left are those of the register access queues -/
theorem C08_fault_cases (p : Proc N) (prog : List (Instr N)) (hwf : wfProc p = true) {f : Fault}
    (h : simulate p prog = .fault f) : f = .queueEmpty ∨ f = .badDequeue :=
  simulate_fault_cases prog hwf h

/-- **C08, no exception other than the stall error** — relative to the register-queue invariant (property C01/C02,
`Lemmas/Hazards.lean`): if the queue operations do not fail, the run returns a diagram or raises the stall error. -/
theorem C08_no_fault_of_queue_ok (p : Proc N) (prog : List (Instr N)) (hwf : wfProc p = true)
    (hq : simulate p prog ≠ .fault .queueEmpty ∧ simulate p prog ≠ .fault .badDequeue) :
    ∃ tbl, simulate p prog = .done tbl ∨ simulate p prog = .stall tbl := by
  cases h : simulate p prog with
  | done tbl => exact ⟨tbl, Or.inl rfl⟩
  | stall tbl => exact ⟨tbl, Or.inr rfl⟩
  | fault f =>
    exfalso
    rcases simulate_fault_cases prog hwf h with e | e
    · rw [e] at h; exact hq.1 h
    · rw [e] at h; exact hq.2 h

/-! ## Clauses 2 and 3: a stall error means genuine dead-lock

`Spec.frozen` is phrased on the diagram. `Lemmas/Termination.lean` reads it through the run: for the reachable state
whose table is the first `k` rows of the diagram, `frozen` of the last of these rows says `Term.FrozenRec` of the
state's record and issue count (`Term.frozen_prefix_iff`: the row is the state's record, `issuedBy` is its issue
count), and `FrozenRec` records are exactly the fixed points of the cycle (`Term.fixed_frozen`, `Term.frozen_fixed`).

The clause of `frozen` about data-stalled instructions (`mustWait`) is the business of property C02 (exactness of data
stalls, register-queue invariant — `Lemmas/Hazards.lean`). It enters as an explicit hypothesis:

* clause 2 needs exactness for the **unrecorded** stall-detecting cycle — `frozen_D_clause` below, which no statement
  about the recorded rows (such as `Spec.C02`) can provide;
* clause 3 needs exactness on the recorded rows only, i.e. the conclusion of C02's theorem,
  `(Spec.C02 (ctx p prog tbl stalled)).ok = true`.

Everything else — no `U` in a frozen row, `S` blocked by full successors (memory can not be the reason: nothing
entered anywhere), not at the output boundary, the next instruction fits no input port, and conversely — is proved
here. The theorems named `…_partial` are relative to these two hypotheses; `C08_stall_frozen`, `C08_no_earlier_frozen`
and `C08_genuine_deadlock` below discharge them from `Lemmas/Hazards.lean` / `Props/C02.lean` (which need
`Hazards.ProgOK prog`). -/

/-- **The `D` clause of "stall ⇒ frozen".** When the cycle run from a reachable state `s` reproduces its record (the
stall error) and the register queues label a data-stalled instruction `D` again, the diagram `s.table.reverse` says
the instruction must still wait after its last row. To be discharged from the register-queue invariant of C02. -/
abbrev frozen_D_clause (p : Proc N) (prog : List (Instr N)) : Prop := Term.FrozenDClause p prog

/-- **C08, clause 2 (partial: relative to `frozen_D_clause`).** The diagram carried by a stall error ends in a frozen
row (if it has no row at all, the empty record is frozen). -/
theorem C08_stall_frozen_partial (p : Proc N) (prog : List (Instr N)) (tbl : List (Util N)) (stalled : Bool)
    (hwf : wfProc p = true) (hD : frozen_D_clause p prog) (h : Diagram p prog tbl stalled) :
    ((Spec.C08 (ctx p prog tbl stalled)).getD 1 ("", false)).2 = true := by
  simp only [Spec.C08, List.getD_cons_succ, List.getD_cons_zero, Bool.or_eq_true, Bool.not_eq_true']
  cases stalled with
  | false => exact Or.inl rfl
  | true => exact Or.inr (stall_frozen hwf hD h)

/-- **C08, clause 3 (partial: relative to the conclusion of C02's theorem for the same diagram).** No recorded cycle
started from a frozen row: the row before any recorded cycle (the empty record before the first) is not frozen. -/
theorem C08_no_earlier_frozen_partial (p : Proc N) (prog : List (Instr N)) (tbl : List (Util N)) (stalled : Bool)
    (hwf : wfProc p = true) (hC02 : (Spec.C02 (ctx p prog tbl stalled)).ok = true)
    (h : Diagram p prog tbl stalled) :
    ((Spec.C08 (ctx p prog tbl stalled)).getD 2 ("", false)).2 = true := by
  have hC := DExact_of_C02 _ hC02
  simp only [Spec.C08, List.getD_cons_succ, List.getD_cons_zero, Bool.and_eq_true, Bool.or_eq_true,
    Bool.not_eq_true', List.all_eq_true, List.mem_range, beq_iff_eq]
  constructor
  · by_cases hT : (ctx p prog tbl stalled).T = 0
    · exact Or.inl (Or.inr hT)
    · right
      have : 0 < tbl.length := Nat.pos_of_ne_zero hT
      exact not_frozen_before hwf h hC this
  · intro t ht
    have ht' : t + 1 < tbl.length := by
      have : (ctx p prog tbl stalled).T = tbl.length := rfl
      omega
    have := not_frozen_before hwf h hC ht'
    simpa [prevIdx] using this

/-- **C08 (partial: relative to the two `D` hypotheses).** Every diagram of a well-formed processor passes the C08
checker. -/
theorem C08_partial (p : Proc N) (prog : List (Instr N)) (tbl : List (Util N)) (stalled : Bool)
    (hwf : wfProc p = true) (hD : frozen_D_clause p prog)
    (hC02 : (Spec.C02 (ctx p prog tbl stalled)).ok = true) (h : Diagram p prog tbl stalled) :
    (Spec.C08 (ctx p prog tbl stalled)).ok = true := by
  have h1 := C08_bound_clause p prog tbl stalled h
  have h2 := C08_stall_frozen_partial p prog tbl stalled hwf hD h
  have h3 := C08_no_earlier_frozen_partial p prog tbl stalled hwf hC02 h
  simp only [Spec.C08, List.getD_cons_succ, List.getD_cons_zero] at h1 h2 h3
  simp only [Spec.C08, Clauses.ok, List.all_cons, List.all_nil, Bool.and_true]
  rw [h1, h2, h3]; rfl

/-! ### Readable forms of the two directions (no hypothesis about `D` needed to *state* them) -/

/-- **stall ⇒ frozen, on the run.** In the state from which the stall error is raised nobody is unstalled, every `S`
is away from the output boundary with all supporting successors full, every `D` is refused again by the register
queues, and the next instruction (if any) finds every supporting input port full. -/
theorem C08_stall_frozenRec (p : Proc N) (prog : List (Instr N)) (tbl : List (Util N))
    (hwf : wfProc p = true) (h : Diagram p prog tbl true) :
    ∃ s, Reach p prog s ∧ tbl = s.table.reverse ∧ runCycle p prog s = .ok none ∧
      FrozenRec p prog s.util s.entered (fun u x => labelOf prog s.queues u (s.util.get u.name) x.idx = .D) := by
  obtain ⟨s, hs, ht, hr, _⟩ := Diagram_reach h
  exact ⟨s, hs, ht, hr rfl, fixed_frozen hwf (hs.termInv hwf) (hr rfl)⟩

/-- **frozen ⇒ stall, on the run.** A reachable state whose record is frozen — `D` clause: the relabelled record does
not show the instruction unstalled — makes no productive cycle. -/
theorem C08_frozenRec_stalls (p : Proc N) (prog : List (Instr N)) (hwf : wfProc p = true) {s s' : SimState N}
    (hs : Reach p prog s) (hr : runCycle p prog s = .ok (some s')) :
    ¬ FrozenRec p prog s.util s.entered (fun u x => ∀ l, (⟨x.idx, l⟩ : HI) ∈ s'.util.get u.name → l ≠ .U) := by
  intro hf
  obtain ⟨lab, qs, hlab, _, hb, e⟩ := runCycle_eq_some hr
  have : s'.util = lab.1 := by rw [e]
  rw [this] at hf
  rw [frozen_fixed hwf (hs.termInv hwf) hlab hf] at hb
  cases hb

/-! ## The unconditional statements (register-queue invariant from `Lemmas/Hazards.lean`, C02 from `Props/C02.lean`) -/

/-- **C08, no exception other than the stall error.** For a well-formed processor and a program with duplicate-free
source tuples the run returns a diagram or raises the stall error. -/
theorem C08_no_fault (p : Proc N) (prog : List (Instr N)) (hwf : wfProc p = true) (hprog : Hazards.ProgOK prog) :
    ∃ tbl, simulate p prog = .done tbl ∨ simulate p prog = .stall tbl :=
  C08_no_fault_of_queue_ok p prog hwf (Hazards.no_queue_fault hwf hprog)

/-- the `D` clause of "stall ⇒ frozen" holds -/
theorem C08_frozen_D_clause (p : Proc N) (prog : List (Instr N)) (hwf : wfProc p = true)
    (hprog : Hazards.ProgOK prog) : frozen_D_clause p prog :=
  frozenDClause_holds hwf hprog

/-- **C08, clause 2.** A stall error is raised only from a frozen cycle. -/
theorem C08_stall_frozen (p : Proc N) (prog : List (Instr N)) (tbl : List (Util N)) (stalled : Bool)
    (hwf : wfProc p = true) (hprog : Hazards.ProgOK prog) (h : Diagram p prog tbl stalled) :
    ((Spec.C08 (ctx p prog tbl stalled)).getD 1 ("", false)).2 = true :=
  C08_stall_frozen_partial p prog tbl stalled hwf (C08_frozen_D_clause p prog hwf hprog) h

/-- **C08, clause 3.** No earlier recorded cycle was frozen. -/
theorem C08_no_earlier_frozen (p : Proc N) (prog : List (Instr N)) (tbl : List (Util N)) (stalled : Bool)
    (hwf : wfProc p = true) (hprog : Hazards.ProgOK prog) (h : Diagram p prog tbl stalled) :
    ((Spec.C08 (ctx p prog tbl stalled)).getD 2 ("", false)).2 = true :=
  C08_no_earlier_frozen_partial p prog tbl stalled hwf (C02_data_stall_exact p prog tbl stalled hwf hprog h) h

/-- **C08.** For a well-formed processor and a program with duplicate-free source tuples, every diagram `simulate`
hands out — returned, or carried by the stall error — passes the C08 checker: it has at most
`instructions × (3 × units + 1) + 1` rows (one less if stalled), a stall diagram ends in a frozen row, and no
recorded cycle started from a frozen row. -/
theorem C08_genuine_deadlock (p : Proc N) (prog : List (Instr N)) (tbl : List (Util N)) (stalled : Bool)
    (hwf : wfProc p = true) (hprog : Hazards.ProgOK prog) (h : Diagram p prog tbl stalled) :
    (Spec.C08 (ctx p prog tbl stalled)).ok = true :=
  C08_partial p prog tbl stalled hwf (C08_frozen_D_clause p prog hwf hprog)
    (C02_data_stall_exact p prog tbl stalled hwf hprog h) h

/-! ## Non-vacuity

Input port `0` (width 1, capabilities `7` and `8`, both locks) feeding output port `1` (width 1, capability `7`).
Capability `8` dead-ends in unit `0` (the route `[0]` still carries exactly one read and one write lock, so the
processor is well-formed). An instruction of capability `7` retires; one of capability `8` can never leave unit `0`:
`simulate` raises the stall error. -/
namespace C08Example

def inP : UnitM Nat := ⟨0, 1, [7, 8], true, true, []⟩
def outP : UnitM Nat := ⟨1, 1, [7], false, false, []⟩
def proc : Proc Nat := { inPorts := [inP], outPorts := [⟨outP, [0]⟩], inOut := [], internal := [] }
def progOk : List (Instr Nat) := [⟨[10], 11, 7⟩, ⟨[11], 12, 7⟩]
def progStall : List (Instr Nat) := [⟨[10], 11, 7⟩, ⟨[10], 11, 8⟩, ⟨[10], 11, 7⟩]

example : wfProc proc = true := by decide

def kind : Outcome Nat → Nat × Nat
  | .done tbl => (0, tbl.length)
  | .stall tbl => (1, tbl.length)
  | .fault _ => (2, 0)

/-- the first program completes … -/
example : kind (simulate proc progOk) = (0, 3) := by decide
/-- … the second one stalls: the instruction of capability `8` sits in the input port for ever and blocks the third -/
example : kind (simulate proc progStall) = (1, 3) := by decide
example : cycleBound proc progStall = 22 := by decide

end C08Example

/-! A stall with a data-stalled instruction in the frozen row (a dead-locking overtake): input ports `0` (capability
`7`) and `2` (capability `8`), internal unit `1` (capability `7`, fed by `0`), output port `3` (width 1, both
capabilities, both locks, fed by `1` and `2`). Instruction 1 (capability `8`) reads the register instruction 0
(capability `7`) writes; it overtakes instruction 0, waits in unit `3` for ever (`D`), and keeps instruction 0 out
(`S` in unit `1`). The stall diagram passes the whole C08 checker (and C02's). -/
namespace C08Example2

def i7 : UnitM Nat := ⟨0, 1, [7], false, false, []⟩
def m1 : UnitM Nat := ⟨1, 1, [7], false, false, []⟩
def i8 : UnitM Nat := ⟨2, 1, [8], false, false, []⟩
def w : UnitM Nat := ⟨3, 1, [7, 8], true, true, []⟩
def proc : Proc Nat := { inPorts := [i7, i8], outPorts := [⟨w, [1, 2]⟩], inOut := [], internal := [⟨m1, [0]⟩] }
def prog : List (Instr Nat) := [⟨[10], 11, 7⟩, ⟨[11], 12, 8⟩]

example : wfProc proc = true := by decide

/-- three recorded cycles, then the stall error; the last row holds instruction 1 `D` in unit `3` and instruction 0 `S`
in unit `1` -/
example : (match simulate proc prog with
    | .stall tbl => tbl.length == 3 &&
        (tbl.getD 2 ([] : List (Nat × List HI))).get 3 == [⟨1, .D⟩] &&
        (tbl.getD 2 ([] : List (Nat × List HI))).get 1 == [⟨0, .S⟩] &&
        (Spec.C08 (ctx proc prog tbl true)).ok && (Spec.C02 (ctx proc prog tbl true)).ok
    | _ => false) = true := by decide

/-- the hypotheses of `C08_genuine_deadlock` are satisfiable and the theorem applies to this stall diagram -/
example : ∃ tbl, Diagram proc prog tbl true ∧ (Spec.C08 (ctx proc prog tbl true)).ok = true := by
  have hk : C08Example.kind (simulate proc prog) = (1, 3) := by decide
  cases h : simulate proc prog with
  | stall tbl =>
    exact ⟨tbl, Or.inr ⟨rfl, h⟩,
      C08_genuine_deadlock proc prog tbl true (by decide) ((Hazards.progOK_iff prog).1 (by decide)) (Or.inr ⟨rfl, h⟩)⟩
  | done tbl => rw [h] at hk; cases hk
  | fault f => rw [h] at hk; cases hk

end C08Example2

end ProcSim
