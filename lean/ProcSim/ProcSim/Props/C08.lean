import ProcSim.Lemmas.Termination
/-!
# C08 — the simulation always ends; a stall error means genuine dead-lock

"For every program and well-formed processor the simulator finishes within instructions × (3 × units + 1) + 1
cycles, either returning a diagram in which every instruction retires or raising a stall error; no other exception
escapes. A stall error is raised exactly when nothing can progress from the last recorded cycle, and it carries the
diagram up to that frozen cycle."

* `C08_bound` — clause 1 of `Spec.C08` for every diagram (no hypothesis on the processor).
* `C08_no_fuel_fault` — the real content of the bound: `simulate` is over (returned, stall or another fault) within
  `cycleBound p prog` cycles; the model's `Fault.fuel` is unreachable. Proof (`Lemmas/Termination.lean`): rank of an
  instruction = `0` before issue, `3·pos(unit) + 1/2/3` while hosted with label `D/U/S` (`pos` increases along every
  connection), `3·|units| + 1` once retired; no rank ever decreases, and in a productive cycle (new record ≠ old
  record as per-unit multisets) some rank strictly increases.
* `C08_outcome`, `C08_no_noUnit_badIndex`, `C08_no_fault_of_queue_ok` — which outcomes are possible.
-/
namespace ProcSim
open Spec Term

attribute [local implicit_reducible] AMap

variable {N : Type} [DecidableEq N] [LT N] [DecidableRel (α := N) (· < ·)]

/-! ## Clause 1: the bound -/

/-- **C08, clause 1 (readable form).** Every diagram `simulate` hands out has at most `cycleBound` rows, and a stall
diagram one row less (the stall is detected in a cycle of its own, which is not recorded). No hypothesis on `p`. -/
theorem C08_bound (p : Proc N) (prog : List (Instr N)) (tbl : List (Util N)) (stalled : Bool)
    (h : Diagram p prog tbl stalled) :
    tbl.length + (if stalled then 1 else 0) ≤ prog.length * (3 * p.allUnits.length + 1) + 1 := by
  have hl := simLoop_length p prog (cycleBound p prog) (initState prog)
  have h0 : (initState prog).table.length = 0 := rfl
  have hb : cycleBound p prog = prog.length * (3 * p.allUnits.length + 1) + 1 := rfl
  rcases h with ⟨rfl, hd⟩ | ⟨rfl, hd⟩
  · have := hl.1 tbl hd
    simp only [Bool.false_eq_true, if_false]; omega
  · have := hl.2 tbl hd
    simp only [if_true]; omega

/-- **C08, clause 1**, as evaluated by the checker -/
theorem C08_bound_clause (p : Proc N) (prog : List (Instr N)) (tbl : List (Util N)) (stalled : Bool)
    (h : Diagram p prog tbl stalled) :
    ((Spec.C08 (ctx p prog tbl stalled)).getD 0 ("", false)).2 = true := by
  simp only [Spec.C08, List.getD_cons_zero, Ctx.T, Ctx.n, Ctx.units, ctx]
  exact decide_eq_true (C08_bound p prog tbl stalled h)

/-! ## The run is over within the bound -/

/-- **C08, termination.** For a well-formed processor the run is over — returned diagram, stall error or another
fault — within `cycleBound p prog = instructions × (3 × units + 1) + 1` cycles: the fuel of `simulate` never runs
out. -/
theorem C08_no_fuel_fault (p : Proc N) (prog : List (Instr N)) (hwf : wfProc p = true) :
    simulate p prog ≠ .fault .fuel :=
  simulate_no_fuel prog hwf

/-- **C08, outcomes.** The run returns a diagram, raises the stall error, or raises a fault other than `fuel`. -/
theorem C08_outcome (p : Proc N) (prog : List (Instr N)) (hwf : wfProc p = true) :
    (∃ tbl, simulate p prog = .done tbl) ∨ (∃ tbl, simulate p prog = .stall tbl) ∨
    (∃ f, f ≠ .fuel ∧ simulate p prog = .fault f) := by
  cases h : simulate p prog with
  | done tbl => exact Or.inl ⟨tbl, rfl⟩
  | stall tbl => exact Or.inr (Or.inl ⟨tbl, rfl⟩)
  | fault f =>
    refine Or.inr (Or.inr ⟨f, ?_, rfl⟩)
    intro e; rw [e] at h
    exact C08_no_fuel_fault p prog hwf h

/-- **C08, no `KeyError` on a unit name and no `IndexError` on the program.** Every non-empty key of a record is a unit
name and every hosted index is a program index (`BaseInv`), so `name_unit_map[unit]` and `program[i]` never fail. -/
theorem C08_no_noUnit_badIndex (p : Proc N) (prog : List (Instr N)) (hwf : wfProc p = true) :
    simulate p prog ≠ .fault .noUnit ∧ simulate p prog ≠ .fault .badIndex := by
  constructor <;> intro h <;> rcases simulate_fault_cases prog hwf h with e | e <;> cases e

/-- the only faults left are those of the register access queues -/
theorem C08_fault_cases (p : Proc N) (prog : List (Instr N)) (hwf : wfProc p = true) {f : Fault}
    (h : simulate p prog = .fault f) : f = .queueEmpty ∨ f = .badDequeue :=
  simulate_fault_cases prog hwf h

/-- **C08, no exception other than the stall error** — relative to the register-queue invariant (property C01/C02,
`Lemmas/Hazards.lean`): if the queue operations do not fail, the run returns a diagram or raises the stall error. -/
theorem C08_no_fault_of_queue_ok (p : Proc N) (prog : List (Instr N)) (hwf : wfProc p = true)
    (hq : simulate p prog ≠ .fault .queueEmpty ∧ simulate p prog ≠ .fault .badDequeue) :
    ∃ tbl, simulate p prog = .done tbl ∨ simulate p prog = .stall tbl := by
  cases h : simulate p prog with
  | done tbl => exact ⟨tbl, Or.inl rfl⟩
  | stall tbl => exact ⟨tbl, Or.inr rfl⟩
  | fault f =>
    exfalso
    rcases simulate_fault_cases prog hwf h with e | e
    · rw [e] at h; exact hq.1 h
    · rw [e] at h; exact hq.2 h

/-! ## Non-vacuity

Input port `0` (width 1, capabilities `7` and `8`, both locks) feeding output port `1` (width 1, capability `7`).
Capability `8` dead-ends in unit `0` (the route `[0]` still carries exactly one read and one write lock, so the
processor is well-formed). An instruction of capability `7` retires; one of capability `8` can never leave unit `0`:
`simulate` raises the stall error. -/
namespace C08Example

def inP : UnitM Nat := ⟨0, 1, [7, 8], true, true, []⟩
def outP : UnitM Nat := ⟨1, 1, [7], false, false, []⟩
def proc : Proc Nat := { inPorts := [inP], outPorts := [⟨outP, [0]⟩], inOut := [], internal := [] }
def progOk : List (Instr Nat) := [⟨[10], 11, 7⟩, ⟨[11], 12, 7⟩]
def progStall : List (Instr Nat) := [⟨[10], 11, 7⟩, ⟨[10], 11, 8⟩, ⟨[10], 11, 7⟩]

example : wfProc proc = true := by decide

def kind : Outcome Nat → Nat × Nat
  | .done tbl => (0, tbl.length)
  | .stall tbl => (1, tbl.length)
  | .fault _ => (2, 0)

/-- the first program completes … -/
example : kind (simulate proc progOk) = (0, 3) := by decide
/-- … the second one stalls: the instruction of capability `8` sits in the input port for ever and blocks the third -/
example : kind (simulate proc progStall) = (1, 3) := by decide
example : cycleBound proc progStall = 22 := by decide

end C08Example

end ProcSim
