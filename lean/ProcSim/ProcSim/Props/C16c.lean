import ProcSim.Props.LoadedWF
import ProcSim.Lemmas.Sort
/-!
# C16c — the printed table inherits every diagram property (the last sentence of C16)

"The printed table therefore satisfies every diagram property above for the files' processor and program."

For the composed command-line model `Pipeline.run` (load the processor description, load the ISA, parse and compile
the program, simulate):

* `compile_progOK`, `front_progOK` — every compiled program has duplicate-free source tuples (`Hazards.ProgOK`, the
  program hypothesis of C01/C02/C08): `compile_program` builds them with `_sorted_uniq`.
* `C16_table_inherits` — when the run completes, a table is printed, it renders the returned diagram cell by cell
  (`C16_Holds`), and that diagram satisfies C01–C08 for the loaded processor and the compiled program — provided the
  loaded processor has no route whose write lock precedes its read lock (`readNotAfterWrite`, the one conjunct of
  `wfProc` the loader does not check, see `Props/LoadedWF.lean`).
* `C16_table_inherits_struct` — without that proviso: the table is printed and C03, C04, C05 hold.
* `C16_stall_inherits`, `C16_stall_inherits_struct` — the same for a run that raises the stall error: the diagram it
  carries satisfies C01–C08 (C03–C05) with `stalled := true`; no table is printed.
-/
namespace ProcSim
open Spec Spec.Text

/-! ## compiled programs have duplicate-free source tuples -/

theorem sortedUniq_nodup (l : List (List Char)) : (Program.sortedUniq l).Nodup := by
  unfold Program.sortedUniq
  exact (isort_perm _ _).nodup_iff.2 (ISort.dedup_nodup l)

theorem compile_progOK (isa : AMap Pipeline.Str Pipeline.Str) :
    ∀ (parsed : List Program.ProgInstr) (prog : List (Instr Pipeline.Str)),
      Isa.compileProgram isa parsed = .ok prog → Hazards.ProgOK prog
  | [], prog, h => by
    simp only [Isa.compileProgram, Except.ok.injEq] at h
    subst h
    intro ins hins; cases hins
  | q :: qs, prog, h => by
    unfold Isa.compileProgram at h
    split at h
    · cases h
    · split at h
      · cases h
      · rename_i rest hrest
        simp only [Except.ok.injEq] at h
        subst h
        intro ins hins
        rcases List.mem_cons.1 hins with e | e
        · subst e; exact sortedUniq_nodup _
        · exact compile_progOK isa qs rest hrest ins e

theorem front_progOK (desc : Loader.Desc Pipeline.Str) (rawIsa : List (Pipeline.Str × Pipeline.Str))
    (lines : List Pipeline.Str) (st : Pipeline.Stages) (h : Pipeline.front desc rawIsa lines = .ok st) :
    Hazards.ProgOK st.prog :=
  compile_progOK st.isa st.parsed st.prog (C16_front_compile desc rawIsa lines st h)

theorem Pipeline.run_front (desc : Loader.Desc Pipeline.Str) (rawIsa : List (Pipeline.Str × Pipeline.Str))
    (lines : List Pipeline.Str) (st : Pipeline.Stages) (o : Outcome Pipeline.Str)
    (hrun : Pipeline.run desc rawIsa lines = .ok (st, o)) :
    Pipeline.front desc rawIsa lines = .ok st ∧ simulate st.proc st.prog = o := by
  unfold Pipeline.run at hrun
  split at hrun
  · cases hrun
  · rename_i st' hst'
    simp only [Except.ok.injEq, Prod.mk.injEq] at hrun
    obtain ⟨rfl, h2⟩ := hrun
    exact ⟨hst', h2⟩

/-! ## every diagram of the pipeline -/

/-- C03, C04, C05 for any diagram of the loaded processor and the compiled program -/
theorem pipeline_diagram_struct (desc : Loader.Desc Pipeline.Str) (rawIsa : List (Pipeline.Str × Pipeline.Str))
    (lines : List Pipeline.Str) (st : Pipeline.Stages) (hf : Pipeline.front desc rawIsa lines = .ok st)
    (tbl : List (Util Pipeline.Str)) (stalled : Bool) (hD : Diagram st.proc st.prog tbl stalled) :
    (Spec.C03 (ctx st.proc st.prog tbl stalled)).ok = true ∧ (Spec.C04 (ctx st.proc st.prog tbl stalled)).ok = true ∧
    (Spec.C05 (ctx st.proc st.prog tbl stalled)).ok = true := by
  have hl := Pipeline.front_load desc rawIsa lines st hf
  have ho := Loader.StrictTotal.listChar
  exact ⟨C03_loaded ho _ hl _ _ _ hD, C04_loaded ho _ hl _ _ _ hD, C05_loaded ho _ hl _ _ _ hD⟩

/-- C01–C08 for any diagram of the loaded processor and the compiled program, given `readNotAfterWrite` -/
theorem pipeline_diagram_all (desc : Loader.Desc Pipeline.Str) (rawIsa : List (Pipeline.Str × Pipeline.Str))
    (lines : List Pipeline.Str) (st : Pipeline.Stages) (hf : Pipeline.front desc rawIsa lines = .ok st)
    (hrw : readNotAfterWrite st.proc = true)
    (tbl : List (Util Pipeline.Str)) (stalled : Bool) (hD : Diagram st.proc st.prog tbl stalled) :
    (Spec.C01 (ctx st.proc st.prog tbl stalled)).ok = true ∧ (Spec.C02 (ctx st.proc st.prog tbl stalled)).ok = true ∧
    (Spec.C03 (ctx st.proc st.prog tbl stalled)).ok = true ∧ (Spec.C04 (ctx st.proc st.prog tbl stalled)).ok = true ∧
    (Spec.C05 (ctx st.proc st.prog tbl stalled)).ok = true ∧ (Spec.C06 (ctx st.proc st.prog tbl stalled)).ok = true ∧
    (Spec.C07 (ctx st.proc st.prog tbl stalled)).ok = true ∧ (Spec.C08 (ctx st.proc st.prog tbl stalled)).ok = true := by
  have hl := Pipeline.front_load desc rawIsa lines st hf
  have ho := Loader.StrictTotal.listChar
  have hp := front_progOK desc rawIsa lines st hf
  obtain ⟨h3, h4, h5⟩ := pipeline_diagram_struct desc rawIsa lines st hf tbl stalled hD
  exact ⟨C01_loaded ho _ hl hrw _ _ _ hp hD, C02_loaded ho _ hl hrw _ _ _ hp hD, h3, h4, h5,
    C06_loaded ho _ hl hrw _ _ _ hD, C07_loaded ho _ hl hrw _ _ _ hD, C08_loaded ho _ hl hrw _ _ _ hp hD⟩

/-! ## the capstone -/

/-- **C16, last sentence.** When the command-line pipeline completes, it prints a table; the table renders the
returned diagram cell by cell (`C16_Holds`); and that diagram satisfies every simulator property C01–C08 for the
files' processor and program (given that no route of the loaded processor has its write lock before its read
lock). -/
theorem C16_table_inherits (desc : Loader.Desc Pipeline.Str) (rawIsa : List (Pipeline.Str × Pipeline.Str))
    (lines : List Pipeline.Str) (st : Pipeline.Stages) (tbl : List (Util Pipeline.Str))
    (hrun : Pipeline.run desc rawIsa lines = .ok (st, .done tbl)) (hrw : readNotAfterWrite st.proc = true) :
    (∃ t, Pipeline.cliTable desc rawIsa lines = some t ∧ C16_Holds String.ofList tbl st.prog.length t) ∧
    (Spec.C01 (ctx st.proc st.prog tbl false)).ok = true ∧ (Spec.C02 (ctx st.proc st.prog tbl false)).ok = true ∧
    (Spec.C03 (ctx st.proc st.prog tbl false)).ok = true ∧ (Spec.C04 (ctx st.proc st.prog tbl false)).ok = true ∧
    (Spec.C05 (ctx st.proc st.prog tbl false)).ok = true ∧ (Spec.C06 (ctx st.proc st.prog tbl false)).ok = true ∧
    (Spec.C07 (ctx st.proc st.prog tbl false)).ok = true ∧ (Spec.C08 (ctx st.proc st.prog tbl false)).ok = true := by
  obtain ⟨hf, hsim⟩ := Pipeline.run_front desc rawIsa lines st _ hrun
  exact ⟨C16_cli_pipeline_total desc rawIsa lines st tbl hrun,
    pipeline_diagram_all desc rawIsa lines st hf hrw tbl false (.inl ⟨rfl, hsim⟩)⟩

/-- … without any hypothesis on the loaded processor: the table is printed and renders a diagram satisfying C03,
C04 and C05 -/
theorem C16_table_inherits_struct (desc : Loader.Desc Pipeline.Str) (rawIsa : List (Pipeline.Str × Pipeline.Str))
    (lines : List Pipeline.Str) (st : Pipeline.Stages) (tbl : List (Util Pipeline.Str))
    (hrun : Pipeline.run desc rawIsa lines = .ok (st, .done tbl)) :
    (∃ t, Pipeline.cliTable desc rawIsa lines = some t ∧ C16_Holds String.ofList tbl st.prog.length t) ∧
    (Spec.C03 (ctx st.proc st.prog tbl false)).ok = true ∧ (Spec.C04 (ctx st.proc st.prog tbl false)).ok = true ∧
    (Spec.C05 (ctx st.proc st.prog tbl false)).ok = true := by
  obtain ⟨hf, hsim⟩ := Pipeline.run_front desc rawIsa lines st _ hrun
  exact ⟨C16_cli_pipeline_total desc rawIsa lines st tbl hrun,
    pipeline_diagram_struct desc rawIsa lines st hf tbl false (.inl ⟨rfl, hsim⟩)⟩

/-- **The stall error.** When the pipeline ends with the stall error, no table is printed, and the diagram the error
carries satisfies C01–C08 (with `stalled := true`). -/
theorem C16_stall_inherits (desc : Loader.Desc Pipeline.Str) (rawIsa : List (Pipeline.Str × Pipeline.Str))
    (lines : List Pipeline.Str) (st : Pipeline.Stages) (tbl : List (Util Pipeline.Str))
    (hrun : Pipeline.run desc rawIsa lines = .ok (st, .stall tbl)) (hrw : readNotAfterWrite st.proc = true) :
    Pipeline.cliTable desc rawIsa lines = none ∧
    (Spec.C01 (ctx st.proc st.prog tbl true)).ok = true ∧ (Spec.C02 (ctx st.proc st.prog tbl true)).ok = true ∧
    (Spec.C03 (ctx st.proc st.prog tbl true)).ok = true ∧ (Spec.C04 (ctx st.proc st.prog tbl true)).ok = true ∧
    (Spec.C05 (ctx st.proc st.prog tbl true)).ok = true ∧ (Spec.C06 (ctx st.proc st.prog tbl true)).ok = true ∧
    (Spec.C07 (ctx st.proc st.prog tbl true)).ok = true ∧ (Spec.C08 (ctx st.proc st.prog tbl true)).ok = true := by
  obtain ⟨hf, hsim⟩ := Pipeline.run_front desc rawIsa lines st _ hrun
  refine ⟨?_, pipeline_diagram_all desc rawIsa lines st hf hrw tbl true (.inr ⟨rfl, hsim⟩)⟩
  unfold Pipeline.cliTable
  rw [hrun]

/-- … without any hypothesis on the loaded processor: C03, C04, C05 for the carried diagram -/
theorem C16_stall_inherits_struct (desc : Loader.Desc Pipeline.Str) (rawIsa : List (Pipeline.Str × Pipeline.Str))
    (lines : List Pipeline.Str) (st : Pipeline.Stages) (tbl : List (Util Pipeline.Str))
    (hrun : Pipeline.run desc rawIsa lines = .ok (st, .stall tbl)) :
    Pipeline.cliTable desc rawIsa lines = none ∧
    (Spec.C03 (ctx st.proc st.prog tbl true)).ok = true ∧ (Spec.C04 (ctx st.proc st.prog tbl true)).ok = true ∧
    (Spec.C05 (ctx st.proc st.prog tbl true)).ok = true := by
  obtain ⟨hf, hsim⟩ := Pipeline.run_front desc rawIsa lines st _ hrun
  refine ⟨?_, pipeline_diagram_struct desc rawIsa lines st hf tbl true (.inr ⟨rfl, hsim⟩)⟩
  unfold Pipeline.cliTable
  rw [hrun]

/-- the pipeline never ends with a simulator fault (given `readNotAfterWrite`): it fails in a front stage, prints a
table, or raises the stall error -/
theorem C16_pipeline_no_fault (desc : Loader.Desc Pipeline.Str) (rawIsa : List (Pipeline.Str × Pipeline.Str))
    (lines : List Pipeline.Str) (st : Pipeline.Stages) (o : Outcome Pipeline.Str)
    (hrun : Pipeline.run desc rawIsa lines = .ok (st, o)) (hrw : readNotAfterWrite st.proc = true) :
    ∃ tbl, o = .done tbl ∨ o = .stall tbl := by
  obtain ⟨hf, hsim⟩ := Pipeline.run_front desc rawIsa lines st _ hrun
  have := C08_no_fault_loaded Loader.StrictTotal.listChar ICase.lower (Pipeline.front_load desc rawIsa lines st hf) hrw
    st.prog (front_progOK desc rawIsa lines st hf)
  rw [hsim] at this
  exact this

/-! ## Non-vacuity: the pipeline of `C16bExamples` -/
namespace C16cExamples
open C16bExamples

def runChecks : Except Pipeline.Failure (Pipeline.Stages × Outcome Pipeline.Str) → Bool
  | .ok (st, .done tbl) =>
    readNotAfterWrite st.proc && wfProc st.proc && Hazards.progOK st.prog &&
    (List.range 8).all (fun k => match (simClauses (ctx st.proc st.prog tbl false))[k]? with
      | some x => x.2.ok
      | none => false)
  | _ => false

/-- the run completes; its processor satisfies `readNotAfterWrite` (and `wfProc`), its program `ProgOK`; all eight
checkers accept the returned diagram (evaluated) -/
example : runChecks (Pipeline.run desc rawIsa lines) = true := by decide

def rnaw : Except Pipeline.Failure (Pipeline.Stages × Outcome Pipeline.Str) → Bool
  | .ok (st, .done _) => readNotAfterWrite st.proc
  | _ => false

/-- the hypotheses of `C16_table_inherits` are satisfiable and the theorem applies -/
example : ∃ st tbl t, Pipeline.run desc rawIsa lines = .ok (st, .done tbl) ∧
    Pipeline.cliTable desc rawIsa lines = some t ∧ C16_Holds String.ofList tbl st.prog.length t ∧
    (simClauses (ctx st.proc st.prog tbl false)).all (fun x => x.2.ok) = true := by
  have hd : rnaw (Pipeline.run desc rawIsa lines) = true := by decide
  cases h : Pipeline.run desc rawIsa lines with
  | error e => rw [h] at hd; cases hd
  | ok r =>
    obtain ⟨st, o⟩ := r
    cases o with
    | done tbl =>
      rw [h] at hd
      obtain ⟨⟨t, h1, h2⟩, c1, c2, c3, c4, c5, c6, c7, c8⟩ := C16_table_inherits desc rawIsa lines st tbl h hd
      refine ⟨st, tbl, t, rfl, h1, h2, ?_⟩
      simp [simClauses, c1, c2, c3, c4, c5, c6, c7, c8]
    | stall tbl => rw [h] at hd; cases hd
    | fault f => rw [h] at hd; cases hd

end C16cExamples

end ProcSim
