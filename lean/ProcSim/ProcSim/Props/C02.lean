import ProcSim.Lemmas.Hazards
/-!
# C02 — data stalls are exact: wait iff an older conflicting access is outstanding

"An instruction that arrives in, or is already waiting in, a unit that locks registers is shown data-stalled (`D`) in a
cycle exactly when some older instruction has not, before that cycle, performed a conflicting access to a register the
unit must lock for it (its sources under a read lock, its destination under a write lock); otherwise it is shown
unstalled (`U`) in that cycle. An instruction never waits on itself and is never data-stalled in a unit without locks."

* the checker: `Spec.C02` with `Spec.mustWait` (`ProcSim/Spec/Sim.lean`);
* proof: `ProcSim/Lemmas/Hazards.lean` — `regsAvail_exact` / `labelOf_exact` (state level: `_regs_avail` never raises
  and refuses iff `mustWait`), from the queue invariant `PlanInv`, `canServe_sorted_iff` and the host invariant
  (`examined_facts_origin`: an examined instruction has not been granted the accesses its unit locks, and in a unit with
  the write lock only it has already performed its read — from `wfProc`'s route condition).

Hypotheses: `wfProc p` and `ProgOK prog` (no repeated source register in an instruction; guaranteed by the
`HwInstruction` constructor of the real code).
-/
namespace ProcSim
open Spec Hazards

attribute [local implicit_reducible] AMap

variable {N : Type} [DecidableEq N]

/-- C02, readable form: for every label `l` shown for instruction `i` in unit `u` in cycle `t`,
* if `l` is not `S` (the instruction is examined in that cycle), `l` is `D` exactly when `mustWait` holds — hence `U`
  exactly when it does not;
* `l` is `D` only in a unit holding a lock. -/
def C02_Holds (c : Ctx N) : Prop :=
  ∀ i t u l, i < c.n → (t, u, l) ∈ c.positions i →
    (l ≠ .S → (l = .D ↔ mustWait c i t u = true)) ∧ (l = .D → u.rd = true ∨ u.wr = true)

/-- the Bool clauses evaluated by the driver say exactly `C02_Holds` -/
theorem C02_ok_iff (c : Ctx N) : (Spec.C02 c).ok = true ↔ C02_Holds c := by
  simp only [Spec.C02, Clauses.ok, List.all_cons, List.all_nil, Bool.and_true, Bool.and_eq_true, List.all_eq_true,
    List.mem_flatMap, List.mem_range, List.mem_map, C02_Holds]
  constructor
  · rintro ⟨h1, h2⟩ i t u l hi hpos
    have a := h1 (i, t, u, l) ⟨i, hi, (t, u, l), hpos, rfl⟩
    have b := h2 (i, t, u, l) ⟨i, hi, (t, u, l), hpos, rfl⟩
    simp only at a b
    refine ⟨fun hS => ?_, fun hD => ?_⟩
    · cases l <;> cases hmw : mustWait c i t u <;> simp_all
    · subst hD; simpa using b
  · intro h
    refine ⟨?_, ?_⟩
    · rintro ⟨i', t, u, l⟩ ⟨i, hi, x, hpos, e⟩
      simp only [Prod.mk.injEq] at e
      obtain ⟨rfl, rfl⟩ := e
      have := (h i t u l hi hpos).1
      show (l == .S || ((l == .D) == mustWait c i t u)) = true
      cases l <;> cases hmw : mustWait c i t u <;> simp_all
    · rintro ⟨i', t, u, l⟩ ⟨i, hi, x, hpos, e⟩
      simp only [Prod.mk.injEq] at e
      obtain ⟨rfl, rfl⟩ := e
      have := (h i t u l hi hpos).2
      show (!(l == .D) || u.rd || u.wr) = true
      cases l <;> simp_all

variable [LT N] [DecidableRel (α := N) (· < ·)]

/-- **C02 (readable form).** -/
theorem C02_data_stall_exact_readable (p : Proc N) (prog : List (Instr N)) (tbl : List (Util N)) (stalled : Bool)
    (hwf : wfProc p = true) (hp : ProgOK prog) (h : Diagram p prog tbl stalled) :
    C02_Holds (ctx p prog tbl stalled) := by
  intro i t u l hi hpos
  obtain ⟨hT, hu, hm⟩ := (mem_positions_iff _ _ _).1 hpos
  have hT' : t < tbl.length := hT
  have hu' : u ∈ p.allUnits := hu
  obtain ⟨s, lab, qs, hinv, htab, hlab, _, hrow⟩ := row_view hwf hp h hT'
  have hrow' : (ctx p prog tbl stalled).row t = lab.1 := hrow
  rw [hrow'] at hm
  dsimp only at hm
  obtain ⟨⟨y, hy, hyi⟩, hl⟩ := label_view hwf hlab hu' hm
  have hi' : i < prog.length := hi
  obtain ⟨ins, hins⟩ : ∃ ins, prog[i]? = some ins := ⟨prog[i]'hi', List.getElem?_eq_getElem hi'⟩
  have hF := fillCycle_issueInv prog s.util s.entered (wfProc_nodup_names hwf) (wfProc_orderOK hwf)
  have ho := hF.origin u.name y hy
  rw [hyi] at ho
  have hmw : mustWait (ctx p prog tbl stalled) i t u =
      mustWaitG (ctx p prog tbl stalled) (grantedB p s.table) i u := by
    apply mustWait_eq_G
    intro k j
    rw [doneBefore_eq, htab, grantedB_reverse]
  have key : l ≠ .S → l = if mustWait (ctx p prog tbl stalled) i t u = true then Stall.D else Stall.U := by
    intro hS
    have hwl : wasLoaded (s.util.get u.name) i = false := by
      cases hw : wasLoaded (s.util.get u.name) i with
      | false => rfl
      | true => exact absurd (hl.trans ((labelOf_eq_S_iff _ _ _ _ _).2 hw)) hS
    rw [hmw, hl]
    exact labelOf_exact hwf hinv hu' ho hwl hins (ctx p prog tbl stalled) rfl
  refine ⟨fun hS => ?_, fun hD => ?_⟩
  · have := key hS
    by_cases hmust : mustWait (ctx p prog tbl stalled) i t u = true
    · rw [if_pos hmust] at this; simp [this, hmust]
    · rw [if_neg hmust] at this; simp [this, hmust]
  · have := key (by rw [hD]; decide)
    by_cases hmust : mustWait (ctx p prog tbl stalled) i t u = true
    · unfold mustWait at hmust
      simp only [Bool.or_eq_true, Bool.and_eq_true] at hmust
      rcases hmust with ⟨h1, _⟩ | ⟨h1, _⟩
      · exact Or.inl h1
      · exact Or.inr h1
    · rw [if_neg hmust, hD] at this; cases this

/-- **C02.** For a well-formed processor and a program whose instructions list no source twice, every diagram of
`simulate` (returned, or carried by the stall error) passes the C02 checker: an examined instruction is shown `D`
exactly when an older conflicting access is outstanding (else `U`), and never `D` in a unit without locks. -/
theorem C02_data_stall_exact (p : Proc N) (prog : List (Instr N)) (tbl : List (Util N)) (stalled : Bool)
    (hwf : wfProc p = true) (hp : ProgOK prog) (h : Diagram p prog tbl stalled) :
    (Spec.C02 (ctx p prog tbl stalled)).ok = true :=
  (C02_ok_iff _).2 (C02_data_stall_exact_readable p prog tbl stalled hwf hp h)

/-- **No fault** (exported from `Lemmas/Hazards`): `can_access` is never asked on an emptied queue and no deferred
`dequeue` raises — the only fault outcome the model can produce is running out of fuel. -/
theorem C02_no_queue_fault (p : Proc N) (prog : List (Instr N)) (hwf : wfProc p = true) (hp : ProgOK prog) :
    simulate p prog ≠ .fault .queueEmpty ∧ simulate p prog ≠ .fault .badDequeue :=
  no_queue_fault hwf hp

/-! ## Non-vacuity

Same processor and program as in `Props/C01.lean`: capability `7` passes the read-locking input port `0` and the
write-locking output port `1` (both width 1); capability `8` is served by the in-out port `2` (width 2, both locks).

    I0: R1 := f(R2, R3)   cap 7
    I1: R4 := f(R1)       cap 8     RAW on R1 with I0
    I2: R2 := f(R5)       cap 8     WAR on R2 with I0
    I3: R4 := f(R6)       cap 7     WAW on R4 with I1
    I4: R7 := f(R1, R7)   cap 8     reads its own destination; RAW on R1 with I0 -/
namespace C02Example

def rdU : UnitM Nat := ⟨0, 1, [7], true, false, []⟩
def wrU : UnitM Nat := ⟨1, 1, [7], false, true, []⟩
def bothU : UnitM Nat := ⟨2, 2, [8], true, true, []⟩
def proc : Proc Nat := { inPorts := [rdU], outPorts := [⟨wrU, [0]⟩], inOut := [bothU], internal := [] }
def prog : List (Instr Nat) :=
  [⟨[2, 3], 1, 7⟩, ⟨[1], 4, 8⟩, ⟨[5], 2, 8⟩, ⟨[6], 4, 7⟩, ⟨[1, 7], 7, 8⟩]

/-- the diagram: unit ↦ hosted instructions, cycle by cycle -/
def table : List (Util Nat) :=
  [ [(2, [⟨1, .D⟩, ⟨2, .D⟩]), (1, []), (0, [⟨0, .U⟩])],
    [(2, [⟨1, .D⟩, ⟨2, .U⟩]), (1, [⟨0, .U⟩]), (0, [⟨3, .U⟩])],
    [(2, [⟨1, .U⟩, ⟨4, .U⟩]), (1, [⟨3, .D⟩]), (0, [])],
    [(2, []), (1, [⟨3, .U⟩]), (0, [])] ]

example : wfProc proc = true := by decide
example : progOK prog = true := by decide

def isDoneWith (o : Outcome Nat) (t : List (Util Nat)) : Bool :=
  match o with
  | .done t' => decide (t' = t)
  | _ => false

theorem sim_done : isDoneWith (simulate proc prog) table = true := by decide

theorem sim_eq : simulate proc prog = .done table := by
  have h := sim_done
  unfold isDoneWith at h
  split at h
  · next t' e => rw [e]; congr 1; exact of_decide_eq_true h
  · cases h

/-- the hypotheses of `C02_data_stall_exact` are satisfiable, and the theorem applies to the diagram -/
example : Diagram proc prog table false ∧ (Spec.C02 (ctx proc prog table false)).ok = true :=
  ⟨Or.inl ⟨rfl, sim_eq⟩,
   C02_data_stall_exact proc prog table false (by decide) ((progOK_iff prog).1 (by decide)) (Or.inl ⟨rfl, sim_eq⟩)⟩

-- the checker agrees by evaluation
example : (Spec.C02 (ctx proc prog table false)).ok = true := by decide
-- cycle 0: I1 (RAW on R1) and I2 (WAR on R2: I0 reads R2 in this very cycle, not before it) must wait in unit 2
example : mustWait (ctx proc prog table false) 1 0 bothU = true ∧
    mustWait (ctx proc prog table false) 2 0 bothU = true := by decide
-- cycle 1: I0's read is done, I2 goes; I1 still waits for I0's write, performed in this cycle
example : mustWait (ctx proc prog table false) 2 1 bothU = false ∧
    mustWait (ctx proc prog table false) 1 1 bothU = true := by decide
-- cycle 2: I1 goes; the self-dependent I4 does not wait on itself (read and write of R7 granted together);
-- I3 (WAW on R4 with I1, whose write is performed in this cycle) waits in the write-locking unit 1
example : mustWait (ctx proc prog table false) 1 2 bothU = false ∧
    mustWait (ctx proc prog table false) 4 2 bothU = false ∧
    mustWait (ctx proc prog table false) 3 2 wrU = true := by decide
-- cycle 3: I3 goes
example : mustWait (ctx proc prog table false) 3 3 wrU = false := by decide
-- a diagram that shows I1 unstalled too early (cycle 1) is rejected: a missing stall …
example : (Spec.C02 (ctx proc prog
    [ [(2, [⟨1, .D⟩]), (0, [⟨0, .U⟩])], [(2, [⟨1, .U⟩]), (1, [⟨0, .U⟩])] ] false)).ok = false := by decide
-- … and so is a spurious stall (I2 shown `D` in cycle 1 although I0 has read R2 in cycle 0)
example : (Spec.C02 (ctx proc prog
    [ [(2, [⟨1, .D⟩, ⟨2, .D⟩]), (0, [⟨0, .U⟩])], [(2, [⟨1, .D⟩, ⟨2, .D⟩]), (1, [⟨0, .U⟩])] ] false)).ok = false := by
  decide
-- defect D1 (self-dependent instruction alone in a unit with both locks) does not dead-lock the repaired model
example : isDoneWith (simulate proc [⟨[1, 2], 1, 8⟩]) [ [(2, [⟨0, .U⟩]), (1, [])] ] = true := by decide

end C02Example

end ProcSim
