import ProcSim.Lemmas.Hazards
/-!
# C02 — data stalls are exact: wait iff an older conflicting access is outstanding

"An instruction that arrives in, or is already waiting in, a unit that locks registers is shown data-stalled (`D`) in a
cycle exactly when some older instruction has not, before that cycle, performed a conflicting access to a register the
unit must lock for it (its sources under a read lock, its destination under a write lock); otherwise it is shown
unstalled (`U`) in that cycle. An instruction never waits on itself and is never data-stalled in a unit without locks."

* the checker: `Spec.C02` with `Spec.mustWait` (`ProcSim/Spec/Sim.lean`);
* proof: `ProcSim/Lemmas/Hazards.lean` — `regsAvail_exact` / `labelOf_exact` (state level: `_regs_avail` never raises
  and refuses iff `mustWait`), from the queue invariant `PlanInv`, `canServe_sorted_iff` and the host invariant
  (`examined_facts_origin`: an examined instruction has not been granted the accesses its unit locks, and in a unit with
  the write lock only it has already performed its read — from `wfProc`'s route condition).

Hypotheses: `wfProc p` and `ProgOK prog` (no repeated source register in an instruction; guaranteed by the
`HwInstruction` constructor of the real code).
-/
namespace ProcSim
open Spec Hazards

attribute [local implicit_reducible] AMap

variable {N : Type} [DecidableEq N]

/-- C02, readable form: for every label `l` shown for instruction `i` in unit `u` in cycle `t`,
* if `l` is not `S` (the instruction is examined in that cycle), `l` is `D` exactly when `mustWait` holds — hence `U`
  exactly when it does not;
* `l` is `D` only in a unit holding a lock. -/
def C02_Holds (c : Ctx N) : Prop :=
  ∀ i t u l, i < c.n → (t, u, l) ∈ c.positions i →
    (l ≠ .S → (l = .D ↔ mustWait c i t u = true)) ∧ (l = .D → u.rd = true ∨ u.wr = true)

/-- the Bool clauses evaluated by the driver say exactly `C02_Holds` -/
theorem C02_ok_iff (c : Ctx N) : (Spec.C02 c).ok = true ↔ C02_Holds c := by
  simp only [Spec.C02, Clauses.ok, List.all_cons, List.all_nil, Bool.and_true, Bool.and_eq_true, List.all_eq_true,
    List.mem_flatMap, List.mem_range, List.mem_map, C02_Holds]
  constructor
  · rintro ⟨h1, h2⟩ i t u l hi hpos
    have a := h1 (i, t, u, l) ⟨i, hi, (t, u, l), hpos, rfl⟩
    have b := h2 (i, t, u, l) ⟨i, hi, (t, u, l), hpos, rfl⟩
    simp only at a b
    refine ⟨fun hS => ?_, fun hD => ?_⟩
    · cases l <;> cases hmw : mustWait c i t u <;> simp_all
    · subst hD; simpa using b
  · intro h
    refine ⟨?_, ?_⟩
    · rintro ⟨i', t, u, l⟩ ⟨i, hi, x, hpos, e⟩
      simp only [Prod.mk.injEq] at e
      obtain ⟨rfl, rfl⟩ := e
      have := (h i t u l hi hpos).1
      show (l == .S || ((l == .D) == mustWait c i t u)) = true
      cases l <;> cases hmw : mustWait c i t u <;> simp_all
    · rintro ⟨i', t, u, l⟩ ⟨i, hi, x, hpos, e⟩
      simp only [Prod.mk.injEq] at e
      obtain ⟨rfl, rfl⟩ := e
      have := (h i t u l hi hpos).2
      show (!(l == .D) || u.rd || u.wr) = true
      cases l <;> simp_all

variable [LT N] [DecidableRel (α := N) (· < ·)]

/-- **C02 (readable form).** -/
theorem C02_data_stall_exact' (p : Proc N) (prog : List (Instr N)) (tbl : List (Util N)) (stalled : Bool)
    (hwf : wfProc p = true) (hp : ProgOK prog) (h : Diagram p prog tbl stalled) :
    C02_Holds (ctx p prog tbl stalled) := by
  intro i t u l hi hpos
  obtain ⟨hT, hu, hm⟩ := (mem_positions_iff _ _ _).1 hpos
  have hT' : t < tbl.length := hT
  have hu' : u ∈ p.allUnits := hu
  obtain ⟨s, lab, qs, hinv, htab, hlab, _, hrow⟩ := row_view hwf hp h hT'
  have hrow' : (ctx p prog tbl stalled).row t = lab.1 := hrow
  rw [hrow'] at hm
  dsimp only at hm
  obtain ⟨⟨y, hy, hyi⟩, hl⟩ := label_view hwf hlab hu' hm
  have hi' : i < prog.length := hi
  obtain ⟨ins, hins⟩ : ∃ ins, prog[i]? = some ins := ⟨prog[i]'hi', List.getElem?_eq_getElem hi'⟩
  have hF := fillCycle_issueInv prog s.util s.entered (wfProc_nodup_names hwf) (wfProc_orderOK hwf)
  have ho := hF.origin u.name y hy
  rw [hyi] at ho
  have hmw : mustWait (ctx p prog tbl stalled) i t u =
      mustWaitG (ctx p prog tbl stalled) (grantedB p s.table) i u := by
    apply mustWait_eq_G
    intro k j
    rw [doneBefore_eq, htab, grantedB_reverse]
  have key : l ≠ .S → l = if mustWait (ctx p prog tbl stalled) i t u = true then Stall.D else Stall.U := by
    intro hS
    have hwl : wasLoaded (s.util.get u.name) i = false := by
      cases hw : wasLoaded (s.util.get u.name) i with
      | false => rfl
      | true => exact absurd (hl.trans ((labelOf_eq_S_iff _ _ _ _ _).2 hw)) hS
    rw [hmw, hl]
    exact labelOf_exact hwf hinv hu' ho hwl hins (ctx p prog tbl stalled) rfl
  refine ⟨fun hS => ?_, fun hD => ?_⟩
  · have := key hS
    by_cases hmust : mustWait (ctx p prog tbl stalled) i t u = true
    · rw [if_pos hmust] at this; simp [this, hmust]
    · rw [if_neg hmust] at this; simp [this, hmust]
  · have := key (by rw [hD]; decide)
    by_cases hmust : mustWait (ctx p prog tbl stalled) i t u = true
    · unfold mustWait at hmust
      simp only [Bool.or_eq_true, Bool.and_eq_true] at hmust
      rcases hmust with ⟨h1, _⟩ | ⟨h1, _⟩
      · exact Or.inl h1
      · exact Or.inr h1
    · rw [if_neg hmust, hD] at this; cases this

/-- **C02.** For a well-formed processor and a program whose instructions list no source twice, every diagram of
`simulate` (returned, or carried by the stall error) passes the C02 checker: an examined instruction is shown `D`
exactly when an older conflicting access is outstanding (else `U`), and never `D` in a unit without locks. -/
theorem C02_data_stall_exact (p : Proc N) (prog : List (Instr N)) (tbl : List (Util N)) (stalled : Bool)
    (hwf : wfProc p = true) (hp : ProgOK prog) (h : Diagram p prog tbl stalled) :
    (Spec.C02 (ctx p prog tbl stalled)).ok = true :=
  (C02_ok_iff _).2 (C02_data_stall_exact' p prog tbl stalled hwf hp h)

end ProcSim
