import ProcSim.Lemmas.LoaderGraph
import ProcSim.Lemmas.LoaderCycle
/-!
# C12 — processor objects list units sink-first and classify ports by connectivity

* `C12_mkProc_order` — **any** processor object built by the constructor model `mkProc` from parts supplied in any
  order lists its internal units sink-first (each unit before all of its predecessors) and its output ports in
  name order. `C12_mkProc_perm`, `C12_mkProc_some_iff` — the parts are only re-ordered, and the constructor
  succeeds iff a sink-first order exists at all.
* `C12_loaded` — for a loaded processor additionally: input port ⇔ no predecessor (and a successor), output port ⇔
  no successor (and a predecessor), in-out port ⇔ isolated, internal ⇔ both.
* `checkC12Order_iff`, `checkC12_iff` — the Boolean checkers the driver evaluates on the implementation's objects
  decide exactly these statements.

The order hypothesis `StrictTotal N` (`<` on names is a strict total order) holds for `String` and `Nat`
(`StrictTotal.string`, `StrictTotal.nat`); it is needed for "output ports in name order" only.
-/
namespace ProcSim
namespace Loader
open Spec

set_option linter.unusedSectionVars false
variable {N : Type} [DecidableEq N]

/-! ## the checkers decide the specifications -/

theorem sinkFirstB_iff (l : List (FuncU N)) : sinkFirstB l = true ↔ SinkFirst l := by
  induction l with
  | nil => simp [sinkFirstB, SinkFirst]
  | cons a t ih =>
    simp only [sinkFirstB, Bool.and_eq_true, Bool.not_eq_true', decide_eq_false_iff_not, List.all_eq_true, ih,
      SinkFirst, List.pairwise_cons, List.mem_cons, forall_eq_or_imp]
    constructor
    · rintro ⟨⟨h1, h2⟩, h3, h4⟩; exact ⟨⟨h2, h3⟩, h1, h4⟩
    · rintro ⟨⟨h2, h3⟩, h1, h4⟩; exact ⟨⟨h1, h2⟩, h3, h4⟩

section Order
variable [LT N] [DecidableRel (α := N) (· < ·)]

theorem outSortedB_iff (l : List (FuncU N)) : outSortedB l = true ↔ OutSorted l := by
  induction l with
  | nil => simp [outSortedB, OutSorted]
  | cons a t ih =>
    unfold OutSorted at ih ⊢
    simp only [outSortedB, Bool.and_eq_true, Bool.not_eq_true', decide_eq_false_iff_not, List.all_eq_true, ih,
      List.pairwise_cons]

theorem checkC12Order_iff (p : Proc N) : checkC12Order p = true ↔ C12_Order p := by
  simp only [checkC12Order, allPass, clausesC12Order, List.all_cons, List.all_nil, Bool.and_true, Bool.and_eq_true,
    sinkFirstB_iff, outSortedB_iff]
  exact ⟨fun ⟨h1, h2⟩ => ⟨h1, h2⟩, fun h => ⟨h.sinkFirst, h.outSorted⟩⟩

theorem hasPredB_iff (p : Proc N) (u : N) : hasPredB p u = true ↔ ∃ a, edgeB p a u = true := by
  simp only [hasPredB, edgeB, List.any_eq_true, Bool.and_eq_true, decide_eq_true_eq, Bool.not_eq_true']
  constructor
  · rintro ⟨f, hf, hu, hne⟩
    cases hp : f.preds with
    | nil => simp [hp] at hne
    | cons a _ => exact ⟨a, f, hf, hu, by simp [hp]⟩
  · rintro ⟨a, f, hf, hu, ha⟩
    refine ⟨f, hf, hu, ?_⟩
    cases hp : f.preds with
    | nil => simp [hp] at ha
    | cons _ _ => rfl

theorem hasSuccB_iff (p : Proc N) (u : N) : hasSuccB p u = true ↔ ∃ b ∈ procNames p, edgeB p u b = true := by
  simp [hasSuccB]

theorem mem_procNames (p : Proc N) (u : N) : u ∈ procNames p ↔
    u ∈ p.inPorts.map (·.name) ∨ u ∈ p.inOut.map (·.name) ∨ u ∈ p.outPorts.map (·.model.name) ∨
      u ∈ p.internal.map (·.model.name) := by
  simp only [procNames, Proc.allUnits, List.map_append, List.mem_append, List.map_map, Function.comp_def, or_assoc]

theorem four_class_iff {I O IO INT A B : Prop} (hI : I → ¬A ∧ B) (hO : O → A ∧ ¬B) (hIO : IO → ¬A ∧ ¬B)
    (hINT : INT → A ∧ B) (hall : I ∨ IO ∨ O ∨ INT) :
    (I ↔ ¬A ∧ B) ∧ (O ↔ A ∧ ¬B) ∧ (IO ↔ ¬A ∧ ¬B) ∧ (INT ↔ A ∧ B) := by
  grind

/-- `checkC12` decides `C12_Holds` (no side condition is needed) -/
theorem checkC12_iff (p : Proc N) : checkC12 p = true ↔ C12_Holds p := by
  have hF : ∀ u, (∀ a, edgeB p a u = false) ↔ ¬ ∃ a, edgeB p a u = true := fun u => by simp
  have hG : ∀ u, (∀ b ∈ procNames p, edgeB p u b = false) ↔ ¬ ∃ b ∈ procNames p, edgeB p u b = true := fun u => by simp
  simp only [checkC12, allPass, clausesC12, List.all_append, List.all_cons, List.all_nil, Bool.and_true, Bool.and_eq_true]
  have hord : (clausesC12Order p).all (·.2) = true ↔ C12_Order p := checkC12Order_iff p
  rw [hord]
  simp only [List.all_eq_true, Bool.and_eq_true, Bool.not_eq_true', ← Bool.not_eq_true, hasPredB_iff, hasSuccB_iff]
  constructor
  · rintro ⟨ho, hI, hO, hIO, hINT⟩
    have key : ∀ u ∈ procNames p, _ := fun u hu =>
      four_class_iff (I := u ∈ p.inPorts.map (·.name)) (O := u ∈ p.outPorts.map (·.model.name))
        (IO := u ∈ p.inOut.map (·.name)) (INT := u ∈ p.internal.map (·.model.name))
        (A := ∃ a, edgeB p a u = true) (B := ∃ b ∈ procNames p, edgeB p u b = true)
        (fun h => by obtain ⟨m, hm, rfl⟩ := List.mem_map.1 h; exact hI m hm)
        (fun h => by obtain ⟨m, hm, rfl⟩ := List.mem_map.1 h; exact hO m hm)
        (fun h => by obtain ⟨m, hm, rfl⟩ := List.mem_map.1 h; exact hIO m hm)
        (fun h => by obtain ⟨m, hm, rfl⟩ := List.mem_map.1 h; exact hINT m hm)
        ((mem_procNames p u).1 hu)
    exact { toC12_Order := ho
            inputIff := fun u hu => by rw [hF]; exact (key u hu).1
            outputIff := fun u hu => by rw [hG]; exact (key u hu).2.1
            inOutIff := fun u hu => by rw [hF, hG]; exact (key u hu).2.2.1
            internalIff := fun u hu => (key u hu).2.2.2 }
  · intro h
    refine ⟨h.toC12_Order, ?_, ?_, ?_, ?_⟩
    · intro m hm
      have hn : m.name ∈ p.inPorts.map (·.name) := List.mem_map_of_mem hm
      have := (h.inputIff m.name ((mem_procNames p _).2 (.inl hn))).1 hn
      rwa [hF] at this
    · intro m hm
      have hn : m.model.name ∈ p.outPorts.map (·.model.name) := List.mem_map_of_mem hm
      have := (h.outputIff m.model.name ((mem_procNames p _).2 (.inr (.inr (.inl hn))))).1 hn
      rwa [hG] at this
    · intro m hm
      have hn : m.name ∈ p.inOut.map (·.name) := List.mem_map_of_mem hm
      have := (h.inOutIff m.name ((mem_procNames p _).2 (.inr (.inl hn)))).1 hn
      rwa [hF, hG] at this
    · intro m hm
      have hn : m.model.name ∈ p.internal.map (·.model.name) := List.mem_map_of_mem hm
      exact (h.internalIff m.model.name ((mem_procNames p _).2 (.inr (.inr (.inr hn))))).1 hn

/-! ## processor objects built directly from parts, supplied in any order -/

/-- **C12, first half.** Whatever the order in which the parts are supplied, a processor object lists its internal
units sink-first (every unit before all of its predecessors, and no unit is its own predecessor) and its output
ports in name order. -/
theorem C12_mkProc_order (ho : StrictTotal N) {ins inouts : List (UnitM N)} {outs internal : List (FuncU N)}
    {p : Proc N} (h : mkProc ins outs inouts internal = some p) : C12_Order p := by
  unfold mkProc at h
  obtain ⟨io, hio, rfl⟩ := Option.map_eq_some_iff.1 h
  exact ⟨postOrder_sinkFirst hio, sortFU_sorted ho outs⟩

/-- The constructor only re-orders the parts: input and in-out ports are unchanged, the output ports are a
permutation of the supplied ones, every listed internal unit was supplied, every supplied *name* is listed exactly
once, and when the supplied internal units have pairwise different names the listed ones are a permutation of them.
(If two internal units of the same name are supplied, one of them is dropped — like the `networkx` node dictionary
of `_get_unit_graph`.) -/
theorem C12_mkProc_perm {ins inouts : List (UnitM N)} {outs internal : List (FuncU N)} {p : Proc N}
    (h : mkProc ins outs inouts internal = some p) :
    p.inPorts = ins ∧ p.inOut = inouts ∧ p.outPorts.Perm outs ∧
    (∀ x ∈ p.internal, x ∈ internal) ∧ (p.internal.map (·.model.name)).Nodup ∧
    (∀ x ∈ internal, x.model.name ∈ p.internal.map (·.model.name)) ∧
    ((internal.map (·.model.name)).Nodup → p.internal.Perm internal) := by
  unfold mkProc at h
  obtain ⟨io, hio, rfl⟩ := Option.map_eq_some_iff.1 h
  exact ⟨rfl, rfl, sortFU_perm outs, postOrder_subset hio, postOrder_names_nodup hio, postOrder_names_cover hio,
    fun hn => postOrder_perm hn hio⟩

/-- If the supplied internal units can be listed sink-first at all, the constructor succeeds. -/
theorem C12_mkProc_some_of_sinkFirst {ins inouts : List (UnitM N)} {outs internal l : List (FuncU N)}
    (hl : SinkFirst l) (hsub : ∀ x ∈ internal, x ∈ l) : (mkProc ins outs inouts internal).isSome = true := by
  unfold mkProc
  rw [Option.isSome_map]
  exact postOrder_isSome_of_sinkFirst hl hsub

/-- The constructor succeeds iff the internal units (of pairwise different names) admit a sink-first order, i.e. iff
the predecessor relation restricted to the internal units has no cycle (`C12_mkProc_some_iff_acyclic` below for the
reading with closed walks). -/
theorem C12_mkProc_some_iff {ins inouts : List (UnitM N)} {outs internal : List (FuncU N)}
    (hn : (internal.map (·.model.name)).Nodup) :
    (mkProc ins outs inouts internal).isSome = true ↔ ∃ l, l.Perm internal ∧ SinkFirst l := by
  constructor
  · intro h
    obtain ⟨p, hp⟩ := Option.isSome_iff_exists.1 h
    have := C12_mkProc_perm hp
    unfold mkProc at hp
    obtain ⟨io, hio, rfl⟩ := Option.map_eq_some_iff.1 hp
    exact ⟨io, this.2.2.2.2.2.2 hn, postOrder_sinkFirst hio⟩
  · rintro ⟨l, hl, hs⟩
    exact C12_mkProc_some_of_sinkFirst hs (fun x hx => hl.mem_iff.2 hx)

/-- The constructor succeeds iff there is no closed walk of internal predecessors (`PredIn internal a b`: `a` names
an internal unit listed among the predecessors of the internal unit `b`); otherwise `NetworkXUnfeasible` escapes. -/
theorem C12_mkProc_some_iff_acyclic {ins inouts : List (UnitM N)} {outs internal : List (FuncU N)}
    (hn : (internal.map (·.model.name)).Nodup) :
    (mkProc ins outs inouts internal).isSome = true ↔ ¬ ∃ u l, WalkR (PredIn internal) (u :: l ++ [u]) := by
  unfold mkProc
  rw [Option.isSome_map]
  exact postOrder_isSome_iff_acyclic hn

/-! ## loaded processors -/

/-- **C12, second half.** A loaded processor satisfies the order statement, and a unit is an input port iff it has
no predecessor (and a successor), an output port iff it has no successor (and a predecessor), an in-out port iff
it is isolated, and an internal unit iff it has both. -/
theorem C12_loaded (ho : StrictTotal N) (fold : N → N) {d : Desc N} {p : Proc N} (h : load fold d = .ok p) :
    C12_Holds p := by
  obtain ⟨g0, reg, g2, hc, hp, hm⟩ := load_ok fold h
  have hwf0 : g0.WF := createGraph_WF fold hc
  have hwf : g2.WF := (prepare_induced hwf0 hp).2
  have hE : ∀ a b, edgeB p a b = true ↔ (a, b) ∈ g2.edges := fun a b => makeProcessor_edgeB fold hwf hm
  have hN : ∀ u, u ∈ procNames p ↔ u ∈ g2.names := fun u => (makeProcessor_procNames_perm fold hwf.namesNodup hm).mem_iff
  have hA : ∀ u, (∀ a, edgeB p a u = false) ↔ ¬ ∃ a, (a, u) ∈ g2.edges := fun u => by
    simp only [← hE, not_exists, Bool.not_eq_true]
  have hB : ∀ u, (∃ b ∈ procNames p, edgeB p u b = true) ↔ ∃ b, (u, b) ∈ g2.edges := fun u => by
    constructor
    · rintro ⟨b, -, hb⟩; exact ⟨b, (hE u b).1 hb⟩
    · rintro ⟨b, hb⟩; exact ⟨b, (hN b).2 (hwf.edgesIn _ hb).2, (hE u b).2 hb⟩
  have hB' : ∀ u, (∀ b ∈ procNames p, edgeB p u b = false) ↔ ¬ ∃ b, (u, b) ∈ g2.edges := fun u => by
    rw [← hB]; simp
  have hord : C12_Order p := C12_mkProc_order ho hm
  refine { toC12_Order := hord, inputIff := ?_, outputIff := ?_, inOutIff := ?_, internalIff := ?_ } <;>
    intro u hu <;> have hcl := makeProcessor_classes fold hwf.namesNodup hm u <;> have hu' := (hN u).1 hu
  · rw [hA, hB, hcl.1]; exact ⟨fun h => h.2, fun h => ⟨hu', h⟩⟩
  · rw [hB', hcl.2.1]
    constructor
    · rintro ⟨-, ⟨a, ha⟩, h2⟩; exact ⟨⟨a, (hE a u).2 ha⟩, h2⟩
    · rintro ⟨⟨a, ha⟩, h2⟩; exact ⟨hu', ⟨a, (hE a u).1 ha⟩, h2⟩
  · rw [hA, hB', hcl.2.2.1]; exact ⟨fun h => h.2, fun h => ⟨hu', h⟩⟩
  · rw [hB, hcl.2.2.2]
    constructor
    · rintro ⟨-, ⟨a, ha⟩, h2⟩; exact ⟨⟨a, (hE a u).2 ha⟩, h2⟩
    · rintro ⟨⟨a, ha⟩, h2⟩; exact ⟨hu', ⟨a, (hE a u).1 ha⟩, h2⟩

end Order

/-! ## non-vacuity (`N := Nat`, evaluated by `decide`) -/

namespace C12Examples

def exM (n : Nat) : UnitM Nat := ⟨n, 1, [100], false, false, []⟩
/-- internal DAG 1→2, 1→3, 2→4, 3→4, 4→5 (+ in-port 0→1, out ports 5→6, 5→7), supplied scrambled -/
def exInternal : List (FuncU Nat) :=
  [⟨exM 3, [1]⟩, ⟨exM 5, [4]⟩, ⟨exM 1, [0]⟩, ⟨exM 4, [3, 2]⟩, ⟨exM 2, [1]⟩]
def exOuts : List (FuncU Nat) := [⟨exM 7, [5]⟩, ⟨exM 6, [5]⟩]

example : (mkProc [exM 0] exOuts [] exInternal).map checkC12Order = some true := by decide
example : ((mkProc [exM 0] exOuts [] exInternal).map (fun p => p.internal.map (·.model.name))) = some [5, 4, 3, 2, 1] := by decide
example : ((mkProc [exM 0] exOuts [] exInternal).map (fun p => p.outPorts.map (·.model.name))) = some [6, 7] := by decide
-- a cycle 1 → 2 → 1 among the internal units: no object
example : mkProc [exM 0] exOuts [] [⟨exM 1, [0, 2]⟩, ⟨exM 2, [1]⟩] = none := by decide
-- the checker rejects a predecessor listed first / unsorted output ports
example : checkC12Order (⟨[exM 0], exOuts, [], exInternal⟩ : Proc Nat) = false := by decide

def exDesc : Desc Nat :=
  ⟨[⟨4, 1, [100], false, false, []⟩, ⟨2, 1, [100], true, false, []⟩, ⟨5, 1, [100], false, true, []⟩,
    ⟨1, 1, [100], false, false, []⟩, ⟨3, 1, [100], true, false, []⟩, ⟨9, 1, [100], true, true, []⟩],
   [[4, 5], [1, 3], [2, 4], [1, 2], [3, 4]]⟩

example : (match load id exDesc with | .ok p => checkC12 p | .error _ => false) = true := by decide
example : (match load id exDesc with
    | .ok p => (p.inPorts.map (·.name), p.inOut.map (·.name), p.outPorts.map (·.model.name), p.internal.map (·.model.name))
    | .error _ => ([], [], [], [])) = ([1], [9], [5], [4, 2, 3]) := by decide

/-- the theorems apply: the loaded example processor satisfies `C12_Holds` -/
example : ∀ p, load id exDesc = .ok p → C12_Holds p := fun _ h => C12_loaded StrictTotal.nat id h
example : (load id exDesc).toOption.isSome = true := by decide

end C12Examples

end Loader
end ProcSim
