import ProcSim.Lemmas.Program
/-!
# C14 — program text parses to the written instructions; syntax errors are located

`renderProgram is ws tail` is the text of the instruction list `is` written with the whitespace choices `ws`
(blank lines before each line, blanks before the mnemonic, between mnemonic and operands, around every comma and
at the end of the line — any of the ASCII blanks of `str.isspace`, line terminators included) followed by the blank
lines `tail`. `expected is ws` is what that text *means*: per instruction the mnemonic, the first operand, the
remaining operands (registers in the spelling of their first occurrence in the text) and the 1-based physical line
number; or, for the first line without operand / with an empty operand, the syntax error with line, mnemonic and
operand position.

* `C14_parse_render`: the model of `read_program` returns exactly that, for **every** instruction list whose
  mnemonics are non-empty and blank-free and whose operands are empty or non-empty blank- and comma-free tokens
  (`instrOK`), **every** whitespace choice (`wsOK`: blanks only, non-empty separator) and every blank tail.
  No further restriction on the token alphabet is needed.
* `C14_syntax_errors`: every single-fault corruption of a fault-free list is answered with the error of the
  corrupted instruction (`faultError`); the three fault kinds are spelled out as corollaries.
* `checkC14_iff`: the executable checker decides `C14_Holds`.

Proof: `Lemmas/Program.lean` — `strip`/`splitOnce`/`splitOperands` undo `renderLine` (§1–4), the registry maps
the folded text to the first spelling among the operands read so far (§5), `sortedUniq` is strictly increasing with
the same members (§6), induction over the instruction list with registry, seen operands and line counter
generalised (§7), corruptions (§8), checker (§9).
-/
namespace ProcSim
open Program Spec.Text ProgramLemmas

/-- **C14 (round trip).** Parsing the rendered text succeeds iff the written list is free of faults, and then
returns the written instructions line by line (`Matches`: mnemonic, destination in first spelling, sources = the
strictly increasing tuple of the *set* of remaining operands in first spelling, 1-based physical line number with
blank lines counted); otherwise it fails with the very error of the first faulty line (same constructor ⇒ same
line, mnemonic, operand position and message). -/
theorem C14_parse_render (is : List SrcInstr) (ws : List LineWs) (tail : List (List Char))
    (his : ∀ i ∈ is, instrOK i = true) (hws : ∀ w ∈ ws, wsOK w = true) (htail : ∀ l ∈ tail, blankB l = true) :
    match Program.readProgram (renderProgram is ws tail), expected is ws with
    | .ok got, .ok want => Forall2 Matches want got
    | .error e, .error want => e = want
    | _, _ => False := by
  have h := readLines_render tail (fun b hb => blankB_iff.1 (htail b hb)) is ws [] [] 1 RegInv.nil his hws
  unfold Agree at h
  exact h

/-- **C14 (syntax errors).** Every single-fault corruption `applyFault f is` of a fault-free list (mnemonics fine,
at least one operand per line, all operands tokens), in every rendering, is rejected with `faultError f is ws`:
the error carries the physical line `lineOf ws j` and the mnemonic of the corrupted instruction `j`, and
* `.noOperands` when all operands were removed or the only operand was emptied,
* `.emptyOperand … k` with the position `k` of the emptied / inserted empty operand otherwise. -/
theorem C14_syntax_errors (f : Fault) (is : List SrcInstr) (ws : List LineWs) (tail : List (List Char))
    (want : ParseError)
    (his : ∀ i ∈ is, faultFree i = true) (hws : ∀ w ∈ ws, wsOK w = true) (htail : ∀ l ∈ tail, blankB l = true)
    (hf : faultError f is ws = some want) :
    Program.readProgram (renderProgram (applyFault f is) ws tail) = .error want := by
  have h := readLines_render tail (fun b hb => blankB_iff.1 (htail b hb)) (applyFault f is) ws [] [] 1 RegInv.nil
    (instrOK_applyFault f is his) hws
  rw [show expectedFrom [] 1 (applyFault f is) ws = expected (applyFault f is) ws from rfl,
    expected_applyFault f is ws want his hf] at h
  exact eq_error_of_agree h

/-- all operands of instruction `j` removed: "No operands provided" at its line, with its mnemonic -/
theorem C14_syntax_errors_noOps (j : Nat) (i : SrcInstr) (is : List SrcInstr) (ws : List LineWs)
    (tail : List (List Char))
    (his : ∀ i ∈ is, faultFree i = true) (hws : ∀ w ∈ ws, wsOK w = true) (htail : ∀ l ∈ tail, blankB l = true)
    (hj : is[j]? = some i) :
    Program.readProgram (renderProgram (applyFault (.noOps j) is) ws tail) =
      .error (.noOperands (lineOf ws j) i.name) :=
  C14_syntax_errors (.noOps j) is ws tail _ his hws htail (by simp [faultError, hj])

/-- operand `k` (1-based) of instruction `j` emptied: "Operand k empty" at its line, with its mnemonic — unless
it was the only operand, which leaves the bare mnemonic: "No operands provided" -/
theorem C14_syntax_errors_emptyOp (j k : Nat) (i : SrcInstr) (is : List SrcInstr) (ws : List LineWs)
    (tail : List (List Char))
    (his : ∀ i ∈ is, faultFree i = true) (hws : ∀ w ∈ ws, wsOK w = true) (htail : ∀ l ∈ tail, blankB l = true)
    (hj : is[j]? = some i) (hk1 : 1 ≤ k) (hk2 : k ≤ i.ops.length) :
    Program.readProgram (renderProgram (applyFault (.emptyOp j k) is) ws tail) =
      .error (if i.ops.length = 1 then .noOperands (lineOf ws j) i.name
              else .emptyOperand (lineOf ws j) i.name k) :=
  C14_syntax_errors (.emptyOp j k) is ws tail _ his hws htail (by simp [faultError, hj, hk1, hk2])

/-- an empty operand inserted at position `k` (1 = leading comma, `len + 1` = trailing comma) of instruction `j`:
"Operand k empty" at its line, with its mnemonic -/
theorem C14_syntax_errors_extraEmpty (j k : Nat) (i : SrcInstr) (is : List SrcInstr) (ws : List LineWs)
    (tail : List (List Char))
    (his : ∀ i ∈ is, faultFree i = true) (hws : ∀ w ∈ ws, wsOK w = true) (htail : ∀ l ∈ tail, blankB l = true)
    (hj : is[j]? = some i) (hk1 : 1 ≤ k) (hk2 : k ≤ i.ops.length + 1) :
    Program.readProgram (renderProgram (applyFault (.extraEmpty j k) is) ws tail) =
      .error (.emptyOperand (lineOf ws j) i.name k) :=
  C14_syntax_errors (.extraEmpty j k) is ws tail _ his hws htail (by
    have : min (max k 1) (i.ops.length + 1) = k := by omega
    simp [faultError, hj, this])

/-- the executable checker decides the property -/
theorem checkC14_iff (is : List SrcInstr) (ws : List LineWs) (out : ParseObs) :
    checkC14 is ws out = none ↔ C14_Holds is ws out := by
  unfold checkC14 C14_Holds
  cases expected is ws with
  | ok want =>
    cases out with
    | ok got => exact checkInstrs_iff want 0 got
    | err e => simp
    | other c => simp
  | error want =>
    cases out with
    | ok got => simp
    | other c => simp
    | err e =>
      simp only [ErrMatches]
      by_cases h1 : e.cls = "CodeError"
      · by_cases h2 : e.line = want.line
        · by_cases h3 : e.instr = want.instr
          · cases want with
            | noOperands l i => simp [h1, h2, h3]
            | emptyOperand l i k =>
              by_cases h4 : namesPosition e k = true <;> simp [h1, h2, h3, h4]
          · simp [h1, h2, h3]
        · simp [h1, h2]
      · simp [h1]

/-! ## Non-vacuity: the hypotheses are satisfiable and the statements say what they should on a concrete text

```
<empty line>
␠⇥
⇥ADD⇥␠R1␠,⇥R2,␠r3␠⏎
⏎
ld␠r1⇥,R3␍⏎
MUL␠R4,r1␠␠,R1,⇥r2
<empty line>
⇥
```
-/
section NonVacuity

/-- `Except` has no `DecidableEq` in core; needed only to let `decide` compare parser results below -/
private instance exceptDecEq {ε α : Type} [DecidableEq ε] [DecidableEq α] : DecidableEq (Except ε α) := fun a b =>
  match a, b with
  | .ok x, .ok y => if h : x = y then isTrue (by rw [h]) else isFalse (fun e => h (by cases e; rfl))
  | .error x, .error y => if h : x = y then isTrue (by rw [h]) else isFalse (fun e => h (by cases e; rfl))
  | .ok _, .error _ => isFalse (fun e => by cases e)
  | .error _, .ok _ => isFalse (fun e => by cases e)

private def exProg : List SrcInstr :=
  [⟨['A', 'D', 'D'], [['R', '1'], ['R', '2'], ['r', '3']]⟩,
   ⟨['l', 'd'], [['r', '1'], ['R', '3']]⟩,
   ⟨['M', 'U', 'L'], [['R', '4'], ['r', '1'], ['R', '1'], ['r', '2']]⟩]

private def exWs : List LineWs :=
  [{ blanks := [[], [' ', '\t']], pre := ['\t'], sep := ['\t', ' '], commas := [([' '], ['\t']), ([], [' '])],
     post := [' ', '\n'] },
   { blanks := [['\n']], commas := [(['\t'], [])], post := ['\r', '\n'] },
   { commas := [([], []), ([' ', ' '], []), ([], ['\t'])] }]

private def exTail : List (List Char) := [[], ['\t']]

/-- the hypotheses of `C14_parse_render` / `C14_syntax_errors` hold for the example -/
example : (∀ i ∈ exProg, instrOK i = true) ∧ (∀ i ∈ exProg, faultFree i = true) ∧
    (∀ w ∈ exWs, wsOK w = true) ∧ (∀ l ∈ exTail, blankB l = true) := by decide

/-- the rendered text is the one shown above -/
example : renderProgram exProg exWs exTail =
    [[], [' ', '\t'],
     ['\t', 'A', 'D', 'D', '\t', ' ', 'R', '1', ' ', ',', '\t', 'R', '2', ',', ' ', 'r', '3', ' ', '\n'],
     ['\n'],
     ['l', 'd', ' ', 'r', '1', '\t', ',', 'R', '3', '\r', '\n'],
     ['M', 'U', 'L', ' ', 'R', '4', ',', 'r', '1', ' ', ' ', ',', 'R', '1', ',', '\t', 'r', '2'],
     [], ['\t']] := by decide

/-- its meaning: lines 3, 5, 6; `r1`/`R3` are reported in their first spellings `R1`/`r3` -/
example : expected exProg exWs =
    .ok [⟨['A', 'D', 'D'], ['R', '1'], [['R', '2'], ['r', '3']], 3⟩,
         ⟨['l', 'd'], ['R', '1'], [['r', '3']], 5⟩,
         ⟨['M', 'U', 'L'], ['R', '4'], [['R', '1'], ['R', '1'], ['R', '2']], 6⟩] := by decide

/-- the parser's answer: sources as sorted sets (`R1` once) -/
example : Program.readProgram (renderProgram exProg exWs exTail) =
    .ok [⟨[['R', '2'], ['r', '3']], ['R', '1'], ['A', 'D', 'D'], 3⟩,
         ⟨[['r', '3']], ['R', '1'], ['l', 'd'], 5⟩,
         ⟨[['R', '1'], ['R', '2']], ['R', '4'], ['M', 'U', 'L'], 6⟩] := by decide

/-- each fault kind: what `faultError` demands … -/
example : faultError (.noOps 1) exProg exWs = some (.noOperands 5 ['l', 'd']) ∧
    faultError (.emptyOp 2 3) exProg exWs = some (.emptyOperand 6 ['M', 'U', 'L'] 3) ∧
    faultError (.extraEmpty 0 1) exProg exWs = some (.emptyOperand 3 ['A', 'D', 'D'] 1) ∧
    faultError (.extraEmpty 0 4) exProg exWs = some (.emptyOperand 3 ['A', 'D', 'D'] 4) ∧
    faultError (.emptyOp 0 1) [⟨['j'], [['R', '7']]⟩] [] = some (.noOperands 1 ['j']) ∧
    faultError (.emptyOp 0 2) [⟨['j'], [['R', '7']]⟩] [] = none := by decide

/-- … is what the parser answers on the corrupted texts (`ld`, `MUL R4,r1  ,,⇥r2`, `ADD , R1 ,⇥R2…`,
`ADD R1 ,⇥R2, r3,`, `j`) -/
example : Program.readProgram (renderProgram (applyFault (.noOps 1) exProg) exWs exTail) =
      .error (.noOperands 5 ['l', 'd']) ∧
    Program.readProgram (renderProgram (applyFault (.emptyOp 2 3) exProg) exWs exTail) =
      .error (.emptyOperand 6 ['M', 'U', 'L'] 3) ∧
    Program.readProgram (renderProgram (applyFault (.extraEmpty 0 1) exProg) exWs exTail) =
      .error (.emptyOperand 3 ['A', 'D', 'D'] 1) ∧
    Program.readProgram (renderProgram (applyFault (.extraEmpty 0 4) exProg) exWs exTail) =
      .error (.emptyOperand 3 ['A', 'D', 'D'] 4) ∧
    Program.readProgram (renderProgram (applyFault (.emptyOp 0 1) [⟨['j'], [['R', '7']]⟩]) [] []) =
      .error (.noOperands 1 ['j']) := by decide

/-- the instance of `C14_parse_render` for the example is a genuine statement about three instructions -/
example : Forall2 Matches
    [⟨['A', 'D', 'D'], ['R', '1'], [['R', '2'], ['r', '3']], 3⟩,
     ⟨['l', 'd'], ['R', '1'], [['r', '3']], 5⟩,
     ⟨['M', 'U', 'L'], ['R', '4'], [['R', '1'], ['R', '1'], ['R', '2']], 6⟩]
    [⟨[['R', '2'], ['r', '3']], ['R', '1'], ['A', 'D', 'D'], 3⟩,
     ⟨[['r', '3']], ['R', '1'], ['l', 'd'], 5⟩,
     ⟨[['R', '1'], ['R', '2']], ['R', '4'], ['M', 'U', 'L'], 6⟩] := by
  have h := C14_parse_render exProg exWs exTail (by decide) (by decide) (by decide)
  have h1 : Program.readProgram (renderProgram exProg exWs exTail) =
      .ok [⟨[['R', '2'], ['r', '3']], ['R', '1'], ['A', 'D', 'D'], 3⟩,
           ⟨[['r', '3']], ['R', '1'], ['l', 'd'], 5⟩,
           ⟨[['R', '1'], ['R', '2']], ['R', '4'], ['M', 'U', 'L'], 6⟩] := by decide
  have h2 : expected exProg exWs =
      .ok [⟨['A', 'D', 'D'], ['R', '1'], [['R', '2'], ['r', '3']], 3⟩,
           ⟨['l', 'd'], ['R', '1'], [['r', '3']], 5⟩,
           ⟨['M', 'U', 'L'], ['R', '4'], [['R', '1'], ['R', '1'], ['R', '2']], 6⟩] := by decide
  rw [h1, h2] at h
  exact h

end NonVacuity

end ProcSim
