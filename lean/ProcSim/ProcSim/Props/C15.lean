import ProcSim.Lemmas.Isa
import ProcSim.Lemmas.Words
/-!
# C15 — instruction sets load and programs compile faithfully

Statements (specs in `ProcSim/Spec/Text.lean`, section C15):

* `C15_isa_load` — for **every** ISA table and capability list, the result of `Isa.loadIsa` satisfies `C15_LoadHolds`:
  accepted ⇒ no case-insensitive mnemonic collision, every capability offered, exactly one upper-cased entry per
  declared instruction mapped to a spelling the processor uses; `DupElemError(old, new)` ⇒ `old` is an earlier and
  `new` a later declared mnemonic, equal ignoring case; `UndefElemError(cap)` ⇒ `cap` is a declared capability
  that is not offered.
* `C15_isa_reject_iff` — accepted iff (no collision ∧ every capability offered); `C15_isa_first_error` says which of
  the two errors is raised.
* `C15_abilities` — `get_abilities` is the case-insensitive union of the port capabilities, in the ports' spelling,
  one element per capability.
* `C15_compile` — order, length, operands preserved, mnemonic ↦ capability; fails exactly on the first unsupported
  mnemonic with its name and line in the message.
* `checkC15Load_iff`, `checkC15Abilities_iff`, `checkC15Compile_iff` — the driver's checkers decide the `Prop`s.

No ASCII hypothesis is needed anywhere: `upper x = upper y ↔ lower x = lower y` holds for all `List Char` because
core `Char.toUpper`/`Char.toLower` change ASCII letters only (`C15_upper_eq_iff_lower_eq`).
-/
namespace ProcSim
open Spec Spec.Text IsaLemmas WordsLemmas
open ICase (lower upper)
open Isa (Str)

attribute [local implicit_reducible] AMap

/-- the folding fact the model's comment relies on — true for every `Char`, not only ASCII -/
theorem C15_upper_eq_iff_lower_eq (x y : List Char) : upper x = upper y ↔ lower x = lower y :=
  IsaLemmas.upper_eq_iff_lower_eq

/-! ## loading -/

/-- C15 (loading), all inputs -/
theorem C15_isa_load (isa : List (Str × Str)) (caps : List Str) :
    C15_LoadHolds isa caps (modelIsaObs isa caps) := by
  rw [modelIsaObs_eq]
  have := createIsa_holds caps isa [] [] [] (LoadInv.init caps)
  simpa [Isa.loadIsa] using this

/-- accepted iff no two mnemonics collide ignoring case and every capability is offered -/
theorem C15_isa_reject_iff (isa : List (Str × Str)) (caps : List Str) :
    (∃ m, Isa.loadIsa isa caps = .ok m) ↔ (¬ Collides isa ∧ ∀ e ∈ isa, offeredB caps e.2 = true) := by
  have h := C15_isa_load isa caps
  rw [modelIsaObs_eq] at h
  cases hl : Isa.loadIsa isa caps with
  | ok m =>
    rw [hl] at h
    simp only [isaObsOf, C15_LoadHolds] at h
    exact ⟨fun _ => ⟨h.1, h.2.1⟩, fun _ => ⟨m, rfl⟩⟩
  | error e =>
    rw [hl] at h
    refine ⟨fun ⟨m, hm⟩ => (by cases hm), fun hg => ?_⟩
    cases e with
    | dupInstr old new =>
      simp only [isaObsOf, C15_LoadHolds] at h
      obtain ⟨i, j, hij, x, y, hx, hy, hxo, hyn, hlo⟩ := h
      exact absurd ⟨i, j, hij, x, y, hx, hy, by rw [hxo, hyn]; exact hlo⟩ hg.1
    | undefCap cap =>
      simp only [isaObsOf, C15_LoadHolds] at h
      obtain ⟨⟨e, he, hc⟩, hoff⟩ := h
      have := hg.2 e he
      rw [hc, hoff] at this
      cases this

/-- rejection, by kind: every error is one of the two classes, with a real culprit -/
theorem C15_isa_first_error (isa : List (Str × Str)) (caps : List Str) (e : Isa.IsaError)
    (h : Isa.loadIsa isa caps = .error e) :
    match e with
    | .dupInstr old new => lower old = lower new ∧ RealDup old new isa
    | .undefCap cap => (∃ x ∈ isa, x.2 = cap) ∧ offeredB caps cap = false := by
  have hh := C15_isa_load isa caps
  rw [modelIsaObs_eq, h] at hh
  cases e with
  | dupInstr old new =>
    simp only [isaObsOf, C15_LoadHolds] at hh
    obtain ⟨i, j, hij, x, y, hx, hy, hxo, hyn, hlo⟩ := hh
    exact ⟨hlo, i, j, hij, x, y, hx, hy, hxo, hyn⟩
  | undefCap cap =>
    simpa only [isaObsOf, C15_LoadHolds] using hh

theorem C15_lookAll_iff (isa m : List (Str × Str)) (caps : List Str) :
    (isa.all (fun e => match lookup m (upper e.1) with
        | some std => caps.contains std && lower std == lower e.2
        | none => false)) = true ↔
    ∀ e ∈ isa, ∃ std, lookup m (upper e.1) = some std ∧ std ∈ caps ∧ lower std = lower e.2 := by
  rw [List.all_eq_true]
  apply forall_congr'; intro e
  apply imp_congr_right; intro _
  cases lookup m (upper e.1) <;> simp

theorem C15_keysAll_iff (isa m : List (Str × Str)) :
    (m.all (fun kv => isa.any (fun e => upper e.1 == kv.1))) = true ↔ ∀ kv ∈ m, ∃ e ∈ isa, kv.1 = upper e.1 := by
  simp only [List.all_eq_true, List.any_eq_true, beq_iff_eq]
  exact ⟨fun h kv hkv => let ⟨e, he, h'⟩ := h kv hkv; ⟨e, he, h'.symm⟩,
    fun h kv hkv => let ⟨e, he, h'⟩ := h kv hkv; ⟨e, he, h'.symm⟩⟩

/-- the driver's checker decides `C15_LoadHolds` (no side condition on `caps` is needed) -/
theorem checkC15Load_iff (isa : List (Str × Str)) (caps : List Str) (out : IsaObs) :
    checkC15Load isa caps out = none ↔ C15_LoadHolds isa caps out := by
  cases out with
  | other c => simp [checkC15Load, C15_LoadHolds]
  | ok m =>
    simp only [checkC15Load, C15_LoadHolds]
    rw [← C15_lookAll_iff, ← C15_keysAll_iff, ← and_assoc, ← defective_false_iff]
    generalize (collidesB isa || isa.any fun e => !offeredB caps e.2) = d
    generalize (isa.all _) = a1
    generalize (m.all _) = a2
    by_cases hl : m.length = isa.length <;> cases d <;> cases a1 <;> cases a2 <;> simp [hl]
  | dup old new =>
    simp only [checkC15Load, C15_LoadHolds]
    have hR : (∃ i j : Nat, i < j ∧ ∃ x y : Str × Str, isa[i]? = some x ∧ isa[j]? = some y ∧ x.1 = old ∧ y.1 = new ∧
        lower old = lower new) ↔ (lower old = lower new ∧ RealDup old new isa) := by
      unfold RealDup
      constructor
      · rintro ⟨i, j, hij, x, y, hx, hy, h1, h2, h3⟩
        exact ⟨h3, i, j, hij, x, y, hx, hy, h1, h2⟩
      · rintro ⟨h3, i, j, hij, x, y, hx, hy, h1, h2⟩
        exact ⟨i, j, hij, x, y, hx, hy, h1, h2, h3⟩
    rw [hR, ← realDup_iff]
    have hdef : lower old = lower new → realDup old new isa = true →
        (collidesB isa || isa.any fun e => !offeredB caps e.2) = true := by
      intro h1 h2
      obtain ⟨i, j, hij, x, y, hx, hy, hxo, hyn⟩ := (realDup_iff _ _ _).1 h2
      have : Collides isa := ⟨i, j, hij, x, y, hx, hy, by rw [hxo, hyn]; exact h1⟩
      simp [(collidesB_iff isa).2 this]
    revert hdef
    generalize (collidesB isa || isa.any fun e => !offeredB caps e.2) = d
    generalize realDup old new isa = r
    by_cases hl : lower old = lower new <;> cases d <;> cases r <;> simp [hl]
  | undef cap =>
    simp only [checkC15Load, C15_LoadHolds]
    have hdef : (isa.any (fun e => e.2 == cap)) = true → offeredB caps cap = false →
        (collidesB isa || isa.any fun e => !offeredB caps e.2) = true := by
      intro h1 h2
      obtain ⟨e, he, hc⟩ := List.any_eq_true.1 h1
      have hc' : e.2 = cap := by simpa using hc
      have : (isa.any fun e => !offeredB caps e.2) = true :=
        List.any_eq_true.2 ⟨e, he, by simp [hc', h2]⟩
      simp [this]
    have hE : (∃ e ∈ isa, e.2 = cap) ↔ (isa.any (fun e => e.2 == cap)) = true := by simp
    rw [hE]
    revert hdef
    generalize (collidesB isa || isa.any fun e => !offeredB caps e.2) = d
    generalize (isa.any (fun e => e.2 == cap)) = r
    generalize offeredB caps cap = o
    cases d <;> cases r <;> cases o <;> simp

/-- the model's observation passes the driver's checker, for all inputs -/
theorem checkC15Load_model (isa : List (Str × Str)) (caps : List Str) :
    checkC15Load isa caps (modelIsaObs isa caps) = none :=
  (checkC15Load_iff _ _ _).2 (C15_isa_load isa caps)

/-! ## offered capabilities -/

/-- C15 (offered set) -/
theorem C15_abilities (portCaps : List (List Str)) :
    C15_AbilitiesHolds portCaps (Isa.getAbilities portCaps) := by
  unfold C15_AbilitiesHolds Isa.getAbilities
  refine ⟨?_, ?_, icaseSet_pairwise _⟩
  · intro c
    rw [offeredB_icaseSet, offeredB_iff]
    constructor
    · rintro ⟨d, hd, hdc⟩
      obtain ⟨p, hp, hdp⟩ := List.mem_flatten.1 hd
      exact ⟨p, hp, (offeredB_iff _ _).2 ⟨d, hdp, hdc⟩⟩
    · rintro ⟨p, hp, h⟩
      obtain ⟨d, hd, hdc⟩ := (offeredB_iff _ _).1 h
      exact ⟨d, List.mem_flatten.2 ⟨p, hp, hd⟩, hdc⟩
  · intro c hc
    exact List.mem_flatten.1 (mem_icaseSet hc)

/-- for a processor: the union over in-out ports and input ports -/
theorem C15_abilities_proc (p : Proc Str) :
    C15_AbilitiesHolds ((p.inOut ++ p.inPorts).map (·.caps)) (Isa.getAbilitiesProc p) :=
  C15_abilities _

theorem checkC15Abilities_iff (portCaps : List (List Str)) (out : List Str) :
    checkC15Abilities portCaps out = none ↔ C15_AbilitiesHolds portCaps out := by
  have hA : C15_AbilitiesHolds portCaps out ↔
      ((portCaps.flatten.all (fun c => offeredB out c)) = true ∧
       (out.all (fun c => portCaps.flatten.contains c)) = true ∧ noCaseDup out = true) := by
    unfold C15_AbilitiesHolds
    rw [noCaseDup_iff]
    simp only [List.all_eq_true, List.contains_iff_mem]
    constructor
    · rintro ⟨h1, h2, h3⟩
      refine ⟨?_, ?_, h3⟩
      · intro c hc
        obtain ⟨p, hp, hcp⟩ := List.mem_flatten.1 hc
        exact (h1 c).2 ⟨p, hp, (offeredB_iff _ _).2 ⟨c, hcp, rfl⟩⟩
      · intro c hc
        obtain ⟨p, hp, hcp⟩ := h2 c hc
        exact List.mem_flatten.2 ⟨p, hp, hcp⟩
    · rintro ⟨h1, h2, h3⟩
      refine ⟨?_, ?_, h3⟩
      · intro c
        constructor
        · intro h
          obtain ⟨d, hd, hdc⟩ := (offeredB_iff _ _).1 h
          obtain ⟨p, hp, hdp⟩ := List.mem_flatten.1 (h2 d hd)
          exact ⟨p, hp, (offeredB_iff _ _).2 ⟨d, hdp, hdc⟩⟩
        · rintro ⟨p, hp, h⟩
          obtain ⟨d, hd, hdc⟩ := (offeredB_iff _ _).1 h
          obtain ⟨e, he, hed⟩ := (offeredB_iff _ _).1 (h1 d (List.mem_flatten.2 ⟨p, hp, hd⟩))
          exact (offeredB_iff _ _).2 ⟨e, he, hed.trans hdc⟩
      · intro c hc
        exact List.mem_flatten.1 (h2 c hc)
  rw [hA]
  simp only [checkC15Abilities]
  generalize (portCaps.flatten.all _) = a1
  generalize (out.all _) = a2
  generalize noCaseDup out = a3
  cases a1 <;> cases a2 <;> cases a3 <;> simp

theorem checkC15Abilities_model (portCaps : List (List Str)) :
    checkC15Abilities portCaps (Isa.getAbilities portCaps) = none :=
  (checkC15Abilities_iff _ _).2 (C15_abilities portCaps)

/-- loading against the offered set of a processor: rejected iff a collision or a capability no input/in-out port
has (ignoring case) -/
theorem C15_isa_reject_iff_ports (isa : List (Str × Str)) (portCaps : List (List Str)) :
    (∃ m, Isa.loadIsa isa (Isa.getAbilities portCaps) = .ok m) ↔
      (¬ Collides isa ∧ ∀ e ∈ isa, ∃ p ∈ portCaps, offeredB p e.2 = true) := by
  rw [C15_isa_reject_iff]
  have := (C15_abilities portCaps).1
  constructor
  · rintro ⟨h1, h2⟩; exact ⟨h1, fun e he => (this e.2).1 (h2 e he)⟩
  · rintro ⟨h1, h2⟩; exact ⟨h1, fun e he => (this e.2).2 (h2 e he)⟩

/-! ## compiling -/

/-- the error message names the line as a word -/
theorem C15_compile_msg (name : Str) (line : Nat) :
    (words (Isa.CompileError.message { name := name, line := line })).contains (toString line) = true := by
  unfold Isa.CompileError.message
  apply words_contains_of_suffix _ _ ("Unsupported instruction " ++ String.ofList name ++ " at line").toList
  · have : " at line " = " at line" ++ " " := by decide
    rw [this]
    simp [String.toList_append]
  · exact toString_nat_no_blank line
  · exact toString_nat_ne_empty line

/-- C15 (compiling); the hypothesis is the `ProgInstruction` invariant (sources are a sorted duplicate-free tuple),
which `read_program` establishes -/
theorem C15_compile (isa : List (Str × Str)) (prog : List Program.ProgInstr)
    (hs : ∀ p ∈ prog, Program.sortedUniq p.srcs = p.srcs) :
    C15_CompileHolds isa prog (modelCompileObs isa prog) := by
  rw [modelCompileObs_eq]
  unfold C15_CompileHolds
  cases hf : firstUnsupported isa prog with
  | none =>
    obtain ⟨hw, hc, hF⟩ := compile_ok isa prog hs hf
    rw [hc]
    exact hF
  | some p =>
    rw [compile_err isa prog p hf]
    exact ⟨rfl, C15_compile_msg p.name p.line⟩

/-- without the invariant: everything except `h.srcs = p.srcs`, which becomes `h.srcs = sortedUniq p.srcs` -/
theorem C15_compile_raw (isa : List (Str × Str)) (prog : List Program.ProgInstr) :
    match firstUnsupported isa prog with
    | none => ∃ hw, Isa.compileProgram isa prog = .ok hw ∧
        Forall2 (fun (p : Program.ProgInstr) (h : Instr Str) =>
          h.srcs = Program.sortedUniq p.srcs ∧ h.dst = p.dst ∧ lookup isa (upper p.name) = some h.cap) prog hw
    | some p => Isa.compileProgram isa prog = .error { name := p.name, line := p.line } := by
  cases hf : firstUnsupported isa prog with
  | some p => exact compile_err isa prog p hf
  | none =>
    show ∃ hw, _
    induction prog with
    | nil => exact ⟨[], rfl, trivial⟩
    | cons p ps ih =>
      unfold firstUnsupported at hf
      split at hf
      · rename_i hp
        obtain ⟨hw, hc, hF⟩ := ih hf
        unfold lookup at hp
        obtain ⟨cap, hcap⟩ := Option.isSome_iff_exists.1 hp
        exact ⟨{ srcs := Program.sortedUniq p.srcs, dst := p.dst, cap := cap } :: hw,
          by simp [Isa.compileProgram, hcap, hc], ⟨rfl, rfl, hcap⟩, hF⟩
      · cases hf

theorem checkC15Compile_iff (isa : List (Str × Str)) (prog : List Program.ProgInstr) (out : CompileObs) :
    checkC15Compile isa prog out = none ↔ C15_CompileHolds isa prog out := by
  unfold checkC15Compile C15_CompileHolds
  cases firstUnsupported isa prog with
  | none =>
    cases out with
    | ok hw => exact checkCompiled_iff 0 isa prog hw
    | undef n m => simp
    | other c => simp
  | some p =>
    cases out with
    | ok hw => simp
    | other c => simp
    | undef n m =>
      simp only
      generalize (words m).contains (toString p.line) = w
      by_cases hn : n = p.name <;> cases w <;> simp [hn]

theorem checkC15Compile_model (isa : List (Str × Str)) (prog : List Program.ProgInstr)
    (hs : ∀ p ∈ prog, Program.sortedUniq p.srcs = p.srcs) :
    checkC15Compile isa prog (modelCompileObs isa prog) = none :=
  (checkC15Compile_iff _ _ _).2 (C15_compile isa prog hs)

/-! ## non-vacuity -/

section Examples

/-- accepted: two instructions, capability respelled as the processor has it -/
example : checkC15Load [(['a', 'd', 'd'], ['a', 'l', 'u']), (['L', 'd'], ['M', 'e', 'm'])]
    [['A', 'L', 'U'], ['m', 'e', 'm']]
    (.ok [(['A', 'D', 'D'], ['A', 'L', 'U']), (['L', 'D'], ['m', 'e', 'm'])]) = none := by decide

/-- and that is what the model computes -/
example : (match Isa.loadIsa [(['a', 'd', 'd'], ['a', 'l', 'u']), (['L', 'd'], ['M', 'e', 'm'])]
      [['A', 'L', 'U'], ['m', 'e', 'm']] with
    | .ok m => decide (m = [(['A', 'D', 'D'], ['A', 'L', 'U']), (['L', 'D'], ['m', 'e', 'm'])])
    | .error _ => false) = true := by decide

/-- a wrong spelling of the capability is refuted by the checker -/
example : checkC15Load [(['a', 'd', 'd'], ['a', 'l', 'u'])] [['A', 'L', 'U']]
    (.ok [(['A', 'D', 'D'], ['a', 'l', 'u'])]) ≠ none := by decide

/-- collision: rejected with (earlier, later) spelling even though the capability is unsupported as well -/
example : (match Isa.loadIsa [(['a', 'd', 'd'], ['a', 'l', 'u']), (['A', 'd', 'd'], ['x'])] [['A', 'L', 'U']] with
    | .error (.dupInstr old new) => decide (old = ['a', 'd', 'd'] ∧ new = ['A', 'd', 'd'])
    | _ => false) = true := by decide

example : checkC15Load [(['a', 'd', 'd'], ['a', 'l', 'u']), (['A', 'd', 'd'], ['x'])] [['A', 'L', 'U']]
    (.dup ['a', 'd', 'd'] ['A', 'd', 'd']) = none := by decide

/-- the swapped report is refuted -/
example : checkC15Load [(['a', 'd', 'd'], ['a', 'l', 'u']), (['A', 'd', 'd'], ['x'])] [['A', 'L', 'U']]
    (.dup ['A', 'd', 'd'] ['a', 'd', 'd']) ≠ none := by decide

/-- unsupported capability -/
example : (match Isa.loadIsa [(['a', 'd', 'd'], ['a', 'l', 'u']), (['l', 'd'], ['m', 'e', 'm'])] [['A', 'L', 'U']] with
    | .error (.undefCap cap) => decide (cap = ['m', 'e', 'm'])
    | _ => false) = true := by decide

/-- accepting a defective instruction set is refuted -/
example : checkC15Load [(['l', 'd'], ['m', 'e', 'm'])] [['A', 'L', 'U']] (.ok [(['L', 'D'], ['m', 'e', 'm'])]) ≠ none := by
  decide

/-- offered set: first spelling in port order -/
example : Isa.getAbilities [[['A', 'L', 'U'], ['m', 'e', 'm']], [['a', 'l', 'u'], ['M', 'U', 'L']]] =
    [['A', 'L', 'U'], ['m', 'e', 'm'], ['M', 'U', 'L']] := by decide

example : checkC15Abilities [[['A', 'L', 'U']], [['a', 'l', 'u']]] [['A', 'L', 'U'], ['a', 'l', 'u']] ≠ none := by decide

/-- compilation: order and operands kept, mnemonic replaced -/
example : (match Isa.compileProgram [(['A', 'D', 'D'], ['A', 'L', 'U'])]
      [{ srcs := [['r', '1'], ['r', '2']], dst := ['r', '3'], name := ['a', 'd', 'd'], line := 1 }] with
    | .ok hw => decide (hw = [{ srcs := [['r', '1'], ['r', '2']], dst := ['r', '3'], cap := ['A', 'L', 'U'] }])
    | .error _ => false) = true := by decide

/-- first unsupported mnemonic with its line -/
example : (match Isa.compileProgram [(['A', 'D', 'D'], ['A', 'L', 'U'])]
      [{ srcs := [], dst := ['r', '3'], name := ['a', 'd', 'd'], line := 1 },
       { srcs := [], dst := ['r', '3'], name := ['m', 'u', 'l'], line := 4 },
       { srcs := [], dst := ['r', '3'], name := ['d', 'i', 'v'], line := 5 }] with
    | .error e => decide (e.name = ['m', 'u', 'l'] ∧ e.line = 4)
    | .ok _ => false) = true := by decide

end Examples

end ProcSim
