import ProcSim.Lemmas.Issue
/-!
# C06 — in-order eager issue into the first usable input port

For every well-formed processor (names with a strict total order `<`, e.g. `String`), every program and every diagram
`simulate` hands out (returned, or carried by the stall error):

1. the instructions that appear are a prefix of the program and their first cycles are non-decreasing;
2. each first appears in an input-boundary port supporting its capability;
3. if after cycle `t` the next instruction is still outside, every supporting input port is full in the final record of
   cycle `t`, or needs the memory port for it while *another* instruction entered, in cycle `t`, a unit whose ACL names
   its capability;
4. the port an instruction enters was usable at its turn and no supporting port with a smaller name was.

Proof (`Lemmas/Issue.lean`). A diagram comes with its `entered` counters `E 0 = 0 ≤ E 1 ≤ …` (`Diagram_issueFacts`):
cycle `t` issues exactly the instructions `E t … E (t+1) - 1`, every row `t` hosts only indices `< E (t+1)`, so the
first cycle of `i` is the `t` with `E t ≤ i < E (t+1)` (`DiagFacts.head_of_issued`, using `RowND` to identify the port).
The state "at `i`'s turn" is recovered from the final record: everything hosted at that moment has an index `< i`,
everything appended later an index `≥ i` (`usableP`, `usableP_iff_portUsable`); issue is the last phase changing
occupancy and relabelling keeps the hosted indices. The threaded memory flag is exact (`MemIff`): set iff some
instruction has entered (w.r.t. the previous record) a unit whose ACL names its capability — "flag ⇒ entry still there"
needs the sink-first order `orderOK` (`moveFlights_memIff`). `sortedInputs` is sorted by name, so "precedes in the
order of trial" contains "has a smaller name" (`mem_pre_of_name_lt`; the only use of the order hypothesis).
-/
namespace ProcSim
open Spec

attribute [local implicit_reducible] AMap

variable {N : Type} [DecidableEq N]

/-! ## `pairsOK` over `List.range` -/

theorem pairsOK_map_range' {α : Type} (f : α → α → Bool) (g : Nat → α) :
    ∀ k s, (∀ i, s ≤ i → i + 1 < s + k → f (g i) (g (i + 1)) = true) →
      pairsOK f ((List.range' s k).map g) = true
  | 0, s, _ => by simp [pairsOK]
  | 1, s, _ => by simp [List.range', pairsOK]
  | k + 2, s, h => by
    have ih := pairsOK_map_range' f g (k + 1) (s + 1) (fun i hi hlt => h i (by omega) (by omega))
    simp only [List.range'_succ, List.map_cons] at ih ⊢
    unfold pairsOK
    rw [h s (Nat.le_refl _) (by omega), ih]
    rfl

theorem pairsOK_map_range {α : Type} (f : α → α → Bool) (g : Nat → α) (k : Nat)
    (h : ∀ i, i + 1 < k → f (g i) (g (i + 1)) = true) : pairsOK f ((List.range k).map g) = true := by
  rw [List.range_eq_range']
  exact pairsOK_map_range' f g k 0 (fun i _ hlt => h i (by omega))

theorem pairsOK_map_range'_inv {α : Type} (f : α → α → Bool) (g : Nat → α) :
    ∀ k s, pairsOK f ((List.range' s k).map g) = true → ∀ i, s ≤ i → i + 1 < s + k → f (g i) (g (i + 1)) = true
  | 0, s, _ => by intro i h1 h2; omega
  | 1, s, _ => by intro i h1 h2; omega
  | k + 2, s, h => by
    simp only [List.range'_succ, List.map_cons] at h
    unfold pairsOK at h
    rw [Bool.and_eq_true] at h
    have ih := pairsOK_map_range'_inv f g (k + 1) (s + 1) (by simpa only [List.range'_succ, List.map_cons] using h.2)
    intro i h1 h2
    by_cases e : i = s
    · subst e; exact h.1
    · exact ih i (by omega) (by omega)

theorem pairsOK_map_range_inv {α : Type} (f : α → α → Bool) (g : Nat → α) (k : Nat)
    (h : pairsOK f ((List.range k).map g) = true) : ∀ i, i + 1 < k → f (g i) (g (i + 1)) = true := by
  rw [List.range_eq_range'] at h
  intro i hi
  exact pairsOK_map_range'_inv f g k 0 h i (Nat.zero_le _) (by omega)

variable [LT N] [DecidableRel (α := N) (· < ·)]

/-! ## Readable form of the checker -/

/-- C06 in words, over the same reading of the diagram as the Bool checker (`Spec.C06`):

* `prefix_`/`ordered`: the instructions that appear are `0 … k-1` (`k = enteredCount`) and their first cycles are
  non-decreasing — instructions enter in program order;
* `port`: the first position of each is an input-boundary port supporting its capability;
* `eager`: if after cycle `t` the next instruction `issuedBy t` is still outside, every supporting input port is full
  in cycle `t`, or needs the memory port for it while another instruction took the memory port in cycle `t`;
* `first`: the port an instruction enters was usable at its turn, and no supporting input port with a smaller name
  was (`usableAtTurn`: room among the residents that stayed and the instructions issued earlier in the cycle, and
  not (memory needed ∧ memory port taken by a move or an earlier issue of the cycle)). -/
structure C06_Holds (c : Ctx N) : Prop where
  prefix_ : ∀ i, i < c.n → (c.issued i = true ↔ i < c.enteredCount)
  ordered : ∀ i, i + 1 < c.enteredCount →
    ∃ x y, c.firstCycle i = some x ∧ c.firstCycle (i + 1) = some y ∧ x ≤ y
  port : ∀ i, i < c.enteredCount →
    ∃ x, (c.positions i).head? = some x ∧ isInB c.p x.2.1.name = true ∧ supports c.prog i x.2.1 = true
  eager : ∀ t, t < c.T → issuedBy c t < c.n → ∀ u ∈ c.p.inBoundary, supports c.prog (issuedBy c t) u = true →
    c.full t u = true ∨ (needsMem c.prog (issuedBy c t) u = true ∧ c.memTakenByOther t (issuedBy c t) = true)
  first : ∀ i, i < c.enteredCount →
    ∃ x, (c.positions i).head? = some x ∧ usableAtTurn c x.1 i x.2.1 = true ∧
      ∀ u ∈ c.p.inBoundary, supports c.prog i u = true → u.name < x.2.1.name → usableAtTurn c x.1 i u = false

/-- the Bool checker evaluated by the driver says exactly `C06_Holds` -/
theorem C06_ok_iff (c : Ctx N) : (Spec.C06 c).ok = true ↔ C06_Holds c := by
  simp only [Spec.C06, Clauses.ok, List.all_cons, List.all_nil, Bool.and_true, Bool.and_eq_true]
  constructor
  · rintro ⟨⟨h1a, h1b⟩, h2, h3, h4⟩
    rw [List.all_eq_true] at h1a h2 h3 h4
    refine ⟨?_, ?_, ?_, ?_, ?_⟩
    · intro i hi
      have := h1a i (List.mem_range.2 hi)
      rw [beq_iff_eq] at this
      rw [this, decide_eq_true_eq]
    · intro i hi
      have := pairsOK_map_range_inv _ _ _ h1b i hi
      cases hx : c.firstCycle i with
      | none => rw [hx] at this; simp at this
      | some x =>
        cases hy : c.firstCycle (i + 1) with
        | none => rw [hx, hy] at this; simp at this
        | some y =>
          rw [hx, hy] at this
          exact ⟨x, y, rfl, rfl, by simpa using this⟩
    · intro i hi
      have := h2 i (List.mem_range.2 hi)
      cases hx : (c.positions i).head? with
      | none => rw [hx] at this; simp at this
      | some x =>
        rw [hx] at this
        simp only [Bool.and_eq_true] at this
        exact ⟨x, rfl, this.1, this.2⟩
    · intro t ht hlt u hu hsup
      have := h3 t (List.mem_range.2 ht)
      simp only [Bool.or_eq_true, decide_eq_true_eq, List.all_eq_true, Bool.not_eq_true', Bool.and_eq_true] at this
      rcases this with h | h
      · omega
      · rcases h u hu with (h | h) | h
        · rw [hsup] at h; cases h
        · exact Or.inl h
        · exact Or.inr h
    · intro i hi
      have := h4 i (List.mem_range.2 hi)
      cases hx : (c.positions i).head? with
      | none => rw [hx] at this; simp at this
      | some x =>
        rw [hx] at this
        simp only [Bool.and_eq_true, List.all_eq_true, Bool.or_eq_true, Bool.not_eq_true', Bool.and_eq_false_iff,
          decide_eq_false_iff_not] at this
        refine ⟨x, rfl, this.1, ?_⟩
        intro u hu hsup hlt
        rcases this.2 u hu with (h | h) | h
        · rw [hsup] at h; cases h
        · exact absurd hlt h
        · exact h
  · intro h
    refine ⟨⟨?_, ?_⟩, ?_, ?_, ?_⟩
    · rw [List.all_eq_true]
      intro i hi
      have := h.prefix_ i (List.mem_range.1 hi)
      rw [beq_iff_eq]
      by_cases hlt : i < c.enteredCount
      · simp [hlt, this.2 hlt]
      · have : c.issued i = false := by
          cases hb : c.issued i
          · rfl
          · exact absurd (this.1 hb) hlt
        simp [hlt, this]
    · apply pairsOK_map_range
      intro i hi
      obtain ⟨x, y, hx, hy, hxy⟩ := h.ordered i hi
      rw [hx, hy]
      simpa using hxy
    · rw [List.all_eq_true]
      intro i hi
      obtain ⟨x, hx, h1, h2⟩ := h.port i (List.mem_range.1 hi)
      rw [hx]
      simp [h1, h2]
    · rw [List.all_eq_true]
      intro t ht
      simp only [Bool.or_eq_true, decide_eq_true_eq, List.all_eq_true, Bool.not_eq_true', Bool.and_eq_true]
      by_cases hlt : c.n ≤ issuedBy c t
      · exact Or.inl hlt
      · right
        intro u hu
        cases hsup : supports c.prog (issuedBy c t) u
        · exact Or.inl (Or.inl rfl)
        · rcases h.eager t (List.mem_range.1 ht) (by omega) u hu hsup with h' | h'
          · exact Or.inl (Or.inr h')
          · exact Or.inr h'
    · rw [List.all_eq_true]
      intro i hi
      obtain ⟨x, hx, h1, h2⟩ := h.first i (List.mem_range.1 hi)
      rw [hx]
      simp only [Bool.and_eq_true, List.all_eq_true, Bool.or_eq_true, Bool.not_eq_true', Bool.and_eq_false_iff,
        decide_eq_false_iff_not]
      refine ⟨h1, ?_⟩
      intro u hu
      cases hsup : supports c.prog i u
      · exact Or.inl (Or.inl rfl)
      · by_cases hlt : u.name < x.2.1.name
        · exact Or.inr (h2 u hu hsup hlt)
        · exact Or.inl (Or.inr hlt)

/-! ## The theorems -/

/-- **C06 (readable form).** `ho`: `<` on names is a strict total order (`Loader.StrictTotal.string`, `Loader.StrictTotal.nat`);
it is used for the last clause only ("the usable port whose name sorts first"). -/
theorem C06_issue' (ho : Loader.StrictTotal N) (p : Proc N) (prog : List (Instr N)) (tbl : List (Util N)) (stalled : Bool)
    (hwf : wfProc p = true) (h : Diagram p prog tbl stalled) : C06_Holds (ctx p prog tbl stalled) := by
  obtain ⟨E, hD, hle⟩ := Diagram_issueFacts hwf h
  have hn := wfProc_nodup_names hwf
  have hk : (ctx p prog tbl stalled).enteredCount = E tbl.length := hD.enteredCount_eq hn stalled hle
  refine ⟨?_, ?_, ?_, ?_, ?_⟩
  · intro i _
    rw [hD.issued_eq hn stalled i, hk, decide_eq_true_eq]
  · intro i hi
    rw [hk] at hi
    obtain ⟨t1, ht1, a1, b1⟩ := hD.find _ (Nat.le_refl _) i (by omega)
    obtain ⟨t2, ht2, a2, b2⟩ := hD.find _ (Nat.le_refl _) (i + 1) hi
    refine ⟨t1, t2, hD.firstCycle_eq hn stalled ht1 a1 b1, hD.firstCycle_eq hn stalled ht2 a2 b2, ?_⟩
    by_cases hlt : t1 ≤ t2
    · exact hlt
    · have := hD.mono (t2 + 1) t1 (by omega) (by omega)
      omega
  · intro i hi
    rw [hk] at hi
    obtain ⟨t, ht, a, b⟩ := hD.find _ (Nat.le_refl _) i hi
    obtain ⟨pre, port, post, st, hs, hh, hu, hpre⟩ := hD.head_of_issued hn stalled ht a b
    refine ⟨(t, port, st), hh, ?_, hu.1⟩
    have hport : port ∈ p.inBoundary := mem_sortedInputs.1 (by rw [hs]; simp)
    unfold isInB
    exact decide_eq_true (List.mem_map.2 ⟨port, hport, rfl⟩)
  · intro t ht hlt u hu hsup
    have ht' : t < tbl.length := ht
    rw [hD.issuedBy_eq hn stalled hle ht'] at hlt hsup ⊢
    have hlt' : E (t + 1) < prog.length := hlt
    have hb := (hD.2 t ht').blocked prog[E (t + 1)] (List.getElem?_eq_getElem hlt') u hu
    have := hD.blocked_clause stalled ht' hb
    rw [hsup] at this
    simpa using this
  · intro i hi
    rw [hk] at hi
    obtain ⟨t, ht, a, b⟩ := hD.find _ (Nat.le_refl _) i hi
    obtain ⟨pre, port, post, st, hs, hh, hu, hpre⟩ := hD.head_of_issued hn stalled ht a b
    have hport : port ∈ p.inBoundary := mem_sortedInputs.1 (by rw [hs]; simp)
    refine ⟨(t, port, st), hh,
      (hD.usableAtTurn_iff hn stalled ht a (mem_allUnits_of_mem_inBoundary hport) hu.1).2 hu, ?_⟩
    intro u huin hsup hlt
    have hnot := hpre u (mem_pre_of_name_lt ho hs huin hlt)
    cases hb : usableAtTurn (ctx p prog tbl stalled) t i u
    · rfl
    · exact absurd ((hD.usableAtTurn_iff hn stalled ht a (mem_allUnits_of_mem_inBoundary huin) hsup).1 hb) hnot

/-- **C06.** For a well-formed processor over names with a strict total order, every diagram of `simulate` passes the
C06 checker. -/
theorem C06_issue (ho : Loader.StrictTotal N) (p : Proc N) (prog : List (Instr N)) (tbl : List (Util N))
    (stalled : Bool) (hwf : wfProc p = true) (h : Diagram p prog tbl stalled) :
    (Spec.C06 (ctx p prog tbl stalled)).ok = true :=
  (C06_ok_iff _).2 (C06_issue' ho p prog tbl stalled hwf h)

/-- C06 for the driver's name type -/
theorem C06_issue_string (p : Proc String) (prog : List (Instr String)) (tbl : List (Util String)) (stalled : Bool)
    (hwf : wfProc p = true) (h : Diagram p prog tbl stalled) : (Spec.C06 (ctx p prog tbl stalled)).ok = true :=
  C06_issue Loader.StrictTotal.string p prog tbl stalled hwf h

/-- C06 for `Nat` names (the examples) -/
theorem C06_issue_nat (p : Proc Nat) (prog : List (Instr Nat)) (tbl : List (Util Nat)) (stalled : Bool)
    (hwf : wfProc p = true) (h : Diagram p prog tbl stalled) : (Spec.C06 (ctx p prog tbl stalled)).ok = true :=
  C06_issue Loader.StrictTotal.nat p prog tbl stalled hwf h

/-! ## Non-vacuity

Two input ports: `0` (width 2, capability `7` in its memory ACL, read lock) and `1` (width 1, no ACL, read lock),
both feeding output port `2` (width 2, write lock). Three independent instructions of capability `7`.

Cycle 0: instruction 0 enters port `0` and takes the memory port; instruction 1 finds port `0` with room but
memory-blocked and enters port `1` (the first *usable* port is not the first port); instruction 2 is held back — port
`0` needs the taken memory port, port `1` is full (both reasons of the third clause occur). Cycle 1: 0 and 1 move on,
instruction 2 enters port `0`. -/
namespace C06Example

def inA : UnitM Nat := ⟨0, 2, [7], true, false, [7]⟩
def inB : UnitM Nat := ⟨1, 1, [7], true, false, []⟩
def outP : UnitM Nat := ⟨2, 2, [7], false, true, []⟩
def proc : Proc Nat := { inPorts := [inB, inA], outPorts := [⟨outP, [0, 1]⟩], inOut := [], internal := [] }
def prog : List (Instr Nat) := [⟨[10], 11, 7⟩, ⟨[12], 13, 7⟩, ⟨[14], 15, 7⟩]

example : wfProc proc = true := by decide

/-- ports are tried by name, not in the stored order -/
example : (sortedInputs proc).map (·.name) = [0, 1] := by decide

example : (match simulate proc prog with
    | .done tbl =>
      tbl.length == 3 &&
      -- cycle 0: instruction 0 in port 0, instruction 1 in port 1, instruction 2 outside
      ((tbl.getD 0 ([] : List (Nat × List HI))).get 0).map (·.idx) == [0] &&
      ((tbl.getD 0 ([] : List (Nat × List HI))).get 1).map (·.idx) == [1] &&
      issuedBy (ctx proc prog tbl false) 0 == 2 &&
      -- port 0 was not full, but memory-blocked for instruction 1; port 1 is full for instruction 2
      !(ctx proc prog tbl false).full 0 inA && (ctx proc prog tbl false).memTakenByOther 0 2 &&
      (ctx proc prog tbl false).full 0 inB &&
      !usableAtTurn (ctx proc prog tbl false) 0 1 inA && usableAtTurn (ctx proc prog tbl false) 0 1 inB &&
      -- cycle 1: instruction 2 enters port 0
      ((tbl.getD 1 ([] : List (Nat × List HI))).get 0).map (·.idx) == [2] &&
      (ctx proc prog tbl false).firstCycle 2 == some 1 &&
      (Spec.C06 (ctx proc prog tbl false)).ok
    | _ => false) = true := by decide

def isDone : Outcome Nat → Bool
  | .done _ => true
  | _ => false

/-- the hypotheses of `C06_issue` are satisfiable and the theorem applies to the diagram -/
example : ∃ tbl, Diagram proc prog tbl false ∧ (Spec.C06 (ctx proc prog tbl false)).ok = true ∧
    C06_Holds (ctx proc prog tbl false) := by
  have hd : isDone (simulate proc prog) = true := by decide
  cases h : simulate proc prog with
  | done tbl =>
    exact ⟨tbl, Or.inl ⟨rfl, h⟩, C06_issue_nat proc prog tbl false (by decide) (Or.inl ⟨rfl, h⟩),
      C06_issue' Loader.StrictTotal.nat proc prog tbl false (by decide) (Or.inl ⟨rfl, h⟩)⟩
  | stall tbl => rw [h] at hd; cases hd
  | fault f => rw [h] at hd; cases hd

end C06Example

end ProcSim
