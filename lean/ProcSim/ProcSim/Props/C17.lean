import ProcSim.Lemmas.Bag
import ProcSim.Spec.Text
import ProcSim.Model.Sim
/-!
# C17 — cycle records (`BagValDict`) compare as multisets per unit

`NoDupKeys m` of the property text is `(AMap.keys m).Nodup` (true of every record built through `AMap.set`, i.e. of
every `dict`); `TotalOrderB le` (Spec/Text.lean) = total ∧ transitive ∧ antisymmetric.

* `C17_eq_iff_multiset` — `==` ⇔ the entry lists under every key are permutations of each other
  (a missing key ≡ an empty list; insertion order of keys and of entries irrelevant).
* `C17_beqM`, `C17_beqM_observables` — the real `__eq__` (whose `defaultdict` look-ups insert empty lists into `self`)
  returns the same Boolean and changes no `get`, `items`, `len`, `repr`, nor a later comparison.
* `C17_len` — `len` counts the keys with a non-empty list.
* `C17_repr` — equal records print identically, for arbitrary key / value printers.
* `C17_model` — the model's observation satisfies `C17_Holds`;  `checkC17_iff`, `sameBagsB_iff`, `permB_iff` — the
  executable checker decides `C17_Holds`.
* `HI_le_totalOrder`, `Util_beq_eq_Bag_beq`, `Util_beq_iff_multiset` — the simulator's stall test `Util.beq` is this
  equality at `le := HI.le`, which is a total antisymmetric order: the stall test is multiset equality per unit.
* Examples: concrete values, and why the hypotheses (duplicate-free keys, antisymmetry) cannot be dropped.

Core Lean only (helper lemmas: `Lemmas/Sort.lean`, `Lemmas/Bag.lean`).
-/
namespace ProcSim

open Spec.Text List
open Bag (BagValDict)
open ISort

attribute [local implicit_reducible] AMap

section C17
variable {K V : Type} [DecidableEq K] [DecidableEq V]

/-! ### equality is multiset equality -/

/-- **C17 (equality).** For a total order `le` on values and records with duplicate-free keys:
`a == b` iff under every key the two entry lists are permutations of each other. -/
theorem C17_eq_iff_multiset {le : V → V → Bool} (hle : TotalOrderB le) {a b : BagValDict K V}
    (ha : (AMap.keys a).Nodup) (hb : (AMap.keys b).Nodup) :
    Bag.beq le a b = true ↔ C17_SameBags a b :=
  Bag.beq_iff_sameBags hle.1 hle.2.1 hle.2.2 ha hb

/-- the direction `==` ⇒ same multisets needs nothing of `le` (sorting never changes the multiset) -/
theorem C17_eq_imp_multiset (le : V → V → Bool) {a b : BagValDict K V}
    (ha : (AMap.keys a).Nodup) (hb : (AMap.keys b).Nodup) (h : Bag.beq le a b = true) : C17_SameBags a b :=
  Bag.sameBags_of_beq ha hb h

/-- `==` is symmetric (as a consequence) -/
theorem C17_eq_symm {le : V → V → Bool} (hle : TotalOrderB le) {a b : BagValDict K V}
    (ha : (AMap.keys a).Nodup) (hb : (AMap.keys b).Nodup) : Bag.beq le a b = Bag.beq le b a := by
  rw [Bool.eq_iff_iff, C17_eq_iff_multiset hle ha hb, C17_eq_iff_multiset hle hb ha]
  exact ⟨fun h k => (h k).symm, fun h k => (h k).symm⟩

/-- **C17 (touch-invariance).** The side-effecting `__eq__` returns the Boolean of the pure reading and leaves
every look-up unchanged. No hypothesis. -/
theorem C17_beqM (le : V → V → Bool) (a b : BagValDict K V) :
    (Bag.beqM le a b).1 = Bag.beq le a b ∧ ∀ k, Bag.get (Bag.beqM le a b).2 k = Bag.get a k :=
  ⟨(Bag.beqM_spec le a b).1, (Bag.beqM_spec le a b).2.1⟩

/-- … nor `items`, `len`, `repr`, nor the result of any later comparison of the touched record. -/
theorem C17_beqM_observables (leK : K → K → Bool) (le : V → V → Bool) (kp : K → String) (vp : V → String)
    (a b : BagValDict K V) :
    Bag.items (Bag.beqM le a b).2 = Bag.items a ∧ Bag.len (Bag.beqM le a b).2 = Bag.len a ∧
    Bag.repr leK le kp vp (Bag.beqM le a b).2 = Bag.repr leK le kp vp a ∧
    ∀ c, Bag.beq le (Bag.beqM le a b).2 c = Bag.beq le a c := by
  obtain ⟨_, h2, h3⟩ := Bag.beqM_spec le a b
  exact ⟨h3, Bag.len_congr h3, Bag.repr_congr leK le kp vp h3, Bag.beq_congr le h2 h3⟩

/-! ### `len` -/

omit [DecidableEq V] in
/-- **C17 (length).** `len` is the number of distinct keys holding at least one entry. -/
theorem C17_len {a : BagValDict K V} (ha : (AMap.keys a).Nodup) : Bag.len a = nonEmptyKeys a := by
  unfold nonEmptyKeys Bag.len Bag.items
  rw [dedup_eq_self ha]
  unfold AMap.keys
  rw [filter_map, length_map]
  congr 1
  apply filter_congr
  rintro ⟨k, vs⟩ hp
  simp only [Function.comp]
  rw [Bag.get_of_mem ha hp]

/-! ### `repr` -/

omit [DecidableEq V] in
/-- **C17 (printing).** Equal records print identically — for arbitrary printers of keys and values. -/
theorem C17_repr {leK : K → K → Bool} {le : V → V → Bool} (hle : TotalOrderB le) (hleK : TotalOrderB leK)
    (kp : K → String) (vp : V → String) {a b : BagValDict K V}
    (ha : (AMap.keys a).Nodup) (hb : (AMap.keys b).Nodup) (h : C17_SameBags a b) :
    Bag.repr leK le kp vp a = Bag.repr leK le kp vp b := by
  unfold Bag.repr Bag.formatElems
  rw [Bag.canonEntries_eq_of_sameBags hle.1 hle.2.1 hle.2.2 hleK.1 hleK.2.1 hleK.2.2 ha hb h]

/-- in terms of `==` -/
theorem C17_repr_of_eq {leK : K → K → Bool} {le : V → V → Bool} (hle : TotalOrderB le) (hleK : TotalOrderB leK)
    (kp : K → String) (vp : V → String) {a b : BagValDict K V}
    (ha : (AMap.keys a).Nodup) (hb : (AMap.keys b).Nodup) (h : Bag.beq le a b = true) :
    Bag.repr leK le kp vp a = Bag.repr leK le kp vp b :=
  C17_repr hle hleK kp vp ha hb ((C17_eq_iff_multiset hle ha hb).1 h)

/-! ### the bundled statement -/

/-- **C17.** The model's observation on any pair of records with duplicate-free keys satisfies the property. -/
theorem C17_model {leK : K → K → Bool} {le : V → V → Bool} (hle : TotalOrderB le) (hleK : TotalOrderB leK)
    (kp : K → String) (vp : V → String) {a b : BagValDict K V}
    (ha : (AMap.keys a).Nodup) (hb : (AMap.keys b).Nodup) :
    C17_Holds a b (modelBagObs leK le kp vp a b) := by
  obtain ⟨h1, h2, h3⟩ := Bag.beqM_spec le a b
  have h4 := (Bag.beqM_spec le (Bag.beqM le a b).2 b).1
  refine ⟨?_, C17_eq_iff_multiset hle hb ha, ?_, C17_len ha, C17_len hb, Bag.len_congr h3,
    C17_repr hle hleK kp vp ha hb, Bag.repr_congr leK le kp vp h3⟩
  · show (Bag.beqM le a b).1 = true ↔ _
    rw [h1]
    exact C17_eq_iff_multiset hle ha hb
  · show (Bag.beqM le (Bag.beqM le a b).2 b).1 = (Bag.beqM le a b).1
    rw [h4, h1]
    exact Bag.beq_congr le h2 h3 b

/-! ### the checker -/

/-- the counting test of the checker decides `List.Perm` -/
theorem permB_iff (x y : List V) : permB x y = true ↔ x ~ y := by
  constructor
  · intro h
    simp only [permB, Bool.and_eq_true, beq_iff_eq, all_eq_true] at h
    obtain ⟨hl, hc⟩ := h
    induction x generalizing y with
    | nil =>
      have : y = [] := length_eq_zero_iff.1 hl.symm
      subst this
      exact Perm.refl _
    | cons v x' ih =>
      have hv : v ∈ y := by
        have := hc v (mem_cons_self ..)
        rw [count_cons_self] at this
        exact count_pos_iff.1 (by omega)
      refine (Perm.cons v (ih (y.erase v) ?_ ?_)).trans (perm_cons_erase hv).symm
      · rw [length_erase_of_mem hv]
        simp only [length_cons] at hl
        omega
      · intro w hw
        have := hc w (mem_cons_of_mem _ hw)
        rw [count_cons] at this
        rw [count_erase]
        by_cases e : (v == w) = true
        · rw [if_pos e] at this ⊢; omega
        · rw [if_neg e] at this ⊢; omega
  · intro h
    simp only [permB, Bool.and_eq_true, beq_iff_eq, all_eq_true]
    exact ⟨h.length_eq, fun v _ => h.count_eq v⟩

/-- the checker's record comparison decides `C17_SameBags` (no hypothesis: both sides read through `get`) -/
theorem sameBagsB_iff (a b : BagValDict K V) : sameBagsB a b = true ↔ C17_SameBags a b := by
  unfold sameBagsB C17_SameBags
  rw [all_eq_true]
  constructor
  · intro h k
    by_cases hk : k ∈ AMap.keys a ++ AMap.keys b
    · exact (permB_iff _ _).1 (h k hk)
    · rw [mem_append, not_or] at hk
      rw [Bag.get_eq_nil_of_not_mem_keys hk.1, Bag.get_eq_nil_of_not_mem_keys hk.2]
  · intro h k _
    exact (permB_iff _ _).2 (h k)

private theorem ite_none {c : Bool} {s : String} {e : Option String} :
    (if c = true then some s else e) = none ↔ c = false ∧ e = none := by
  cases c <;> simp

/-- the executable checker decides exactly `C17_Holds` (no hypothesis on the records is needed) -/
theorem checkC17_iff (a b : BagValDict K V) (o : BagObs) : checkC17 a b o = none ↔ C17_Holds a b o := by
  simp only [checkC17, ite_none, C17_Holds, ← sameBagsB_iff, bne_eq_false_iff_eq, and_true,
    Bool.and_eq_false_imp, bne_eq_false_iff_eq]
  constructor
  · rintro ⟨h1, h2, h3, h4, h5, h6, h7, h8⟩
    exact ⟨by rw [h1], by rw [h2], h3, h4, h5, h6, h7, h8⟩
  · rintro ⟨h1, h2, h3, h4, h5, h6, h7, h8⟩
    exact ⟨Bool.eq_iff_iff.2 h1, Bool.eq_iff_iff.2 h2, h3, h4, h5, h6, h7, h8⟩

end C17

/-! ### the instance used by the simulator -/

theorem Stall.rank_inj {s t : Stall} (h : s.rank = t.rank) : s = t := by
  cases s <;> cases t <;> first | rfl | cases h

/-- attrs' order on `InstrState` (`HI.le`) is a total, transitive, antisymmetric order -/
theorem HI_le_totalOrder : TotalOrderB HI.le := by
  refine ⟨?_, ?_, ?_⟩
  · intro x y
    simp only [HI.le, Bool.or_eq_true, decide_eq_true_eq, Bool.and_eq_true, beq_iff_eq]
    omega
  · intro x y z
    simp only [HI.le, Bool.or_eq_true, decide_eq_true_eq, Bool.and_eq_true, beq_iff_eq]
    omega
  · intro x y
    simp only [HI.le, Bool.or_eq_true, decide_eq_true_eq, Bool.and_eq_true, beq_iff_eq]
    intro h1 h2
    obtain ⟨xi, xs⟩ := x
    obtain ⟨yi, ys⟩ := y
    simp only at h1 h2
    have hi : xi = yi := by omega
    have hs : xs.rank = ys.rank := by omega
    rw [hi, Stall.rank_inj hs]

section Util
variable {N : Type} [DecidableEq N]

/-- the simulator's record comparison is `BagValDict.__eq__` at `le := HI.le` -/
theorem Util_beq_eq_Bag_beq (u v : Util N) : Util.beq u v = Bag.beq HI.le u v := by
  unfold Util.beq Bag.beq
  rw [Bag.allItemsMatch_eq_all]
  rfl

/-- hence the stall test of `simulate` is multiset equality per unit (records of the simulator have duplicate-free
keys: they are built by `AMap.set`) -/
theorem Util_beq_iff_multiset {u v : Util N} (hu : (AMap.keys u).Nodup) (hv : (AMap.keys v).Nodup) :
    Util.beq u v = true ↔ ∀ n, (Util.get u n) ~ (Util.get v n) := by
  rw [Util_beq_eq_Bag_beq]
  exact C17_eq_iff_multiset HI_le_totalOrder hu hv

end Util

/-! ### non-vacuity: concrete values, and the hypotheses are needed -/

section examples

private def leN (x y : Nat) : Bool := decide (x ≤ y)
private def kpN (k : Nat) : String := toString k
private def r1 : BagValDict Nat Nat := [(1, [2, 1, 2]), (2, []), (3, [7])]
private def r2 : BagValDict Nat Nat := [(3, [7]), (1, [2, 2, 1])]
private def r3 : BagValDict Nat Nat := [(3, [7]), (1, [2, 1, 1])]

-- order of keys, order of entries and empty units are irrelevant; multiplicities are not
example : Bag.beq leN r1 r2 = true := by decide
example : Bag.beq leN r2 r1 = true := by decide
example : sameBagsB r1 r2 = true := by decide
example : Bag.beq leN r1 r3 = false := by decide
example : sameBagsB r1 r3 = false := by decide
example : Bag.len r1 = 2 ∧ nonEmptyKeys r1 = 2 := by decide
example : (AMap.keys r1).Nodup ∧ (AMap.keys r2).Nodup := by decide
-- the comparison inserts an empty list for a missing key (`defaultdict`) …
example : (Bag.beqM leN r2 [(5, [9]), (1, [1])]).2 = [(3, [7]), (1, [2, 2, 1]), (5, [])] := by decide
-- … which no observation sees
example : Bag.len (Bag.beqM leN r2 [(5, [9]), (1, [1])]).2 = 2 := by decide
example : Bag.canonEntries leN leN r1 = [(1, [1, 2, 2]), (3, [7])] := by decide
example : Bag.canonEntries leN leN r1 = Bag.canonEntries leN leN r2 := by decide
example : Bag.repr leN leN kpN kpN r1 = "BagValDict({1: [1, 2, 2], 3: [7]})" := by decide
example : Bag.repr leN leN kpN kpN r2 = "BagValDict({1: [1, 2, 2], 3: [7]})" := by decide
-- the checker accepts the model's observation and rejects a wrong one
example : (modelBagObs leN leN kpN kpN r1 r2).eqAB = true ∧ (modelBagObs leN leN kpN kpN r1 r2).eqAB2 = true ∧
    (modelBagObs leN leN kpN kpN r1 r2).lenA = 2 ∧ (modelBagObs leN leN kpN kpN r1 r2).lenA2 = 2 := by decide
example : checkC17 r1 r3 ⟨true, false, false, 2, 2, 2, "", "", ""⟩ = some "eq-iff-same-multisets" := by decide
example : checkC17 r1 r2 ⟨true, true, true, 3, 2, 3, "", "", ""⟩ = some "len-counts-nonempty-units" := by decide
example : checkC17 r1 r2 ⟨true, true, true, 2, 2, 2, "x", "x", "x"⟩ = none := by decide
example : checkC17 r1 r2 ⟨true, true, true, 2, 2, 2, "x", "y", "x"⟩ = some "equal-records-print-identically" := by
  decide

-- duplicate keys (impossible for a `dict`) break the equivalence: the hypothesis of `C17_eq_iff_multiset` and
-- `C17_len` is needed
example : sameBagsB ([(1, [5]), (1, [6])] : BagValDict Nat Nat) [(1, [5])] = true ∧
    Bag.beq leN ([(1, [5]), (1, [6])] : BagValDict Nat Nat) [(1, [5])] = false := by decide
example : Bag.len ([(1, [5]), (1, [6])] : BagValDict Nat Nat) = 2 ∧
    nonEmptyKeys ([(1, [5]), (1, [6])] : BagValDict Nat Nat) = 1 := by decide
-- a total preorder that is not antisymmetric (everything equivalent) does not give multiset equality
example : sameBagsB ([(1, [1, 2])] : BagValDict Nat Nat) [(1, [2, 1])] = true ∧
    Bag.beq (fun _ _ => true) ([(1, [1, 2])] : BagValDict Nat Nat) [(1, [2, 1])] = false := by decide

-- the simulator's instance
example : Util.beq ([(1, [⟨0, .U⟩, ⟨1, .S⟩]), (2, [])] : Util Nat) [(1, [⟨1, .S⟩, ⟨0, .U⟩])] = true := by decide
example : Util.beq ([(1, [⟨0, .U⟩, ⟨1, .S⟩])] : Util Nat) [(1, [⟨1, .D⟩, ⟨0, .U⟩])] = false := by decide

end examples

end ProcSim
