import ProcSim.Spec.Text
/-!
# C18 — `ICaseString` obeys equality, hash, order, containment and printing laws

For **all** strings (`List Char`, ASCII folding — the scope of `Model/ICase.lean`):

* `ICase.strLt_iff`, `ICase.isInfix_iff`, `Spec.Text.occursB_iff` — the model's hand-written string order / substring
  test / the checker's window search are core Lean's lexicographic `<` on `List Char` / "occurs as a block".
* `C18_eq`, `C18_hash`, `C18_order`, `C18_contains`, `C18_str` — the five clauses of the property.
* `C18_model` — the model's observation on any pair satisfies `C18_Holds` (for every hash function `h`).
* `checkC18_iff` — the executable checker decides exactly `C18_Holds`.
* `C18_triple`, `C18_tripleLaws` — trichotomy, transitivity of `==` and `<`, `<` and `hash` respect `==`.

Core Lean only.
-/
namespace ProcSim

open Spec.Text

namespace ICase

/-! ### the model's string order is the lexicographic order of core Lean -/

theorem strLt_iff (x y : List Char) : strLt x y = true ↔ x < y := by
  induction x generalizing y with
  | nil => cases y <;> simp [strLt]
  | cons a as ih =>
    cases y with
    | nil => simp [strLt]
    | cons b bs =>
      rw [List.cons_lt_cons_iff, ← ih]
      simp only [strLt, Bool.or_eq_true, decide_eq_true_eq, Bool.and_eq_true, beq_iff_eq, Char.lt_def,
        UInt32.lt_iff_toNat_lt]
      exact Iff.rfl

theorem strLe_iff (x y : List Char) : strLe x y = true ↔ x ≤ y := by
  rw [strLe, Bool.not_eq_true', ← Bool.not_eq_true, strLt_iff]
  exact List.not_lt

theorem strLt_irrefl (x : List Char) : strLt x x = false := by
  induction x with
  | nil => rfl
  | cons a as ih => simp [strLt, ih]

theorem strLt_asymm {x y : List Char} (h : strLt x y = true) : strLt y x = false := by
  induction x generalizing y with
  | nil => cases y <;> simp_all [strLt]
  | cons a as ih =>
    cases y with
    | nil => simp [strLt] at h
    | cons b bs =>
      simp only [strLt, Bool.or_eq_true, decide_eq_true_eq, Bool.and_eq_true, beq_iff_eq] at h
      simp only [strLt, Bool.or_eq_false_iff, decide_eq_false_iff_not, Bool.and_eq_false_imp, beq_iff_eq]
      rcases h with h | ⟨rfl, h⟩
      · exact ⟨by omega, fun e => by subst e; omega⟩
      · exact ⟨by omega, fun _ => ih h⟩

theorem strLt_trans {x y z : List Char} (h₁ : strLt x y = true) (h₂ : strLt y z = true) : strLt x z = true := by
  induction x generalizing y z with
  | nil =>
    cases z with
    | nil => cases y <;> simp [strLt] at h₂
    | cons c cs => rfl
  | cons a as ih =>
    cases y with
    | nil => simp [strLt] at h₁
    | cons b bs =>
      cases z with
      | nil => simp [strLt] at h₂
      | cons c cs =>
        simp only [strLt, Bool.or_eq_true, decide_eq_true_eq, Bool.and_eq_true, beq_iff_eq] at h₁ h₂ ⊢
        rcases h₁ with h₁ | ⟨rfl, h₁⟩
        · rcases h₂ with h₂ | ⟨rfl, _⟩
          · exact Or.inl (by omega)
          · exact Or.inl h₁
        · rcases h₂ with h₂ | ⟨rfl, h₂⟩
          · exact Or.inl h₂
          · exact Or.inr ⟨rfl, ih h₁ h₂⟩

/-- any two different strings are ordered one way or the other -/
theorem strLt_connected {x y : List Char} (h : x ≠ y) : strLt x y = true ∨ strLt y x = true := by
  induction x generalizing y with
  | nil =>
    cases y with
    | nil => exact absurd rfl h
    | cons b bs => exact Or.inl rfl
  | cons a as ih =>
    cases y with
    | nil => exact Or.inr rfl
    | cons b bs =>
      simp only [strLt, Bool.or_eq_true, decide_eq_true_eq, Bool.and_eq_true, beq_iff_eq]
      by_cases hab : a = b
      · subst hab
        have : as ≠ bs := fun e => h (by rw [e])
        rcases ih this with h' | h'
        · exact Or.inl (Or.inr ⟨rfl, h'⟩)
        · exact Or.inr (Or.inr ⟨rfl, h'⟩)
      · have : a.toNat ≠ b.toNat := fun e => hab (Char.toNat_inj.1 e)
        rcases Nat.lt_or_gt_of_ne this with h' | h'
        · exact Or.inl (Or.inl h')
        · exact Or.inr (Or.inl h')

/-- exactly one of `x < y`, `x = y`, `y < x` -/
theorem strLt_trichotomy (x y : List Char) :
    (strLt x y && !(x == y) && !strLt y x || !strLt x y && (x == y) && !strLt y x ||
      !strLt x y && !(x == y) && strLt y x) = true := by
  by_cases h : x = y
  · subst h; simp [strLt_irrefl]
  · rcases strLt_connected h with h' | h'
    · simp [h, h', strLt_asymm h']
    · simp [h, h', strLt_asymm h']

/-- `x <= y` is `x < y or x == y` -/
theorem strLe_eq_lt_or_eq (x y : List Char) : strLe x y = (strLt x y || x == y) := by
  have := strLt_trichotomy x y
  rw [strLe]
  cases hxy : strLt x y <;> cases hyx : strLt y x <;> cases he : (x == y) <;> simp_all

/-! ### substring test -/

theorem isPrefix_iff (p s : List Char) : isPrefix p s = true ↔ ∃ suf, s = p ++ suf := by
  induction p generalizing s with
  | nil => simp [isPrefix]
  | cons c cs ih =>
    cases s with
    | nil => simp [isPrefix]
    | cons d ds =>
      simp only [isPrefix, Bool.and_eq_true, beq_iff_eq, ih, List.cons_append, List.cons.injEq]
      constructor
      · rintro ⟨rfl, suf, rfl⟩; exact ⟨suf, rfl, rfl⟩
      · rintro ⟨suf, rfl, rfl⟩; exact ⟨rfl, suf, rfl⟩

theorem isInfix_iff (p s : List Char) : isInfix p s = true ↔ Occurs p s := by
  induction s with
  | nil =>
    simp only [isInfix, List.isEmpty_iff, Occurs]
    constructor
    · rintro rfl; exact ⟨[], [], rfl⟩
    · rintro ⟨pre, suf, h⟩
      have h' := congrArg List.length h
      simp only [List.length_nil, List.length_append] at h'
      exact List.length_eq_zero_iff.1 (by omega)
  | cons c cs ih =>
    simp only [isInfix, Bool.or_eq_true, isPrefix_iff, ih, Occurs]
    constructor
    · rintro (⟨suf, h⟩ | ⟨pre, suf, h⟩)
      · exact ⟨[], suf, by simpa using h⟩
      · exact ⟨c :: pre, suf, by simp [h]⟩
    · rintro ⟨pre, suf, h⟩
      cases pre with
      | nil => exact Or.inl ⟨suf, by simpa using h⟩
      | cons d pre' =>
        simp only [List.cons_append, List.cons.injEq] at h
        exact Or.inr ⟨pre', suf, h.2⟩

end ICase

namespace Spec.Text

/-- the checker's window search decides `Occurs` -/
theorem occursB_iff (p s : List Char) : occursB p s = true ↔ Occurs p s := by
  simp only [occursB, List.any_eq_true, List.mem_range, beq_iff_eq, Occurs]
  constructor
  · rintro ⟨i, _, h⟩
    refine ⟨s.take i, (s.drop i).drop p.length, ?_⟩
    conv => lhs; rw [← List.take_append_drop i s, ← List.take_append_drop p.length (s.drop i), h]
    rw [List.append_assoc]
  · rintro ⟨pre, suf, rfl⟩
    refine ⟨pre.length, by simp only [List.length_append]; omega, ?_⟩
    rw [List.append_assoc, List.drop_left, List.take_left]

end Spec.Text

open ICase

/-! ### the five clauses -/

/-- **C18 (equality)**: equal iff the lower-cased texts are equal; `==` is symmetric; `!=` is its negation. -/
theorem C18_eq (a b : List Char) :
    (ICase.eq ⟨a⟩ ⟨b⟩ = true ↔ lower a = lower b) ∧ ICase.eq ⟨a⟩ ⟨b⟩ = ICase.eq ⟨b⟩ ⟨a⟩ ∧
    ICase.ne ⟨a⟩ ⟨b⟩ = !ICase.eq ⟨a⟩ ⟨b⟩ := by
  refine ⟨by simp [ICase.eq, ICaseString.key], ?_, rfl⟩
  simp only [ICase.eq, ICaseString.key]
  exact Bool.beq_comm

/-- **C18 (hash)**: equal strings hash equally — for *every* hash function `h` of the folded text. -/
theorem C18_hash (h : List Char → Nat) (a b : List Char) (he : ICase.eq ⟨a⟩ ⟨b⟩ = true) :
    ICase.hash h ⟨a⟩ = ICase.hash h ⟨b⟩ := by
  simp only [ICase.eq, ICaseString.key, beq_iff_eq] at he
  simp only [ICase.hash, ICaseString.key, he]

/-- **C18 (order)**: `<`, `<=`, `>`, `>=` are those of the lower-cased texts (code-point lexicographic), and they
are mutually consistent: `<=` is `<` or `==`, `>` / `>=` are the swapped `<` / `<=`, `<=` is the negation of `>`. -/
theorem C18_order (a b : List Char) :
    (ICase.lt ⟨a⟩ ⟨b⟩ = true ↔ lower a < lower b) ∧ (ICase.le ⟨a⟩ ⟨b⟩ = true ↔ lower a ≤ lower b) ∧
    (ICase.gt ⟨a⟩ ⟨b⟩ = true ↔ lower b < lower a) ∧ (ICase.ge ⟨a⟩ ⟨b⟩ = true ↔ lower b ≤ lower a) ∧
    ICase.le ⟨a⟩ ⟨b⟩ = (ICase.lt ⟨a⟩ ⟨b⟩ || ICase.eq ⟨a⟩ ⟨b⟩) ∧
    ICase.gt ⟨a⟩ ⟨b⟩ = ICase.lt ⟨b⟩ ⟨a⟩ ∧ ICase.ge ⟨a⟩ ⟨b⟩ = ICase.le ⟨b⟩ ⟨a⟩ ∧
    ICase.le ⟨a⟩ ⟨b⟩ = !ICase.gt ⟨a⟩ ⟨b⟩ :=
  ⟨strLt_iff _ _, strLe_iff _ _, strLt_iff _ _, strLe_iff _ _, strLe_eq_lt_or_eq _ _, rfl, rfl, rfl⟩

/-- **C18 (containment)**: `item in A` iff the folded `item` occurs as a block in the folded text. -/
theorem C18_contains (a item : List Char) :
    ICase.contains ⟨a⟩ item = true ↔ Occurs (lower item) (lower a) := isInfix_iff _ _

/-- **C18 (printing)**: `str` is the original spelling. -/
theorem C18_str (a : List Char) : ICase.str ⟨a⟩ = a := rfl

/-- **C18**: the model's observation on any pair of strings, for any hash function, satisfies the property. -/
theorem C18_model (h : List Char → Nat) (a b : List Char) : C18_Holds a b (modelPairObs h a b) := by
  refine ⟨(C18_eq a b).1, (C18_eq b a).1, (C18_eq a b).2.2, ?_, (C18_order a b).1, (C18_order b a).1,
    (C18_order a b).2.1, (C18_order b a).2.1, (C18_order a b).2.2.1, (C18_order a b).2.2.2.1,
    C18_contains a b, C18_contains b a, rfl, rfl⟩
  intro he
  simp only [modelPairObs, beq_iff_eq]
  exact C18_hash h a b he

/-! ### the checker decides the property -/

private theorem ite_none {c : Bool} {s : String} {e : Option String} :
    (if c = true then some s else e) = none ↔ c = false ∧ e = none := by
  cases c <;> simp

private theorem bne_beq_false {α : Type} [BEq α] [LawfulBEq α] {x : Bool} {u v : α} :
    (x != (u == v)) = false ↔ (x = true ↔ u = v) := by
  cases x
  · simp
  · simp

private theorem bne_decide_false {x : Bool} {p : Prop} [Decidable p] :
    (x != decide p) = false ↔ (x = true ↔ p) := by
  cases x <;> simp

private theorem bne_bool_false {x y : Bool} : (x != y) = false ↔ (x = true ↔ y = true) := by
  cases x <;> cases y <;> simp

theorem checkC18_iff (a b : List Char) (o : PairObs) : checkC18 a b o = none ↔ C18_Holds a b o := by
  simp only [checkC18, ite_none, C18_Holds, bne_beq_false, bne_decide_false, and_true]
  rw [bne_bool_false (y := occursB _ _), bne_bool_false (y := occursB _ _), occursB_iff, occursB_iff]
  simp only [bne_eq_false_iff_eq, Bool.and_eq_false_imp, Bool.not_eq_eq_eq_not, Bool.not_false]

/-- the checker for supplied folded texts decides the literal reading of C18 for those texts -/
theorem checkC18Folded_iff (la lb a b : List Char) (o : PairObs) :
    checkC18Folded la lb a b o = none ↔ C18_HoldsFolded la lb a b o := by
  simp only [checkC18Folded, ite_none, C18_HoldsFolded, bne_beq_false, bne_decide_false, and_true]
  rw [bne_bool_false (y := occursB _ _), bne_bool_false (y := occursB _ _), occursB_iff, occursB_iff]
  simp only [bne_eq_false_iff_eq, Bool.and_eq_false_imp, Bool.not_eq_eq_eq_not, Bool.not_false]

/-- with the ASCII folding of the model it is the same checker / the same proposition -/
theorem checkC18Folded_lower (a b : List Char) (o : PairObs) :
    checkC18Folded (ICase.lower a) (ICase.lower b) a b o = checkC18 a b o := rfl

theorem C18_HoldsFolded_lower (a b : List Char) (o : PairObs) :
    C18_HoldsFolded (ICase.lower a) (ICase.lower b) a b o ↔ C18_Holds a b o := Iff.rfl

/-! ### laws on three strings -/

/-- **C18 (triples)**: for all strings and every hash function the observations on `(a,b)`, `(b,c)`, `(a,c)`
pass the triple checker: trichotomy on each pair, `==` and `<` transitive, `<` and `hash` respect `==`. -/
theorem C18_triple (h : List Char → Nat) (a b c : List Char) :
    checkC18Triple (modelPairObs h a b) (modelPairObs h b c) (modelPairObs h a c) = none := by
  -- only the keys matter: state the claim for arbitrary observations determined by three keys `x y z`
  have key : ∀ (x y z : List Char) (ab bc ac : PairObs),
      ab.eqAB = (x == y) → ab.ltAB = strLt x y → ab.ltBA = strLt y x → ab.hashEq = (h x == h y) →
      bc.eqAB = (y == z) → bc.ltAB = strLt y z → bc.ltBA = strLt z y → bc.hashEq = (h y == h z) →
      ac.eqAB = (x == z) → ac.ltAB = strLt x z → ac.ltBA = strLt z x → ac.hashEq = (h x == h z) →
      checkC18Triple ab bc ac = none := by
    intro x y z ab bc ac h1 h2 h3 h4 h5 h6 h7 h8 h9 h10 h11 h12
    simp only [checkC18Triple, trichotomyB, h1, h2, h3, h4, h5, h6, h7, h8, h9, h10, h11, h12]
    rw [strLt_trichotomy x y, strLt_trichotomy y z, strLt_trichotomy x z]
    have e1 : ((x == y) && (y == z) && !(x == z)) = false := by
      by_cases h1 : x = y
      · subst h1; simp
      · simp [h1]
    have e2 : (strLt x y && strLt y z && !strLt x z) = false := by
      cases h1 : strLt x y
      · simp
      · cases h2 : strLt y z
        · simp
        · simp [strLt_trans h1 h2]
    have e3 : ((x == y) && (strLt x z != strLt y z)) = false := by
      by_cases h1 : x = y
      · subst h1; simp
      · simp [h1]
    have e4 : ((y == z) && (strLt x z != strLt x y)) = false := by
      by_cases h1 : y = z
      · subst h1; simp
      · simp [h1]
    have e5 : ((x == y) && (h x == h y) && ((h y == h z) != (h x == h z))) = false := by
      by_cases h1 : x = y
      · subst h1; simp
      · simp [h1]
    rw [e1, e2, e3, e4, e5]
    simp
  exact key (lower a) (lower b) (lower c) _ _ _ rfl rfl rfl rfl rfl rfl rfl rfl rfl rfl rfl rfl

/-- the readable form of the triple laws, for all strings -/
theorem C18_tripleLaws (h : List Char → Nat) (a b c : List Char) :
    C18_TripleLaws (modelPairObs h a b) (modelPairObs h b c) (modelPairObs h a c) := by
  simp only [C18_TripleLaws, modelPairObs, ICase.eq, ICase.lt, ICase.hash, ICaseString.key, beq_iff_eq]
  generalize lower a = x
  generalize lower b = y
  generalize lower c = z
  refine ⟨fun h1 h2 => h1.trans h2, fun h1 h2 => strLt_trans h1 h2, ?_, ?_, ?_⟩
  · rintro rfl; rfl
  · rintro rfl; rfl
  · rintro rfl _; rfl

/-- trichotomy in `Prop` form: exactly one of `A < B`, `A == B`, `B < A` -/
theorem C18_trichotomy (a b : List Char) :
    (lower a < lower b ∧ lower a ≠ lower b ∧ ¬ lower b < lower a) ∨
    (¬ lower a < lower b ∧ lower a = lower b ∧ ¬ lower b < lower a) ∨
    (¬ lower a < lower b ∧ lower a ≠ lower b ∧ lower b < lower a) := by
  have := strLt_trichotomy (lower a) (lower b)
  simp only [← strLt_iff]
  generalize lower a = x at *
  generalize lower b = y at *
  by_cases h : x = y
  · subst h; simp [strLt_irrefl]
  · rcases strLt_connected h with h' | h'
    · simp [h, h', strLt_asymm h']
    · simp [h, h', strLt_asymm h']

/-! ### non-vacuity: concrete values -/

section examples
private def hsum (s : List Char) : Nat := s.foldl (fun n c => 31 * n + c.toNat) 7

example : (modelPairObs hsum "Add".toList "aDD".toList).eqAB = true := by decide
example : (modelPairObs hsum "Add".toList "aDD".toList).hashEq = true := by decide
example : (modelPairObs hsum "Add".toList "sub".toList).eqAB = false := by decide
example : (modelPairObs hsum "Add".toList "sub".toList).ltAB = true := by decide
example : (modelPairObs hsum "B".toList "a".toList).ltAB = false := by decide   -- 'B' < 'a' as code points, but b > a
example : (modelPairObs hsum "B".toList "a".toList).gtAB = true := by decide
example : (modelPairObs hsum "ab".toList "AB1".toList).ltAB = true := by decide  -- proper prefix
example : (modelPairObs hsum "xADDy".toList "add".toList).bInA = true := by decide
example : (modelPairObs hsum "xADDy".toList "add".toList).aInB = false := by decide
example : (modelPairObs hsum "xADDy".toList "".toList).bInA = true := by decide
example : (modelPairObs hsum "Add".toList "aDD".toList).strA = "Add".toList := by decide
example : checkC18 "Add".toList "aDD".toList (modelPairObs hsum "Add".toList "aDD".toList) = none := by decide
-- a wrong observation is rejected by the checker (so `checkC18 … = none` is not vacuous)
example : checkC18 "Add".toList "aDD".toList { modelPairObs hsum "Add".toList "aDD".toList with eqAB := false }
    = some "eq-iff-lower-equal" := by decide
example : checkC18 "B".toList "a".toList { modelPairObs hsum "B".toList "a".toList with ltAB := true }
    = some "lt-as-lower-texts" := by decide
example : checkC18Triple (modelPairObs hsum "a".toList "A".toList) (modelPairObs hsum "A".toList "b".toList)
    (modelPairObs hsum "a".toList "b".toList) = none := by decide
example : Occurs "dd".toList "add".toList := ⟨"a".toList, [], by decide⟩
end examples

end ProcSim
