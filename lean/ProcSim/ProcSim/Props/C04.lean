import ProcSim.Lemmas.SimCore
/-!
# C04 — unit width never exceeded

In every cycle of every diagram `simulate` hands out (returned, or carried by the stall error), every unit hosts at
most `width` instructions. The only hypothesis needed is that unit names are unique (part of `wfProc`): the
record is keyed by unit *name*, so two units sharing a name but not a width could not both be respected.

Proof: `RowBase.width` is part of the invariant `BaseInv` (`Lemmas/SimCore.lean`): the fill loop and `tryPorts`
test `length = width` before every append; flushing, removing moved instructions and relabelling never grow a unit.
-/
namespace ProcSim
open Spec

attribute [local implicit_reducible] AMap

variable {N : Type} [DecidableEq N]

/-- C04, readable form: in every cycle every unit hosts at most `width` instructions (cycles beyond the end of the
diagram read as the empty record). -/
def C04_Holds (p : Proc N) (tbl : List (Util N)) : Prop :=
  ∀ t u, u ∈ p.allUnits → ((tbl.getD t ([] : List (N × List HI))).get u.name).length ≤ u.width

/-- the Bool clause evaluated by the driver says exactly `C04_Holds` -/
theorem C04_ok_iff (p : Proc N) (prog : List (Instr N)) (tbl : List (Util N)) (stalled : Bool) :
    (Spec.C04 (ctx p prog tbl stalled)).ok = true ↔ C04_Holds p tbl := by
  simp only [Spec.C04, Clauses.ok, List.all_cons, List.all_nil, Bool.and_true, List.all_eq_true, List.mem_range,
    Ctx.T, Ctx.units, Ctx.occ, Ctx.row, ctx, C04_Holds]
  constructor
  · intro h t u hu
    by_cases ht : t < tbl.length
    · exact of_decide_eq_true (h t ht u hu)
    · rw [List.getD_eq_getElem?_getD, List.getElem?_eq_none (by omega)]
      simp
  · intro h t _ u hu
    exact decide_eq_true (h t u hu)

variable [LT N] [DecidableRel (α := N) (· < ·)]

/-- **C04 (readable form)**, from unique unit names only. -/
theorem C04_width'_of_nodup (p : Proc N) (prog : List (Instr N)) (tbl : List (Util N)) (stalled : Bool)
    (hn : (p.allUnits.map (·.name)).Nodup) (h : Diagram p prog tbl stalled) :
    ∀ t u, u ∈ p.allUnits → ((tbl.getD t ([] : List (N × List HI))).get u.name).length ≤ u.width := by
  obtain ⟨e, _, hrows⟩ := Diagram_rowBase hn h
  intro t u hu
  exact (hrows t).width u hu

/-- **C04**, from unique unit names only. -/
theorem C04_width_of_nodup (p : Proc N) (prog : List (Instr N)) (tbl : List (Util N)) (stalled : Bool)
    (hn : (p.allUnits.map (·.name)).Nodup) (h : Diagram p prog tbl stalled) :
    (Spec.C04 (ctx p prog tbl stalled)).ok = true :=
  (C04_ok_iff p prog tbl stalled).2 (C04_width'_of_nodup p prog tbl stalled hn h)

/-- **C04.** For a well-formed processor, every diagram of `simulate` passes the C04 checker. -/
theorem C04_width (p : Proc N) (prog : List (Instr N)) (tbl : List (Util N)) (stalled : Bool)
    (hwf : wfProc p = true) (h : Diagram p prog tbl stalled) :
    (Spec.C04 (ctx p prog tbl stalled)).ok = true :=
  C04_width_of_nodup p prog tbl stalled (wfProc_nodup_names hwf) h

/-- **C04 (readable form).** -/
theorem C04_width' (p : Proc N) (prog : List (Instr N)) (tbl : List (Util N)) (stalled : Bool)
    (hwf : wfProc p = true) (h : Diagram p prog tbl stalled) :
    ∀ t u, u ∈ p.allUnits → ((tbl.getD t ([] : List (N × List HI))).get u.name).length ≤ u.width :=
  C04_width'_of_nodup p prog tbl stalled (wfProc_nodup_names hwf) h

/-! ## Non-vacuity

A two-stage processor over `Nat` names: input port `0` (width 2, holds the read lock) feeding output port `1`
(width 1, holds the write lock), capability `7`; three independent instructions. The processor is well-formed, the
simulation returns a diagram, and in its first cycle the input port is filled to its width 2 (so the bound of C04 is
attained, not just respected). -/
namespace C04Example

def inP : UnitM Nat := ⟨0, 2, [7], true, false, []⟩
def outP : UnitM Nat := ⟨1, 1, [7], false, true, []⟩
def proc : Proc Nat := { inPorts := [inP], outPorts := [⟨outP, [0]⟩], inOut := [], internal := [] }
def prog : List (Instr Nat) := [⟨[10], 11, 7⟩, ⟨[12], 13, 7⟩, ⟨[14], 15, 7⟩]

example : wfProc proc = true := by decide

/-- the run returns a diagram of 4 cycles whose first cycle has the input port full (2 = width) -/
example : (match simulate proc prog with
    | .done tbl => tbl.length == 4 && ((tbl.getD 0 ([] : List (Nat × List HI))).get 0).length == inP.width
    | _ => false) = true := by decide

def isDone : Outcome Nat → Bool
  | .done _ => true
  | _ => false

/-- so the hypotheses of `C04_width` are satisfiable: there is a diagram, and the theorem applies to it -/
example : ∃ tbl, Diagram proc prog tbl false ∧ (Spec.C04 (ctx proc prog tbl false)).ok = true := by
  have hd : isDone (simulate proc prog) = true := by decide
  cases h : simulate proc prog with
  | done tbl => exact ⟨tbl, Or.inl ⟨rfl, h⟩, C04_width proc prog tbl false (by decide) (Or.inl ⟨rfl, h⟩)⟩
  | stall tbl => rw [h] at hd; cases hd
  | fault f => rw [h] at hd; cases hd

end C04Example

end ProcSim
