import ProcSim.Gen.AccPlan
import ProcSim.Props.C19gen
import ProcSim.Model.Sim
import ProcSim.Lemmas.Hazards
/-!
# Translator tie for the register access plan (`_build_acc_plan` and its helpers in `src/sim_services/__init__.py`)

`ProcSim.Gen.acc_plan` is **generated** from the Python source on every check run (four functions: `_add_rd_access`,
`_add_wr_access`, `_add_access`, `_build_acc_plan`; they call the generated `RegAccQBuilder` of `reg_access.py`).
This file proves that they build exactly the model's plan (`addReads`, `addInstr`, `buildPlanFrom`, `buildPlan` of
`ProcSim/Model/Sim.lean`): one queue per register, registers in first-use order, per instruction the reads of all its
sources and then the write of its destination — the mechanism C01 and C02 rest on.
-/
namespace ProcSim.GenTie
open PyLite ProcSim ProcSim.Gen.reg_access ProcSim.Gen.acc_plan

variable {N : Type} [DecidableEq N]

/-- the `defaultdict(RegAccQBuilder)` of builders standing for the model's register ↦ queue map -/
def encD (qs : Queues N) : PyDict N RegAccQBuilder := ⟨List.map (fun kv => (kv.1, encB kv.2)) qs, some RegAccQBuilder.new⟩
/-- the returned plan: a plain dict of queues -/
def encPlan (qs : Queues N) : PyDict N RegAccessQueue := ⟨List.map (fun kv => (kv.1, encQ kv.2)) qs, none⟩
/-- the instruction as the plan builder sees it -/
def encI (ins : Instr N) : HwInstruction N := ⟨ins.srcs, ins.dst⟩

/-- the member list of the dict: same keys in the same order, each queue as a builder -/
def encItems (qs : Queues N) : List (N × RegAccQBuilder) := List.map (fun kv => (kv.1, encB kv.2)) qs
/-- a new register at the end of the map (what `defaultdict.__getitem__` does for a missing key) -/
def snoc (qs : Queues N) (r : N) (q : Queue) : Queues N := List.append qs [(r, q)]

theorem encItems_snoc (qs : Queues N) (r : N) (q : Queue) : encItems (snoc qs r q) = encItems qs ++ [(r, encB q)] := by
  unfold encItems snoc
  exact List.map_append

theorem lookup_enc (qs : Queues N) (r : N) : PyDict.lookup (encItems qs) r = (AMap.get? qs r).map encB := by
  unfold encItems
  induction qs with
  | nil => rfl
  | cons kv t ih =>
    obtain ⟨k, q⟩ := kv
    by_cases h : k = r <;> simp [PyDict.lookup, AMap.get?, h, ih]

theorem replace_enc (qs : Queues N) (r : N) (q : Queue) :
    PyDict.replace (encItems qs) r (encB q) = encItems (AMap.set qs r q) := by
  unfold encItems
  induction qs with
  | nil => rfl
  | cons kv t ih =>
    obtain ⟨k, q0⟩ := kv
    by_cases h : k = r
    · simp [PyDict.replace, AMap.set, h]
    · simp [PyDict.replace, AMap.set, h, ih]
      rfl

theorem set_snoc_of_absent (qs : Queues N) (r : N) (q0 q : Queue) (h : AMap.get? qs r = none) :
    AMap.set (snoc qs r q0) r q = AMap.set qs r q := by
  unfold snoc
  induction qs with
  | nil => simp [AMap.set]; rfl
  | cons kv t ih =>
    obtain ⟨k, q1⟩ := kv
    by_cases hk : k = r
    · simp [AMap.get?, hk] at h
    · have ht : AMap.get? t r = none := by simpa [AMap.get?, hk] using h
      have := ih ht
      simp only [List.append_eq] at this ⊢
      simp [AMap.set, hk, this]
      rfl

/-- the pattern every mutation of `builders[r]` compiles to: read `builders[r]` (inserting an empty builder for a new
register), run a builder-mutating call, write the builder back — is the model's `set r (h (get r))` -/
theorem modify_builder (qs : Queues N) (r : N) (g : RegAccQBuilder → PyM (Unit × RegAccQBuilder)) (h : Queue → Queue)
    (hg : ∀ q, g (encB q) = .ok ((), encB (h q))) :
    (do let (v1, d1) ← PyDict.getItem (encD qs) r
        let v1' := (← g v1).2
        pure (PyDict.setItem d1 r v1')) = (.ok (encD (qs.set r (h (qs.get r)))) : PyM _) := by
  have hD : ∀ qs : Queues N, encD qs = ⟨encItems qs, some RegAccQBuilder.new⟩ := fun _ => rfl
  simp only [PyDict.getItem, hD, lookup_enc]
  cases hr : AMap.get? qs r with
  | some q =>
    simp only [Option.map_some, bind, Except.bind, hg, pure, Except.pure, PyDict.setItem, replace_enc, Queues.set,
      Queues.get, hr, Option.getD_some]
  | none =>
    simp only [Option.map_none, gen_new, bind, Except.bind, pure, Except.pure, ← encItems_snoc, hg, PyDict.setItem,
      replace_enc, Queues.set, Queues.get, hr, Option.getD_none, set_snoc_of_absent qs r [] _ hr]

/-- `_add_wr_access` (generated) registers the write at the end of the register's plan -/
theorem gen_add_wr_access (q : Queue) (i : Nat) : _add_wr_access i (encB q) = .ok ((), encB (q.push true i)) := by
  have := gen_append q true i
  simp only [encT] at this
  simp [_add_wr_access, this, bind, Except.bind, pure, Except.pure]

/-- `_add_rd_access` (generated) = the model's `addReads`: one read per source register, in the order given -/
theorem gen_add_rd_access (qs : Queues N) (i : Nat) (rs : List N) :
    _add_rd_access i (encD qs) rs = .ok ((), encD (addReads qs i rs)) := by
  have step : ∀ (r : N) (qs : Queues N),
      (do let (v1, d1) ← PyDict.getItem (encD qs) r
          let v1' := (← RegAccQBuilder.append v1 AccessType.READ i).2
          pure (PyDict.setItem d1 r v1')) = (.ok (encD (qs.set r ((qs.get r).push false i))) : PyM _) := by
    intro r qs
    exact modify_builder qs r (fun b => RegAccQBuilder.append b AccessType.READ i) (fun q => q.push false i)
      (fun q => by have := gen_append q false i; simpa [encT] using this)
  have loop : ∀ (rs : List N) (qs : Queues N),
      pyFor rs (encD qs) (fun reg builders => do
        let mut builders := builders
        builders ← (do
          let (v1, d1) ← PyDict.getItem builders reg
          let v1' := (← RegAccQBuilder.append v1 AccessType.READ i).2
          pure (PyDict.setItem d1 reg v1'))
        return builders) = .ok (encD (addReads qs i rs)) := by
    intro rs
    induction rs with
    | nil => intro qs; rfl
    | cons r t ih =>
      intro qs
      simp only [pyFor, addReads]
      have := step r qs
      simp only [bind, Except.bind, pure, Except.pure] at this ⊢
      rw [this]
      exact ih _
  simp only [_add_rd_access, bind, Except.bind, pure, Except.pure]
  have := loop rs qs
  simp only [bind, Except.bind, pure, Except.pure] at this
  rw [this]

/-- `_add_access` (generated) = the model's `addInstr`: the reads of all sources, then the write of the destination -/
theorem gen_add_access (qs : Queues N) (i : Nat) (ins : Instr N) :
    _add_access (encI ins) i (encD qs) = .ok ((), encD (addInstr qs i ins)) := by
  have h2 := modify_builder (addReads qs i ins.srcs) ins.dst (fun b => _add_wr_access i b) (fun q => q.push true i)
    (fun q => gen_add_wr_access q i)
  simp only [bind, Except.bind, pure, Except.pure] at h2
  simp only [_add_access, encI, gen_add_rd_access, bind, Except.bind, pure, Except.pure, addInstr]
  rw [h2]

/-- the program as `enumerate(program)` hands it to `_build_acc_plan`, numbering from `i` -/
def indexed (i : Nat) : List (Instr N) → List (Nat × HwInstruction N)
  | [] => []
  | ins :: rest => (i, encI ins) :: indexed (i + 1) rest

theorem gen_plan_loop (qs : Queues N) (i : Nat) (prog : List (Instr N)) :
    pyFor (indexed i prog) (encD qs) (fun (x : Nat × HwInstruction N) builders => do
      let mut builders := builders
      builders := (← _add_access x.2 x.1 builders).2
      return builders) = .ok (encD (buildPlanFrom qs i prog)) := by
  induction prog generalizing qs i with
  | nil => rfl
  | cons ins rest ih =>
    simp only [indexed, pyFor, buildPlanFrom, gen_add_access, bind, Except.bind, pure, Except.pure]
    exact ih _ _

theorem mapM_create (qs : Queues N) :
    (encItems qs).mapM (fun kv => do pure (kv.1, ← RegAccQBuilder.create kv.2)) =
      (.ok (List.map (fun kv => (kv.1, encQ kv.2)) qs) : PyM _) := by
  induction qs with
  | nil => rfl
  | cons kv t ih =>
    obtain ⟨k, q⟩ := kv
    unfold encItems at ih ⊢
    simp only [List.map_cons, List.mapM_cons, gen_create, bind, Except.bind, pure, Except.pure] at ih ⊢
    rw [ih]

/-- **`_build_acc_plan` (generated) = the model's `buildPlan`**: never raises, one queue per register in first-use order,
each holding the program-order requests of that register (reads of an instruction before its write). -/
theorem gen_build_acc_plan (prog : List (Instr N)) :
    _build_acc_plan (indexed 0 prog) = .ok (encPlan (buildPlan prog)) := by
  have h := gen_plan_loop ([] : Queues N) 0 prog
  have h0 : (PyDict.emptyDefault RegAccQBuilder.new : PyDict N RegAccQBuilder) = encD [] := rfl
  simp only [_build_acc_plan, h0, bind, Except.bind, pure, Except.pure]
  have h' : pyFor (indexed 0 prog) (encD ([] : Queues N)) (fun (x : Nat × HwInstruction N) builders => do
      let mut builders := builders
      builders := (← _add_access x.2 x.1 builders).2
      return builders) = .ok (encD (buildPlan prog)) := h
  simp only [bind, Except.bind, pure, Except.pure] at h'
  rw [h']
  have hD : encD (buildPlan prog) = ⟨encItems (buildPlan prog), some RegAccQBuilder.new⟩ := rfl
  simp only [PyDict.mapValsM, hD, encPlan, bind, Except.bind, pure, Except.pure]
  have := mapM_create (buildPlan prog)
  simp only [bind, Except.bind, pure, Except.pure] at this
  rw [this]

theorem lookup_encPlan (qs : Queues N) (r : N) :
    PyDict.lookup (List.map (fun kv => (kv.1, encQ kv.2)) qs) r = (AMap.get? qs r).map encQ := by
  induction qs with
  | nil => rfl
  | cons kv t ih =>
    obtain ⟨k, q⟩ := kv
    by_cases h : k = r <;> simp [PyDict.lookup, AMap.get?, h, ih]

/-- **The plan built by the translated code, read at the request level** (the mechanism C01 and C02 rest on): the call
never raises, and whatever queue the returned dict holds for a register is the encoding of a well-formed model queue whose
pending requests are exactly that register's requests in program order (reads of an instruction before its write). -/
theorem C01_gen_plan_requests (prog : List (Instr N)) :
    ∃ d, _build_acc_plan (indexed 0 prog) = .ok d ∧
      ∀ r pq, PyDict.lookup d.items r = some pq →
        ∃ q, pq = encQ q ∧ Spec.abs q = Hazards.reqsOf prog r ∧ Spec.WFq q := by
  refine ⟨encPlan (buildPlan prog), gen_build_acc_plan prog, ?_⟩
  intro r pq h
  have h' : (AMap.get? (buildPlan prog) r).map encQ = some pq := by
    rw [← lookup_encPlan]; exact h
  cases hq : AMap.get? (buildPlan prog) r with
  | none => rw [hq] at h'; cases h'
  | some q =>
    rw [hq] at h'
    have hget : (buildPlan prog).get r = q := by simp [Queues.get, hq]
    refine ⟨q, by simpa using h'.symm, ?_, ?_⟩
    · rw [← hget]; exact Hazards.abs_buildPlan prog r
    · rw [← hget]; exact Hazards.wf_buildPlan prog r

/-! non-vacuity: `ADD R1 <- R1, R2 ; SUB R2 <- R1` over registers numbered 1, 2 -/
example : (_build_acc_plan (indexed 0 [⟨[1, 2], 1, 0⟩, ⟨[1], 2, 0⟩] : List (Nat × HwInstruction Nat))).toOption.map
    (fun d => d.items.map (fun kv => (kv.1, kv.2._queue.map (fun g => g.reqs.elems)))) =
    some [(1, [[1], [0], [0]]), (2, [[1], [0]])] := by decide

end ProcSim.GenTie
