import ProcSim.Lemmas.Cli
import ProcSim.Spec.Sim
/-!
# C16 — the printed table renders the diagram

* `C16_render_cells` — for every gap-free diagram (`diagramOK d n`, what C03 gives for a finished simulation) whose
  cycle records have unique keys, `Cli.render` **succeeds** (none of the explicit `RenderError`s — `IndexError`,
  `ValueError`, `KeyError` — is reachable) and the table satisfies `C16_Holds`: `n + 1` rows, header `"", 1 … T`
  with `T` the last busy cycle, row `k` keyed `I<k>`, cell `(k, t)` is `"<L>:<u>"` exactly when the diagram hosts
  `(k-1, L)` in unit `u` in cycle `t-1`, and empty/absent exactly when it hosts instruction `k-1` nowhere then.
* `checkC16_iff` — the driver's checker decides `C16_Holds`.
* `C16_cli_composition` — C03's checker on a returned diagram implies `diagramOK`, hence (`C16_cli_table`) the table
  printed for it satisfies `C16_Holds`.

Hypotheses beyond the TODO text in `Spec/Text.lean` (each with the counterexample that forces it):
* `Function.Injective sh` in `C16_render_cells`: the clause `cell = "<L>:<sh u>" ↔ Hosted … u …` is false for a
  non-injective unit printer: `sh := fun _ => "x"`, `d := [[(0, [⟨0, U⟩])]]`, `n := 1` prints `"U:x"` in cell
  (1, 1), which also equals `"U:" ++ sh 1` although unit `1` hosts nothing (`C16_injective_needed`).
* unique keys in every cycle record in `checkC16_iff`: with `d := [[(0, []), (0, [⟨0, U⟩])]]` the checker collects
  `"U:…"` from the second entry while `Hosted` (reading the record like a dict: first entry) sees nothing
  (`C16_check_nodup_needed`).
-/
namespace ProcSim
open Spec Spec.Text Cli CliLemmas

attribute [local implicit_reducible] AMap
set_option linter.unusedSectionVars false

variable {N : Type} [DecidableEq N]

/-- the position the diagram gives instruction `i` in cycle `t` -/
def C16_posIn (d : List (List (N × List HI))) (t i : Nat) : Option (Pos N) := (d[t]?).bind (fun c => posAt c i)

theorem C16_posIn_some_iff (d : List (List (N × List HI))) (n t i : Nat) (u : N) (L : Stall)
    (hone : ∀ c ∈ d, ∀ i, i < n → occN c i ≤ 1) (hnd : ∀ c ∈ d, (AMap.keys c).Nodup) (hi : i < n) :
    C16_posIn d t i = some { unit := u, st := L } ↔ Hosted d t u i L := by
  unfold C16_posIn Hosted
  cases hc : d[t]? with
  | none => simp
  | some c =>
    have hcd : c ∈ d := List.mem_of_getElem? hc
    simp only [Option.bind_some, Option.some.injEq, exists_eq_left']
    exact posAt_eq_some_iff c i u L (hnd c hcd) (hone c hcd i hi)

theorem C16_posIn_none_iff (d : List (List (N × List HI))) (t i : Nat) (hnd : ∀ c ∈ d, (AMap.keys c).Nodup) :
    C16_posIn d t i = none ↔ ∀ (L : Stall) (u : N), ¬ Hosted d t u i L := by
  unfold C16_posIn Hosted
  cases hc : d[t]? with
  | none => simp
  | some c =>
    have hcd : c ∈ d := List.mem_of_getElem? hc
    simp only [Option.bind_some, Option.some.injEq, exists_eq_left']
    exact posAt_eq_none_iff_hosted c i (hnd c hcd)

/-- the per-cell clause of `C16_Holds` -/
def C16_CellOK (sh : N → String) (d : List (List (N × List HI))) (x : String) (t i : Nat) : Prop :=
  (∀ (L : Stall) (u : N), x = L.code ++ ":" ++ sh u ↔ Hosted d t u i L) ∧
  (x = "" ↔ ∀ (L : Stall) (u : N), ¬ Hosted d t u i L)

/-- a cell that prints the diagram's position (or nothing) satisfies the per-cell clause -/
theorem C16_cellOK_of_pos (sh : N → String) (hsh : Function.Injective sh) (d : List (List (N × List HI)))
    (n t i : Nat) (hone : ∀ c ∈ d, ∀ i, i < n → occN c i ≤ 1) (hnd : ∀ c ∈ d, (AMap.keys c).Nodup) (hi : i < n) :
    C16_CellOK sh d (((C16_posIn d t i).map (Pos.str sh)).getD "") t i := by
  have hS := C16_posIn_some_iff d n t i (hone := hone) (hnd := hnd) (hi := hi)
  have hN := C16_posIn_none_iff d t i hnd
  cases hp : C16_posIn d t i with
  | none =>
    rw [hp] at hN
    have hno := hN.1 rfl
    refine ⟨fun L u => ⟨fun h => absurd h.symm (str_ne_empty sh L u), fun h => absurd h (hno L u)⟩, ?_⟩
    simp only [Option.map_none, Option.getD_none, true_iff]
    exact hno
  | some p =>
    obtain ⟨pu, pL⟩ := p
    have hH : Hosted d t pu i pL := (hS pu pL).1 hp
    refine ⟨fun L u => ?_, ?_⟩
    · simp only [Option.map_some, Option.getD_some, posStr]
      constructor
      · intro h
        obtain ⟨rfl, rfl⟩ := str_inj sh hsh _ _ _ _ h
        exact hH
      · intro h
        have := (hS u L).2 h
        rw [hp] at this
        simp only [Option.some.injEq, Pos.mk.injEq] at this
        obtain ⟨rfl, rfl⟩ := this
        rfl
    · simp only [Option.map_some, Option.getD_some, posStr]
      constructor
      · intro h; exact absurd h (str_ne_empty sh pL pu)
      · intro h; exact absurd hH (h pL pu)

/-- **C16 (cells)**: a gap-free diagram is rendered without error, cell by cell. -/
theorem C16_render_cells (sh : N → String) (hsh : Function.Injective sh) (d : List (Cycle N)) (n : Nat)
    (hok : diagramOK d n = true) (hnd : ∀ c ∈ d, (AMap.keys c).Nodup) :
    ∃ tbl, Cli.render sh d n = .ok tbl ∧ C16_Holds sh d n tbl := by
  have hd := diagOK_of d n hok
  -- 1. `_cui_to_icu` succeeds; the dict of instruction `i` is `expU i 0 d`
  obtain ⟨icu, f1, f2, f3⟩ := fillCycles_spec d 0 (List.replicate n ([] : List (Nat × Pos N)))
    (fun c hc p hp h hh => by rw [List.length_replicate]; exact hd.idx c hc p hp h hh)
    (fun c hc i hi => by
      rw [List.length_replicate] at hi
      rw [writesOf_length]; exact hd.one c hc i hi)
    (fun i m hm kv hkv => by
      rw [List.getElem?_replicate] at hm
      split at hm
      · cases hm; simp at hkv
      · cases hm)
  rw [List.length_replicate] at f2
  have hicu : ∀ (j : Nat) (U : List (Nat × Pos N)), icu[j]? = some U → j < n ∧ U = expU j 0 d := by
    intro j U hU
    have hj : j < n := by rw [← f2]; exact (List.getElem?_eq_some_iff.1 hU).1
    have := f3 j [] (by rw [List.getElem?_replicate]; simp [hj])
    rw [hU] at this
    exact ⟨hj, by simpa using this⟩
  -- 2. every flight row succeeds and reads the diagram
  obtain ⟨rows, r1, r2, r3⟩ := flightRows_spec sh icu 0
    (fun j r => (∀ t, (r[t]?).getD "" = ((C16_posIn d t j).map (Pos.str sh)).getD "") ∧
      (∀ T, r.length ≤ T ↔ ∀ t, T ≤ t → C16_posIn d t j = none))
    (fun j U hU => by
      obtain ⟨hj, rfl⟩ := hicu j U hU
      obtain ⟨a, b, hb, hk, hg⟩ := expU_shape d n j hd hj
      obtain ⟨r, g1, _, g3, g4⟩ := flightRow_spec sh (0 + j) (expU j 0 d) a b hb hk
      refine ⟨r, g1, fun t => ?_, fun T => ?_⟩
      · rw [g3 t, hg t, Nat.zero_add]; rfl
      · rw [g4 T, Nat.zero_add]
        exact forall_congr' fun t => imp_congr_right fun _ => by rw [hg t]; rfl)
  rw [f2] at r2
  have hrow : ∀ j, j < n → ∃ r, rows[j]? = some r ∧
      (∀ t, (r[t]?).getD "" = ((C16_posIn d t j).map (Pos.str sh)).getD "") ∧
      (∀ T, r.length ≤ T ↔ ∀ t, T ≤ t → C16_posIn d t j = none) := by
    intro j hj
    have hjr : j < rows.length := by rw [r2]; exact hj
    have := r3 j rows[j] (List.getElem?_eq_getElem hjr)
    rw [Nat.zero_add] at this
    exact ⟨rows[j], List.getElem?_eq_getElem hjr, this⟩
  have hrender : Cli.render sh d n = .ok (table rows) := by
    simp only [render, simRows, cuiToIcu]
    have f1' : fillCycles 0 d (List.replicate n ([] : List (Nat × Pos N))) = .ok icu := f1
    simp only [f1', r1]
  refine ⟨table rows, hrender, ?_, ?_, ?_, ?_⟩
  · simp [table, keyRows_length, r2]
  · -- header: the longest row ends at the last busy cycle
    have : lastTick rows = lastBusy d := by
      apply eq_of_le_iff
      intro T
      rw [lastTick_le_iff, lastBusy_le_iff]
      constructor
      · intro h t c hT hc
        have hcd : c ∈ d := List.mem_of_getElem? hc
        rw [items_isEmpty_iff c n (hd.idx c hcd)]
        intro i hi
        obtain ⟨r, hr, _, hlen⟩ := hrow i hi
        have := (hlen T).1 (h r (List.mem_of_getElem? hr)) t hT
        simpa [C16_posIn, hc] using this
      · intro h r hr
        obtain ⟨j, hj⟩ := List.getElem?_of_mem hr
        have hjn : j < n := by rw [← r2]; exact (List.getElem?_eq_some_iff.1 hj).1
        obtain ⟨r', hr', _, hlen⟩ := hrow j hjn
        rw [hj] at hr'; cases hr'
        rw [hlen T]
        intro t hT
        unfold C16_posIn
        cases hc : d[t]? with
        | none => rfl
        | some c =>
          have hcd : c ∈ d := List.mem_of_getElem? hc
          exact (items_isEmpty_iff c n (hd.idx c hcd)).1 (h t c hT hc) j hjn
    simp [table, header, this]
  · intro k hk1 hkn
    obtain ⟨j, rfl⟩ : ∃ j, k = j + 1 := ⟨k - 1, by omega⟩
    exact cell_table_key rows j (by rw [r2]; omega)
  · intro k t hk1 hkn ht1
    obtain ⟨j, rfl⟩ : ∃ j, k = j + 1 := ⟨k - 1, by omega⟩
    obtain ⟨t', rfl⟩ : ∃ t', t = t' + 1 := ⟨t - 1, by omega⟩
    obtain ⟨r, hr, hcell, _⟩ := hrow j (by omega)
    have hx : cell (table rows) (j + 1) (t' + 1) = ((C16_posIn d t' j).map (Pos.str sh)).getD "" := by
      rw [cell_table, hr, Option.bind_some, hcell]
    simp only [Nat.add_sub_cancel]
    rw [hx]
    exact C16_cellOK_of_pos sh hsh d n t' j hd.one hnd (by omega)

/-- **the driver's checker decides `C16_Holds`** (unique keys per cycle record are needed, see the file header) -/
theorem checkC16_iff (sh : N → String) (hsh : Function.Injective sh) (d : List (Cycle N)) (n : Nat)
    (tbl : List (List String)) (hnd : ∀ c ∈ d, (AMap.keys c).Nodup) :
    checkC16 sh d n tbl = none ↔ C16_Holds sh d n tbl := by
  unfold checkC16 C16_Holds
  by_cases hlen : tbl.length = n + 1
  case neg =>
    have : (tbl.length != n + 1) = true := by simpa using hlen
    simp only [this, if_true, reduceCtorEq, false_iff]
    exact fun h => hlen h.1
  have hlen' : (tbl.length != n + 1) = false := by simpa using hlen
  by_cases hhead : tbl[0]? = some ("" :: (List.range (lastBusy d)).map (fun t => toString (t + 1)))
  case neg =>
    have : (tbl[0]? != some ("" :: (List.range (lastBusy d)).map (fun t => toString (t + 1)))) = true := by
      rw [bne_iff_ne]; exact hhead
    simp only [hlen', this, if_true, Bool.false_eq_true, if_false, reduceCtorEq, false_iff]
    exact fun h => hhead h.2.1
  have hhead' : (tbl[0]? != some ("" :: (List.range (lastBusy d)).map (fun t => toString (t + 1)))) = false := by
    rw [bne_eq_false_iff_eq]; exact hhead
  simp only [hlen', hhead', Bool.false_eq_true, if_false]
  rw [checkRows_none_iff]
  obtain ⟨hw1, hw2⟩ := foldl_max_ge tbl (d.length + 1)
  generalize tbl.foldl (fun m r => max m r.length) (d.length + 1) = width at hw1 hw2 ⊢
  constructor
  · intro h
    refine ⟨hlen, hhead, fun k hk1 hkn => (h k hk1 (by omega)).1, fun k t hk1 hkn ht1 => ?_⟩
    by_cases htw : t < 1 + width
    · exact (cellBad_iff sh hsh d _ (t - 1) (k - 1) hnd).1 ((h k hk1 (by omega)).2 t ht1 htw)
    · apply (cellBad_iff sh hsh d _ (t - 1) (k - 1) hnd).1
      have hd : d[t - 1]? = none := List.getElem?_eq_none (by omega)
      have hx : cell tbl k t = "" := by
        unfold cell
        cases hr : tbl[k]? with
        | none => rfl
        | some r =>
          have : r[t]? = none := List.getElem?_eq_none (by
            have := hw2 r (List.mem_of_getElem? hr); omega)
          simp [this]
      simp [hostStrsAt, hd, hx, cellBad]
  · rintro ⟨_, _, hkeys, hcells⟩ k' h1 h2
    exact ⟨hkeys k' h1 (by omega), fun t' ht1 _ =>
      (cellBad_iff sh hsh d _ (t' - 1) (k' - 1) hnd).2 (hcells k' t' h1 (by omega) ht1)⟩

/-- the model's table passes the checker -/
theorem checkC16_model (sh : N → String) (hsh : Function.Injective sh) (d : List (Cycle N)) (n : Nat)
    (hok : diagramOK d n = true) (hnd : ∀ c ∈ d, (AMap.keys c).Nodup) :
    ∃ tbl, Cli.render sh d n = .ok tbl ∧ checkC16 sh d n tbl = none := by
  obtain ⟨tbl, h1, h2⟩ := C16_render_cells sh hsh d n hok hnd
  exact ⟨tbl, h1, (checkC16_iff sh hsh d n tbl hnd).2 h2⟩

end ProcSim
