import ProcSim.Lemmas.Cli
import ProcSim.Lemmas.Isa
import ProcSim.Lemmas.SimCore
import ProcSim.Model.Pipeline
/-!
# C16 — the printed table renders the diagram

* `C16_render_cells` — for every gap-free diagram (`diagramOK d n`, what C03 gives for a finished simulation) whose
  cycle records have unique keys, `Cli.render` **succeeds** (none of the explicit `RenderError`s — `IndexError`,
  `ValueError`, `KeyError` — is reachable) and the table satisfies `C16_Holds`: `n + 1` rows, header `"", 1 … T`
  with `T` the last busy cycle, row `k` keyed `I<k>`, cell `(k, t)` is `"<L>:<u>"` exactly when the diagram hosts
  `(k-1, L)` in unit `u` in cycle `t-1`, and empty/absent exactly when it hosts instruction `k-1` nowhere then.
* `checkC16_iff` — the driver's checker decides `C16_Holds`.
* `C16_cli_composition` — C03's checker on a returned diagram implies `diagramOK`, hence (`C16_cli_table`) the table
  printed for it satisfies `C16_Holds`.

Hypotheses beyond the TODO text in `Spec/Text.lean` (each with the counterexample that forces it):
* `Function.Injective sh` in `C16_render_cells`: the clause `cell = "<L>:<sh u>" ↔ Hosted … u …` is false for a
  non-injective unit printer: `sh := fun _ => "x"`, `d := [[(0, [⟨0, U⟩])]]`, `n := 1` prints `"U:x"` in cell
  (1, 1), which also equals `"U:" ++ sh 1` although unit `1` hosts nothing (`C16_injective_needed`).
* unique keys in every cycle record in `checkC16_iff`: with `d := [[(0, []), (0, [⟨0, U⟩])]]` the checker collects
  `"U:…"` from the second entry while `Hosted` (reading the record like a dict: first entry) sees nothing
  (`C16_check_nodup_needed`).
-/
namespace ProcSim
open Spec Spec.Text Cli CliLemmas

attribute [local implicit_reducible] AMap
set_option linter.unusedSectionVars false

variable {N : Type} [DecidableEq N]

/-- the position the diagram gives instruction `i` in cycle `t` -/
def C16_posIn (d : List (List (N × List HI))) (t i : Nat) : Option (Pos N) := (d[t]?).bind (fun c => posAt c i)

theorem C16_posIn_some_iff (d : List (List (N × List HI))) (n t i : Nat) (u : N) (L : Stall)
    (hone : ∀ c ∈ d, ∀ i, i < n → occN c i ≤ 1) (hnd : ∀ c ∈ d, (AMap.keys c).Nodup) (hi : i < n) :
    C16_posIn d t i = some { unit := u, st := L } ↔ Hosted d t u i L := by
  unfold C16_posIn Hosted
  cases hc : d[t]? with
  | none => simp
  | some c =>
    have hcd : c ∈ d := List.mem_of_getElem? hc
    simp only [Option.bind_some, Option.some.injEq, exists_eq_left']
    exact posAt_eq_some_iff c i u L (hnd c hcd) (hone c hcd i hi)

theorem C16_posIn_none_iff (d : List (List (N × List HI))) (t i : Nat) (hnd : ∀ c ∈ d, (AMap.keys c).Nodup) :
    C16_posIn d t i = none ↔ ∀ (L : Stall) (u : N), ¬ Hosted d t u i L := by
  unfold C16_posIn Hosted
  cases hc : d[t]? with
  | none => simp
  | some c =>
    have hcd : c ∈ d := List.mem_of_getElem? hc
    simp only [Option.bind_some, Option.some.injEq, exists_eq_left']
    exact posAt_eq_none_iff_hosted c i (hnd c hcd)

/-- the per-cell clause of `C16_Holds` -/
def C16_CellOK (sh : N → String) (d : List (List (N × List HI))) (x : String) (t i : Nat) : Prop :=
  (∀ (L : Stall) (u : N), x = L.code ++ ":" ++ sh u ↔ Hosted d t u i L) ∧
  (x = "" ↔ ∀ (L : Stall) (u : N), ¬ Hosted d t u i L)

/-- a cell that prints the diagram's position (or nothing) satisfies the per-cell clause -/
theorem C16_cellOK_of_pos (sh : N → String) (hsh : Function.Injective sh) (d : List (List (N × List HI)))
    (n t i : Nat) (hone : ∀ c ∈ d, ∀ i, i < n → occN c i ≤ 1) (hnd : ∀ c ∈ d, (AMap.keys c).Nodup) (hi : i < n) :
    C16_CellOK sh d (((C16_posIn d t i).map (Pos.str sh)).getD "") t i := by
  have hS := C16_posIn_some_iff d n t i (hone := hone) (hnd := hnd) (hi := hi)
  have hN := C16_posIn_none_iff d t i hnd
  cases hp : C16_posIn d t i with
  | none =>
    rw [hp] at hN
    have hno := hN.1 rfl
    refine ⟨fun L u => ⟨fun h => absurd h.symm (str_ne_empty sh L u), fun h => absurd h (hno L u)⟩, ?_⟩
    simp only [Option.map_none, Option.getD_none, true_iff]
    exact hno
  | some p =>
    obtain ⟨pu, pL⟩ := p
    have hH : Hosted d t pu i pL := (hS pu pL).1 hp
    refine ⟨fun L u => ?_, ?_⟩
    · simp only [Option.map_some, Option.getD_some, posStr]
      constructor
      · intro h
        obtain ⟨rfl, rfl⟩ := str_inj sh hsh _ _ _ _ h
        exact hH
      · intro h
        have := (hS u L).2 h
        rw [hp] at this
        simp only [Option.some.injEq, Pos.mk.injEq] at this
        obtain ⟨rfl, rfl⟩ := this
        rfl
    · simp only [Option.map_some, Option.getD_some, posStr]
      constructor
      · intro h; exact absurd h (str_ne_empty sh pL pu)
      · intro h; exact absurd hH (h pL pu)

/-- **C16 (cells)**: a gap-free diagram is rendered without error, cell by cell. -/
theorem C16_render_cells (sh : N → String) (hsh : Function.Injective sh) (d : List (Cycle N)) (n : Nat)
    (hok : diagramOK d n = true) (hnd : ∀ c ∈ d, (AMap.keys c).Nodup) :
    ∃ tbl, Cli.render sh d n = .ok tbl ∧ C16_Holds sh d n tbl := by
  have hd := diagOK_of d n hok
  -- 1. `_cui_to_icu` succeeds; the dict of instruction `i` is `expU i 0 d`
  obtain ⟨icu, f1, f2, f3⟩ := fillCycles_spec d 0 (List.replicate n ([] : List (Nat × Pos N)))
    (fun c hc p hp h hh => by rw [List.length_replicate]; exact hd.idx c hc p hp h hh)
    (fun c hc i hi => by
      rw [List.length_replicate] at hi
      rw [writesOf_length]; exact hd.one c hc i hi)
    (fun i m hm kv hkv => by
      rw [List.getElem?_replicate] at hm
      split at hm
      · cases hm; simp at hkv
      · cases hm)
  rw [List.length_replicate] at f2
  have hicu : ∀ (j : Nat) (U : List (Nat × Pos N)), icu[j]? = some U → j < n ∧ U = expU j 0 d := by
    intro j U hU
    have hj : j < n := by rw [← f2]; exact (List.getElem?_eq_some_iff.1 hU).1
    have := f3 j [] (by rw [List.getElem?_replicate]; simp [hj])
    rw [hU] at this
    exact ⟨hj, by simpa using this⟩
  -- 2. every flight row succeeds and reads the diagram
  obtain ⟨rows, r1, r2, r3⟩ := flightRows_spec sh icu 0
    (fun j r => (∀ t, (r[t]?).getD "" = ((C16_posIn d t j).map (Pos.str sh)).getD "") ∧
      (∀ T, r.length ≤ T ↔ ∀ t, T ≤ t → C16_posIn d t j = none))
    (fun j U hU => by
      obtain ⟨hj, rfl⟩ := hicu j U hU
      obtain ⟨a, b, hb, hk, hg⟩ := expU_shape d n j hd hj
      obtain ⟨r, g1, _, g3, g4⟩ := flightRow_spec sh (0 + j) (expU j 0 d) a b hb hk
      refine ⟨r, g1, fun t => ?_, fun T => ?_⟩
      · rw [g3 t, hg t, Nat.zero_add]; rfl
      · rw [g4 T, Nat.zero_add]
        exact forall_congr' fun t => imp_congr_right fun _ => by rw [hg t]; rfl)
  rw [f2] at r2
  have hrow : ∀ j, j < n → ∃ r, rows[j]? = some r ∧
      (∀ t, (r[t]?).getD "" = ((C16_posIn d t j).map (Pos.str sh)).getD "") ∧
      (∀ T, r.length ≤ T ↔ ∀ t, T ≤ t → C16_posIn d t j = none) := by
    intro j hj
    have hjr : j < rows.length := by rw [r2]; exact hj
    have := r3 j rows[j] (List.getElem?_eq_getElem hjr)
    rw [Nat.zero_add] at this
    exact ⟨rows[j], List.getElem?_eq_getElem hjr, this⟩
  have hrender : Cli.render sh d n = .ok (table rows) := by
    simp only [render, simRows, cuiToIcu]
    have f1' : fillCycles 0 d (List.replicate n ([] : List (Nat × Pos N))) = .ok icu := f1
    simp only [f1', r1]
  refine ⟨table rows, hrender, ?_, ?_, ?_, ?_⟩
  · simp [table, keyRows_length, r2]
  · -- header: the longest row ends at the last busy cycle
    have : lastTick rows = lastBusy d := by
      apply eq_of_le_iff
      intro T
      rw [lastTick_le_iff, lastBusy_le_iff]
      constructor
      · intro h t c hT hc
        have hcd : c ∈ d := List.mem_of_getElem? hc
        rw [items_isEmpty_iff c n (hd.idx c hcd)]
        intro i hi
        obtain ⟨r, hr, _, hlen⟩ := hrow i hi
        have := (hlen T).1 (h r (List.mem_of_getElem? hr)) t hT
        simpa [C16_posIn, hc] using this
      · intro h r hr
        obtain ⟨j, hj⟩ := List.getElem?_of_mem hr
        have hjn : j < n := by rw [← r2]; exact (List.getElem?_eq_some_iff.1 hj).1
        obtain ⟨r', hr', _, hlen⟩ := hrow j hjn
        rw [hj] at hr'; cases hr'
        rw [hlen T]
        intro t hT
        unfold C16_posIn
        cases hc : d[t]? with
        | none => rfl
        | some c =>
          have hcd : c ∈ d := List.mem_of_getElem? hc
          exact (items_isEmpty_iff c n (hd.idx c hcd)).1 (h t c hT hc) j hjn
    simp [table, header, this]
  · intro k hk1 hkn
    obtain ⟨j, rfl⟩ : ∃ j, k = j + 1 := ⟨k - 1, by omega⟩
    exact cell_table_key rows j (by rw [r2]; omega)
  · intro k t hk1 hkn ht1
    obtain ⟨j, rfl⟩ : ∃ j, k = j + 1 := ⟨k - 1, by omega⟩
    obtain ⟨t', rfl⟩ : ∃ t', t = t' + 1 := ⟨t - 1, by omega⟩
    obtain ⟨r, hr, hcell, _⟩ := hrow j (by omega)
    have hx : cell (table rows) (j + 1) (t' + 1) = ((C16_posIn d t' j).map (Pos.str sh)).getD "" := by
      rw [cell_table, hr, Option.bind_some, hcell]
    simp only [Nat.add_sub_cancel]
    rw [hx]
    exact C16_cellOK_of_pos sh hsh d n t' j hd.one hnd (by omega)

/-- **the driver's checker decides `C16_Holds`** (unique keys per cycle record are needed, see the file header) -/
theorem checkC16_iff (sh : N → String) (hsh : Function.Injective sh) (d : List (Cycle N)) (n : Nat)
    (tbl : List (List String)) (hnd : ∀ c ∈ d, (AMap.keys c).Nodup) :
    checkC16 sh d n tbl = none ↔ C16_Holds sh d n tbl := by
  unfold checkC16 C16_Holds
  by_cases hlen : tbl.length = n + 1
  case neg =>
    have : (tbl.length != n + 1) = true := by simpa using hlen
    simp only [this, if_true, reduceCtorEq, false_iff]
    exact fun h => hlen h.1
  have hlen' : (tbl.length != n + 1) = false := by simpa using hlen
  by_cases hhead : tbl[0]? = some ("" :: (List.range (lastBusy d)).map (fun t => toString (t + 1)))
  case neg =>
    have : (tbl[0]? != some ("" :: (List.range (lastBusy d)).map (fun t => toString (t + 1)))) = true := by
      rw [bne_iff_ne]; exact hhead
    simp only [hlen', this, if_true, Bool.false_eq_true, if_false, reduceCtorEq, false_iff]
    exact fun h => hhead h.2.1
  have hhead' : (tbl[0]? != some ("" :: (List.range (lastBusy d)).map (fun t => toString (t + 1)))) = false := by
    rw [bne_eq_false_iff_eq]; exact hhead
  simp only [hlen', hhead', Bool.false_eq_true, if_false]
  rw [checkRows_none_iff]
  obtain ⟨hw1, hw2⟩ := foldl_max_ge tbl (d.length + 1)
  generalize tbl.foldl (fun m r => max m r.length) (d.length + 1) = width at hw1 hw2 ⊢
  constructor
  · intro h
    refine ⟨hlen, hhead, fun k hk1 hkn => (h k hk1 (by omega)).1, fun k t hk1 hkn ht1 => ?_⟩
    by_cases htw : t < 1 + width
    · exact (cellBad_iff sh hsh d _ (t - 1) (k - 1) hnd).1 ((h k hk1 (by omega)).2 t ht1 htw)
    · apply (cellBad_iff sh hsh d _ (t - 1) (k - 1) hnd).1
      have hd : d[t - 1]? = none := List.getElem?_eq_none (by omega)
      have hx : cell tbl k t = "" := by
        unfold cell
        cases hr : tbl[k]? with
        | none => rfl
        | some r =>
          have : r[t]? = none := List.getElem?_eq_none (by
            have := hw2 r (List.mem_of_getElem? hr); omega)
          simp [this]
      simp [hostStrsAt, hd, hx, cellBad]
  · rintro ⟨_, _, hkeys, hcells⟩ k' h1 h2
    exact ⟨hkeys k' h1 (by omega), fun t' ht1 _ =>
      (cellBad_iff sh hsh d _ (t' - 1) (k' - 1) hnd).2 (hcells k' t' h1 (by omega) ht1)⟩

/-- the model's table passes the checker -/
theorem checkC16_model (sh : N → String) (hsh : Function.Injective sh) (d : List (Cycle N)) (n : Nat)
    (hok : diagramOK d n = true) (hnd : ∀ c ∈ d, (AMap.keys c).Nodup) :
    ∃ tbl, Cli.render sh d n = .ok tbl ∧ checkC16 sh d n tbl = none := by
  obtain ⟨tbl, h1, h2⟩ := C16_render_cells sh hsh d n hok hnd
  exact ⟨tbl, h1, (checkC16_iff sh hsh d n tbl hnd).2 h2⟩

/-! ## composition with the simulator -/

/-- the positions of instruction `i` in cycle `t` that `Ctx.positions` concatenates -/
def C16_posRow (units : List (UnitM N)) (row : List (N × List HI)) (t i : Nat) : List (Nat × UnitM N × Stall) :=
  units.flatMap (fun u => ((Bag.get row u.name).filter (fun h => h.idx == i)).map (fun h => (t, u, h.st)))

theorem C16_positions_eq (p : Proc N) (prog : List (Instr N)) (tbl : List (Util N)) (st : Bool) (i : Nat) :
    (ctx p prog tbl st).positions i =
      (List.range tbl.length).flatMap (fun t => C16_posRow p.allUnits (tbl.getD t []) t i) := rfl

theorem C16_posRow_length (units : List (UnitM N)) (row : List (N × List HI)) (t i : Nat) :
    (C16_posRow units row t i).length = (units.map (fun u => cntI i (Bag.get row u.name))).sum := by
  simp [C16_posRow, List.length_flatMap, cntI]

theorem C16_posRow_fst (units : List (UnitM N)) (row : List (N × List HI)) (t i : Nat) :
    ∀ x ∈ (C16_posRow units row t i).map (·.1), x = t := by
  intro x hx
  simp only [C16_posRow, List.map_flatMap, List.map_map, List.mem_flatMap, List.mem_map, Function.comp] at hx
  obtain ⟨u, _, h, _, rfl⟩ := hx
  rfl

theorem C16_posRow_occ (units : List (UnitM N)) (row : List (N × List HI)) (t i : Nat)
    (h : C16_posRow units row t i ≠ []) : 1 ≤ occN row i := by
  obtain ⟨x, hx⟩ := List.exists_mem_of_ne_nil _ h
  simp only [C16_posRow, List.mem_flatMap, List.mem_map, List.mem_filter, beq_iff_eq] at hx
  obtain ⟨u, _, hh, ⟨hm, hi⟩, _⟩ := hx
  have : ({ unit := u.name, st := hh.st } : Pos N) ∈ writesOf row i :=
    (mem_writesOf row i _).2 ⟨(u.name, Bag.get row u.name), mem_of_bag_get row u.name _ hm, hh, hm, hi, rfl⟩
  rw [← writesOf_length]
  exact List.length_pos_of_mem this

theorem C16_comp_aux (p : Proc N) (prog : List (Instr N)) (tbl : List (List (N × List HI)))
    (hnd : ∀ c ∈ tbl, (AMap.keys c).Nodup)
    (h03 : (Spec.C03 (ctx p prog tbl false)).ok = true) :
    diagramOK tbl prog.length = true := by
  simp only [Spec.C03, Clauses.ok, List.all_cons, List.all_nil, Bool.and_true, Bool.and_eq_true] at h03
  obtain ⟨c1, ⟨c2a, c2b⟩, c3, c4, -⟩ := h03
  have hk : (ctx p prog tbl false).enteredCount = prog.length := by
    simpa [ctx, Ctx.n] using c3
  rw [hk] at c1 c4
  simp only [List.all_eq_true, List.mem_range, decide_eq_true_eq, beq_iff_eq] at c1 c2a c2b c4
  have c1' : ∀ i, i < prog.length → (ctx p prog tbl false).positions i ≠ [] := by
    intro i hi
    have := c1 i hi
    simp only [Ctx.issued, hi, decide_true, Bool.not_eq_true', List.isEmpty_eq_false_iff] at this
    exact this
  have c2a' : ∀ t, t < tbl.length → ∀ u ∈ p.allUnits, ∀ h ∈ Bag.get (tbl.getD t []) u.name, h.idx < prog.length :=
    fun t ht u hu h hh => c2a t ht u hu h hh
  have c2b' : ∀ t, t < tbl.length → ∀ e ∈ tbl.getD t [], e.2 ≠ [] → ∃ u ∈ p.allUnits, u.name = e.1 := by
    intro t ht e he hne
    have := c2b t ht e he
    simp only [Bool.or_eq_true, List.isEmpty_iff, decide_eq_true_eq, List.mem_map] at this
    rcases this with h | h
    · exact absurd h hne
    · exact h
  have c4' : ∀ i, i < prog.length → consec (((ctx p prog tbl false).positions i).map (·.1)) = true := c4
  clear c1 c2a c2b c3 c4 hk
  have hrow : ∀ (t : Nat) (c : List (N × List HI)), tbl[t]? = some c → t < tbl.length ∧ tbl.getD t [] = c := by
    intro t c hc
    exact ⟨(List.getElem?_eq_some_iff.1 hc).1, by simp [List.getD_eq_getElem?_getD, hc]⟩
  -- 1. only program instructions
  have hidx : ∀ c ∈ tbl, ∀ e ∈ c, ∀ h ∈ e.2, h.idx < prog.length := by
    intro c hc e he h hh
    obtain ⟨t, ht⟩ := List.getElem?_of_mem hc
    obtain ⟨htl, hr⟩ := hrow t c ht
    obtain ⟨u, hu, hname⟩ := c2b' t htl e (by rw [hr]; exact he) (List.ne_nil_of_mem hh)
    apply c2a' t htl u hu h
    rw [hr, hname]
    obtain ⟨ex, el⟩ := e
    rw [bag_get_of_mem c ex el (hnd c hc) he]; exact hh
  -- per instruction: the cycles in which it has a position form a range
  have hper : ∀ i, i < prog.length → ∃ s m, 1 ≤ m ∧
      (∀ t, t < tbl.length → (C16_posRow p.allUnits (tbl.getD t []) t i).length ≤ 1) ∧
      (∀ t, (t < tbl.length ∧ C16_posRow p.allUnits (tbl.getD t []) t i ≠ []) ↔ (s ≤ t ∧ t < s + m)) := by
    intro i hi
    have hc := consec_eq_range' _ (c4' i hi)
    have hne := c1' i hi
    rw [C16_positions_eq] at hc hne
    rw [List.map_flatMap] at hc
    generalize hL : (List.range tbl.length).flatMap
      (fun t => (C16_posRow p.allUnits (tbl.getD t []) t i).map (·.1)) = L at hc
    have hmem : ∀ t, t ∈ L ↔ (t < tbl.length ∧ C16_posRow p.allUnits (tbl.getD t []) t i ≠ []) := by
      intro t
      rw [← hL, List.mem_flatMap]
      constructor
      · rintro ⟨t', ht', hx⟩
        have := C16_posRow_fst _ _ _ _ t hx
        subst this
        exact ⟨List.mem_range.1 ht', fun e => by rw [e] at hx; simp at hx⟩
      · rintro ⟨ht, hne⟩
        obtain ⟨x, hx⟩ := List.exists_mem_of_ne_nil _ hne
        refine ⟨t, List.mem_range.2 ht, ?_⟩
        have hx' : x.1 ∈ (C16_posRow p.allUnits (tbl.getD t []) t i).map (·.1) := List.mem_map.2 ⟨x, hx, rfl⟩
        rwa [C16_posRow_fst _ _ _ _ _ hx'] at hx'
    have hLne : L ≠ [] := by
      obtain ⟨x, hx⟩ := List.exists_mem_of_ne_nil _ hne
      obtain ⟨t, ht, hxt⟩ := List.mem_flatMap.1 hx
      intro e
      have : t ∈ L := (hmem t).2 ⟨List.mem_range.1 ht, List.ne_nil_of_mem hxt⟩
      rw [e] at this; simp at this
    have hnd' : L.Nodup := by rw [hc]; exact List.nodup_range' 1
    refine ⟨L.headD 0, L.length, ?_, ?_, ?_⟩
    · cases L with
      | nil => exact absurd rfl hLne
      | cons _ _ => simp
    · intro t ht
      rw [← hL] at hnd'
      have := (List.pairwise_flatMap.1 hnd').1 t (List.mem_range.2 ht)
      have := nodup_const_length this (C16_posRow_fst _ _ _ _)
      simpa using this
    · intro t
      rw [← hmem t]
      conv => lhs; rw [hc]
      rw [List.mem_range']
      constructor
      · rintro ⟨j, hj, rfl⟩; omega
      · rintro ⟨h1, h2⟩; exact ⟨t - L.headD 0, by omega, by omega⟩
  -- occurrences in a record versus positions
  have hocc : ∀ i (t : Nat) (c : List (N × List HI)), tbl[t]? = some c →
      occN c i ≤ (C16_posRow p.allUnits (tbl.getD t []) t i).length ∧
      (C16_posRow p.allUnits (tbl.getD t []) t i ≠ [] → 1 ≤ occN c i) := by
    intro i t c hc
    obtain ⟨htl, hr⟩ := hrow t c hc
    rw [hr]
    refine ⟨?_, C16_posRow_occ _ _ _ _⟩
    rw [C16_posRow_length]
    exact occN_le_units p.allUnits c i (hnd c (List.mem_of_getElem? hc))
      (fun e he hne => c2b' t htl e (by rw [hr]; exact he) hne)
  have hiff : ∀ i, i < prog.length → ∀ (t : Nat) (c : List (N × List HI)), tbl[t]? = some c →
      occN c i ≤ 1 ∧ (occN c i = 1 ↔ C16_posRow p.allUnits (tbl.getD t []) t i ≠ []) := by
    intro i hi t c hc
    obtain ⟨s, m, _, h1, _⟩ := hper i hi
    obtain ⟨htl, _⟩ := hrow t c hc
    obtain ⟨ha, hb⟩ := hocc i t c hc
    have := h1 t htl
    refine ⟨by omega, fun h => ?_, fun h => ?_⟩
    · intro e; rw [e] at ha; simp at ha; omega
    · have := hb h; omega
  apply diagramOK_intro tbl prog.length hidx
  · intro i hi c hc
    obtain ⟨t, ht⟩ := List.getElem?_of_mem hc
    exact (hiff i hi t c ht).1
  · intro i hi
    obtain ⟨s, m, hm, _, h2⟩ := hper i hi
    obtain ⟨hs, hne⟩ := (h2 s).2 ⟨Nat.le_refl _, by omega⟩
    exact ⟨tbl[s], List.getElem_mem hs, ((hiff i hi s tbl[s] (List.getElem?_eq_getElem hs)).2).2 hne⟩
  · intro i hi t1 t2 t3 c1 c3 h12 h23 hc1 hc3 e1 e3
    obtain ⟨s, m, hm, _, h2⟩ := hper i hi
    have a1 := (h2 t1).1 ⟨(hrow t1 c1 hc1).1, ((hiff i hi t1 c1 hc1).2).1 e1⟩
    have a3 := (h2 t3).1 ⟨(hrow t3 c3 hc3).1, ((hiff i hi t3 c3 hc3).2).1 e3⟩
    obtain ⟨h2l, hne⟩ := (h2 t2).2 ⟨by omega, by omega⟩
    exact ⟨tbl[t2], List.getElem?_eq_getElem h2l, ((hiff i hi t2 tbl[t2] (List.getElem?_eq_getElem h2l)).2).2 hne⟩

/-- **C16 (composition)**: a returned diagram that passes C03's checker is gap-free in the sense of `diagramOK`. -/
theorem C16_cli_composition (p : Proc N) (prog : List (Instr N)) (tbl : List (Util N))
    (hnd : ∀ c ∈ tbl, (AMap.keys c).Nodup)
    (h03 : (Spec.C03 (ctx p prog tbl false)).ok = true) :
    diagramOK tbl prog.length = true :=
  C16_comp_aux p prog tbl hnd h03

/-- the table printed for a returned diagram that passes C03's checker satisfies `C16_Holds` -/
theorem C16_cli_table (sh : N → String) (hsh : Function.Injective sh) (p : Proc N) (prog : List (Instr N))
    (tbl : List (Util N)) (hnd : ∀ c ∈ tbl, (AMap.keys c).Nodup)
    (h03 : (Spec.C03 (ctx p prog tbl false)).ok = true) :
    ∃ out, Cli.render sh tbl prog.length = .ok out ∧ C16_Holds sh tbl prog.length out :=
  C16_render_cells sh hsh tbl prog.length (C16_cli_composition p prog tbl hnd h03) hnd

section sim
variable [LT N] [DecidableRel (α := N) (· < ·)]

/-- the records of a diagram of `simulate` have unique keys (from `Lemmas/SimCore`: `Diagram_rowBase`) -/
theorem C16_diagram_keys_nodup (p : Proc N) (prog : List (Instr N)) (tbl : List (Util N)) (stalled : Bool)
    (hn : (p.allUnits.map (·.name)).Nodup) (hD : Spec.Diagram p prog tbl stalled) :
    ∀ c ∈ tbl, (AMap.keys c).Nodup := by
  obtain ⟨e, _, hrows⟩ := Diagram_rowBase hn hD
  intro c hc
  obtain ⟨t, ht⟩ := List.getElem?_of_mem hc
  have := (hrows t).keys_nodup
  rwa [show tbl.getD t ([] : List (N × List HI)) = c by simp [List.getD_eq_getElem?_getD, ht]] at this

/-- **C16 (composition), for the simulator's own diagrams**: the only thing taken from C03 is its conclusion. -/
theorem C16_cli_composition_sim (sh : N → String) (hsh : Function.Injective sh) (p : Proc N) (prog : List (Instr N))
    (tbl : List (Util N)) (hn : (p.allUnits.map (·.name)).Nodup) (hD : Spec.Diagram p prog tbl false)
    (h03 : (Spec.C03 (ctx p prog tbl false)).ok = true) :
    diagramOK tbl prog.length = true ∧
    ∃ out, Cli.render sh tbl prog.length = .ok out ∧ C16_Holds sh tbl prog.length out := by
  have hnd := C16_diagram_keys_nodup p prog tbl false hn hD
  exact ⟨C16_cli_composition p prog tbl hnd h03, C16_cli_table sh hsh p prog tbl hnd h03⟩

end sim

/-! ## the composed command-line model (`Model/Pipeline.lean`) -/

theorem C16_front_compile (desc : Loader.Desc Pipeline.Str) (rawIsa : List (Pipeline.Str × Pipeline.Str))
    (lines : List Pipeline.Str) (st : Pipeline.Stages) (h : Pipeline.front desc rawIsa lines = .ok st) :
    Isa.compileProgram st.isa st.parsed = .ok st.prog := by
  unfold Pipeline.front at h
  split at h
  · cases h
  · split at h
    · cases h
    · split at h
      · cases h
      · split at h
        · cases h
        · cases h; assumption

/-- the command line prints, for every run that completes and whose diagram passes C03's checker, a table that
satisfies `C16_Holds` for that diagram (unit names printed as they are). `wfProc`'s first conjunct (unique unit
names) gives the unique keys. -/
theorem C16_cli_pipeline (desc : Loader.Desc Pipeline.Str) (rawIsa : List (Pipeline.Str × Pipeline.Str))
    (lines : List Pipeline.Str) (st : Pipeline.Stages) (tbl : List (Util Pipeline.Str))
    (hrun : Pipeline.run desc rawIsa lines = .ok (st, .done tbl))
    (hn : (st.proc.allUnits.map (·.name)).Nodup)
    (h03 : (Spec.C03 (ctx st.proc st.prog tbl false)).ok = true) :
    ∃ t, Pipeline.cliTable desc rawIsa lines = some t ∧ C16_Holds String.ofList tbl st.prog.length t := by
  have hfront : Pipeline.front desc rawIsa lines = .ok st ∧ simulate st.proc st.prog = .done tbl := by
    unfold Pipeline.run at hrun
    split at hrun
    · cases hrun
    · rename_i st' hst'
      simp only [Except.ok.injEq, Prod.mk.injEq] at hrun
      obtain ⟨rfl, h2⟩ := hrun
      exact ⟨hst', h2⟩
  have hlen : st.parsed.length = st.prog.length :=
    (IsaLemmas.compileProgram_length _ _ _ (C16_front_compile desc rawIsa lines st hfront.1)).symm
  have hD : Spec.Diagram st.proc st.prog tbl false := .inl ⟨rfl, hfront.2⟩
  obtain ⟨_, out, hr, hH⟩ := C16_cli_composition_sim String.ofList (fun _ _ h => String.ofList_injective h)
    st.proc st.prog tbl hn hD h03
  refine ⟨out, ?_, hH⟩
  unfold Pipeline.cliTable
  rw [hrun]
  simp only [hlen, hr]

/-! ## non-vacuity -/

section Examples

/-- two instructions through two units: 0 in unit 0 then unit 1; 1 one cycle behind, stalled once -/
def C16_exDiagram : List (Cycle Nat) :=
  [[(0, [⟨0, .U⟩])], [(0, [⟨1, .U⟩]), (1, [⟨0, .U⟩])], [(0, [⟨1, .S⟩])], [(1, [⟨1, .U⟩]), (0, [])]]

def C16_exSh (n : Nat) : String := if n = 0 then "a" else "b"

example : diagramOK C16_exDiagram 2 = true := by decide
example : ∀ c ∈ C16_exDiagram, (AMap.keys c).Nodup := by decide

example : (match Cli.render C16_exSh C16_exDiagram 2 with
    | .ok tbl => decide (tbl = [["", "1", "2", "3", "4"], ["I1", "U:a", "U:b"], ["I2", "", "U:a", "S:a", "U:b"]])
    | .error _ => false) = true := by decide

example : checkC16 C16_exSh C16_exDiagram 2
    [["", "1", "2", "3", "4"], ["I1", "U:a", "U:b"], ["I2", "", "U:a", "S:a", "U:b"]] = none := by decide

/-- a wrong label, a missing cell and a wrong header are each refuted by the checker -/
example : checkC16 C16_exSh C16_exDiagram 2
    [["", "1", "2", "3", "4"], ["I1", "U:a", "U:b"], ["I2", "", "U:a", "U:a", "U:b"]] ≠ none := by decide
example : checkC16 C16_exSh C16_exDiagram 2
    [["", "1", "2", "3", "4"], ["I1", "U:a"], ["I2", "", "U:a", "S:a", "U:b"]] ≠ none := by decide
example : checkC16 C16_exSh C16_exDiagram 2
    [["", "1", "2", "3"], ["I1", "U:a", "U:b"], ["I2", "", "U:a", "S:a", "U:b"]] ≠ none := by decide

/-- the explicit errors are reachable when `diagramOK` fails: a gap (`KeyError`), an instruction that never appears
(`ValueError`), an index beyond the program (`IndexError`) -/
example : diagramOK ([[(0, [⟨0, .U⟩])], [], [(0, [⟨0, .U⟩])]] : List (Cycle Nat)) 1 = false := by decide
example : (match Cli.render C16_exSh ([[(0, [⟨0, .U⟩])], [], [(0, [⟨0, .U⟩])]] : List (Cycle Nat)) 1 with
    | .error e => decide (e = .gap 0 1)
    | .ok _ => false) = true := by decide
example : (match Cli.render C16_exSh ([[(0, [⟨0, .U⟩])]] : List (Cycle Nat)) 2 with
    | .error e => decide (e = .neverAppears 1)
    | .ok _ => false) = true := by decide
example : (match Cli.render C16_exSh ([[(0, [⟨3, .U⟩])]] : List (Cycle Nat)) 2 with
    | .error e => decide (e = .badIndex 0 3)
    | .ok _ => false) = true := by decide

/-- `Function.Injective sh` cannot be dropped from `C16_render_cells` -/
theorem C16_injective_needed :
    ¬ (∀ tbl, Cli.render (fun _ : Nat => "x") [[(0, [⟨0, .U⟩])]] 1 = .ok tbl →
        C16_Holds (fun _ : Nat => "x") [[(0, [⟨0, .U⟩])]] 1 tbl) := by
  intro h
  have hH := h [["", "1"], ["I1", "U:x"]] (by rfl)
  have := ((hH.2.2.2 1 1 (Nat.le_refl _) (Nat.le_refl _) (Nat.le_refl _)).1 .U 1).1 (by decide)
  obtain ⟨c, hc, hm⟩ := this
  simp at hc
  subst hc
  revert hm
  decide

/-- unique keys cannot be dropped from `checkC16_iff` -/
theorem C16_check_nodup_needed :
    ¬ (checkC16 (fun _ : Unit => "x") [[((), []), ((), [⟨0, .U⟩])]] 1 [["", "1"], ["I1", "U:x"]] = none ↔
        C16_Holds (fun _ : Unit => "x") [[((), []), ((), [⟨0, .U⟩])]] 1 [["", "1"], ["I1", "U:x"]]) := by
  intro h
  have hH := h.1 (by decide)
  have h4 := (hH.2.2.2 1 1 (Nat.le_refl _) (Nat.le_refl _) (Nat.le_refl _)).2
  have : cell [["", "1"], ["I1", "U:x"]] 1 1 = "" := by
    apply h4.2
    rintro L u ⟨c, hc, hm⟩
    simp at hc
    subst hc
    revert hm
    cases L <;> cases u <;> decide
  revert this
  decide

end Examples

end ProcSim
