import ProcSim.Lemmas.Recase
import ProcSim.Props.C10
import ProcSim.Props.C15
/-!
# C13 — names are case-insensitive and reported in the spelling of their first definition

"Unit names, capability names, instruction mnemonics and register names are matched case-insensitively everywhere
and reported in the spelling of their first definition. Changing only the letter case of any later reference (in
connections, other units' capability lists, memory-access lists, instruction-set capability values, program
mnemonics or register operands) leaves the loaded processor, the instruction set, the compiled program and the
simulation diagram unchanged."

## The formal reading of "changing only the letter case of a non-defining occurrence"

`fold` is the case folding (`ICase.lower` in the composed pipeline); `SameFold fold a b := fold a = fold b`.

* `RecasedFrom fold seen l l'` (a list of name occurrences `l`, read after the occurrences `seen`, and its re-casing
  `l'`): same length, pointwise `SameFold`, and every **defining** occurrence — one that is the first of its folded
  form: none in `seen`, none earlier in `l` — is **unchanged**.
* `DescRecased fold d d'`: the same number of units; unit `i` has the same name (unit names are defining
  occurrences), width and locks; the capability lists have the same lengths and the sequence of *all* capability
  occurrences in description order (`d.units.flatMap (·.caps)`: unit by unit, each list left to right) is re-cased
  with first occurrences unchanged; memory-access entries are pointwise `SameFold` (never defining — but an entry
  naming a capability **no unit declares** is not a reference to anything and must stay as it is: such a
  description is outside the loader's domain, Python raises `AssertionError` in `_get_acl_cap`, the model keeps the
  raw text); connections have the same shape and are pointwise `SameFold` (never defining).
* `IsaRecased isa isa'`: entry by entry the capability values are `SameFold`; the mnemonics may be re-cased as well
  (they are reported upper-cased). "The same mnemonics" is the special case.
* `ProgRecased is is'` on written programs (`SrcInstr`, rendered by `renderProgram is ws tail` with *the same*
  whitespace choices `ws`, `tail` — the C14 spec): mnemonics pointwise `SameFold`, the same numbers of operands, and
  the sequence of all operand occurrences in program order is re-cased with first occurrences unchanged.

## Theorems

1. `C13_recase_load` (+ `_cls`, `_ok`): the loader returns the same processor; a rejected description is rejected
   with the same exception class, the names carried by the exception equal up to case.
2. `C13_first_spelling_load`: every unit name, capability, memory-access entry and predecessor name of a loaded
   processor is the first spelling (`IsFirstIn`) of its folded form in the description.
3. `C13_recase_isa`, `C13_isa_spelling`: the same instruction set (or the same error); the stored capability is the
   processor's spelling.
4. `C13_recase_program`, `C13_recase_compile`: the parsed programs agree in everything but the letter case of the raw
   mnemonic; the compiled programs are equal (or fail at the same line).
5. `C13_recase_pipeline`, `C13_recase_cli`: the property's sentence for `Pipeline.run` / `Pipeline.cliTable`.
6. `decide`-checked examples, including the necessity of "non-defining".

No hypothesis beyond the relations and (for program *texts*) the domain of the C14 rendering (`instrOK` for the
original list, `wsOK`, blank tail; well-formedness of the re-cased list is *derived*).
Proofs: `Lemmas/Recase.lean`.
-/
namespace ProcSim
open Loader hiding Forall2
open Spec.Text (Forall2 SrcInstr LineWs renderProgram instrOK wsOK blankB)
open Recase
open ICase (lower upper)

set_option linter.unusedSectionVars false

/-! ## The relations -/

section Relations
variable {N : Type}

/-- a memory-access entry and its re-casing: equal up to case; an entry that names a capability no unit of `d`
declares (outside the loader's domain) is unchanged -/
abbrev AclRecased (fold : N → N) (d : Desc N) (c c' : N) : Prop :=
  SameFold fold c c' ∧ ((∀ x ∈ d.units.flatMap (·.caps), fold x ≠ fold c) → c = c')

/-- `d'` is `d` with some **non-defining** name occurrences re-cased -/
structure DescRecased (fold : N → N) (d d' : Desc N) : Prop where
  /-- unit by unit: same name, width, locks, number of capabilities; memory-access lists pointwise re-cased -/
  units : Forall2 (fun u u' => u.name = u'.name ∧ u.width = u'.width ∧ u.rd = u'.rd ∧ u.wr = u'.wr ∧
    u.caps.length = u'.caps.length ∧ Forall2 (AclRecased fold d) u.acl u'.acl) d.units d'.units
  /-- all capability occurrences, in description order: same folded forms, first occurrences unchanged -/
  caps : RecasedFrom fold [] (d.units.flatMap (·.caps)) (d'.units.flatMap (·.caps))
  /-- connections: same shape, unit names equal up to case -/
  edges : Forall2 (Forall2 (SameFold fold)) d.edges d'.edges

/-- instruction sets: entry by entry, mnemonic and capability value equal up to case -/
abbrev IsaRecased (isa isa' : List (List Char × List Char)) : Prop := Forall2 IsaEntrySame isa isa'

/-- written programs: mnemonics equal up to case, same numbers of operands; all operand occurrences in program
order: same folded forms, first occurrences unchanged -/
structure ProgRecased (is is' : List SrcInstr) : Prop where
  shape : Forall2 (fun i j => lower i.name = lower j.name ∧ i.ops.length = j.ops.length) is is'
  ops : RecasedFrom lower [] (is.flatMap (·.ops)) (is'.flatMap (·.ops))

instance [DecidableEq N] (fold : N → N) (d d' : Desc N) : Decidable (DescRecased fold d d') :=
  decidable_of_iff
    (Forall2 (fun u u' => u.name = u'.name ∧ u.width = u'.width ∧ u.rd = u'.rd ∧ u.wr = u'.wr ∧
        u.caps.length = u'.caps.length ∧ Forall2 (AclRecased fold d) u.acl u'.acl) d.units d'.units ∧
      RecasedFrom fold [] (d.units.flatMap (·.caps)) (d'.units.flatMap (·.caps)) ∧
      Forall2 (Forall2 (SameFold fold)) d.edges d'.edges)
    ⟨fun ⟨a, b, c⟩ => ⟨a, b, c⟩, fun ⟨a, b, c⟩ => ⟨a, b, c⟩⟩

instance (is is' : List SrcInstr) : Decidable (ProgRecased is is') :=
  decidable_of_iff
    (Forall2 (fun i j => lower i.name = lower j.name ∧ i.ops.length = j.ops.length) is is' ∧
      RecasedFrom lower [] (is.flatMap (·.ops)) (is'.flatMap (·.ops)))
    ⟨fun ⟨a, b⟩ => ⟨a, b⟩, fun ⟨a, b⟩ => ⟨a, b⟩⟩

/-- `c` is the first spelling of its folded form among the occurrences `T` (read in order): it occurs in `T` and
no earlier occurrence has the same folded form -/
def IsFirstIn [DecidableEq N] (fold : N → N) (T : List N) (c : N) : Prop := lookupFold fold T c = some c

theorem C13_isFirstIn_iff [DecidableEq N] (fold : N → N) (T : List N) (c : N) :
    IsFirstIn fold T c ↔ ∃ l₁ l₂, T = l₁ ++ c :: l₂ ∧ ∀ x ∈ l₁, fold x ≠ fold c := by
  unfold IsFirstIn lookupFold
  rw [List.find?_eq_some_iff_append]
  simp only [decide_true, true_and]
  constructor
  · rintro ⟨l₁, l₂, h1, h2⟩; exact ⟨l₁, l₂, h1, fun x hx => by simpa using h2 x hx⟩
  · rintro ⟨l₁, l₂, h1, h2⟩; exact ⟨l₁, l₂, h1, fun x hx => by simpa using h2 x hx⟩

end Relations

/-! ## 1. the loader -/

section LoaderThms
variable {N : Type} [DecidableEq N] [LT N] [DecidableRel (α := N) (· < ·)] (fold : N → N)

/-- relational form of (1): the same processor, or errors of the same class carrying the same names up to case -/
theorem C13_recase_load_rel {d d' : Desc N} (h : DescRecased fold d d') :
    ExRel (ErrSame fold) (load fold d) (load fold d') :=
  load_recase_core fold (AclRecased fold d) (unitsRel_of_flat fold _ [] d.units d'.units h.units h.caps)
    (fun _ _ h => h) h.edges

/-- **C13 (1), loader.** Re-casing non-defining occurrences of names in a description does not change the loaded
processor; a rejected description stays rejected with the same exception, the names it carries equal up to case
(`mapErr fold` folds every name an exception carries; the raw payloads may legitimately differ in letter case,
e.g. `UndefElemError.element` is the text as written). -/
theorem C13_recase_load {d d' : Desc N} (h : DescRecased fold d d') :
    (load fold d).mapError (mapErr fold) = (load fold d').mapError (mapErr fold) := by
  have := C13_recase_load_rel fold h
  revert this
  cases load fold d <;> cases load fold d' <;> intro h
  · exact congrArg Except.error h
  · exact False.elim h
  · exact False.elim h
  · exact congrArg Except.ok h

/-- (1), error classes: `Except.map`-equality modulo the class projection -/
theorem C13_recase_load_cls {d d' : Desc N} (h : DescRecased fold d d') :
    (load fold d).mapError LoadError.cls = (load fold d').mapError LoadError.cls := by
  have := C13_recase_load_rel fold h
  revert this
  cases load fold d <;> cases load fold d' <;> intro h
  · exact congrArg Except.error (ErrSame.cls_eq h)
  · exact False.elim h
  · exact False.elim h
  · exact congrArg Except.ok h

/-- (1), accepted descriptions: the same loaded processor, and acceptance itself is unchanged -/
theorem C13_recase_load_ok {d d' : Desc N} (h : DescRecased fold d d') :
    (load fold d).toOption = (load fold d').toOption ∧ (load fold d).isOk = (load fold d').isOk :=
  ⟨(C13_recase_load_rel fold h).toOption_eq, (C13_recase_load_rel fold h).isOk_eq⟩

/-- equal processors offer equal capabilities, so (1) and (3) compose -/
theorem C13_recase_abilities {p p' : Proc (List Char)} (h : p = p') :
    Isa.getAbilitiesProc p = Isa.getAbilitiesProc p' := by rw [h]

/-! ## 2. reported spellings are first spellings -/

private theorem lookupFold_idem {T : List N} {x s : N} (h : lookupFold fold T x = some s) : IsFirstIn fold T s := by
  have := (lookupFold_some fold h).2
  unfold IsFirstIn
  rw [lookupFold_congr fold this, h]

/-- **C13 (2), first spellings.** In a loaded processor every unit name is the first spelling of its folded form
among the unit names of the description; every capability of every unit is the first spelling of its folded form
among all capability occurrences of the description (in description order); every memory-access entry is such a
first spelling too (or names a capability no unit declares — outside the loader's domain); every predecessor name
is the first spelling among the unit names. -/
theorem C13_first_spelling_load {d : Desc N} {p : Proc N} (h : load fold d = .ok p) :
    (∀ m ∈ p.allUnits,
      IsFirstIn fold (d.units.map (·.name)) m.name ∧
      (∀ c ∈ m.caps, IsFirstIn fold (d.units.flatMap (·.caps)) c) ∧
      (∀ a ∈ m.acl, IsFirstIn fold (d.units.flatMap (·.caps)) a ∨ ∀ x ∈ d.units.flatMap (·.caps), fold x ≠ fold a)) ∧
    (∀ f ∈ p.outPorts ++ p.internal, ∀ a ∈ f.preds, IsFirstIn fold (d.units.map (·.name)) a) := by
  have hstd : ∀ c0, (lookupFold fold (d.units.flatMap (·.caps)) c0).isSome = true →
      IsFirstIn fold (d.units.flatMap (·.caps)) (Spec.stdCapName fold d c0) := by
    intro c0 hs
    obtain ⟨s, hs⟩ := Option.isSome_iff_exists.1 hs
    have : Spec.stdCapName fold d c0 = s := by
      show ((d.units.flatMap (·.caps)).find? _).getD c0 = s
      unfold lookupFold at hs
      rw [hs]; rfl
    rw [this]
    exact lookupFold_idem fold hs
  obtain ⟨g0, reg, g2, hc, -, -⟩ := load_ok fold h
  have hdist := createGraph_names_foldDistinct fold hc
  rw [createGraph_names fold hc] at hdist
  have hname : ∀ x ∈ d.units.map (·.name), IsFirstIn fold (d.units.map (·.name)) x := by
    intro x hx
    generalize d.units.map (·.name) = l at hx hdist
    induction l with
    | nil => simp at hx
    | cons a l ih =>
      have hp := List.pairwise_cons.1 hdist
      unfold IsFirstIn
      rw [lookupFold_cons]
      rcases List.mem_cons.1 hx with rfl | hx
      · simp
      · rw [if_neg (hp.1 x hx)]
        exact ih hx hp.2
  refine ⟨fun m hm => ⟨?_, ?_, ?_⟩, ?_⟩
  · obtain ⟨x, hx, hxn, -⟩ := C10_retained fold h m hm
    rw [← hxn]
    obtain ⟨u, hu, rfl⟩ := List.mem_map.1 hx
    exact hname u.name (List.mem_map_of_mem (f := fun x : UnitD N => x.name) hu)
  · intro c hcm
    have hf := ((C10_caps fold h m hm).2 c).1 hcm
    obtain ⟨r, -, hdecl, -, hlast⟩ := hf
    have hmem : m.name ∈ r := List.mem_of_getLast? hlast
    have hd := hdecl _ hmem
    simp only [Spec.DG.declares, List.any_eq_true, Bool.and_eq_true, decide_eq_true_eq] at hd
    obtain ⟨x, hx, -, hcx⟩ := hd
    obtain ⟨u, hu, rfl⟩ := List.mem_map.1 hx
    simp only [Spec.declared] at hcx
    rw [ProgramLemmas.mem_dedup] at hcx
    obtain ⟨c0, hc0, rfl⟩ := List.mem_map.1 hcx
    apply hstd
    rw [Option.isSome_iff_ne_none, Ne, lookupFold_eq_none]
    intro hno
    exact hno c0 (List.mem_flatMap.2 ⟨u, hu, hc0⟩) rfl
  · intro a ha
    obtain ⟨x, hx, -, -, -, -, hperm⟩ := C10_retained fold h m hm
    obtain ⟨u, hu, rfl⟩ := List.mem_map.1 hx
    have := hperm.mem_iff.2 ha
    obtain ⟨a0, ha0, rfl⟩ := List.mem_map.1 this
    cases hl : lookupFold fold (d.units.flatMap (·.caps)) a0 with
    | some s => exact .inl (hstd a0 (by rw [hl]; rfl))
    | none =>
      right
      have : Spec.stdCapName fold d a0 = a0 := by
        show ((d.units.flatMap (·.caps)).find? _).getD a0 = a0
        unfold lookupFold at hl
        rw [hl]; rfl
      rw [this]
      exact (lookupFold_eq_none fold).1 hl
  · intro f hf a ha
    have he : Spec.edgeB p a f.model.name = true := by
      simp only [Spec.edgeB, List.any_eq_true, Bool.and_eq_true, decide_eq_true_eq]
      exact ⟨f, hf, rfl, ha⟩
    have hk := (((C10_preds fold h).1 a f.model.name).1 he).1.1
    simp only [Spec.DG.conn, decide_eq_true_eq] at hk
    have hk' : (a, f.model.name) ∈ Spec.connections fold d := hk
    simp only [Spec.connections, List.mem_filterMap] at hk'
    obtain ⟨e, -, hm⟩ := hk'
    split at hm
    next a0 b0 =>
      split at hm
      next a' b' ha' hb' =>
        simp only [Option.some.injEq, Prod.mk.injEq] at hm
        obtain ⟨rfl, -⟩ := hm
        exact lookupFold_idem fold (x := a0) ha'
      · simp at hm
    · simp at hm

end LoaderThms

/-! ## 3. instruction sets -/

/-- **C13 (3), instruction sets.** Re-casing the capability values (and/or the mnemonics) of an instruction set
does not change the loaded instruction set; a rejected one is rejected with the same error constructor, the texts it
carries equal up to case. -/
theorem C13_recase_isa {isa isa' : List (List Char × List Char)} (caps : List (List Char))
    (h : IsaRecased isa isa') : ExRel IsaErrSame (Isa.loadIsa isa caps) (Isa.loadIsa isa' caps) :=
  createIsa_recase _ isa isa' [] [] [] h (fun _ => trivial)

/-- (3), accepted instruction sets are equal -/
theorem C13_recase_isa_ok {isa isa' : List (List Char × List Char)} (caps : List (List Char))
    (h : IsaRecased isa isa') :
    (Isa.loadIsa isa caps).toOption = (Isa.loadIsa isa' caps).toOption ∧
      (Isa.loadIsa isa caps).isOk = (Isa.loadIsa isa' caps).isOk :=
  ⟨(C13_recase_isa caps h).toOption_eq, (C13_recase_isa caps h).isOk_eq⟩

/-- (3), reported spelling: every mnemonic is stored upper-cased with a capability *in the processor's spelling*
(an element of the offered set `caps`) that equals the written value up to case (from C15) -/
theorem C13_isa_spelling {isa : List (List Char × List Char)} {caps : List (List Char)} {m : AMap (List Char) (List Char)}
    (h : Isa.loadIsa isa caps = .ok m) :
    ∀ e ∈ isa, ∃ std, AMap.get? m (upper e.1) = some std ∧ std ∈ caps ∧ lower std = lower e.2 := by
  have := C15_isa_load isa caps
  unfold Spec.Text.modelIsaObs at this
  rw [h] at this
  exact this.2.2.2.1

/-! ## 4. programs -/

/-- **C13 (4), programs.** The texts of a written program and of its re-casing (same whitespace) parse to
instruction lists of the same length that agree pointwise in sources, destination, line number and mnemonic up to
case (`ProgSame`) — registers are reported in the spelling of their first occurrence, so a re-cased later reference
is the same register; a syntax error is the same error at the same line and operand position. -/
theorem C13_recase_program {is is' : List SrcInstr} (ws : List LineWs) (tail : List (List Char))
    (h : ProgRecased is is') (his : ∀ i ∈ is, instrOK i = true) (hws : ∀ w ∈ ws, wsOK w = true)
    (htail : ∀ l ∈ tail, blankB l = true) :
    ExRel2 ParseErrSame (Forall2 ProgSame) (Program.readProgram (renderProgram is ws tail))
      (Program.readProgram (renderProgram is' ws tail)) := by
  have hrel := progRel_of_flat [] is is' h.shape h.ops
  have his' := progRel_instrOK hrel his
  rw [readProgram_render is ws tail his hws htail, readProgram_render is' ws tail his' hws htail]
  have := expectedFrom_recase is is' ws [] [] 1 hrel (fun _ => rfl)
  revert this
  unfold Spec.Text.expected
  cases Spec.Text.expectedFrom [] 1 is ws <;> cases Spec.Text.expectedFrom [] 1 is' ws <;> intro h
  · exact h
  · exact False.elim h
  · exact False.elim h
  · exact forall2_toProg h

/-- `ProgSame` spelled out with the key `compile_program` uses (`name.upper()`) -/
theorem C13_progSame_iff (p p' : Program.ProgInstr) :
    ProgSame p p' ↔ upper p.name = upper p'.name ∧ p.srcs = p'.srcs ∧ p.dst = p'.dst ∧ p.line = p'.line := by
  unfold ProgSame
  rw [IsaLemmas.upper_eq_iff_lower_eq]

/-- **C13 (4), compiling.** Programs that agree but for the letter case of their mnemonics compile to the same
hardware program, or fail at the same line on the same mnemonic (up to case). -/
theorem C13_recase_compile (isa : AMap (List Char) (List Char)) {ps ps' : List Program.ProgInstr}
    (h : Forall2 ProgSame ps ps') : ExRel CompErrSame (Isa.compileProgram isa ps) (Isa.compileProgram isa ps') :=
  compileProgram_recase isa ps ps' h

/-! ## 5. the composed pipeline -/

/-- **C13 (5), the property's sentence.** For a description, an instruction set and a program text and re-casings of
their non-defining name occurrences, the pipeline yields the same loaded processor, the same instruction set, the
same compiled program (`StagesSame`; the parsed instructions agree but for the case of the raw mnemonic) and the
same simulation outcome — the same diagram, the same stall state, or the same fault (`RunSame`); if a stage fails,
the same stage fails with the same kind of error (`FailSame`). -/
theorem C13_recase_pipeline {d d' : Desc (List Char)} {isa isa' : List (List Char × List Char)}
    {is is' : List SrcInstr} (ws : List LineWs) (tail : List (List Char))
    (hd : DescRecased lower d d') (hi : IsaRecased isa isa') (hp : ProgRecased is is')
    (his : ∀ i ∈ is, instrOK i = true) (hws : ∀ w ∈ ws, wsOK w = true) (htail : ∀ l ∈ tail, blankB l = true) :
    ExRel2 FailSame RunSame (Pipeline.run d isa (renderProgram is ws tail))
      (Pipeline.run d' isa' (renderProgram is' ws tail)) :=
  run_recase (front_recase (C13_recase_load_rel lower hd) (fun caps => C13_recase_isa caps hi)
    (C13_recase_program ws tail hp his hws htail))

/-- (5), what the command line prints is the same table -/
theorem C13_recase_cli {d d' : Desc (List Char)} {isa isa' : List (List Char × List Char)}
    {is is' : List SrcInstr} (ws : List LineWs) (tail : List (List Char))
    (hd : DescRecased lower d d') (hi : IsaRecased isa isa') (hp : ProgRecased is is')
    (his : ∀ i ∈ is, instrOK i = true) (hws : ∀ w ∈ ws, wsOK w = true) (htail : ∀ l ∈ tail, blankB l = true) :
    Pipeline.cliTable d isa (renderProgram is ws tail) = Pipeline.cliTable d' isa' (renderProgram is' ws tail) :=
  cliTable_recase (C13_recase_pipeline ws tail hd hi hp his hws htail)

/-! ## 6. non-vacuity (`decide`-checked)

```
units:  In  (width 1, read lock)  capabilities ALU, Mem              -- defining occurrences
        Out (width 1, write lock) capabilities alu, MEM   memory access: mem
dataPath: IN → out
ISA:    add ↦ alu,  LD ↦ MEM
program:    ADD R1, R2, R3
            <empty line>
            ld r4 , r1
             add R5, r4, R1
```
and the re-casing `Alu`, `mem` / memory access `MEM` / `in → OUT` / `Add ↦ ALU`, `LD ↦ mem` /
`add R1, R2, R3`, `LD r4 , R1`, ` Add R5, R4, r1`.
-/
section NonVacuity

private def sALU : List Char := ['A', 'L', 'U']
private def salu : List Char := ['a', 'l', 'u']
private def sAlu : List Char := ['A', 'l', 'u']
private def sMem : List Char := ['M', 'e', 'm']
private def sMEM : List Char := ['M', 'E', 'M']
private def smem : List Char := ['m', 'e', 'm']
private def sIn : List Char := ['I', 'n']
private def sIN : List Char := ['I', 'N']
private def sin : List Char := ['i', 'n']
private def sOut : List Char := ['O', 'u', 't']
private def sOUT : List Char := ['O', 'U', 'T']
private def sout : List Char := ['o', 'u', 't']
private def sadd : List Char := ['a', 'd', 'd']
private def sADD : List Char := ['A', 'D', 'D']
private def sAdd : List Char := ['A', 'd', 'd']
private def sld : List Char := ['l', 'd']
private def sLD : List Char := ['L', 'D']
private def sR1 : List Char := ['R', '1']
private def sr1 : List Char := ['r', '1']
private def sR2 : List Char := ['R', '2']
private def sR3 : List Char := ['R', '3']
private def sr4 : List Char := ['r', '4']
private def sR4 : List Char := ['R', '4']
private def sR5 : List Char := ['R', '5']

private def exD : Desc (List Char) :=
  { units := [⟨sIn, 1, [sALU, sMem], true, false, []⟩, ⟨sOut, 1, [salu, sMEM], false, true, [smem]⟩],
    edges := [[sIN, sout]] }
private def exD' : Desc (List Char) :=
  { units := [⟨sIn, 1, [sALU, sMem], true, false, []⟩, ⟨sOut, 1, [sAlu, smem], false, true, [sMEM]⟩],
    edges := [[sin, sOUT]] }
private def exIsa : List (List Char × List Char) := [(sadd, salu), (sLD, sMEM)]
private def exIsa' : List (List Char × List Char) := [(sAdd, sALU), (sLD, smem)]
private def exP : List SrcInstr := [⟨sADD, [sR1, sR2, sR3]⟩, ⟨sld, [sr4, sr1]⟩, ⟨sadd, [sR5, sr4, sR1]⟩]
private def exP' : List SrcInstr := [⟨sadd, [sR1, sR2, sR3]⟩, ⟨sLD, [sr4, sR1]⟩, ⟨sAdd, [sR5, sR4, sr1]⟩]
private def exWs : List LineWs := [{}, { blanks := [[]], commas := [([' '], [' '])] }, { pre := [' '] }]

/-- the related pairs satisfy the relations, and the domain hypotheses hold -/
example : DescRecased lower exD exD' ∧ IsaRecased exIsa exIsa' ∧ ProgRecased exP exP' ∧
    (∀ i ∈ exP, instrOK i = true) ∧ (∀ w ∈ exWs, wsOK w = true) := by decide

/-- the loaded processor is the same, with every name in the spelling of its first definition -/
example : (load lower exD).toOption = (load lower exD').toOption ∧
    (load lower exD).toOption = some
      { inPorts := [⟨sIn, 1, [sALU, sMem], true, false, []⟩],
        outPorts := [⟨⟨sOut, 1, [sALU, sMem], false, true, [sMem]⟩, [sIn]⟩],
        inOut := [], internal := [] } := by decide

private structure View where
  proc : Proc (List Char)
  isa : AMap (List Char) (List Char)
  prog : List (Instr (List Char))
  diagram : List (Util (List Char))
deriving DecidableEq

private def view (r : Except Pipeline.Failure (Pipeline.Stages × Outcome (List Char))) : Option View :=
  match r with
  | .ok (st, .done tbl) => some ⟨st.proc, st.isa, st.prog, tbl⟩
  | _ => none

/-- the model outputs are identical: processor, instruction set (upper-cased mnemonics, the processor's spellings
`ALU`, `Mem`), compiled program (registers in first spelling `R1`, `r4`) and the diagram (the re-cased `r1`/`R4` are
the same registers: instructions 2 and 3 wait on data hazards, `D`) -/
example : view (Pipeline.run exD exIsa (renderProgram exP exWs [])) =
      view (Pipeline.run exD' exIsa' (renderProgram exP' exWs [])) ∧
    view (Pipeline.run exD exIsa (renderProgram exP exWs [])) = some
      { proc := { inPorts := [⟨sIn, 1, [sALU, sMem], true, false, []⟩],
                  outPorts := [⟨⟨sOut, 1, [sALU, sMem], false, true, [sMem]⟩, [sIn]⟩], inOut := [], internal := [] },
        isa := [(sADD, sALU), (sLD, sMem)],
        prog := [⟨[sR2, sR3], sR1, sALU⟩, ⟨[sR1], sr4, sMem⟩, ⟨[sR1, sr4], sR5, sALU⟩],
        diagram := [[(sOut, []), (sIn, [⟨0, .U⟩])], [(sOut, [⟨0, .U⟩]), (sIn, [⟨1, .D⟩])],
                    [(sOut, []), (sIn, [⟨1, .U⟩])], [(sOut, [⟨1, .U⟩]), (sIn, [⟨2, .D⟩])],
                    [(sOut, []), (sIn, [⟨2, .U⟩])], [(sOut, [⟨2, .U⟩]), (sIn, [])]] } := by decide

/-- the theorems apply to the example -/
example : ExRel2 FailSame RunSame (Pipeline.run exD exIsa (renderProgram exP exWs []))
    (Pipeline.run exD' exIsa' (renderProgram exP' exWs [])) :=
  C13_recase_pipeline exWs [] (by decide) (by decide) (by decide) (by decide) (by decide) (by decide)
example : Pipeline.cliTable exD exIsa (renderProgram exP exWs []) =
    Pipeline.cliTable exD' exIsa' (renderProgram exP' exWs []) :=
  C13_recase_cli exWs [] (by decide) (by decide) (by decide) (by decide) (by decide) (by decide)

/-- **the side condition is necessary**: re-casing a *defining* occurrence (the first `ALU`, in unit `In`) is not
allowed by the relation — and it does change the reported spelling (`alu` everywhere) -/
private def exDdef : Desc (List Char) :=
  { units := [⟨sIn, 1, [salu, sMem], true, false, []⟩, ⟨sOut, 1, [salu, sMEM], false, true, [smem]⟩],
    edges := [[sIN, sout]] }
example : ¬ DescRecased lower exD exDdef ∧ (load lower exD).toOption ≠ (load lower exDdef).toOption ∧
    (load lower exDdef).toOption = some
      { inPorts := [⟨sIn, 1, [sMem, salu], true, false, []⟩],
        outPorts := [⟨⟨sOut, 1, [sMem, salu], false, true, [sMem]⟩, [sIn]⟩],
        inOut := [], internal := [] } := by decide

/-- likewise for registers: re-casing the first occurrence of `R1` changes the compiled program -/
private def exPdef : List SrcInstr := [⟨sADD, [sr1, sR2, sR3]⟩, ⟨sld, [sr4, sr1]⟩, ⟨sadd, [sR5, sr4, sR1]⟩]
example : ¬ ProgRecased exP exPdef ∧
    (view (Pipeline.run exD exIsa (renderProgram exPdef exWs []))).map (·.prog) =
      some [⟨[sR2, sR3], sr1, sALU⟩, ⟨[sr1], sr4, sMem⟩, ⟨[sr1, sr4], sR5, sALU⟩] := by decide

/-- a unit name is a defining occurrence: re-casing it is not allowed and changes the reported name -/
private def exDname : Desc (List Char) :=
  { units := [⟨sIN, 1, [sALU, sMem], true, false, []⟩, ⟨sOut, 1, [salu, sMEM], false, true, [smem]⟩],
    edges := [[sIN, sout]] }
example : ¬ DescRecased lower exD exDname ∧ (load lower exD).toOption ≠ (load lower exDname).toOption := by decide

/-- rejected descriptions: the same class, the raw payload may differ in letter case (`UndefElemError.element`) -/
example : load lower { exD with edges := [[sIN, sALU]] } = .error (.undefElem sALU) ∧
    load lower { exD' with edges := [[sin, salu]] } = .error (.undefElem salu) ∧
    DescRecased lower { exD with edges := [[sIN, sALU]] } { exD' with edges := [[sin, salu]] } := by
  refine ⟨rfl, rfl, by decide⟩

/-- first spellings in the loaded processor (theorem 2 applied) -/
example : ∀ p, load lower exD = .ok p → ∀ m ∈ p.allUnits, ∀ c ∈ m.caps,
    IsFirstIn lower (exD.units.flatMap (·.caps)) c := fun _ h m hm => ((C13_first_spelling_load lower h).1 m hm).2.1

end NonVacuity

end ProcSim
