import ProcSim.Lemmas.LoaderMsg
import ProcSim.Props.C18
/-!
# C11, last clause: "… and its message contains them"

`Model/LoaderMsg.lean` models `str(exc)` of every loader exception (`LoadError.messages`: one text per class, three
candidate texts for `PathLockError`, whose raising site `LoadError` does not record).  The driver compares the
implementation's text with these candidates on the implementation's own fields (`msgEq`), so the texts below are the
real ones.  Here: every field, *as `str()` displays it*, occurs in the text as a contiguous block.

**Restriction forced by the code (finding).**  `BadEdgeError.edge` is a list and `str(list)` shows the `repr` of its
elements.  An element occurs verbatim iff its `repr` has no escape (`ReprVerbatim`): it fails for an element with a
backslash, a control character, or both kinds of quotes (and, outside the model, a non-printable non-ASCII
character) — e.g. `dataPath: [["a\\b"]]` gives `Edge ['a\\\\b'] doesn't connect …`, which does not contain `a\b`
(examples at the end; observed on the real code).  All other classes need no hypothesis.
-/
namespace ProcSim
namespace Loader
open Spec.Text LoaderMsg

variable {N : Type}

/-- **C11 (message).**  For every loader error `e`, every text `m` it can carry (the three path-lock texts included)
and every field string `f` of `e` (unit names, capability, the word `read`/`write`, the width in decimal, each
element of a bad edge): `f` is a substring of `m` — provided the elements of a bad edge have an escape-free `repr`. -/
theorem C11_message_contains_fields (sh : N → String) (e : LoadError N)
    (hv : ∀ ed, e = .badEdge ed → ∀ x ∈ ed, ReprVerbatim (sh x)) :
    ∀ m ∈ e.messages sh, ∀ f ∈ e.fieldStrs sh, Occurs f.toList m.toList := by
  intro m hm f hf
  cases e with
  | dupElem o n =>
    simp only [LoadError.messages, LoadError.message, messageAt_dupElem, List.mem_singleton] at hm
    simp only [LoadError.fieldStrs, List.mem_cons, List.not_mem_nil, or_false] at hf
    subst hm
    simp only [String.toList_append]
    rcases hf with rfl | rfl <;> occ
  | badWidth u w =>
    simp only [LoadError.messages, LoadError.message, messageAt_badWidth, List.mem_singleton] at hm
    simp only [LoadError.fieldStrs, List.mem_cons, List.not_mem_nil, or_false] at hf
    subst hm
    simp only [String.toList_append]
    rcases hf with rfl | rfl <;> occ
  | badEdge ed =>
    simp only [LoadError.messages, LoadError.message, messageAt_badEdge, List.mem_singleton] at hm
    simp only [LoadError.fieldStrs, List.mem_map] at hf
    obtain ⟨x, hx, rfl⟩ := hf
    subst hm
    simp only [String.toList_append]
    apply occurs_append_right
    apply occurs_append_left
    exact occurs_pyStrList (List.mem_map.2 ⟨x, hx, rfl⟩) (hv ed rfl x hx)
  | undefElem x =>
    simp only [LoadError.messages, LoadError.message, messageAt_undefElem, List.mem_singleton] at hm
    simp only [LoadError.fieldStrs, List.mem_cons, List.not_mem_nil, or_false] at hf
    subst hm hf
    simp only [String.toList_append]
    occ
  | cyclic => simp [LoadError.fieldStrs] at hf
  | deadInput p =>
    simp only [LoadError.messages, LoadError.message, messageAt_deadInput, List.mem_singleton] at hm
    simp only [LoadError.fieldStrs, List.mem_cons, List.not_mem_nil, or_false] at hf
    subst hm hf
    simp only [String.toList_append]
    occ
  | emptyProc => simp [LoadError.fieldStrs] at hf
  | pathLock s t c =>
    simp only [LoadError.messages, pathLockMessages, LockSite.all, List.map_cons, List.map_nil, List.mem_cons,
      List.not_mem_nil, or_false] at hm
    simp only [LoadError.fieldStrs, List.mem_cons, List.not_mem_nil, or_false] at hf
    rcases hm with rfl | rfl | rfl <;> simp only [pathLockMessage_noLock, pathLockMessage_multiple, pathLockMessage_different, String.toList_append] <;>
      rcases hf with rfl | rfl | rfl <;> occ
  | blockedCap c p =>
    simp only [LoadError.messages, LoadError.message, messageAt_blockedCap, List.mem_singleton] at hm
    simp only [LoadError.fieldStrs, List.mem_cons, List.not_mem_nil, or_false] at hf
    subst hm
    simp only [String.toList_append]
    rcases hf with rfl | rfl <;> occ

/-- the same with the syntactic condition "no `'`, no `\`, no control character" on bad-edge elements -/
theorem C11_message_contains_fields_plain (sh : N → String) (e : LoadError N)
    (hv : ∀ ed, e = .badEdge ed → ∀ x ∈ ed, PlainName (sh x)) :
    ∀ m ∈ e.messages sh, ∀ f ∈ e.fieldStrs sh, Occurs f.toList m.toList :=
  C11_message_contains_fields sh e (fun ed h x hx => plain_verbatim (hv ed h x hx))

/-- no hypothesis at all for the classes other than `BadEdgeError` -/
theorem C11_message_contains_fields_nonEdge (sh : N → String) (e : LoadError N) (he : e.cls ≠ .badEdge) :
    ∀ m ∈ e.messages sh, ∀ f ∈ e.fieldStrs sh, Occurs f.toList m.toList :=
  C11_message_contains_fields sh e (fun ed h => by subst h; exact absurd rfl he)

/-- in the form of the driver's check on the implementation's text (Python `f in m`) -/
theorem C11_message_contains_fields_bool (sh : N → String) (e : LoadError N)
    (hv : ∀ ed, e = .badEdge ed → ∀ x ∈ ed, ReprVerbatim (sh x)) :
    (e.messages sh).all (fun m => (e.fieldStrs sh).all (fun f => ICase.isInfix f.toList m.toList)) = true := by
  simp only [List.all_eq_true, ICase.isInfix_iff]
  exact C11_message_contains_fields sh e hv

/-- a path-lock error has exactly the three candidate texts, every other error exactly one -/
theorem messages_length (sh : N → String) (e : LoadError N) :
    (e.messages sh).length = if e.cls = .pathLock then 3 else 1 := by
  cases e <;> rfl

/-- every candidate is the text of some raising site -/
theorem messages_eq_messageAt (sh : N → String) (e : LoadError N) :
    ∀ m, m ∈ e.messages sh ↔ ∃ site, m = e.messageAt sh site := by
  intro m
  cases e <;>
    simp only [LoadError.messages, LoadError.message, messageAt_dupElem, messageAt_badWidth, messageAt_badEdge,
      messageAt_undefElem, messageAt_cyclic, messageAt_deadInput, messageAt_emptyProc, messageAt_pathLock,
      messageAt_blockedCap, pathLockMessages, LockSite.all,
      List.map_cons, List.map_nil, List.mem_cons, List.not_mem_nil, or_false]
  case pathLock s t c =>
    constructor
    · rintro (h | h | h)
      · exact ⟨.noLock, h⟩
      · exact ⟨.multiple, h⟩
      · exact ⟨.different, h⟩
    · rintro ⟨site, h⟩
      cases site
      · exact .inl h
      · exact .inr (.inl h)
      · exact .inr (.inr h)
  all_goals exact ⟨fun h => ⟨.noLock, h⟩, fun ⟨_, h⟩ => h⟩

/-! ### the three path-lock texts are pairwise different (the text tells the raising site) -/

private theorem at0 (l : String) (r : String) (c : Char) (h : l.toList[0]? = some c) : (l ++ r).toList[0]? = some c := by
  rw [String.toList_append]
  cases hl : l.toList with
  | nil => rw [hl] at h; simp at h
  | cons a t => rw [hl] at h; simpa using h

private theorem at13 (l : String) (r : String) (c : Char) (h : l.toList[13]? = some c) : (l ++ r).toList[13]? = some c := by
  rw [String.toList_append, List.getElem?_append_left]
  · exact h
  · exact (List.getElem?_eq_some_iff.1 h).1

theorem pathLockMessage_injective_site (sh : N → String) (s : N) (t : LockType) (c : N) (a b : LockSite)
    (h : pathLockMessage sh a s t c = pathLockMessage sh b s t c) : a = b := by
  have k0 : ∀ site, (pathLockMessage sh site s t c).toList[0]? = some (if site = .different then 'P' else 'F') := by
    intro site
    cases site <;> simp only [pathLockMessage_noLock, pathLockMessage_multiple, pathLockMessage_different] <;>
      (repeat (first | exact (by decide) | apply at0))
  have k13 : ∀ site, site ≠ .different →
      (pathLockMessage sh site s t c).toList[13]? = some (if site = .noLock then 's' else 'p') := by
    intro site hs
    cases site <;> simp only [pathLockMessage_noLock, pathLockMessage_multiple, pathLockMessage_different] <;> first
      | exact absurd rfl hs
      | (repeat (first | exact (by decide) | apply at13))
  have h0 := k0 a
  have h0' := k0 b
  rw [h] at h0
  have e0 := h0.symm.trans h0'
  by_cases ha : a = .different
  · subst ha
    by_cases hb : b = .different
    · exact hb.symm
    · simp [hb] at e0
  · by_cases hb : b = .different
    · subst hb; simp [ha] at e0
    · have h13 := k13 a ha
      have h13' := k13 b hb
      rw [h] at h13
      have e13 := h13.symm.trans h13'
      cases a <;> cases b <;> first | rfl | exact absurd rfl ha | exact absurd rfl hb | simp at e13

theorem pathLockMessages_nodup (sh : N → String) (s : N) (t : LockType) (c : N) :
    (pathLockMessages sh s t c).Nodup := by
  have inj := pathLockMessage_injective_site sh s t c
  simp only [pathLockMessages, LockSite.all, List.map_cons, List.map_nil, List.nodup_cons, List.mem_cons,
    List.not_mem_nil, or_false, not_or, not_false_eq_true, List.nodup_nil, and_true]
  refine ⟨⟨fun h => ?_, fun h => ?_⟩, fun h => ?_⟩
  · exact absurd (inj _ _ h) (by decide)
  · exact absurd (inj _ _ h) (by decide)
  · exact absurd (inj _ _ h) (by decide)

/-! ### the exact texts observed on the real code (`str(exc)` of `processor_utils.load_proc_desc`) -/

example : (LoadError.dupElem "fullSys" "FULLsys").messages id =
    ["Functional unit FULLsys previously added as fullSys"] := by decide
example : (LoadError.badWidth "core" 0).messages id = ["Functional unit core has a bad width 0."] := by decide
example : (LoadError.badWidth "core" (-12)).messages id = ["Functional unit core has a bad width -12."] := by decide
example : (LoadError.badEdge ["a", "b", "c"]).messages id =
    ["Edge ['a', 'b', 'c'] doesn't connect exactly 2 functional units."] := by decide
example : (LoadError.badEdge ["a"]).messages id = ["Edge ['a'] doesn't connect exactly 2 functional units."] := by decide
example : (LoadError.badEdge ([] : List String)).messages id =
    ["Edge [] doesn't connect exactly 2 functional units."] := by decide
example : (LoadError.undefElem "Ghost").messages id = ["Undefined functional unit Ghost"] := by decide
example : (LoadError.cyclic : LoadError String).messages id = [""] := by decide
example : (LoadError.deadInput "in").messages id =
    ["No feasible path found from input port in to any output ports"] := by decide
example : (LoadError.emptyProc : LoadError String).messages id = ["No input ports found"] := by decide
example : (LoadError.pathLock "in" .read "ALU").messages id =
    ["Found a path starting at input port in with no read locks for capability ALU.",
     "Found a path passing through in with multiple read locks for capability ALU.",
     "Paths passing through in have different read locks for capability ALU."] := by decide
example : pathLockMessage id .noLock "in" .write "ALU" =
    "Found a path starting at input port in with no write locks for capability ALU." := by decide
example : pathLockMessage id .multiple "in" .write "ALU" =
    "Found a path passing through in with multiple write locks for capability ALU." := by decide
example : (LoadError.blockedCap "MEM" "in2").messages id = ["Capability MEM blocked from port in2"] := by decide

/-- `repr` with quotes, backslash and control characters, as observed:
`Edge ["it's", 'say "x"', 'both\'"', 'back\\slash', 'new\nline', 'tab\t', '\x7f\x1f\x00'] doesn't …` -/
example : (LoadError.badEdge ["it's", "say \"x\"", "both'\"", "back\\slash", "new\nline", "tab\t", "\x7f\x1f\x00"]).messages id =
    ["Edge [\"it's\", 'say \"x\"', 'both\\'\"', 'back\\\\slash', 'new\\nline', 'tab\\t', '\\x7f\\x1f\\x00'] doesn't connect exactly 2 functional units."] := by
  set_option maxRecDepth 4000 in decide

/-! ### non-vacuity, and the excluded points (finding) -/

example : ReprVerbatim "core 0" ∧ ReprVerbatim "it's" ∧ ReprVerbatim "say \"x\"" ∧ PlainName "A b" := by decide

example : ∀ f ∈ (LoadError.badEdge ["it's", "B 1", ""]).fieldStrs id,
    Occurs f.toList ((LoadError.badEdge ["it's", "B 1", ""]).message id).toList :=
  C11_message_contains_fields id _ (fun ed h => by cases h; decide) _ (by simp [LoadError.messages])

/-- a backslash: `repr` doubles it, the element is not in the text -/
example : ¬ ReprVerbatim "a\\b" ∧
    ¬ Occurs "a\\b".toList ((LoadError.badEdge ["a\\b"]).message id).toList := by
  rw [← ICase.isInfix_iff]; decide

/-- both kinds of quotes: `'` is escaped -/
example : ¬ ReprVerbatim "q'\"r" ∧
    ¬ Occurs "q'\"r".toList ((LoadError.badEdge ["q'\"r"]).message id).toList := by
  rw [← ICase.isInfix_iff]; decide

/-- a line break -/
example : ¬ ReprVerbatim "x\ny" ∧
    ¬ Occurs "x\ny".toList ((LoadError.badEdge ["x\ny"]).message id).toList := by
  rw [← ICase.isInfix_iff]; decide

end Loader
end ProcSim
