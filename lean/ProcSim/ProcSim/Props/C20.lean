import ProcSim.Lemmas.OrderIndep
/-!
# C20 — loading, compiling and simulating are deterministic: the logic part

Property C20 says that loading a processor, loading an instruction set, parsing, compiling and simulating are pure
functions of their inputs, also across processes started with different hash seeds.  Purity of the CPython code
(no hidden state, no mutation of arguments) is a runtime fact and is covered by differential runs.  What *is* logic:
wherever the Python code iterates over a `set`/`frozenset` of `str`-like elements — whose iteration order depends
on `PYTHONHASHSEED` — the canonical result and the error **class** do not depend on that order.  The two places
where the order reaches observable behaviour are modelled literally in `Model/LoaderOrder.lean` with the iteration
order as a parameter `ord` (any function; the theorems assume only that `ord l` is a permutation of `l`):

* `_optimization.chk_terminals`: `for out_port in new_out_ports` over a frozenset, `_rm_dead_end` raising
  `DeadInputError` at the first original input port met (`chkTerminalsP ord`);
* `load_isa`: `SelfIndexSet.create(capabilities)` over the frozenset returned by `get_abilities` (`loadIsaP ord`).

(The other set-valued intermediates never have their order observed: `_clean_unit`'s capability frozensets are only
intersected, united, tested for membership and finally sorted by the `UnitModel` converter — `cleanUnit`, `mkModel`
— and `_get_cap_units` iterates capability *lists* of input ports, which `_clean_unit` skips; `_coll_cap_edges`'
frozenset of edges is only used to set each edge's capacity independently of the others — see the header of
`Model/Loader.lean` for the max-flow contract.)

Theorems

* `C20_terminals_order_independent` — `chkTerminalsP ord` and `Loader.chkTerminals` accept together with the **same**
  graph and reject together, always with class `DeadInputError`.  The *named port may differ* (see
  `ex_deadInput_names_differ`); in both cases it is an original input port that is a dead end (a member of
  `new_out_ports`) of the graph at the start of the round in which the loop stops (`OrderIndep.stopGraph`, the same
  graph for both runs).  `C20_literal_loop_named_port`: in the literal loop the port is the first original input port
  in the round's iteration order and is still a sink of the partly pruned graph it is met in.
* `C20_load_order_independent` — hence `loadP ord fold d` and `Loader.load fold d` accept together with the same
  processor and reject together with the same error class.
* `icaseSet_fold_nodup`, `C20_isa_order_independent`, `C20_isa_abilities_order_independent` — `load_isa` returns the
  same dict (or the same error) for every iteration order of a capability collection whose case-folded forms are
  pairwise distinct, which `get_abilities` guarantees.  (`capRegistry` lets later spellings overwrite earlier ones;
  that is harmless exactly because folded forms are distinct — `ex_isa_hypothesis_needed` shows the hypothesis
  cannot be dropped for arbitrary lists.)
* `C20_pipeline_order_independent` — the whole pipeline (`runP`) with both orders arbitrary agrees with `Pipeline.run`.
* `C20_functions` — `Pipeline.run` / `Pipeline.cliTable` are functions: equal inputs give equal outputs.  No model
  function has any state (they are closed Lean terms of function type; there is nothing else to prove).

All statements are for arbitrary graphs / descriptions: no bound on sizes, no well-formedness hypothesis.
-/
namespace ProcSim
namespace C20

open Loader LoaderOrder OrderIndep
open ICase (lower)

section
variable {N : Type} [DecidableEq N]

/-- **C20, dead-end removal**: for every per-round iteration order `ord` of the dead-end set, the literal Python loop
(`chkTerminalsP ord`) and the model (`chkTerminals`, all dead ends at once, first dead input in unit order)

1. accept together, with the same pruned graph (`toOption` equal) — which is `stopGraph in0 out0 fuel g`;
2. reject together;
3. every rejection — of either — is a `DeadInputError` naming an original input port that is a dead end of
   `stopGraph in0 out0 fuel g` (a current output port that was not an output port originally).
   The two named ports may differ (`ex_deadInput_names_differ`); the class is the same. -/
theorem C20_terminals_order_independent (ord : List N → List N) (hord : ∀ l, (ord l).Perm l)
    (in0 out0 : List N) (fuel : Nat) (g : Graph N) :
    (chkTerminalsP ord in0 out0 fuel g).toOption = (chkTerminals in0 out0 fuel g).toOption ∧
    (∀ g', chkTerminals in0 out0 fuel g = .ok g' → g' = stopGraph in0 out0 fuel g) ∧
    ((∃ e, chkTerminalsP ord in0 out0 fuel g = .error e) ↔ (∃ e', chkTerminals in0 out0 fuel g = .error e')) ∧
    (∀ e, chkTerminalsP ord in0 out0 fuel g = .error e →
      e.cls = .deadInput ∧ ∃ p, e = .deadInput p ∧ p ∈ in0 ∧ p ∈ (stopGraph in0 out0 fuel g).outPorts ∧ p ∉ out0) ∧
    (∀ e', chkTerminals in0 out0 fuel g = .error e' →
      e'.cls = .deadInput ∧ ∃ p', e' = .deadInput p' ∧ p' ∈ in0 ∧ p' ∈ (stopGraph in0 out0 fuel g).outPorts ∧ p' ∉ out0) := by
  have h := sameRun hord in0 out0 fuel g
  have hd : ∀ p, DeadInputAt in0 out0 (stopGraph in0 out0 fuel g) p →
      p ∈ in0 ∧ p ∈ (stopGraph in0 out0 fuel g).outPorts ∧ p ∉ out0 := by
    intro p hp
    have := List.mem_filter.1 hp.2
    exact ⟨hp.1, this.1, by simpa using this.2⟩
  generalize chkTerminalsP ord in0 out0 fuel g = x at h
  generalize chkTerminals in0 out0 fuel g = y at h
  cases h with
  | ok =>
    refine ⟨rfl, ?_, ?_, ?_, ?_⟩
    · intro g' hg'; cases hg'; rfl
    · constructor <;> (rintro ⟨e, he⟩; cases he)
    · intro e he; cases he
    · intro e he; cases he
  | err p p' hp hp' =>
    refine ⟨rfl, ?_, ?_, ?_, ?_⟩
    · intro g' hg'; cases hg'
    · exact ⟨fun _ => ⟨_, rfl⟩, fun _ => ⟨_, rfl⟩⟩
    · intro e he; cases he; exact ⟨rfl, p, rfl, hd p hp⟩
    · intro e he; cases he; exact ⟨rfl, p', rfl, hd p' hp'⟩

/-- the port the literal loop names, precisely: in the round that starts with `sg = stopGraph in0 out0 fuel g` the
set `deadEnds out0 sg` is visited in the order `ord …`; the units `pre` visited first are no input ports and have
been removed one by one, and the named port `p` is the first original input port met — still a sink of the graph
it is met in (`sg` without `pre`). -/
theorem C20_literal_loop_named_port (ord : List N → List N) (hord : ∀ l, (ord l).Perm l)
    (in0 out0 : List N) (fuel : Nat) (g : Graph N) (e : LoadError N)
    (h : chkTerminalsP ord in0 out0 fuel g = .error e) :
    ∃ p pre post, e = .deadInput p ∧ ord (deadEnds out0 (stopGraph in0 out0 fuel g)) = pre ++ p :: post ∧
      p ∈ in0 ∧ (∀ q ∈ pre, q ∉ in0) ∧ p ∈ ((stopGraph in0 out0 fuel g).removeNodes pre).outPorts :=
  rmDeadEnds_error (chkTerminalsP_error_round hord in0 out0 fuel g e h)
    (fun _ hq => (List.mem_filter.1 ((hord _).mem_iff.1 hq)).1)

/-- the sequential-removal fact behind it: removing the nodes of a list one by one (in any order) is removing them
all at once -/
theorem C20_sequential_removal (g : Graph N) {ps ps' : List N} (h : ps'.Perm ps) :
    ps'.foldl (fun g p => g.removeNodes [p]) g = g.removeNodes ps := by
  rw [foldl_removeNodes, removeNodes_perm g h]

variable [LT N] [DecidableRel (α := N) (· < ·)]

/-- **C20, `load_proc_desc`**: with the dead-end sets iterated in any order, the loader accepts the same
descriptions, returns the same processor, and rejects with the same error class. -/
theorem C20_load_order_independent (ord : List N → List N) (hord : ∀ l, (ord l).Perm l) (fold : N → N) (d : Desc N) :
    (loadP ord fold d).toOption = (load fold d).toOption ∧
    (∀ p, loadP ord fold d = .ok p ↔ load fold d = .ok p) ∧
    (∀ e, loadP ord fold d = .error e → ∃ e', load fold d = .error e' ∧ e.cls = e'.cls) ∧
    (∀ e', load fold d = .error e' → ∃ e, loadP ord fold d = .error e ∧ e.cls = e'.cls) := by
  have h := loadP_agree hord fold d
  exact ⟨h.toOption_eq, h.ok_iff, fun _ he => h.error_left he, fun _ he => h.error_right he⟩

end

/-! ## `load_isa` over the frozenset of `get_abilities` -/

/-- a `frozenset` of `ICaseString`s (`icaseSet`, hence `getAbilities`) has pairwise distinct case-folded forms -/
theorem icaseSet_fold_nodup (l : List Isa.Str) : ((Isa.icaseSet l).map lower).Nodup :=
  OrderIndep.icaseSet_fold_nodup l

theorem getAbilities_fold_nodup (portCaps : List (List Isa.Str)) : ((Isa.getAbilities portCaps).map lower).Nodup :=
  OrderIndep.icaseSet_fold_nodup _

/-- **C20, `load_isa`**: for capabilities with pairwise distinct folded forms, every permutation gives the same
result — the same dict (items in the same order) or the same error. The capability registries are lookup-equal
(`OrderIndep.capRegistry_get?_perm`) and `_create_isa` only looks the registry up. -/
theorem C20_isa_order_independent (isa : List (Isa.Str × Isa.Str)) {caps caps' : List Isa.Str}
    (hn : (caps.map lower).Nodup) (hp : caps'.Perm caps) : Isa.loadIsa isa caps' = Isa.loadIsa isa caps :=
  createIsa_congr (capRegistry_get?_perm hn hp) isa [] []

/-- … in particular for the set `get_abilities` returns, iterated in any order -/
theorem C20_isa_abilities_order_independent (ord : List Isa.Str → List Isa.Str) (hord : ∀ l, (ord l).Perm l)
    (isa : List (Isa.Str × Isa.Str)) (portCaps : List (List Isa.Str)) :
    loadIsaP ord isa (Isa.getAbilities portCaps) = Isa.loadIsa isa (Isa.getAbilities portCaps) :=
  C20_isa_order_independent isa (getAbilities_fold_nodup portCaps) (hord _)

/-! ## the whole pipeline -/

/-- same stage; loader errors of the same class, errors of the later stages equal -/
def FailAgree : Pipeline.Failure → Pipeline.Failure → Prop
  | .load e, .load e' => e.cls = e'.cls
  | .isa e, .isa e' => e = e'
  | .parse e, .parse e' => e = e'
  | .compile e, .compile e' => e = e'
  | _, _ => False

theorem FailAgree.refl (f : Pipeline.Failure) : FailAgree f f := by
  cases f <;> exact rfl

/-- **C20, pipeline**: with both set iterations in arbitrary orders the pipeline returns the same stages and the
same simulation outcome, or stops at the same stage with the same error (for the loader: the same error class). -/
theorem C20_pipeline_order_independent (ordT ordC : List Pipeline.Str → List Pipeline.Str)
    (hT : ∀ l, (ordT l).Perm l) (hC : ∀ l, (ordC l).Perm l)
    (desc : Desc Pipeline.Str) (rawIsa : List (Pipeline.Str × Pipeline.Str)) (lines : List Pipeline.Str) :
    Agree FailAgree (runP ordT ordC desc rawIsa lines) (Pipeline.run desc rawIsa lines) := by
  unfold runP Pipeline.run frontP Pipeline.front
  have h := loadP_agree hT ICase.lower desc
  generalize loadP ordT ICase.lower desc = x at h
  generalize load ICase.lower desc = y at h
  cases x with
  | error e =>
    cases y with
    | ok b => exact h.elim
    | error e' => exact h
  | ok a =>
    cases y with
    | error e' => exact h.elim
    | ok b =>
      cases h
      dsimp only
      rw [show loadIsaP ordC rawIsa (Isa.getAbilitiesProc a) = Isa.loadIsa rawIsa (Isa.getAbilitiesProc a) from
        C20_isa_abilities_order_independent ordC hC rawIsa _]
      exact Agree.refl FailAgree.refl _

/-! ## functions -/

/-- **C20, functions**: the model pipeline is a function of the description, the instruction set and the program
text — equal inputs give equal results (and equal printed tables). None of the model functions has state or
mutates anything: they are closed terms of function type. -/
theorem C20_functions {d d' : Desc Pipeline.Str} {i i' : List (Pipeline.Str × Pipeline.Str)} {l l' : List Pipeline.Str}
    (hd : d = d') (hi : i = i') (hl : l = l') :
    Pipeline.run d i l = Pipeline.run d' i' l' ∧ Pipeline.cliTable d i l = Pipeline.cliTable d' i' l' := by
  subst hd hi hl
  exact ⟨rfl, rfl⟩

/-! ## non-vacuity (`N := Nat`, `fold := id`, evaluated by `decide`) -/

namespace Examples

/-- `Except` has no `DecidableEq` in core; needed only to let `decide` compare results below -/
private instance exceptDecEq {ε α : Type} [DecidableEq ε] [DecidableEq α] : DecidableEq (Except ε α) := fun a b =>
  match a, b with
  | .ok x, .ok y => if h : x = y then isTrue (by rw [h]) else isFalse (fun e => h (by cases e; rfl))
  | .error x, .error y => if h : x = y then isTrue (by rw [h]) else isFalse (fun e => h (by cases e; rfl))
  | .ok _, .error _ => isFalse (fun e => by cases e)
  | .error _, .ok _ => isFalse (fun e => by cases e)

/-- a comparable view of a working graph -/
def gview (r : Except (LoadError Nat) (Graph Nat)) : Except (LoadError Nat) (List (Nat × List Nat) × List (Nat × Nat)) :=
  match r with
  | .ok g => .ok (g.nodes.map (fun n => (n.name, n.caps)), g.edges)
  | .error e => .error e

def nd (n : Nat) : GNode Nat := ⟨n, 1, [100], false, false, []⟩

/-- `1 → 2 → 3`, `1 → 4`, `2 → 5`; originally 3 was the only output port: 4 and 5 are dead ends of the first
round, none of the second (2 keeps its successor 3) -/
def gTwoDead : Graph Nat := ⟨[nd 1, nd 2, nd 3, nd 4, nd 5], [(1, 2), (2, 3), (1, 4), (2, 5)]⟩

example : gview (chkTerminals [1] [3] 6 gTwoDead) = .ok ([(1, [100]), (2, [100]), (3, [100])], [(1, 2), (2, 3)]) := by decide
/-- both orders of the dead-end set `{4, 5}` give the same pruned graph -/
example : gview (chkTerminalsP id [1] [3] 6 gTwoDead) = gview (chkTerminals [1] [3] 6 gTwoDead) := by decide
example : gview (chkTerminalsP List.reverse [1] [3] 6 gTwoDead) = gview (chkTerminals [1] [3] 6 gTwoDead) := by decide
/-- the one-at-a-time loop really is different code: it passes through an intermediate graph without 5 but with 4 -/
example : gview (rmDeadEnds [1] [5] gTwoDead) =
    .ok ([(1, [100]), (2, [100]), (3, [100]), (4, [100])], [(1, 2), (2, 3), (1, 4)]) := by decide

/-- a chain of dead ends needs two rounds: `1 → 2 → 3`, `1 → 4 → 5`, original outputs 3 and 6 (6 was removed) -/
def gChain : Graph Nat := ⟨[nd 1, nd 2, nd 3, nd 4, nd 5], [(1, 2), (2, 3), (1, 4), (4, 5)]⟩
example : gview (chkTerminalsP List.reverse [1] [3, 6] 6 gChain) =
    .ok ([(1, [100]), (2, [100]), (3, [100])], [(1, 2), (2, 3)]) := by decide
example : gview (chkTerminalsP List.reverse [1] [3, 6] 6 gChain) = gview (chkTerminals [1] [3, 6] 6 gChain) := by decide

/-- two input ports 1 and 2 that are both dead ends (their successors were removed) -/
def gTwoDeadIn : Graph Nat := ⟨[nd 1, nd 2, nd 3, nd 4], [(3, 4)]⟩

/-- `DeadInputError` in both orders, naming *different* ports: same class, different field -/
theorem ex_deadInput_names_differ :
    chkTerminals [1, 2, 3] [4, 5, 6] 5 gTwoDeadIn = .error (.deadInput 1) ∧
    gview (chkTerminalsP id [1, 2, 3] [4, 5, 6] 5 gTwoDeadIn) = .error (.deadInput 1) ∧
    gview (chkTerminalsP List.reverse [1, 2, 3] [4, 5, 6] 5 gTwoDeadIn) = .error (.deadInput 2) ∧
    (LoadError.deadInput 1 : LoadError Nat).cls = (LoadError.deadInput 2 : LoadError Nat).cls := by
  refine ⟨?_, ?_, ?_, rfl⟩
  · have : gview (chkTerminals [1, 2, 3] [4, 5, 6] 5 gTwoDeadIn) = .error (.deadInput 1) := by decide
    revert this
    cases chkTerminals [1, 2, 3] [4, 5, 6] 5 gTwoDeadIn with
    | ok g => intro h; cases h
    | error e => intro h; cases h; rfl
  · decide
  · decide

/-! the same through the whole loader -/

def ud (n : Nat) (caps : List Nat) (lock : Bool) : UnitD Nat := ⟨n, 1, caps, lock, lock, []⟩

/-- `1 → 2`, `1 → 3 → 5`, `1 → 4 → 6`; 5 and 6 only declare a capability nobody feeds them, so they are removed as
empty and 3, 4 become dead ends of the same round -/
def dTwoDead : Desc Nat :=
  ⟨[ud 1 [100] true, ud 2 [100] false, ud 3 [100] false, ud 4 [100] false, ud 5 [101] false, ud 6 [101] false],
   [[1, 2], [1, 3], [1, 4], [3, 5], [4, 6]]⟩

example : load id dTwoDead =
    .ok ⟨[⟨1, 1, [100], true, true, []⟩], [⟨⟨2, 1, [100], false, false, []⟩, [1]⟩], [], []⟩ := by decide
example : loadP List.reverse id dTwoDead = load id dTwoDead := by decide
example : loadP id id dTwoDead = load id dTwoDead := by decide

/-- input ports 1 and 2 feed only units that lose all capabilities: both become dead input ports -/
def dTwoDeadIn : Desc Nat :=
  ⟨[ud 1 [100] true, ud 2 [100] true, ud 3 [101] false, ud 4 [101] false], [[1, 3], [2, 4]]⟩

example : load id dTwoDeadIn = .error (.deadInput 1) := by decide
example : loadP List.reverse id dTwoDeadIn = .error (.deadInput 2) := by decide
example : (match loadP List.reverse id dTwoDeadIn, load id dTwoDeadIn with
    | .error e, .error e' => decide (e.cls = e'.cls ∧ e ≠ e') | _, _ => false) = true := by decide

/-- the theorems apply to the examples (`List.reverse` is a permutation) -/
example : (loadP List.reverse id dTwoDead).toOption = (load id dTwoDead).toOption :=
  (C20_load_order_independent List.reverse (fun l => List.reverse_perm l) id dTwoDead).1

/-! `load_isa` -/

def s (x : String) : Isa.Str := x.toList

example : Isa.loadIsa [(s "add", s "alu"), (s "LW", s "Mem")] [s "ALU", s "MEM"] =
    .ok [(s "ADD", s "ALU"), (s "LW", s "MEM")] := by decide
example : Isa.loadIsa [(s "add", s "alu"), (s "LW", s "Mem")] [s "MEM", s "ALU"] =
    Isa.loadIsa [(s "add", s "alu"), (s "LW", s "Mem")] [s "ALU", s "MEM"] := by decide
/-- same error in both orders -/
example : Isa.loadIsa [(s "add", s "alu"), (s "mul", s "fpu")] [s "MEM", s "ALU"] = .error (.undefCap (s "fpu")) ∧
    Isa.loadIsa [(s "add", s "alu"), (s "mul", s "fpu")] [s "ALU", s "MEM"] = .error (.undefCap (s "fpu")) := by decide
/-- `get_abilities` keeps one spelling per folded form … -/
example : Isa.getAbilities [[s "ALU", s "MEM"], [s "alu"]] = [s "ALU", s "MEM"] := by decide
/-- … which is what makes the order irrelevant: for a *list* with two spellings of one capability (not a set of
`ICaseString`s) the order would matter — the hypothesis of `C20_isa_order_independent` cannot be dropped -/
theorem ex_isa_hypothesis_needed :
    Isa.loadIsa [(s "add", s "alu")] [s "ALU", s "Alu"] ≠ Isa.loadIsa [(s "add", s "alu")] [s "Alu", s "ALU"] := by decide

end Examples

end C20
end ProcSim
