import ProcSim.Lemmas.SimCore
/-!
# C05 — single memory port

In every cycle of every diagram `simulate` hands out, at most one instruction *enters* a unit whose memory-access
list names its capability (`i` is hosted by `u` in cycle `t`, was not hosted by `u` in cycle `t-1`, and
`cap i ∈ acl u`).

Proof (`Lemmas/SimCore.lean` §5): an instruction found in unit `u` at the end of a cycle either was in `u` in the
previous record (then it is no entry) or was appended to `u` during the cycle by the fill loop or by the issue loop.
Every append of a memory-needing instruction requires the threaded memory flag to be clear and sets it, so the
number of memory entries is bounded by the flag (`fillCycle_memNew_le_one`); relabelling does not change who is
hosted where. This is an upper-bound argument: it needs neither "no index hosted twice" nor the sink-first order,
only that unit names are unique (the record is keyed by name, the ACL belongs to the unit).
-/
namespace ProcSim
open Spec

attribute [local implicit_reducible] AMap

variable {N : Type} [DecidableEq N]

/-! ## the checker counts `memNew` -/

theorem entersAt_eq (c : Ctx N) (t : Nat) (n : N) (i : Nat) :
    c.entersAt t n i = (c.isIn t n i && !(((prevRow c.tbl t).get n).any (fun h => h.idx == i))) := by
  unfold Ctx.entersAt
  congr 2
  unfold prevRow
  by_cases ht : t = 0
  · subst ht; simp
  · simp [ht, Ctx.isIn, Ctx.occ, Ctx.row]

/-- `memEntries` of the checker is `memNew` between the previous row and the row -/
theorem memEntries_eq (p : Proc N) (prog : List (Instr N)) (tbl : List (Util N)) (stalled : Bool) (t : Nat) :
    memEntries (ctx p prog tbl stalled) t =
      memNew prog p.allUnits (prevRow tbl t) (tbl.getD t ([] : List (N × List HI))) := by
  unfold memEntries memNew
  congr 1
  apply List.map_congr_left
  intro u _
  unfold memNewAt
  rw [List.filter_map, List.length_map]
  congr 1
  apply List.filter_congr
  intro h hh
  rw [entersAt_eq]
  have hin : (ctx p prog tbl stalled).isIn t u.name h.idx = true := by
    unfold Ctx.isIn
    exact List.any_eq_true.2 ⟨h, hh, by simp⟩
  rw [hin]
  rfl

/-- the Bool clause of C05 says: every recorded cycle has at most one memory entry -/
theorem C05_ok_iff (p : Proc N) (prog : List (Instr N)) (tbl : List (Util N)) (stalled : Bool) :
    (Spec.C05 (ctx p prog tbl stalled)).ok = true ↔
      ∀ t, t < tbl.length →
        memNew prog p.allUnits (prevRow tbl t) (tbl.getD t ([] : List (N × List HI))) ≤ 1 := by
  simp only [Spec.C05, Clauses.ok, List.all_cons, List.all_nil, Bool.and_true, List.all_eq_true, List.mem_range,
    Ctx.T]
  constructor
  · intro h t ht
    have := of_decide_eq_true (h t ht)
    rwa [memEntries_eq] at this
  · intro h t ht
    apply decide_eq_true
    rw [memEntries_eq]
    exact h t ht

/-! ## readable form -/

/-- instruction `i` *enters* unit `u` in cycle `t` of the diagram and needs the memory port there: it is hosted by `u`
in cycle `t`, was not hosted by `u` in the cycle before (`prevRow` = the empty record for `t = 0`), and its
capability is in `u`'s memory ACL -/
def MemEntry (p : Proc N) (prog : List (Instr N)) (tbl : List (Util N)) (t : Nat) (u : UnitM N) (i : Nat) : Prop :=
  u ∈ p.allUnits ∧
  i ∈ ((tbl.getD t ([] : List (N × List HI))).get u.name).map (·.idx) ∧
  i ∉ ((prevRow tbl t).get u.name).map (·.idx) ∧
  capIn prog i u.acl = true

theorem le_sum_of_mem {α : Type} (f : α → Nat) {l : List α} {a : α} (h : a ∈ l) : f a ≤ (l.map f).sum := by
  induction l with
  | nil => cases h
  | cons b l ih =>
    simp only [List.map_cons, List.sum_cons]
    rcases List.mem_cons.1 h with e | e
    · subst e; omega
    · have := ih e; omega

theorem add_le_sum_of_mem_ne {α : Type} (f : α → Nat) {l : List α} {a b : α} (ha : a ∈ l) (hb : b ∈ l)
    (hne : a ≠ b) : f a + f b ≤ (l.map f).sum := by
  induction l with
  | nil => cases ha
  | cons c l ih =>
    simp only [List.map_cons, List.sum_cons]
    rcases List.mem_cons.1 ha with e | e <;> rcases List.mem_cons.1 hb with e' | e'
    · exact absurd (e.trans e'.symm) hne
    · subst e; have := le_sum_of_mem f e'; omega
    · subst e'; have := le_sum_of_mem f e; omega
    · have := ih e e'; omega

theorem two_le_length_of_mem_ne {α : Type} {l : List α} {a b : α} (ha : a ∈ l) (hb : b ∈ l) (hne : a ≠ b) :
    2 ≤ l.length := by
  match l, ha, hb with
  | [], ha, _ => cases ha
  | [c], ha, hb =>
    simp only [List.mem_singleton] at ha hb
    exact absurd (ha.trans hb.symm) hne
  | _ :: _ :: _, _, _ => simp

theorem MemEntry.mem_filter {p : Proc N} {prog : List (Instr N)} {tbl : List (Util N)} {t : Nat} {u : UnitM N}
    {i : Nat} (h : MemEntry p prog tbl t u i) :
    i ∈ (((tbl.getD t ([] : List (N × List HI))).get u.name).map (·.idx)).filter
      (fun i => !(((prevRow tbl t).get u.name).any (fun o => o.idx == i)) && capIn prog i u.acl) := by
  obtain ⟨_, h1, h2, h3⟩ := h
  refine List.mem_filter.2 ⟨h1, ?_⟩
  have : ((prevRow tbl t).get u.name).any (fun o => o.idx == i) = false := by
    rw [List.any_eq_false]
    intro o ho e
    exact h2 (List.mem_map.2 ⟨o, ho, by simpa using e⟩)
  simp [this, h3]

/-- if a cycle has at most one memory entry (as counted by the checker), the entering pair `(unit, instruction)` is
unique -/
theorem MemEntry.unique_of_memNew_le_one {p : Proc N} {prog : List (Instr N)} {tbl : List (Util N)} {t : Nat}
    (hle : memNew prog p.allUnits (prevRow tbl t) (tbl.getD t ([] : List (N × List HI))) ≤ 1)
    {u u' : UnitM N} {i i' : Nat} (h : MemEntry p prog tbl t u i) (h' : MemEntry p prog tbl t u' i') :
    u = u' ∧ i = i' := by
  have c1 : 1 ≤ memNewAt prog (prevRow tbl t) (tbl.getD t ([] : List (N × List HI))) u :=
    List.length_pos_of_mem h.mem_filter
  have c2 : 1 ≤ memNewAt prog (prevRow tbl t) (tbl.getD t ([] : List (N × List HI))) u' :=
    List.length_pos_of_mem h'.mem_filter
  by_cases hu : u = u'
  · subst hu
    refine ⟨rfl, ?_⟩
    by_cases hi : i = i'
    · exact hi
    · exfalso
      have : 2 ≤ memNewAt prog (prevRow tbl t) (tbl.getD t ([] : List (N × List HI))) u :=
        two_le_length_of_mem_ne h.mem_filter h'.mem_filter hi
      have := le_sum_of_mem (memNewAt prog (prevRow tbl t) (tbl.getD t ([] : List (N × List HI)))) h.1
      unfold memNew at hle
      omega
  · exfalso
    have := add_le_sum_of_mem_ne (memNewAt prog (prevRow tbl t) (tbl.getD t ([] : List (N × List HI)))) h.1 h'.1 hu
    unfold memNew at hle
    omega

variable [LT N] [DecidableRel (α := N) (· < ·)]

/-! ## the theorems -/

/-- **C05**, from unique unit names only. -/
theorem C05_single_mem_entry_of_nodup (p : Proc N) (prog : List (Instr N)) (tbl : List (Util N)) (stalled : Bool)
    (hn : (p.allUnits.map (·.name)).Nodup) (h : Diagram p prog tbl stalled) :
    (Spec.C05 (ctx p prog tbl stalled)).ok = true :=
  (C05_ok_iff p prog tbl stalled).2 (Diagram_memNew_le_one hn h)

/-- **C05.** For a well-formed processor, every diagram of `simulate` passes the C05 checker: per cycle at most one
instruction enters a unit whose memory ACL names its capability. -/
theorem C05_single_mem_entry (p : Proc N) (prog : List (Instr N)) (tbl : List (Util N)) (stalled : Bool)
    (hwf : wfProc p = true) (h : Diagram p prog tbl stalled) :
    (Spec.C05 (ctx p prog tbl stalled)).ok = true :=
  C05_single_mem_entry_of_nodup p prog tbl stalled (wfProc_nodup_names hwf) h

/-- **C05 (readable form).** In every cycle the pair (unit, instruction) that enters needing the memory port is
unique. -/
theorem C05_single_mem_entry' (p : Proc N) (prog : List (Instr N)) (tbl : List (Util N)) (stalled : Bool)
    (hwf : wfProc p = true) (h : Diagram p prog tbl stalled) :
    ∀ t u i u' i', MemEntry p prog tbl t u i → MemEntry p prog tbl t u' i' → u = u' ∧ i = i' := by
  intro t u i u' i' h1 h2
  by_cases ht : t < tbl.length
  · exact MemEntry.unique_of_memNew_le_one (Diagram_memNew_le_one (wfProc_nodup_names hwf) h t ht) h1 h2
  · exfalso
    have := h1.2.1
    rw [List.getD_eq_getElem?_getD, List.getElem?_eq_none (by omega)] at this
    simp at this

/-! ## Non-vacuity

Input port `0` (width 2, read lock) has capability `7` in its memory ACL; it feeds output port `1` (width 1, write
lock, no ACL). Three independent instructions of capability `7`. The processor is well-formed; the run returns a
diagram; although the input port has room for two, only one instruction enters it per cycle (the memory port is
taken); the run takes 4 cycles and each of the first three has exactly one memory entry (the bound of C05 is
attained). -/
namespace C05Example

def inP : UnitM Nat := ⟨0, 2, [7], true, false, [7]⟩
def outP : UnitM Nat := ⟨1, 1, [7], false, true, []⟩
def proc : Proc Nat := { inPorts := [inP], outPorts := [⟨outP, [0]⟩], inOut := [], internal := [] }
def prog : List (Instr Nat) := [⟨[10], 11, 7⟩, ⟨[12], 13, 7⟩, ⟨[14], 15, 7⟩]

example : wfProc proc = true := by decide

example : (match simulate proc prog with
    | .done tbl =>
      tbl.length == 4 &&
      -- one instruction in the (width-2) input port in the first cycle
      ((tbl.getD 0 ([] : List (Nat × List HI))).get 0).length == 1 &&
      -- memory entries per cycle
      (List.range 4).map (memEntries (ctx proc prog tbl false)) == [1, 1, 1, 0]
    | _ => false) = true := by decide

def isDone : Outcome Nat → Bool
  | .done _ => true
  | _ => false

/-- the hypotheses of `C05_single_mem_entry` are satisfiable and the theorem applies to the diagram -/
example : ∃ tbl, Diagram proc prog tbl false ∧ (Spec.C05 (ctx proc prog tbl false)).ok = true := by
  have hd : isDone (simulate proc prog) = true := by decide
  cases h : simulate proc prog with
  | done tbl => exact ⟨tbl, Or.inl ⟨rfl, h⟩, C05_single_mem_entry proc prog tbl false (by decide) (Or.inl ⟨rfl, h⟩)⟩
  | stall tbl => rw [h] at hd; cases hd
  | fault f => rw [h] at hd; cases hd

end C05Example

end ProcSim
