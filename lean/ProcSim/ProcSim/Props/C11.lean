import ProcSim.Lemmas.LoaderDefects
/-!
# C11 — descriptions are rejected iff defective, with the documented error and a real culprit

"A processor description is rejected iff it has a defect the loader documents: duplicate unit name, non-positive
width, a connection not naming exactly two known units, a cycle, an input port cut off from every output, no usable
input port, a capability that cannot reach any output, or a capability route with zero, several or inconsistent
read/write locks. The exception raised belongs to the class documented for a defect actually present, its fields
name a real culprit from the description […]."

* model: `ProcSim/Model/Loader.lean` (`Loader.load`); specification: `ProcSim/Spec/Loader.lean` (`Spec.defects`,
  `Spec.culpritReal`, `Spec.C11_Holds`, checker `Spec.checkC11`);
* lemmas: `Lemmas/LoaderDefects.lean` (stage by stage), `Lemmas/LoaderLocks.lean`, `Lemmas/LoaderRoutes.lean`,
  `Lemmas/LoaderBridge.lean`, and the C10 characterisation of the pruned graph (`Lemmas/LoaderC10.lean`,
  `Lemmas/LoaderC10Check.lean`).

All statements hold for every description, every `fold` and every decidable `<` on names; no hypothesis was needed.
(The part of the property about the exception *text* is checked by the driver's `fieldsInMessage`.)
-/
set_option linter.unusedSectionVars false
set_option linter.unusedSimpArgs false
set_option linter.unusedVariables false

namespace ProcSim
namespace Loader
open Spec LoaderLocks LoaderRoutes LoaderBridge LoaderDefects

variable {N : Type} [DecidableEq N] [LT N] [DecidableRel (α := N) (· < ·)] (fold : N → N)

/-! ## C11 -/

/-- **C11 (i)**: a description is accepted iff it has no documented defect -/
theorem C11_reject_iff_defect (d : Desc N) : (Loader.load fold d).isOk = true ↔ Spec.defects fold d = [] := by
  rcases load_defects fold d with ⟨p, hl, hd⟩ | ⟨e, hl, hc, _⟩
  · rw [hl, hd]; exact ⟨fun _ => rfl, fun _ => rfl⟩
  · rw [hl]
    constructor
    · intro h; cases h
    · intro h; rw [h] at hc; cases hc

/-- **C11 (ii)**: the exception class is that of a defect present (at the first defective stage) -/
theorem C11_class_present {d : Desc N} {e : LoadError N} (h : Loader.load fold d = .error e) :
    e.cls ∈ Spec.defects fold d := by
  rcases load_defects fold d with ⟨p, hl, _⟩ | ⟨e', hl, hc, _⟩
  · rw [hl] at h; cases h
  · rw [hl] at h; cases h; exact hc

/-- **C11 (iii)**: the fields of the exception name a real culprit -/
theorem C11_culprit_real {d : Desc N} {e : LoadError N} (h : Loader.load fold d = .error e) :
    culpritReal fold d e = true := by
  rcases load_defects fold d with ⟨p, hl, _⟩ | ⟨e', hl, _, hc⟩
  · rw [hl] at h; cases h
  · rw [hl] at h; cases h; exact hc

/-- **C11**, bundled: the outcome of the model load satisfies the specification -/
theorem C11_holds (d : Desc N) : Spec.C11_Holds fold d (Spec.outcomeOf (Loader.load fold d)) := by
  rcases load_defects fold d with ⟨p, hl, hd⟩ | ⟨e, hl, hc, hcul⟩
  · rw [hl]
    refine ⟨?_, ?_, ?_⟩
    · simp only [outcomeOf]; exact ⟨fun _ => hd, fun _ => trivial⟩
    · intro e he; simp only [outcomeOf] at he; cases he
    · intro e he; simp only [outcomeOf] at he; cases he
  · rw [hl]
    refine ⟨?_, ?_, ?_⟩
    · simp only [outcomeOf]
      constructor
      · intro h; cases h
      · intro h; rw [h] at hc; cases hc
    · intro e' he; simp only [outcomeOf, Outcome.rejected.injEq] at he; subst he; exact hc
    · intro e' he; simp only [outcomeOf, Outcome.rejected.injEq] at he; subst he; exact hcul

/-- **`checkC11` decides `C11_Holds`** — for every description and every outcome -/
theorem C11_check_iff (d : Desc N) (o : Outcome N) : checkC11 fold d o = true ↔ C11_Holds fold d o := by
  cases o with
  | accepted =>
    simp only [checkC11, allPass, clausesC11, List.all_cons, List.all_nil, Bool.and_true, List.isEmpty_iff]
    constructor
    · intro h
      exact ⟨⟨fun _ => h, fun _ => trivial⟩, fun e he => (by cases he), fun e he => (by cases he)⟩
    · intro h
      exact h.iff_defective.1 trivial
  | rejected e =>
    simp only [checkC11, allPass, clausesC11, List.all_cons, List.all_nil, Bool.and_true, Bool.and_eq_true,
      Bool.not_eq_true', decide_eq_true_eq]
    constructor
    · rintro ⟨h1, h2, h3⟩
      refine ⟨⟨fun h => h.elim, fun h => ?_⟩, ?_, ?_⟩
      · rw [h] at h2; cases h2
      · intro e' he; cases he; exact h2
      · intro e' he; cases he; exact h3
    · intro h
      have h2 := h.classPresent e rfl
      refine ⟨?_, h2, h.culprit e rfl⟩
      cases hd : defects fold d with
      | nil => rw [hd] at h2; cases h2
      | cons a t => rfl

/-! ## non-vacuity (`N := Nat`, `fold := id`, evaluated by `decide`): one description per defect class -/

namespace C11Examples

def u (n : Nat) (w : Int) (caps : List Nat) (rd wr : Bool) : UnitD Nat := ⟨n, w, caps, rd, wr, []⟩

/-- the exception of a model load, if any -/
def errOf (d : Desc Nat) : Option (LoadError Nat) := match load id d with | .error e => some e | .ok _ => none

/-- accepted: a diamond `1 → 2 → 4`, `1 → 3 → 4` with the read lock at the input and the write lock at the output -/
def dOk : Desc Nat :=
  ⟨[u 1 1 [10] true false, u 2 1 [10] false false, u 3 2 [10] false false, u 4 1 [10] false true],
   [[1, 2], [1, 3], [2, 4], [3, 4]]⟩
example : (load id dOk).isOk = true ∧ defects id dOk = [] ∧ checkC11 id dOk (outcomeOf (load id dOk)) = true := by decide

def dDup : Desc Nat := ⟨[u 1 1 [10] true true, u 1 1 [10] false false], []⟩
example : errOf dDup = some (.dupElem 1 1) ∧ defects id dDup = [.dupElem] ∧
    checkC11 id dDup (outcomeOf (load id dDup)) = true := by decide

def dWidth : Desc Nat := ⟨[u 1 0 [10] true true], []⟩
example : errOf dWidth = some (.badWidth 1 0) ∧ defects id dWidth = [.badWidth] ∧
    checkC11 id dWidth (outcomeOf (load id dWidth)) = true := by decide

def dEdge : Desc Nat := ⟨[u 1 1 [10] true true], [[1]]⟩
example : errOf dEdge = some (.badEdge [1]) ∧ defects id dEdge = [.badEdge] ∧
    checkC11 id dEdge (outcomeOf (load id dEdge)) = true := by decide

def dUndef : Desc Nat := ⟨[u 1 1 [10] true true], [[1, 9]]⟩
example : errOf dUndef = some (.undefElem 9) ∧ defects id dUndef = [.undefElem] ∧
    checkC11 id dUndef (outcomeOf (load id dUndef)) = true := by decide

def dCyc : Desc Nat := ⟨[u 1 1 [10] true true, u 2 1 [10] false false], [[1, 2], [2, 1]]⟩
example : errOf dCyc = some .cyclic ∧ defects id dCyc = [.cyclic] ∧
    checkC11 id dCyc (outcomeOf (load id dCyc)) = true := by decide

/-- the input port `1` shares no capability with its only successor -/
def dDead : Desc Nat := ⟨[u 1 1 [10] true true, u 2 1 [20] false false], [[1, 2]]⟩
example : errOf dDead = some (.deadInput 1) ∧ defects id dDead = [.deadInput] ∧
    checkC11 id dDead (outcomeOf (load id dDead)) = true := by decide

def dEmpty : Desc Nat := ⟨[u 1 1 [] true true], []⟩
example : errOf dEmpty = some .emptyProc ∧ defects id dEmpty = [.emptyProc] ∧
    checkC11 id dEmpty (outcomeOf (load id dEmpty)) = true := by decide

/-- no lock at all on the only route -/
def dLock : Desc Nat := ⟨[u 1 1 [10] false false], []⟩
example : errOf dLock = some (.pathLock 1 .read 10) ∧ defects id dLock = [.pathLock] ∧
    checkC11 id dLock (outcomeOf (load id dLock)) = true := by decide

/-- capability `20` is offered at the input port `1` but its successor does not support it -/
def dBlocked : Desc Nat := ⟨[u 1 1 [10, 20] true true, u 2 1 [10] false false], [[1, 2]]⟩
example : errOf dBlocked = some (.blockedCap 20 1) ∧ defects id dBlocked = [.blockedCap] ∧
    checkC11 id dBlocked (outcomeOf (load id dBlocked)) = true := by decide

/-- the checker is not trivially true: a wrong class, a wrong culprit, a spurious rejection / acceptance -/
example : checkC11 id dBlocked (.rejected (.pathLock 1 .read 20)) = false := by decide
example : checkC11 id dBlocked (.rejected (.blockedCap 10 1)) = false := by decide
example : checkC11 id dOk (.rejected .cyclic) = false := by decide
example : checkC11 id dLock .accepted = false := by decide

end C11Examples

end Loader
end ProcSim
