import ProcSim.Lemmas.LoaderDefects
/-!
# C11 — descriptions are rejected iff defective, with the documented error and a real culprit

"A processor description is rejected iff it has a defect the loader documents: duplicate unit name, non-positive
width, a connection not naming exactly two known units, a cycle, an input port cut off from every output, no usable
input port, a capability that cannot reach any output, or a capability route with zero, several or inconsistent
read/write locks. The exception raised belongs to the class documented for a defect actually present, its fields
name a real culprit from the description […]."

* model: `ProcSim/Model/Loader.lean` (`Loader.load`); specification: `ProcSim/Spec/Loader.lean` (`Spec.defects`,
  `Spec.culpritReal`, `Spec.C11_Holds`, checker `Spec.checkC11`);
* lemmas: `Lemmas/LoaderDefects.lean` (stage by stage), `Lemmas/LoaderLocks.lean`, `Lemmas/LoaderRoutes.lean`,
  `Lemmas/LoaderBridge.lean`, and the C10 characterisation of the pruned graph (`Lemmas/LoaderC10.lean`,
  `Lemmas/LoaderC10Check.lean`).

All statements hold for every description, every `fold` and every decidable `<` on names; no hypothesis was needed.
(The part of the property about the exception *text* is checked by the driver's `fieldsInMessage`.)
-/
set_option linter.unusedSectionVars false
set_option linter.unusedSimpArgs false
set_option linter.unusedVariables false

namespace ProcSim
namespace Loader
open Spec LoaderLocks LoaderRoutes LoaderBridge LoaderDefects

variable {N : Type} [DecidableEq N] [LT N] [DecidableRel (α := N) (· < ·)] (fold : N → N)

/-! ## `defects`, stage by stage -/

theorem isEmpty_of_eq_nil {α : Type} {l : List α} (h : l = []) : l.isEmpty = true := by rw [h]; rfl

theorem isEmpty_of_mem {α : Type} {l : List α} {x : α} (h : x ∈ l) : l.isEmpty = false := by
  cases l with
  | nil => cases h
  | cons a t => rfl

/-- `defects` as nested stages -/
theorem defects_unfold (d : Desc N) : defects fold d =
    if (stage1 fold d).isEmpty then
      if (stage2 fold d).isEmpty then
        if (flag (!(dgOf fold d).rgAll.acyclicB) DefectClass.cyclic).isEmpty then
          if (flag (!(deadInputs (dgOf fold d)).isEmpty) DefectClass.deadInput).isEmpty then
            if (flag (!hasLiveInput (dgOf fold d)) DefectClass.emptyProc).isEmpty then
              (if (capDefects (dgOf fold d)).isEmpty then [] else capDefects (dgOf fold d))
            else flag (!hasLiveInput (dgOf fold d)) DefectClass.emptyProc
          else flag (!(deadInputs (dgOf fold d)).isEmpty) DefectClass.deadInput
        else flag (!(dgOf fold d).rgAll.acyclicB) DefectClass.cyclic
      else stage2 fold d
    else stage1 fold d := rfl

/-! ## The paths through `load` -/

theorem createGraph_of {d : Desc N} {r : List (GNode N) × List N} {es : List (N × N)}
    (h1 : addUnits fold d.units [] [] = .ok r) (h2 : addEdges fold (r.1.map (·.name)) d.edges [] = .ok es) :
    createGraph fold d = .ok (⟨r.1, es⟩, r.2) := by
  simp only [createGraph, h1, h2]

theorem load_addUnits_error {d : Desc N} {e : LoadError N} (h : addUnits fold d.units [] [] = .error e) :
    load fold d = .error e := by
  simp only [load, createGraph, h]

theorem load_addEdges_error {d : Desc N} {r : List (GNode N) × List N} {e : LoadError N}
    (h1 : addUnits fold d.units [] [] = .ok r) (h2 : addEdges fold (r.1.map (·.name)) d.edges [] = .error e) :
    load fold d = .error e := by
  simp only [load, createGraph, h1, h2]

theorem load_prepare_error {d : Desc N} {g : Graph N} {reg : List N} {e : LoadError N}
    (hcg : createGraph fold d = .ok (g, reg)) (hp : prepare g = .error e) : load fold d = .error e := by
  simp only [load, hcg, hp]

theorem load_prepare_ok {d : Desc N} {g g2 : Graph N} {reg : List N} {p : Proc N}
    (hcg : createGraph fold d = .ok (g, reg)) (hp : prepare g = .ok g2) (hmk : makeProcessor fold reg g2 = some p) :
    load fold d = .ok p := by
  simp only [load, hcg, hp, hmk]

theorem prepare_cyclic {g : Graph N} (h : isAcyclic g = false) : prepare g = .error .cyclic := by
  simp [prepare, h]

theorem prepare_terminals_error {g : Graph N} {e : LoadError N} (hac : isAcyclic g = true)
    (h : chkTerminals g.inPorts g.outPorts ((rmEmpty (cleanStruct g)).nodes.length + 1)
      (rmEmpty (cleanStruct g)) = .error e) : prepare g = .error e := by
  simp [prepare, hac, h]

theorem prepare_empty {g g2 : Graph N} (hac : isAcyclic g = true)
    (h : chkTerminals g.inPorts g.outPorts ((rmEmpty (cleanStruct g)).nodes.length + 1)
      (rmEmpty (cleanStruct g)) = .ok g2)
    (he : g.inPorts.any (fun p => decide (p ∈ g2.names)) = false) : prepare g = .error .emptyProc := by
  simp only [prepare, hac, h, he]
  simp

theorem prepare_caps_error {g g2 : Graph N} {e : LoadError N} (hac : isAcyclic g = true)
    (h : chkTerminals g.inPorts g.outPorts ((rmEmpty (cleanStruct g)).nodes.length + 1)
      (rmEmpty (cleanStruct g)) = .ok g2)
    (he : g.inPorts.any (fun p => decide (p ∈ g2.names)) = true) (hc : chkCaps g2 = .error e) :
    prepare g = .error e := by
  simp only [prepare, hac, h, he, hc]
  simp

theorem prepare_caps_ok {g g2 : Graph N} (hac : isAcyclic g = true)
    (h : chkTerminals g.inPorts g.outPorts ((rmEmpty (cleanStruct g)).nodes.length + 1)
      (rmEmpty (cleanStruct g)) = .ok g2)
    (he : g.inPorts.any (fun p => decide (p ∈ g2.names)) = true) (hc : chkCaps g2 = .ok ()) :
    prepare g = .ok g2 := by
  simp only [prepare, hac, h, he, hc]
  simp

/-! ## The master statement -/

/-- either the description is accepted and has no documented defect, or it is rejected with the class of a defect
present at the first defective stage and with a real culprit -/
theorem load_defects (d : Desc N) :
    (∃ p, load fold d = .ok p ∧ defects fold d = []) ∨
    (∃ e, load fold d = .error e ∧ e.cls ∈ defects fold d ∧ culpritReal fold d e = true) := by
  -- stage 1
  cases h1 : addUnits fold d.units [] [] with
  | error e =>
    right
    obtain ⟨hcls, hcul⟩ := stage1_of_error fold h1
    refine ⟨e, load_addUnits_error fold h1, ?_, hcul⟩
    rw [defects_unfold, isEmpty_of_mem hcls]
    exact hcls
  | ok r =>
    have hs1 := stage1_of_ok fold h1
    have hnames : r.1.map (·.name) = d.units.map (·.name) := addUnits_ok_names fold _ _ _ r h1
    -- stage 2
    cases h2 : addEdges fold (r.1.map (·.name)) d.edges [] with
    | error e =>
      right
      have h2' := h2
      rw [hnames] at h2'
      obtain ⟨hcls, hcul⟩ := stage2_of_error fold h2'
      refine ⟨e, load_addEdges_error fold h1 h2, ?_, hcul⟩
      rw [defects_unfold, isEmpty_of_eq_nil hs1, isEmpty_of_mem hcls]
      exact hcls
    | ok es =>
      have hs2 : stage2 fold d = [] := by
        have h2' := h2
        rw [hnames] at h2'
        exact stage2_of_ok fold h2'
      have hcg := createGraph_of fold h1 h2
      generalize hg : (⟨r.1, es⟩ : Graph N) = g at hcg
      generalize hreg : r.2 = reg at hcg
      have hwf : g.WF := createGraph_WF fold hcg
      have hm : DGMatch (dgOf fold d) g := createGraph_match fold hcg
      have hc : (dgOf fold d).ConnIn := dgOf_connIn fold d
      -- stage 3
      cases hac : isAcyclic g with
      | false =>
        right
        have hB : (dgOf fold d).rgAll.acyclicB = false := by
          cases hb : (dgOf fold d).rgAll.acyclicB with
          | false => rfl
          | true => rw [(stage3_iff hm hwf hc).2 hb] at hac; cases hac
        refine ⟨.cyclic, load_prepare_error fold hcg (prepare_cyclic hac), ?_, ?_⟩
        · rw [defects_unfold, isEmpty_of_eq_nil hs1, isEmpty_of_eq_nil hs2, hB]
          simp [flag, LoadError.cls]
        · simp [culpritReal, hB]
      | true =>
        have hB : (dgOf fold d).rgAll.acyclicB = true := (stage3_iff hm hwf hc).1 hac
        obtain ⟨_, _, hn, _, ha⟩ := dg_facts fold hcg hac
        have hs := rmEmpty_cleanStruct_spec hwf hac
        -- stage 4
        cases hterm : chkTerminals g.inPorts g.outPorts ((rmEmpty (cleanStruct g)).nodes.length + 1)
            (rmEmpty (cleanStruct g)) with
        | error e =>
          right
          obtain ⟨p, he, hpi, ⟨c, hfc⟩, hnl⟩ := chkTerminals_error_culprit hwf hac hterm
          subst he
          have hdead : p ∈ deadInputs (dgOf fold d) := by
            rw [mem_deadInputs_iff hn hc ha]
            exact ⟨(hm.origIn hwf p).2 hpi, ⟨c, (hm.feeds hwf c p).2 hfc⟩, fun hl => hnl ((hm.live hwf p).1 hl)⟩
          refine ⟨.deadInput p, load_prepare_error fold hcg (prepare_terminals_error hac hterm), ?_, ?_⟩
          · rw [defects_unfold, isEmpty_of_eq_nil hs1, isEmpty_of_eq_nil hs2, hB, isEmpty_of_mem hdead]
            simp [flag, LoadError.cls]
          · simp [culpritReal, hdead]
        | ok g2 =>
          have hl := chkTerminals_live hwf hac hterm
          have hnodead : deadInputs (dgOf fold d) = [] := by
            rw [List.eq_nil_iff_forall_not_mem]
            intro p hp
            rw [mem_deadInputs_iff hn hc ha] at hp
            obtain ⟨hin, ⟨c, hfc⟩, hnl⟩ := hp
            have hpi : p ∈ g.inPorts := (hm.origIn hwf p).1 hin
            have hp1 : p ∈ (rmEmpty (cleanStruct g)).names := (hs.1 p).2 ⟨c, (hm.feeds hwf c p).1 hfc⟩
            have hp2 := chkTerminals_ok_inputs_kept hterm p hpi hp1
            exact hnl ((hm.live hwf p).2 ((hl.1 p).1 hp2))
          have hs4 : (flag (!(deadInputs (dgOf fold d)).isEmpty) DefectClass.deadInput).isEmpty = true := by
            rw [hnodead]; rfl
          -- stage 5
          have hany : g.inPorts.any (fun p => decide (p ∈ g2.names)) = hasLiveInput (dgOf fold d) := by
            rw [Bool.eq_iff_iff, hasLiveInput_iff hn hc ha, List.any_eq_true]
            constructor
            · rintro ⟨p, hpi, hp2⟩
              exact ⟨p, (hm.origIn hwf p).2 hpi, (hm.live hwf p).2 ((hl.1 p).1 (by simpa using hp2))⟩
            · rintro ⟨p, hin, hlive⟩
              exact ⟨p, (hm.origIn hwf p).1 hin, by simpa using (hl.1 p).2 ((hm.live hwf p).1 hlive)⟩
          cases he : g.inPorts.any (fun p => decide (p ∈ g2.names)) with
          | false =>
            right
            have hli : hasLiveInput (dgOf fold d) = false := by rw [← hany, he]
            refine ⟨.emptyProc, load_prepare_error fold hcg (prepare_empty hac hterm he), ?_, ?_⟩
            · rw [defects_unfold, isEmpty_of_eq_nil hs1, isEmpty_of_eq_nil hs2, hB, hs4, hli]
              simp [flag, LoadError.cls]
            · simp [culpritReal, hli]
          | true =>
            have hli : hasLiveInput (dgOf fold d) = true := by rw [← hany, he]
            -- stage 6
            obtain ⟨hwf2, hac2, hind, hclosed⟩ := terminals_final hwf hac hterm
            have hE := usable_equiv fold hcg hac hterm
            have hsup : ∀ u c, (dgOf fold d).usable.sup u c = decide (c ∈ capsIn (dgOf fold d).keptTable u) :=
              fun u c => rfl
            have hflags := stage6_flags hE hwf2 hac2 hsup
            have hdef : defects fold d = capDefects (dgOf fold d) := by
              rw [defects_unfold, isEmpty_of_eq_nil hs1, isEmpty_of_eq_nil hs2, hB, hs4, hli]
              simp only [Bool.not_true, flag, Bool.false_eq_true, if_false, if_true, List.isEmpty_nil]
              split
              next hemp => rw [List.isEmpty_iff] at hemp; rw [hemp]
              · rfl
            have hcapdef : capDefects (dgOf fold d) =
                flag (hasPathLock (dgOf fold d).usable (capsIn (dgOf fold d).keptTable)) DefectClass.pathLock ++
                flag (hasBlockedCap (dgOf fold d).usable (capsIn (dgOf fold d).keptTable)) DefectClass.blockedCap := rfl
            cases hcaps : chkCaps g2 with
            | error e =>
              right
              refine ⟨e, load_prepare_error fold hcg (prepare_caps_error hac hterm he hcaps), ?_, ?_⟩
              · rw [hdef, hcapdef, List.mem_append, mem_flag, mem_flag]
                rcases chkCaps_error_port hwf2 hac2 (fedFromInputs_terminals hwf hac hterm) hcaps with
                  ⟨hcls, hex⟩ | ⟨hcls, hex⟩
                · exact Or.inl ⟨hflags.1.2 hex, hcls⟩
                · exact Or.inr ⟨hflags.2.2 hex, hcls⟩
              · rcases stage6_culprit hE hwf2 hac2 hcaps with ⟨u, t, c, rfl, hcul⟩ | ⟨c, p, rfl, hcul⟩
                · exact hcul
                · exact hcul
            | ok x =>
              left
              have hok := chkCaps_ok hwf2 hac2 hcaps
              have hprep := prepare_caps_ok hac hterm he hcaps
              obtain ⟨p, hp⟩ := Option.isSome_iff_exists.1 (makeProcessor_isSome fold reg hwf2 hac2)
              refine ⟨p, load_prepare_ok fold hcg hprep hp, ?_⟩
              rw [hdef, hcapdef, List.append_eq_nil_iff, flag_eq_nil, flag_eq_nil]
              constructor
              · cases hb : hasPathLock (dgOf fold d).usable (capsIn (dgOf fold d).keptTable) with
                | false => rfl
                | true =>
                  obtain ⟨p', hp', c, hc', hno⟩ := hflags.1.1 hb
                  exact absurd (hok p' hp' c hc').1 hno
              · cases hb : hasBlockedCap (dgOf fold d).usable (capsIn (dgOf fold d).keptTable) with
                | false => rfl
                | true =>
                  obtain ⟨p', hp', c, hc', hno⟩ := hflags.2.1 hb
                  exact absurd (hok p' hp' c hc').2 hno

/-! ## C11 -/

/-- **C11 (i)**: a description is accepted iff it has no documented defect -/
theorem C11_reject_iff_defect (d : Desc N) : (Loader.load fold d).isOk = true ↔ Spec.defects fold d = [] := by
  rcases load_defects fold d with ⟨p, hl, hd⟩ | ⟨e, hl, hc, _⟩
  · rw [hl, hd]; exact ⟨fun _ => rfl, fun _ => rfl⟩
  · rw [hl]
    constructor
    · intro h; cases h
    · intro h; rw [h] at hc; cases hc

/-- **C11 (ii)**: the exception class is that of a defect present (at the first defective stage) -/
theorem C11_class_present {d : Desc N} {e : LoadError N} (h : Loader.load fold d = .error e) :
    e.cls ∈ Spec.defects fold d := by
  rcases load_defects fold d with ⟨p, hl, _⟩ | ⟨e', hl, hc, _⟩
  · rw [hl] at h; cases h
  · rw [hl] at h; cases h; exact hc

/-- **C11 (iii)**: the fields of the exception name a real culprit -/
theorem C11_culprit_real {d : Desc N} {e : LoadError N} (h : Loader.load fold d = .error e) :
    culpritReal fold d e = true := by
  rcases load_defects fold d with ⟨p, hl, _⟩ | ⟨e', hl, _, hc⟩
  · rw [hl] at h; cases h
  · rw [hl] at h; cases h; exact hc

/-- **C11**, bundled: the outcome of the model load satisfies the specification -/
theorem C11_holds (d : Desc N) : Spec.C11_Holds fold d (Spec.outcomeOf (Loader.load fold d)) := by
  rcases load_defects fold d with ⟨p, hl, hd⟩ | ⟨e, hl, hc, hcul⟩
  · rw [hl]
    refine ⟨?_, ?_, ?_⟩
    · simp only [outcomeOf]; exact ⟨fun _ => hd, fun _ => trivial⟩
    · intro e he; simp only [outcomeOf] at he; cases he
    · intro e he; simp only [outcomeOf] at he; cases he
  · rw [hl]
    refine ⟨?_, ?_, ?_⟩
    · simp only [outcomeOf]
      constructor
      · intro h; cases h
      · intro h; rw [h] at hc; cases hc
    · intro e' he; simp only [outcomeOf, Outcome.rejected.injEq] at he; subst he; exact hc
    · intro e' he; simp only [outcomeOf, Outcome.rejected.injEq] at he; subst he; exact hcul

/-- **`checkC11` decides `C11_Holds`** — for every description and every outcome -/
theorem C11_check_iff (d : Desc N) (o : Outcome N) : checkC11 fold d o = true ↔ C11_Holds fold d o := by
  cases o with
  | accepted =>
    simp only [checkC11, allPass, clausesC11, List.all_cons, List.all_nil, Bool.and_true, List.isEmpty_iff]
    constructor
    · intro h
      exact ⟨⟨fun _ => h, fun _ => trivial⟩, fun e he => (by cases he), fun e he => (by cases he)⟩
    · intro h
      exact h.iff_defective.1 trivial
  | rejected e =>
    simp only [checkC11, allPass, clausesC11, List.all_cons, List.all_nil, Bool.and_true, Bool.and_eq_true,
      Bool.not_eq_true', decide_eq_true_eq]
    constructor
    · rintro ⟨h1, h2, h3⟩
      refine ⟨⟨fun h => h.elim, fun h => ?_⟩, ?_, ?_⟩
      · rw [h] at h2; cases h2
      · intro e' he; cases he; exact h2
      · intro e' he; cases he; exact h3
    · intro h
      have h2 := h.classPresent e rfl
      refine ⟨?_, h2, h.culprit e rfl⟩
      cases hd : defects fold d with
      | nil => rw [hd] at h2; cases h2
      | cons a t => rfl

end Loader
end ProcSim
