import ProcSim.Props.C03
import ProcSim.Props.C04
import ProcSim.Props.C05
import ProcSim.Props.C10
import ProcSim.Props.C12
import ProcSim.Props.C16
/-!
# C16b — loaded processors are structurally well-formed; the unconditional command-line composition

* `loaded_structOK` — every processor the loader accepts satisfies `structOK` (`Lemmas/StructWF.lean`): unit names
  unique (C10), predecessor lists duplicate-free and naming loaded units (C10: predecessors = kept connections between
  live units), output-boundary units nobody's predecessor (C12: output / in-out port ⇔ no successor), output ports
  listed before the internal units and these sink-first (C12) — which is what `Spec.orderOK` reads through `destPos`.
* hence C03 (and C04, C05) hold for **every loaded processor and every program**, with no hypothesis on the processor
  (`C03_loaded`, `C04_loaded`, `C05_loaded`); the lock-placement part of `wfProc` is not needed for them.
* `Loader.StrictTotal.listChar` — `<` on `List Char` (lexicographic code-point order, the name order of the
  text-level pipeline) is a strict total order.
* `C16_cli_pipeline_total` — the last sentence of C16 without side conditions: whenever the composed command-line
  model (`Pipeline.run`: load → ISA → parse → compile → simulate) completes, it prints a table, and the table satisfies
  `C16_Holds` for the diagram `simulate` returned.
-/
namespace ProcSim
open Spec
open Loader Loader.Spec
open Spec.Text

variable {N : Type} [DecidableEq N] [LT N] [DecidableRel (α := N) (· < ·)]

/-- `<` on `List Char` is a strict total order -/
theorem Loader.StrictTotal.listChar : Loader.StrictTotal (List Char) :=
  ⟨List.lt_irrefl, fun _ _ _ => List.lt_trans, fun a b => Std.lt_trichotomy a b⟩

/-- **Every loaded processor is structurally well-formed.** -/
theorem loaded_structOK (ho : Loader.StrictTotal N) (fold : N → N) {d : Loader.Desc N} {p : Proc N}
    (h : Loader.load fold d = .ok p) : structOK p = true := by
  have h10 := Loader.C10_usable_part fold h
  have h12 := Loader.C12_loaded ho fold h
  have hn : (p.allUnits.map (·.name)).Nodup := h10.nodup
  have hdn : ∀ d' ∈ p.dests, d'.model.name ∈ procNames p := fun d' hd' =>
    List.mem_map.2 ⟨d'.model, model_mem_allUnits_of_mem_dests hd', rfl⟩
  have hedge : ∀ d' ∈ p.dests, ∀ q ∈ d'.preds, edgeB p q d'.model.name = true := fun d' hd' q hq =>
    (Loader.edgeB_iff p q d'.model.name).2 ⟨d', hd', rfl, hq⟩
  have hqn : ∀ d' ∈ p.dests, ∀ q ∈ d'.preds, q ∈ procNames p := fun d' hd' q hq =>
    (h10.unitsExact q).2 ((h10.predsExact q d'.model.name).1 (hedge d' hd' q hq)).2.1
  -- a unit at the output boundary is nobody's predecessor
  have hout : ∀ d' ∈ p.dests, ∀ q ∈ d'.preds, q ∉ p.outBoundary := by
    intro d' hd' q hq hm
    have he := hedge d' hd' q hq
    have hq' := hqn d' hd' q hq
    simp only [Proc.outBoundary, List.mem_append] at hm
    rcases hm with hm | hm
    · have := ((h12.inOutIff q hq').1 hm).2 d'.model.name (hdn d' hd')
      rw [he] at this; cases this
    · have := ((h12.outputIff q hq').1 hm).2 d'.model.name (hdn d' hd')
      rw [he] at this; cases this
  have hout' : ∀ a ∈ p.outPorts, ∀ b ∈ p.dests, a.model.name ∉ b.preds := by
    intro a ha b hb hm
    exact hout b hb _ hm (by
      simp only [Proc.outBoundary, List.mem_append]
      exact Or.inr (List.mem_map.2 ⟨a, ha, rfl⟩))
  have hself : ∀ d' ∈ p.dests, d'.model.name ∉ d'.preds := by
    intro d' hd'
    rcases List.mem_append.1 (show d' ∈ p.outPorts ++ p.internal from hd') with hm | hm
    · exact hout' d' hm d' hd'
    · exact h12.sinkFirst.2 d' hm
  have hpw : p.dests.Pairwise (fun a b => a.model.name ∉ b.preds) := by
    show (p.outPorts ++ p.internal).Pairwise _
    rw [List.pairwise_append]
    refine ⟨?_, h12.sinkFirst.1, ?_⟩
    · apply List.pairwise_of_forall_mem_list
      intro a ha b hb
      exact hout' a ha b (List.mem_append_left _ hb)
    · intro a ha b hb
      exact hout' a ha b (List.mem_append_right _ hb)
  have hord := orderOK_of_sinkFirst hn (fun d' hd' q hq => ⟨hqn d' hd' q hq, hout d' hd' q hq⟩) hpw hself
  simp only [structOK, Bool.and_eq_true, decide_eq_true_eq, List.all_eq_true]
  exact ⟨⟨hn, hord⟩, h10.predsNodup⟩

/-! ## struct versions of the finished simulator properties -/

/-- **C04 from `structOK`.** -/
theorem C04_width_struct (p : Proc N) (prog : List (Instr N)) (tbl : List (Util N)) (stalled : Bool)
    (hs : structOK p = true) (h : Diagram p prog tbl stalled) : (Spec.C04 (ctx p prog tbl stalled)).ok = true :=
  C04_width_of_nodup p prog tbl stalled (structOK_nodup_names hs) h

/-- **C05 from `structOK`.** -/
theorem C05_single_mem_entry_struct (p : Proc N) (prog : List (Instr N)) (tbl : List (Util N)) (stalled : Bool)
    (hs : structOK p = true) (h : Diagram p prog tbl stalled) : (Spec.C05 (ctx p prog tbl stalled)).ok = true :=
  C05_single_mem_entry_of_nodup p prog tbl stalled (structOK_nodup_names hs) h

/-- **C03 for every loaded processor** and every program: no hypothesis on the processor beyond acceptance. -/
theorem C03_loaded (ho : Loader.StrictTotal N) (fold : N → N) {d : Loader.Desc N} {p : Proc N}
    (hl : Loader.load fold d = .ok p) (prog : List (Instr N)) (tbl : List (Util N)) (stalled : Bool)
    (h : Diagram p prog tbl stalled) : (Spec.C03 (ctx p prog tbl stalled)).ok = true :=
  C03_routes_struct p prog tbl stalled (loaded_structOK ho fold hl) h

/-- **C04 for every loaded processor.** -/
theorem C04_loaded (ho : Loader.StrictTotal N) (fold : N → N) {d : Loader.Desc N} {p : Proc N}
    (hl : Loader.load fold d = .ok p) (prog : List (Instr N)) (tbl : List (Util N)) (stalled : Bool)
    (h : Diagram p prog tbl stalled) : (Spec.C04 (ctx p prog tbl stalled)).ok = true :=
  C04_width_struct p prog tbl stalled (loaded_structOK ho fold hl) h

/-- **C05 for every loaded processor.** -/
theorem C05_loaded (ho : Loader.StrictTotal N) (fold : N → N) {d : Loader.Desc N} {p : Proc N}
    (hl : Loader.load fold d = .ok p) (prog : List (Instr N)) (tbl : List (Util N)) (stalled : Bool)
    (h : Diagram p prog tbl stalled) : (Spec.C05 (ctx p prog tbl stalled)).ok = true :=
  C05_single_mem_entry_struct p prog tbl stalled (loaded_structOK ho fold hl) h

/-! ## the command line, unconditionally -/

theorem Pipeline.front_load (desc : Loader.Desc Pipeline.Str) (rawIsa : List (Pipeline.Str × Pipeline.Str))
    (lines : List Pipeline.Str) (st : Pipeline.Stages) (h : Pipeline.front desc rawIsa lines = .ok st) :
    Loader.load ICase.lower desc = .ok st.proc := by
  unfold Pipeline.front at h
  split at h
  · cases h
  · rename_i p hp
    split at h
    · cases h
    · split at h
      · cases h
      · split at h
        · cases h
        · cases h; exact hp

/-- **C16, last sentence, unconditionally.** Whenever the composed command-line model — load the processor, load the
ISA, parse, compile, simulate — completes with a diagram, the command line prints a table, and that table satisfies
`C16_Holds` for the diagram (one row per instruction, one column per cycle, every cell `label:unit` of the unit
hosting the instruction in that cycle). -/
theorem C16_cli_pipeline_total (desc : Loader.Desc Pipeline.Str) (rawIsa : List (Pipeline.Str × Pipeline.Str))
    (lines : List Pipeline.Str) (st : Pipeline.Stages) (tbl : List (Util Pipeline.Str))
    (hrun : Pipeline.run desc rawIsa lines = .ok (st, .done tbl)) :
    ∃ t, Pipeline.cliTable desc rawIsa lines = some t ∧ C16_Holds String.ofList tbl st.prog.length t := by
  have hfront : Pipeline.front desc rawIsa lines = .ok st ∧ simulate st.proc st.prog = .done tbl := by
    unfold Pipeline.run at hrun
    split at hrun
    · cases hrun
    · rename_i st' hst'
      simp only [Except.ok.injEq, Prod.mk.injEq] at hrun
      obtain ⟨rfl, h2⟩ := hrun
      exact ⟨hst', h2⟩
  have hs : structOK st.proc = true :=
    loaded_structOK Loader.StrictTotal.listChar ICase.lower (Pipeline.front_load desc rawIsa lines st hfront.1)
  have hD : Spec.Diagram st.proc st.prog tbl false := .inl ⟨rfl, hfront.2⟩
  exact C16_cli_pipeline desc rawIsa lines st tbl hrun (structOK_nodup_names hs)
    (C03_routes_struct st.proc st.prog tbl false hs hD)

/-! ## Non-vacuity

`N := Nat`: the scrambled DAG description of `Loader.C12Examples.exDesc` is accepted, the loaded processor satisfies
`structOK` (evaluated, and by the theorem).

`N := List Char`: a fork/join processor `fetch → {alu, lsu} → wb` described as text-level data, an ISA in mixed
case, a three-line program with a self-dependent last instruction: the composed pipeline completes, and the command
line prints the table shown (evaluated by `decide`); `C16_cli_pipeline_total` applies. -/
namespace C16bExamples

example : (match Loader.load id Loader.C12Examples.exDesc with
    | .ok p => structOK p
    | .error _ => false) = true := by decide

example : ∀ p, Loader.load id Loader.C12Examples.exDesc = .ok p → structOK p = true :=
  fun _ h => loaded_structOK Loader.StrictTotal.nat id h

def s (x : String) : List Char := x.toList

def desc : Loader.Desc Pipeline.Str :=
  ⟨[⟨s "fetch", 2, [s "ALU", s "MEM"], true, false, []⟩, ⟨s "alu", 1, [s "ALU"], false, false, []⟩,
    ⟨s "lsu", 1, [s "MEM"], false, false, [s "MEM"]⟩, ⟨s "wb", 1, [s "ALU", s "MEM"], false, true, []⟩],
   [[s "fetch", s "alu"], [s "fetch", s "lsu"], [s "alu", s "wb"], [s "lsu", s "wb"]]⟩
def rawIsa : List (Pipeline.Str × Pipeline.Str) := [(s "ADD", s "alu"), (s "LW", s "mem")]
def lines : List Pipeline.Str := [s "ADD R1, R2, R3", s "LW R4, R1", s "add r1, R1, r4"]

def isDoneRun : Except Pipeline.Failure (Pipeline.Stages × Outcome Pipeline.Str) → Bool
  | .ok (_, .done _) => true
  | _ => false

example : isDoneRun (Pipeline.run desc rawIsa lines) = true := by decide

example : Pipeline.cliTable desc rawIsa lines = some
    [["", "1", "2", "3", "4", "5", "6", "7", "8", "9"],
     ["I1", "U:fetch", "U:alu", "U:wb"],
     ["I2", "D:fetch", "D:fetch", "D:fetch", "U:fetch", "U:lsu", "U:wb"],
     ["I3", "", "D:fetch", "D:fetch", "D:fetch", "D:fetch", "D:fetch", "U:fetch", "U:alu", "U:wb"]] := by decide

/-- the hypothesis of `C16_cli_pipeline_total` is satisfiable and the theorem applies -/
example : ∃ st tbl t, Pipeline.run desc rawIsa lines = .ok (st, .done tbl) ∧
    Pipeline.cliTable desc rawIsa lines = some t ∧ C16_Holds String.ofList tbl st.prog.length t := by
  have hd : isDoneRun (Pipeline.run desc rawIsa lines) = true := by decide
  cases h : Pipeline.run desc rawIsa lines with
  | error e => rw [h] at hd; cases hd
  | ok r =>
    obtain ⟨st, o⟩ := r
    cases o with
    | done tbl =>
      obtain ⟨t, h1, h2⟩ := C16_cli_pipeline_total desc rawIsa lines st tbl h
      exact ⟨st, tbl, t, rfl, h1, h2⟩
    | stall tbl => rw [h] at hd; cases hd
    | fault f => rw [h] at hd; cases hd

end C16bExamples

end ProcSim
