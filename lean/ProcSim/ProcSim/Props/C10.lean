import ProcSim.Lemmas.LoaderC10Check
/-!
# C10 — the loaded processor is exactly the usable part of the description

`C10_usable_part`: if `load fold d = .ok p` then `C10_Holds fold d p`, i.e. with `g = dgOf fold d` (the declarative
reading of the description: units, connections between standard names, declared capabilities in standard spelling)

* the units of `p` are exactly the **live** units (`g.Live`: keep some capability and reach an original output
  port along kept connections), each once;
* a unit's capabilities are exactly the ones **fed** to it (`g.Feeds c u`: some original input port reaches `u`
  along connections whose units all declare `c`), each once;
* width, locks, memory-access list and name are the declared ones;
* the predecessor lists are exactly the **kept connections** between live units (`g.KeptConn`), each once;
* input (output) ports of `p` had no incoming (outgoing) connection in the description.

No hypothesis besides acceptance is needed (acyclicity, unique names … are consequences of acceptance).
Proof: `Lemmas/LoaderC10.lean` (`createGraph_match`, `cleanStruct_spec`, `prepare_live`).
-/
namespace ProcSim
namespace Loader
open Spec

set_option linter.unusedSectionVars false

variable {N : Type} [DecidableEq N] [LT N] [DecidableRel (α := N) (· < ·)] (fold : N → N)

/-- everything `load` went through, in one place -/
theorem load_facts {d : Desc N} {p : Proc N} (h : load fold d = .ok p) :
    ∃ (g0 g2 : Graph N) (reg : List N), createGraph fold d = .ok (g0, reg) ∧ makeProcessor fold reg g2 = some p ∧
      g0.WF ∧ g2.WF ∧ isAcyclic g0 = true ∧ DGMatch (dgOf fold d) g0 ∧ g2.Induced (cleanStruct g0) ∧
      (∀ u, u ∈ g2.names ↔ LiveG g0 u) ∧ (∀ a b, (a, b) ∈ g2.edges ↔ KeptG g0 a b ∧ LiveG g0 a ∧ LiveG g0 b) := by
  obtain ⟨g0, reg, g2, hc, hp, hm⟩ := load_ok fold h
  have hwf0 : g0.WF := createGraph_WF fold hc
  have hI := prepare_induced hwf0 hp
  have hl := prepare_live hwf0 hp
  exact ⟨g0, g2, reg, hc, hm, hwf0, hI.2, (prepare_ok hp).1, createGraph_match fold hc, hI.1, hl.1, hl.2⟩

/-- **C10, units**: the loaded units are exactly the live units, each once -/
theorem C10_units {d : Desc N} {p : Proc N} (h : load fold d = .ok p) :
    (procNames p).Nodup ∧ ∀ u, u ∈ procNames p ↔ (dgOf fold d).Live u := by
  obtain ⟨g0, g2, reg, -, hm, hwf0, hwf2, -, hmatch, -, hlive, -⟩ := load_facts fold h
  have hN := makeProcessor_procNames_perm fold hwf2.namesNodup hm
  exact ⟨hN.nodup_iff.2 hwf2.namesNodup, fun u => by rw [hN.mem_iff, hlive, hmatch.live hwf0]⟩

/-- **C10, capabilities**: the kept capabilities are exactly the feedable ones, each once -/
theorem C10_caps {d : Desc N} {p : Proc N} (h : load fold d = .ok p) :
    ∀ m ∈ p.allUnits, m.caps.Nodup ∧ ∀ c, c ∈ m.caps ↔ (dgOf fold d).Feeds c m.name := by
  obtain ⟨g0, g2, reg, hc, hm, hwf0, hwf2, hac, hmatch, hI, -, -⟩ := load_facts fold h
  have hcs := cleanStruct_spec hwf0 hac
  have hwfc : (cleanStruct g0).WF := hwf0.cleanStruct
  intro m hmem
  obtain ⟨n, hn, rfl⟩ := List.mem_map.1 ((makeProcessor_allUnits_perm fold hwf2.namesNodup hm).mem_iff.1 hmem)
  have hnc : n ∈ (cleanStruct g0).nodes := hI.nodes.subset hn
  have hname : n.name ∈ g0.names := hcs.1 ▸ Graph.mem_names.2 ⟨n, hnc, rfl⟩
  have hcaps : (cleanStruct g0).capsOf n.name = n.caps := Graph.capsOf_of_mem hwfc.namesNodup hnc
  constructor
  · show (sortNames n.caps).Nodup
    rw [sortNames_nodup_iff, ← hcaps]
    refine (hcs.2.2.2 n.name).nodup ?_
    obtain ⟨n0, hn0, hname0⟩ := Graph.mem_names.1 hname
    obtain ⟨x, -, hx⟩ := forall₂_left (createGraph_nodes fold hc).1 n0 hn0
    rw [← hname0, Graph.capsOf_of_mem hwf0.namesNodup hn0]
    exact hx.2.2.2.2.2.2
  · intro c
    show c ∈ sortNames n.caps ↔ _
    rw [mem_sortNames, ← hcaps, hcs.2.1 n.name hname, hmatch.feeds hwf0]
    rfl

/-- **C10, retained attributes**: name, width, locks and memory-access list are the declared ones -/
theorem C10_retained {d : Desc N} {p : Proc N} (h : load fold d = .ok p) :
    ∀ m ∈ p.allUnits, ∃ x ∈ (dgOf fold d).units,
      x.name = m.name ∧ x.width = (m.width : Int) ∧ x.rd = m.rd ∧ x.wr = m.wr ∧ List.Perm x.acl m.acl := by
  obtain ⟨g0, g2, reg, hc, hm, hwf0, hwf2, hac, hmatch, hI, -, -⟩ := load_facts fold h
  have hnodes := createGraph_nodes fold hc
  intro m hmem
  obtain ⟨n, hn, rfl⟩ := List.mem_map.1 ((makeProcessor_allUnits_perm fold hwf2.namesNodup hm).mem_iff.1 hmem)
  have hnc : n ∈ (cleanStruct g0).nodes := hI.nodes.subset hn
  have hs : GNode.strip n ∈ g0.nodes.map GNode.strip := by
    rw [← strip_cleanStruct]; exact List.mem_map_of_mem hnc
  obtain ⟨n0, hn0, hstrip⟩ := List.mem_map.1 hs
  obtain ⟨x, hx, hno⟩ := forall₂_left hnodes.1 n0 hn0
  simp only [GNode.strip, Prod.mk.injEq] at hstrip
  obtain ⟨h1, h2, h3, h4, h5⟩ := hstrip
  refine ⟨_, List.mem_map_of_mem (f := fun u : UnitD N =>
      { u with caps := declared fold d u, acl := u.acl.map (stdCapName fold d) }) hx, ?_, ?_, ?_, ?_, ?_⟩
  · exact hno.1.symm.trans h1
  · show x.width = ((n.width.toNat : Nat) : Int)
    have hpos := hnodes.2.2 x hx
    rw [← hno.2.1, h2] at hpos ⊢
    omega
  · exact hno.2.2.1.symm.trans h3
  · exact hno.2.2.2.1.symm.trans h4
  · show List.Perm (x.acl.map (stdCapName fold d)) (sortNames (n.acl.map (stdCap fold reg)))
    rw [← h5, hno.2.2.2.2.1]
    have : x.acl.map (stdCap fold reg) = x.acl.map (stdCapName fold d) :=
      List.map_congr_left fun c _ => hnodes.2.1 c
    rw [this]
    exact (sortNames_perm _).symm

/-- **C10, predecessors**: the predecessor lists are exactly the kept connections between live units, each once -/
theorem C10_preds {d : Desc N} {p : Proc N} (h : load fold d = .ok p) :
    (∀ a b, edgeB p a b = true ↔
      ((dgOf fold d).KeptConn a b ∧ (dgOf fold d).Live a ∧ (dgOf fold d).Live b)) ∧
    ∀ f ∈ p.outPorts ++ p.internal, f.preds.Nodup := by
  obtain ⟨g0, g2, reg, -, hm, hwf0, hwf2, -, hmatch, -, -, hedges⟩ := load_facts fold h
  constructor
  · intro a b
    rw [makeProcessor_edgeB fold hwf2 hm, hedges, hmatch.keptConn hwf0, hmatch.live hwf0, hmatch.live hwf0]
  · intro f hf
    obtain ⟨n, -, -, rfl⟩ := (makeProcessor_mem_dests fold hwf2.namesNodup hm).1 hf
    show (sortNames (g2.preds n.name)).Nodup
    exact sortNames_nodup_iff.2 (Graph.preds_nodup hwf2.edgesNodup _)

/-- **C10, ports**: input (output) ports of the result had no incoming (outgoing) connection in the description -/
theorem C10_ports {d : Desc N} {p : Proc N} (h : load fold d = .ok p) :
    (∀ m ∈ p.inBoundary, (dgOf fold d).origIn m.name = true) ∧ (∀ o ∈ p.outBoundary, (dgOf fold d).origOut o = true) := by
  obtain ⟨g0, g2, reg, -, hm, hwf0, hwf2, -, hmatch, -, hlive, hedges⟩ := load_facts fold h
  have hcl := makeProcessor_classes fold hwf2.namesNodup hm
  constructor
  · intro m hmem
    rw [hmatch.origIn hwf0]
    -- `m.name` is a unit of the final graph without a predecessor there
    have hm' : m.name ∈ g2.names ∧ ¬ ∃ a, (a, m.name) ∈ g2.edges := by
      rcases List.mem_append.1 hmem with hmem | hmem
      · have := ((hcl m.name).2.2.1).1 (List.mem_map_of_mem hmem); exact ⟨this.1, this.2.1⟩
      · have := ((hcl m.name).1).1 (List.mem_map_of_mem hmem); exact ⟨this.1, this.2.1⟩
    have hl : LiveG g0 m.name := (hlive _).1 hm'.1
    obtain ⟨c, hc⟩ := hl.1
    cases hc with
    | base hb => exact hb.1
    | @step a _ ha hab =>
      have hk : KeptG g0 a m.name := ⟨hab.1, c, ha, .step ha hab⟩
      exact absurd ⟨a, (hedges a m.name).2 ⟨hk, hk.live_left hl, hl⟩⟩ hm'.2
  · intro o hmem
    rw [hmatch.origOut hwf0]
    have ho' : o ∈ g2.names ∧ ¬ ∃ b, (o, b) ∈ g2.edges := by
      rcases List.mem_append.1 hmem with hmem | hmem
      · have := ((hcl o).2.2.1).1 hmem; exact ⟨this.1, this.2.2⟩
      · have := ((hcl o).2.1).1 hmem; exact ⟨this.1, this.2.2⟩
    have hl : LiveG g0 o := (hlive _).1 ho'.1
    cases hl.2 with
    | base hb => exact hb
    | @step _ b hk hb =>
      have hlb : LiveG g0 b := ⟨by obtain ⟨c, _, hc⟩ := hk.2; exact ⟨c, hc⟩, hb⟩
      exact absurd ⟨b, (hedges o b).2 ⟨hk, hl, hlb⟩⟩ ho'.2

/-- **C10.** The loaded processor is exactly the usable part of the description. -/
theorem C10_usable_part {d : Desc N} {p : Proc N} (h : load fold d = .ok p) : C10_Holds fold d p where
  nodup := (C10_units fold h).1
  unitsExact := (C10_units fold h).2
  capsExact := C10_caps fold h
  retained := C10_retained fold h
  predsExact := (C10_preds fold h).1
  predsNodup := (C10_preds fold h).2
  inputsOriginal := (C10_ports fold h).1
  outputsOriginal := (C10_ports fold h).2

/-! ## the checker decides the specification -/

theorem nodupB_iff (l : List N) : nodupB l = true ↔ l.Nodup := by
  induction l with
  | nil => simp [nodupB]
  | cons a t ih => simp [nodupB, ih]

theorem sameSet_iff (a b : List N) : sameSet a b = true ↔ ∀ x, x ∈ a ↔ x ∈ b := by
  simp only [sameSet, Bool.and_eq_true, List.all_eq_true, decide_eq_true_eq]
  exact ⟨fun h x => ⟨h.1 x, h.2 x⟩, fun h => ⟨fun x => (h x).1, fun x => (h x).2⟩⟩

theorem procNames_eq (p : Proc N) :
    procNames p = (p.inPorts ++ p.inOut).map (·.name) ++ (p.outPorts ++ p.internal).map (·.model.name) := by
  simp [procNames, Proc.allUnits, List.map_append, List.map_map, Function.comp_def]

theorem edgeB_iff (p : Proc N) (a b : N) :
    edgeB p a b = true ↔ ∃ f ∈ p.outPorts ++ p.internal, f.model.name = b ∧ a ∈ f.preds := by
  simp only [edgeB, List.any_eq_true, Bool.and_eq_true, decide_eq_true_eq]

theorem eq_of_nodup_map {α β : Type} (f : α → β) : ∀ {l : List α}, (l.map f).Nodup → ∀ {a b : α}, a ∈ l → b ∈ l →
    f a = f b → a = b
  | [], _, _, _, ha, _, _ => by simp at ha
  | x :: t, hn, a, b, ha, hb, hab => by
    simp only [List.map_cons, List.nodup_cons] at hn
    rcases List.mem_cons.1 ha with ha | ha <;> rcases List.mem_cons.1 hb with hb | hb
    · rw [ha, hb]
    · exact absurd (by rw [← ha, hab]; exact List.mem_map_of_mem hb) hn.1
    · exact absurd (by rw [← hb, ← hab]; exact List.mem_map_of_mem ha) hn.1
    · exact eq_of_nodup_map f hn.2 ha hb hab

/-- the predecessor clause of the checker, given that the units are exactly the live ones, each once -/
theorem predsClause_iff (g : DG N) (p : Proc N) {t : List (N × List N)} {live : List N}
    (hk : ∀ a b, g.keptConnT t a b = true ↔ g.KeptConn a b) (hl : ∀ u, u ∈ live ↔ g.Live u)
    (hnd : (procNames p).Nodup) (hu : ∀ u, u ∈ procNames p ↔ g.Live u) :
    ((p.outPorts ++ p.internal).all (fun f => nodupB f.preds &&
        sameSet f.preds (live.filter (fun a => g.keptConnT t a f.model.name))) = true ∧
      (p.inPorts ++ p.inOut).all (fun m => (live.filter (fun a => g.keptConnT t a m.name)).isEmpty) = true) ↔
    ((∀ a b, edgeB p a b = true ↔ (g.KeptConn a b ∧ g.Live a ∧ g.Live b)) ∧
      ∀ f ∈ p.outPorts ++ p.internal, f.preds.Nodup) := by
  have hfil : ∀ a b, a ∈ live.filter (fun a => g.keptConnT t a b) ↔ g.Live a ∧ g.KeptConn a b := fun a b => by
    rw [List.mem_filter, hl, hk]
  rw [procNames_eq] at hnd
  have hnd' := List.nodup_append.1 hnd
  have hdest : ∀ f ∈ p.outPorts ++ p.internal, g.Live f.model.name := fun f hf =>
    (hu _).1 (by rw [procNames_eq]; exact List.mem_append_right _ (List.mem_map_of_mem hf))
  have hsrc : ∀ m ∈ p.inPorts ++ p.inOut, g.Live m.name := fun m hm =>
    (hu _).1 (by rw [procNames_eq]; exact List.mem_append_left _ (List.mem_map_of_mem hm))
  simp only [Bool.and_eq_true, List.all_eq_true, nodupB_iff, sameSet_iff, List.isEmpty_iff,
    List.eq_nil_iff_forall_not_mem, hfil, edgeB_iff]
  constructor
  · rintro ⟨hD, hS⟩
    refine ⟨fun a b => ⟨?_, ?_⟩, fun f hf => (hD f hf).1⟩
    · rintro ⟨f, hf, rfl, ha⟩
      have := ((hD f hf).2 a).1 ha
      exact ⟨this.2, this.1, hdest f hf⟩
    · rintro ⟨hkc, hla, hlb⟩
      have hb : b ∈ procNames p := (hu b).2 hlb
      rw [procNames_eq] at hb
      rcases List.mem_append.1 hb with hb | hb
      · obtain ⟨m, hm, rfl⟩ := List.mem_map.1 hb
        exact absurd ⟨hla, hkc⟩ (hS m hm a)
      · obtain ⟨f, hf, rfl⟩ := List.mem_map.1 hb
        exact ⟨f, hf, rfl, ((hD f hf).2 a).2 ⟨hla, hkc⟩⟩
  · rintro ⟨hE, hN⟩
    refine ⟨fun f hf => ⟨hN f hf, fun a => ⟨fun ha => ?_, ?_⟩⟩, fun m hm a => ?_⟩
    · have := (hE a f.model.name).1 ⟨f, hf, rfl, ha⟩
      exact ⟨this.2.1, this.1⟩
    · rintro ⟨hla, hkc⟩
      obtain ⟨f', hf', hname, ha⟩ := (hE a f.model.name).2 ⟨hkc, hla, hdest f hf⟩
      have : f' = f := eq_of_nodup_map (fun f : FuncU N => f.model.name) hnd'.2.1 hf' hf hname
      exact this ▸ ha
    · rintro ⟨hla, hkc⟩
      obtain ⟨f', hf', hname, -⟩ := (hE a m.name).2 ⟨hkc, hla, hsrc m hm⟩
      exact hnd'.2.2 m.name (List.mem_map_of_mem hm) f'.model.name (List.mem_map_of_mem hf') hname.symm

/-- the retained-attributes clause of the checker -/
theorem retainedClause_iff (ho : StrictTotal N) (g : DG N) (hn : g.names.Nodup) (m : UnitM N) :
    (match g.unit? m.name with
      | some x => decide (x.width = (m.width : Int)) && x.rd == m.rd && x.wr == m.wr && sortNames x.acl == sortNames m.acl
      | none => false) = true ↔
    ∃ x ∈ g.units, x.name = m.name ∧ x.width = (m.width : Int) ∧ x.rd = m.rd ∧ x.wr = m.wr ∧ List.Perm x.acl m.acl := by
  constructor
  · intro h
    split at h
    next x hx =>
      have hx' := DG.unit?_some hx
      simp only [Bool.and_eq_true, decide_eq_true_eq, beq_iff_eq] at h
      exact ⟨x, hx'.1, hx'.2, h.1.1.1, h.1.1.2, h.1.2, (sortNames_eq_iff_perm ho).1 h.2⟩
    · simp at h
  · rintro ⟨x, hx, hname, h1, h2, h3, h4⟩
    rw [← hname, DG.unit?_of_mem hn hx]
    simp only [Bool.and_eq_true, decide_eq_true_eq, beq_iff_eq]
    exact ⟨⟨⟨h1, h2⟩, h3⟩, (sortNames_eq_iff_perm ho).2 h4⟩

/-- **`checkC10` decides `C10_Holds`** for a description whose unit names are pairwise different and whose
connections contain no closed walk (`ho`: `<` is a strict total order on names, true for `String`). -/
theorem checkC10_iff (ho : StrictTotal N) (d : Desc N) (p : Proc N) (hn : (d.units.map (·.name)).Nodup)
    (ha : (dgOf fold d).rgAll.Acyclic) : checkC10 fold d p = true ↔ C10_Holds fold d p := by
  have hn' : (dgOf fold d).names.Nodup := by rw [dgOf_names]; exact hn
  have hc := dgOf_connIn fold d
  have ht : ∀ u c, c ∈ capsIn (dgOf fold d).keptTable u ↔ (dgOf fold d).Feeds c u :=
    fun _ _ => DG.mem_keptTable_iff hn' hc ha
  have hk : ∀ a b, (dgOf fold d).keptConnT (dgOf fold d).keptTable a b = true ↔ (dgOf fold d).KeptConn a b :=
    fun _ _ => DG.keptConnT_iff ht
  have hl : ∀ u, u ∈ (dgOf fold d).liveIn (dgOf fold d).keptTable ↔ (dgOf fold d).Live u :=
    fun _ => DG.mem_liveIn_iff ht hc ha
  have c2 : sameSet (procNames p) ((dgOf fold d).liveIn (dgOf fold d).keptTable) = true ↔
      ∀ u, u ∈ procNames p ↔ (dgOf fold d).Live u := by
    rw [sameSet_iff]; exact forall_congr' fun u => by rw [hl]
  have c3 : (p.allUnits.all (fun m => nodupB m.caps && sameSet m.caps (capsIn (dgOf fold d).keptTable m.name))) = true ↔
      ∀ m ∈ p.allUnits, m.caps.Nodup ∧ ∀ c, c ∈ m.caps ↔ (dgOf fold d).Feeds c m.name := by
    simp only [List.all_eq_true, Bool.and_eq_true, nodupB_iff, sameSet_iff, ht]
  have c4 := fun m => retainedClause_iff ho (dgOf fold d) hn' m
  have c5 := predsClause_iff (dgOf fold d) p hk hl
  simp only [checkC10, allPass, clausesC10, List.all_cons, List.all_nil, Bool.and_true, Bool.and_eq_true]
  rw [nodupB_iff, c2, c3]
  constructor
  · rintro ⟨h1, h2, h3, h4, h5, h6, h7⟩
    have h5' := (c5 h1 h2).1 h5
    exact { nodup := h1, unitsExact := h2, capsExact := h3
            retained := fun m hm => (c4 m).1 (List.all_eq_true.1 h4 m hm)
            predsExact := h5'.1, predsNodup := h5'.2
            inputsOriginal := fun m hm => List.all_eq_true.1 h6 m hm
            outputsOriginal := fun o ho' => List.all_eq_true.1 h7 o ho' }
  · intro h
    exact ⟨h.nodup, h.unitsExact, h.capsExact, List.all_eq_true.2 fun m hm => (c4 m).2 (h.retained m hm),
      (c5 h.nodup h.unitsExact).2 ⟨h.predsExact, h.predsNodup⟩, List.all_eq_true.2 h.inputsOriginal,
      List.all_eq_true.2 h.outputsOriginal⟩

/-! ## non-vacuity (`N := Nat`, evaluated by `decide`) -/

namespace C10Examples

/-- capabilities 100, 101, 102 (101 also spelled 201 — `exFold` identifies `n` and `n + 100` for `n ≥ 100`… here: mod 100).
Units: 1 (in; 100,101) → 2 (100,201) → 3 (out; 100,101);  1 → 4 (102 only: incompatible connection, unit left empty);
1 → 5 (100) → 6 (100) : a two-unit dead branch (6 has an outgoing connection to 7 which declares nothing 1 offers,
so 7 is emptied, and then 6 and 5 are dead ends);  8 (in-out, isolated; 101 with a memory ACL spelled 201). -/
def exFold (n : Nat) : Nat := n % 100

def exDesc : Desc Nat :=
  ⟨[⟨5, 1, [100], false, false, []⟩, ⟨3, 2, [100, 101], false, true, []⟩, ⟨1, 2, [100, 101], true, false, []⟩,
    ⟨2, 1, [100, 201, 101], false, false, []⟩, ⟨4, 1, [102], false, false, []⟩, ⟨6, 1, [100], false, false, []⟩,
    ⟨7, 1, [102], false, false, []⟩, ⟨8, 3, [101], true, true, [201]⟩],
   [[1, 2], [2, 3], [1, 4], [1, 5], [5, 6], [6, 7], [1, 2]]⟩

/-- what the tests below look at -/
def view (r : Except (LoadError Nat) (Proc Nat)) : List (Nat × List Nat × List Nat) :=
  match r with
  | .ok p => (p.inPorts ++ p.inOut).map (fun m => (m.name, m.caps, m.acl)) ++
      (p.outPorts ++ p.internal).map (fun f => (f.model.name, f.model.caps, f.preds))
  | .error _ => []

/-- the description is accepted, and what is kept: units 1, 8 (in-out; ACL in standard spelling), 3, 2 with their fed
capabilities (each once) and kept predecessors -/
example : view (load exFold exDesc) =
    [(1, [100, 101], []), (8, [101], [101]), (3, [100, 101], [2]), (2, [100, 101], [1])] := by decide

/-- the checker accepts the loaded processor … -/
example : (match load exFold exDesc with | .ok p => checkC10 exFold exDesc p | .error _ => false) = true := by decide
/-- … its side conditions hold (distinct names, no cycle) … -/
example : nodupB (exDesc.units.map (·.name)) = true ∧ (dgOf exFold exDesc).rgAll.acyclicB = true := by decide
/-- … and it rejects a processor that keeps the dead branch, or loses a capability. -/
example : (match load exFold exDesc with
    | .ok p => checkC10 exFold exDesc { p with internal := ⟨⟨5, 1, [100], false, false, []⟩, [1]⟩ :: p.internal }
    | .error _ => true) = false := by decide
example : (match load exFold exDesc with
    | .ok p => checkC10 exFold exDesc { p with inPorts := p.inPorts.map (fun m => { m with caps := [100] }) }
    | .error _ => true) = false := by decide

/-- the theorem applies to the example -/
example : ∀ p, load exFold exDesc = .ok p → C10_Holds exFold exDesc p := fun _ h => C10_usable_part exFold h

end C10Examples

end Loader
end ProcSim
