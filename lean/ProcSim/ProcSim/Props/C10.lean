import ProcSim.Lemmas.LoaderC10
/-!
# C10 — the loaded processor is exactly the usable part of the description

`C10_usable_part`: if `load fold d = .ok p` then `C10_Holds fold d p`, i.e. with `g = dgOf fold d` (the declarative
reading of the description: units, connections between standard names, declared capabilities in standard spelling)

* the units of `p` are exactly the **live** units (`g.Live`: keep some capability and reach an original output
  port along kept connections), each once;
* a unit's capabilities are exactly the ones **fed** to it (`g.Feeds c u`: some original input port reaches `u`
  along connections whose units all declare `c`), each once;
* width, locks, memory-access list and name are the declared ones;
* the predecessor lists are exactly the **kept connections** between live units (`g.KeptConn`), each once;
* input (output) ports of `p` had no incoming (outgoing) connection in the description.

No hypothesis besides acceptance is needed (acyclicity, unique names … are consequences of acceptance).
Proof: `Lemmas/LoaderC10.lean` (`createGraph_match`, `cleanStruct_spec`, `prepare_live`).
-/
namespace ProcSim
namespace Loader
open Spec

set_option linter.unusedSectionVars false

variable {N : Type} [DecidableEq N] [LT N] [DecidableRel (α := N) (· < ·)] (fold : N → N)

/-- everything `load` went through, in one place -/
theorem load_facts {d : Desc N} {p : Proc N} (h : load fold d = .ok p) :
    ∃ (g0 g2 : Graph N) (reg : List N), createGraph fold d = .ok (g0, reg) ∧ makeProcessor fold reg g2 = some p ∧
      g0.WF ∧ g2.WF ∧ isAcyclic g0 = true ∧ DGMatch (dgOf fold d) g0 ∧ g2.Induced (cleanStruct g0) ∧
      (∀ u, u ∈ g2.names ↔ LiveG g0 u) ∧ (∀ a b, (a, b) ∈ g2.edges ↔ KeptG g0 a b ∧ LiveG g0 a ∧ LiveG g0 b) := by
  obtain ⟨g0, reg, g2, hc, hp, hm⟩ := load_ok fold h
  have hwf0 : g0.WF := createGraph_WF fold hc
  have hI := prepare_induced hwf0 hp
  have hl := prepare_live hwf0 hp
  exact ⟨g0, g2, reg, hc, hm, hwf0, hI.2, (prepare_ok hp).1, createGraph_match fold hc, hI.1, hl.1, hl.2⟩

/-- **C10, units**: the loaded units are exactly the live units, each once -/
theorem C10_units {d : Desc N} {p : Proc N} (h : load fold d = .ok p) :
    (procNames p).Nodup ∧ ∀ u, u ∈ procNames p ↔ (dgOf fold d).Live u := by
  obtain ⟨g0, g2, reg, -, hm, hwf0, hwf2, -, hmatch, -, hlive, -⟩ := load_facts fold h
  have hN := makeProcessor_procNames_perm fold hwf2.namesNodup hm
  exact ⟨hN.nodup_iff.2 hwf2.namesNodup, fun u => by rw [hN.mem_iff, hlive, hmatch.live hwf0]⟩

/-- **C10, capabilities**: the kept capabilities are exactly the feedable ones, each once -/
theorem C10_caps {d : Desc N} {p : Proc N} (h : load fold d = .ok p) :
    ∀ m ∈ p.allUnits, m.caps.Nodup ∧ ∀ c, c ∈ m.caps ↔ (dgOf fold d).Feeds c m.name := by
  obtain ⟨g0, g2, reg, hc, hm, hwf0, hwf2, hac, hmatch, hI, -, -⟩ := load_facts fold h
  have hcs := cleanStruct_spec hwf0 hac
  have hwfc : (cleanStruct g0).WF := hwf0.cleanStruct
  intro m hmem
  obtain ⟨n, hn, rfl⟩ := List.mem_map.1 ((makeProcessor_allUnits_perm fold hwf2.namesNodup hm).mem_iff.1 hmem)
  have hnc : n ∈ (cleanStruct g0).nodes := hI.nodes.subset hn
  have hname : n.name ∈ g0.names := hcs.1 ▸ Graph.mem_names.2 ⟨n, hnc, rfl⟩
  have hcaps : (cleanStruct g0).capsOf n.name = n.caps := Graph.capsOf_of_mem hwfc.namesNodup hnc
  constructor
  · show (sortNames n.caps).Nodup
    rw [sortNames_nodup_iff, ← hcaps]
    refine (hcs.2.2.2 n.name).nodup ?_
    obtain ⟨n0, hn0, hname0⟩ := Graph.mem_names.1 hname
    obtain ⟨x, -, hx⟩ := forall₂_left (createGraph_nodes fold hc).1 n0 hn0
    rw [← hname0, Graph.capsOf_of_mem hwf0.namesNodup hn0]
    exact hx.2.2.2.2.2.2
  · intro c
    show c ∈ sortNames n.caps ↔ _
    rw [mem_sortNames, ← hcaps, hcs.2.1 n.name hname, hmatch.feeds hwf0]
    rfl

/-- **C10, retained attributes**: name, width, locks and memory-access list are the declared ones -/
theorem C10_retained {d : Desc N} {p : Proc N} (h : load fold d = .ok p) :
    ∀ m ∈ p.allUnits, ∃ x ∈ (dgOf fold d).units,
      x.name = m.name ∧ x.width = (m.width : Int) ∧ x.rd = m.rd ∧ x.wr = m.wr ∧ List.Perm x.acl m.acl := by
  obtain ⟨g0, g2, reg, hc, hm, hwf0, hwf2, hac, hmatch, hI, -, -⟩ := load_facts fold h
  have hnodes := createGraph_nodes fold hc
  intro m hmem
  obtain ⟨n, hn, rfl⟩ := List.mem_map.1 ((makeProcessor_allUnits_perm fold hwf2.namesNodup hm).mem_iff.1 hmem)
  have hnc : n ∈ (cleanStruct g0).nodes := hI.nodes.subset hn
  have hs : GNode.strip n ∈ g0.nodes.map GNode.strip := by
    rw [← strip_cleanStruct]; exact List.mem_map_of_mem hnc
  obtain ⟨n0, hn0, hstrip⟩ := List.mem_map.1 hs
  obtain ⟨x, hx, hno⟩ := forall₂_left hnodes.1 n0 hn0
  simp only [GNode.strip, Prod.mk.injEq] at hstrip
  obtain ⟨h1, h2, h3, h4, h5⟩ := hstrip
  refine ⟨_, List.mem_map_of_mem (f := fun u : UnitD N =>
      { u with caps := declared fold d u, acl := u.acl.map (stdCapName fold d) }) hx, ?_, ?_, ?_, ?_, ?_⟩
  · exact hno.1.symm.trans h1
  · show x.width = ((n.width.toNat : Nat) : Int)
    have hpos := hnodes.2.2 x hx
    rw [← hno.2.1, h2] at hpos ⊢
    omega
  · exact hno.2.2.1.symm.trans h3
  · exact hno.2.2.2.1.symm.trans h4
  · show List.Perm (x.acl.map (stdCapName fold d)) (sortNames (n.acl.map (stdCap fold reg)))
    rw [← h5, hno.2.2.2.2.1]
    have : x.acl.map (stdCap fold reg) = x.acl.map (stdCapName fold d) :=
      List.map_congr_left fun c _ => hnodes.2.1 c
    rw [this]
    exact (sortNames_perm _).symm

/-- **C10, predecessors**: the predecessor lists are exactly the kept connections between live units, each once -/
theorem C10_preds {d : Desc N} {p : Proc N} (h : load fold d = .ok p) :
    (∀ a b, edgeB p a b = true ↔
      ((dgOf fold d).KeptConn a b ∧ (dgOf fold d).Live a ∧ (dgOf fold d).Live b)) ∧
    ∀ f ∈ p.outPorts ++ p.internal, f.preds.Nodup := by
  obtain ⟨g0, g2, reg, -, hm, hwf0, hwf2, -, hmatch, -, -, hedges⟩ := load_facts fold h
  constructor
  · intro a b
    rw [makeProcessor_edgeB fold hwf2 hm, hedges, hmatch.keptConn hwf0, hmatch.live hwf0, hmatch.live hwf0]
  · intro f hf
    obtain ⟨n, -, -, rfl⟩ := (makeProcessor_mem_dests fold hwf2.namesNodup hm).1 hf
    show (sortNames (g2.preds n.name)).Nodup
    exact sortNames_nodup_iff.2 (Graph.preds_nodup hwf2.edgesNodup _)

/-- **C10, ports**: input (output) ports of the result had no incoming (outgoing) connection in the description -/
theorem C10_ports {d : Desc N} {p : Proc N} (h : load fold d = .ok p) :
    (∀ m ∈ p.inBoundary, (dgOf fold d).origIn m.name = true) ∧ (∀ o ∈ p.outBoundary, (dgOf fold d).origOut o = true) := by
  obtain ⟨g0, g2, reg, -, hm, hwf0, hwf2, -, hmatch, -, hlive, hedges⟩ := load_facts fold h
  have hcl := makeProcessor_classes fold hwf2.namesNodup hm
  constructor
  · intro m hmem
    rw [hmatch.origIn hwf0]
    -- `m.name` is a unit of the final graph without a predecessor there
    have hm' : m.name ∈ g2.names ∧ ¬ ∃ a, (a, m.name) ∈ g2.edges := by
      rcases List.mem_append.1 hmem with hmem | hmem
      · have := ((hcl m.name).2.2.1).1 (List.mem_map_of_mem hmem); exact ⟨this.1, this.2.1⟩
      · have := ((hcl m.name).1).1 (List.mem_map_of_mem hmem); exact ⟨this.1, this.2.1⟩
    have hl : LiveG g0 m.name := (hlive _).1 hm'.1
    obtain ⟨c, hc⟩ := hl.1
    cases hc with
    | base hb => exact hb.1
    | @step a _ ha hab =>
      have hk : KeptG g0 a m.name := ⟨hab.1, c, ha, .step ha hab⟩
      exact absurd ⟨a, (hedges a m.name).2 ⟨hk, hk.live_left hl, hl⟩⟩ hm'.2
  · intro o hmem
    rw [hmatch.origOut hwf0]
    have ho' : o ∈ g2.names ∧ ¬ ∃ b, (o, b) ∈ g2.edges := by
      rcases List.mem_append.1 hmem with hmem | hmem
      · have := ((hcl o).2.2.1).1 hmem; exact ⟨this.1, this.2.2⟩
      · have := ((hcl o).2.1).1 hmem; exact ⟨this.1, this.2.2⟩
    have hl : LiveG g0 o := (hlive _).1 ho'.1
    cases hl.2 with
    | base hb => exact hb
    | @step _ b hk hb =>
      have hlb : LiveG g0 b := ⟨by obtain ⟨c, _, hc⟩ := hk.2; exact ⟨c, hc⟩, hb⟩
      exact absurd ⟨b, (hedges o b).2 ⟨hk, hl, hlb⟩⟩ ho'.2

/-- **C10.** The loaded processor is exactly the usable part of the description. -/
theorem C10_usable_part {d : Desc N} {p : Proc N} (h : load fold d = .ok p) : C10_Holds fold d p where
  nodup := (C10_units fold h).1
  unitsExact := (C10_units fold h).2
  capsExact := C10_caps fold h
  retained := C10_retained fold h
  predsExact := (C10_preds fold h).1
  predsNodup := (C10_preds fold h).2
  inputsOriginal := (C10_ports fold h).1
  outputsOriginal := (C10_ports fold h).2

end Loader
end ProcSim
