import ProcSim.Lemmas.Hazards
import ProcSim.Lemmas.Routes
/-!
# C01 — register hazards respected: conflicting accesses occur in program order

"In every pipeline diagram the simulator returns or attaches to a stall error, whenever two instructions touch the same
register and at least one touch is a write, the earlier instruction is shown performing its touch (unstalled in the unit
that locks registers for reading, resp. writing) in a strictly earlier cycle than the later one performs its own."

* the checker: `Spec.C01` (`ProcSim/Spec/Sim.lean`), clauses RAW / WAW / WAR over `Ctx.accs`;
* proof: `ProcSim/Lemmas/Hazards.lean` — the access plan (`buildPlan_get`), the queue invariant `PlanInv`
  (every queue = the plan's requests not yet shown granted), the host invariant `HazInv` (walk of every hosted
  instruction, position of the locks from `wfProc`), `ordered_of_conflict`.

Hypotheses: `wfProc p` and `ProgOK prog` (no instruction lists a source register twice — guaranteed by the
`HwInstruction` constructor of the real code, which stores the sorted de-duplicated source tuple; with a repeated
source the *model* would dequeue the same read twice).
-/
namespace ProcSim
open Spec Hazards

attribute [local implicit_reducible] AMap

variable {N : Type} [DecidableEq N]

/-- every access of kind `kj` of `j` is preceded, in a strictly earlier cycle, by an access of kind `ki` of `i` -/
def Precedes (c : Ctx N) (ki kj : Bool) (i j : Nat) : Prop :=
  ∀ tj ∈ c.accs kj j, ∃ ti ∈ c.accs ki i, ti < tj

theorem orderedAcc_iff (c : Ctx N) (ki kj : Bool) (i j : Nat) : orderedAcc c ki kj i j = true ↔ Precedes c ki kj i j := by
  simp [orderedAcc, Precedes]

/-- C01, readable form: for instructions `i < j` of the program,
* RAW — if `j` reads the register `i` writes, `i`'s write access precedes `j`'s read access;
* WAW — if both write the same register, `i`'s write access precedes `j`'s;
* WAR — if `j` writes a register `i` reads, `i`'s read access precedes `j`'s write access
(`accs false k` / `accs true k`: the cycles in which `k` is shown unstalled in a unit holding the read / write lock). -/
def C01_Holds (c : Ctx N) : Prop :=
  ∀ i j insI insJ, i < j → c.prog[i]? = some insI → c.prog[j]? = some insJ →
    (insI.dst ∈ insJ.srcs → Precedes c true false i j) ∧
    (insI.dst = insJ.dst → Precedes c true true i j) ∧
    (insJ.dst ∈ insI.srcs → Precedes c false true i j)

theorem mem_pairs {n i j : Nat} :
    (i, j) ∈ (List.range n).flatMap (fun j => (List.range j).map (fun i => (i, j))) ↔ i < j ∧ j < n := by
  simp only [List.mem_flatMap, List.mem_range, List.mem_map, Prod.mk.injEq]
  constructor
  · rintro ⟨j', hj', i', hi', rfl, rfl⟩; exact ⟨hi', hj'⟩
  · rintro ⟨h1, h2⟩; exact ⟨j, h2, i, h1, rfl, rfl⟩

/-- the Bool clauses evaluated by the driver say exactly `C01_Holds` -/
theorem C01_ok_iff (c : Ctx N) : (Spec.C01 c).ok = true ↔ C01_Holds c := by
  simp only [Spec.C01, Clauses.ok, List.all_cons, List.all_nil, Bool.and_true, Bool.and_eq_true, List.all_eq_true,
    Prod.forall, mem_pairs, C01_Holds, ← orderedAcc_iff]
  constructor
  · rintro ⟨h1, h2, h3⟩ i j insI insJ hij hI hJ
    have hjn : j < c.n := (List.getElem?_eq_some_iff.1 hJ).1
    refine ⟨fun hd => ?_, fun hd => ?_, fun hd => ?_⟩
    · have := h1 i j ⟨hij, hjn⟩ insI.dst (by simpa [Ctx.srcs, hJ] using hd)
      simpa [Ctx.writes, Ctx.dst?, hI] using this
    · have := h2 i j ⟨hij, hjn⟩
      simpa [Ctx.writes, Ctx.dst?, hI, hJ, hd] using this
    · have := h3 i j ⟨hij, hjn⟩
      simpa [Ctx.reads, Ctx.srcs, Ctx.dst?, hI, hJ, hd] using this
  · intro h
    refine ⟨?_, ?_, ?_⟩
    · rintro i j ⟨hij, hjn⟩ r hr
      obtain ⟨insJ, hJ⟩ : ∃ insJ, c.prog[j]? = some insJ := ⟨c.prog[j]'hjn, List.getElem?_eq_getElem hjn⟩
      obtain ⟨insI, hI⟩ : ∃ insI, c.prog[i]? = some insI :=
        ⟨c.prog[i]'(Nat.lt_trans hij hjn), List.getElem?_eq_getElem (Nat.lt_trans hij hjn)⟩
      have hr' : r ∈ insJ.srcs := by simpa [Ctx.srcs, hJ] using hr
      by_cases hd : insI.dst = r
      · subst hd
        have := (h i j insI insJ hij hI hJ).1 hr'
        simp [this]
      · simp [Ctx.writes, Ctx.dst?, hI, hd]
    · rintro i j ⟨hij, hjn⟩
      obtain ⟨insJ, hJ⟩ : ∃ insJ, c.prog[j]? = some insJ := ⟨c.prog[j]'hjn, List.getElem?_eq_getElem hjn⟩
      obtain ⟨insI, hI⟩ : ∃ insI, c.prog[i]? = some insI :=
        ⟨c.prog[i]'(Nat.lt_trans hij hjn), List.getElem?_eq_getElem (Nat.lt_trans hij hjn)⟩
      by_cases hd : insI.dst = insJ.dst
      · have := (h i j insI insJ hij hI hJ).2.1 hd
        simp [Ctx.dst?, hJ, this]
      · simp [Ctx.writes, Ctx.dst?, hI, hJ, hd]
    · rintro i j ⟨hij, hjn⟩
      obtain ⟨insJ, hJ⟩ : ∃ insJ, c.prog[j]? = some insJ := ⟨c.prog[j]'hjn, List.getElem?_eq_getElem hjn⟩
      obtain ⟨insI, hI⟩ : ∃ insI, c.prog[i]? = some insI :=
        ⟨c.prog[i]'(Nat.lt_trans hij hjn), List.getElem?_eq_getElem (Nat.lt_trans hij hjn)⟩
      by_cases hd : insJ.dst ∈ insI.srcs
      · have := (h i j insI insJ hij hI hJ).2.2 hd
        simp [Ctx.dst?, hJ, this]
      · simp [Ctx.reads, Ctx.srcs, Ctx.dst?, hI, hJ, hd]

variable [LT N] [DecidableRel (α := N) (· < ·)]

/-- **C01 (readable form).** -/
theorem C01_hazard_order_readable (p : Proc N) (prog : List (Instr N)) (tbl : List (Util N)) (stalled : Bool)
    (hwf : wfProc p = true) (hp : ProgOK prog) (h : Diagram p prog tbl stalled) :
    C01_Holds (ctx p prog tbl stalled) := by
  intro i j insI insJ hij hI hJ
  have hI' : prog[i]? = some insI := hI
  have hJ' : prog[j]? = some insJ := hJ
  refine ⟨fun hd => ?_, fun hd => ?_, fun hd => ?_⟩
  · exact (orderedAcc_iff _ _ _ _ _).1 (ordered_of_conflict hwf hp h (r := insI.dst) hij
      (mem_reqsOf.2 ⟨insI, hI', rfl⟩) (mem_reqsOf.2 ⟨insJ, hJ', hd⟩) (Or.inl rfl))
  · exact (orderedAcc_iff _ _ _ _ _).1 (ordered_of_conflict hwf hp h (r := insI.dst) hij
      (mem_reqsOf.2 ⟨insI, hI', rfl⟩) (mem_reqsOf.2 ⟨insJ, hJ', hd.symm⟩) (Or.inl rfl))
  · exact (orderedAcc_iff _ _ _ _ _).1 (ordered_of_conflict hwf hp h (r := insJ.dst) hij
      (mem_reqsOf.2 ⟨insI, hI', hd⟩) (mem_reqsOf.2 ⟨insJ, hJ', rfl⟩) (Or.inr rfl))

/-- **C01.** For a well-formed processor and a program whose instructions list no source twice, every diagram of
`simulate` (returned, or carried by the stall error) passes the C01 checker: RAW, WAW and WAR hazards are respected. -/
theorem C01_hazard_order (p : Proc N) (prog : List (Instr N)) (tbl : List (Util N)) (stalled : Bool)
    (hwf : wfProc p = true) (hp : ProgOK prog) (h : Diagram p prog tbl stalled) :
    (Spec.C01 (ctx p prog tbl stalled)).ok = true :=
  (C01_ok_iff _).2 (C01_hazard_order_readable p prog tbl stalled hwf hp h)

/-! ## Corollaries in "reads-from" form

`Writes prog k r` / `Reads prog k r`: instruction `k` of the program writes / reads register `r`. Access times are the
elements of `Ctx.accs`; every access happens at most once (`C01_access_once`), so "the" read / write cycle of an
instruction is well defined whenever it exists. -/

/-- instruction `k` writes register `r` -/
def Writes (prog : List (Instr N)) (k : Nat) (r : N) : Prop := ∃ ins, prog[k]? = some ins ∧ ins.dst = r
/-- instruction `k` reads register `r` -/
def Reads (prog : List (Instr N)) (k : Nat) (r : N) : Prop := ∃ ins, prog[k]? = some ins ∧ r ∈ ins.srcs

omit [LT N] [DecidableRel (α := N) (· < ·)] in
theorem Writes.mem_reqsOf {prog : List (Instr N)} {k : Nat} {r : N} (h : Writes prog k r) :
    (true, k) ∈ reqsOf prog r := by
  obtain ⟨ins, h1, h2⟩ := h; exact Hazards.mem_reqsOf.2 ⟨ins, h1, h2⟩

omit [LT N] [DecidableRel (α := N) (· < ·)] in
theorem Reads.mem_reqsOf {prog : List (Instr N)} {k : Nat} {r : N} (h : Reads prog k r) :
    (false, k) ∈ reqsOf prog r := by
  obtain ⟨ins, h1, h2⟩ := h; exact Hazards.mem_reqsOf.2 ⟨ins, h1, h2⟩

section corollaries
variable (p : Proc N) (prog : List (Instr N)) (tbl : List (Util N)) (stalled : Bool)
  (hwf : wfProc p = true) (hp : ProgOK prog) (h : Diagram p prog tbl stalled)
include hwf hp h

/-- every instruction performs its read access (and its write access) in at most one cycle -/
theorem C01_access_once {k : Bool} {i t1 t2 : Nat} (h1 : t1 ∈ (ctx p prog tbl stalled).accs k i)
    (h2 : t2 ∈ (ctx p prog tbl stalled).accs k i) : t1 = t2 :=
  accs_unique hwf hp h h1 h2

/-- an instruction's read access is not after its write access (same cycle in a unit holding both locks) -/
theorem C01_read_before_own_write {i tr tw : Nat} (hr : tr ∈ (ctx p prog tbl stalled).accs false i)
    (hw : tw ∈ (ctx p prog tbl stalled).accs true i) : tr ≤ tw :=
  read_le_write hwf hp h hr hw

/-- conflicting accesses of different instructions: the older instruction's access is strictly earlier -/
theorem C01_conflict_lt {r : N} {i j : Nat} {ki kj : Bool} (hij : i < j) (hi : (ki, i) ∈ reqsOf prog r)
    (hj : (kj, j) ∈ reqsOf prog r) (hconf : ki = true ∨ kj = true) {ti tj : Nat}
    (hti : ti ∈ (ctx p prog tbl stalled).accs ki i) (htj : tj ∈ (ctx p prog tbl stalled).accs kj j) : ti < tj := by
  obtain ⟨t, ht, hlt⟩ := (orderedAcc_iff _ _ _ _ _).1 (ordered_of_conflict hwf hp h hij hi hj hconf) tj htj
  rw [accs_unique hwf hp h hti ht]; exact hlt

/-- **writes to one register are performed in program order** -/
theorem C01_write_order {r : N} {k1 k2 t1 t2 : Nat} (hw1 : Writes prog k1 r) (hw2 : Writes prog k2 r)
    (ht1 : t1 ∈ (ctx p prog tbl stalled).accs true k1) (ht2 : t2 ∈ (ctx p prog tbl stalled).accs true k2) :
    t1 < t2 ↔ k1 < k2 := by
  rcases Nat.lt_trichotomy k1 k2 with hlt | heq | hgt
  · have := C01_conflict_lt p prog tbl stalled hwf hp h hlt hw1.mem_reqsOf hw2.mem_reqsOf (Or.inl rfl) ht1 ht2
    exact ⟨fun _ => hlt, fun _ => this⟩
  · subst heq
    have := accs_unique hwf hp h ht1 ht2
    omega
  · have := C01_conflict_lt p prog tbl stalled hwf hp h hgt hw2.mem_reqsOf hw1.mem_reqsOf (Or.inl rfl) ht2 ht1
    omega

/-- **a read sees exactly the writes of older instructions**: a write to `r` is performed before `j`'s read of `r` iff
its instruction is older than `j` -/
theorem C01_write_before_read_iff {r : N} {j k tj tk : Nat} (hr : Reads prog j r) (hw : Writes prog k r)
    (htj : tj ∈ (ctx p prog tbl stalled).accs false j) (htk : tk ∈ (ctx p prog tbl stalled).accs true k) :
    tk < tj ↔ k < j := by
  rcases Nat.lt_trichotomy k j with hlt | heq | hgt
  · have := C01_conflict_lt p prog tbl stalled hwf hp h hlt hw.mem_reqsOf hr.mem_reqsOf (Or.inl rfl) htk htj
    exact ⟨fun _ => hlt, fun _ => this⟩
  · subst heq
    have := read_le_write hwf hp h htj htk
    omega
  · have := C01_conflict_lt p prog tbl stalled hwf hp h hgt hr.mem_reqsOf hw.mem_reqsOf (Or.inr rfl) htj htk
    omega

/-- **reads-from**: let `k` be the program-order last writer of `r` before `j`. Then `k`'s write is performed before
`j`'s read of `r`, and no other write to `r` is performed between the two: `j` reads what `k` wrote. -/
theorem C01_reads_from {r : N} {j k tj tk : Nat} (hr : Reads prog j r) (hw : Writes prog k r) (hkj : k < j)
    (hlast : ∀ k', Writes prog k' r → k' < j → k' ≤ k)
    (htj : tj ∈ (ctx p prog tbl stalled).accs false j) (htk : tk ∈ (ctx p prog tbl stalled).accs true k) :
    tk < tj ∧ ∀ k' t', Writes prog k' r → t' ∈ (ctx p prog tbl stalled).accs true k' → t' < tj → t' ≤ tk := by
  refine ⟨(C01_write_before_read_iff p prog tbl stalled hwf hp h hr hw htj htk).2 hkj, ?_⟩
  intro k' t' hw' ht' hlt
  have hk'j := (C01_write_before_read_iff p prog tbl stalled hwf hp h hr hw' htj ht').1 hlt
  have hle := hlast k' hw' hk'j
  rcases Nat.lt_or_eq_of_le hle with hlt' | heq
  · exact Nat.le_of_lt ((C01_write_order p prog tbl stalled hwf hp h hw' hw ht' htk).2 hlt')
  · subst heq; exact Nat.le_of_eq (accs_unique hwf hp h ht' htk)

/-- **reads-from, no older writer**: if no instruction before `j` writes `r`, no write to `r` is performed before `j`'s
read: `j` reads the initial content of `r`. -/
theorem C01_reads_initial {r : N} {j tj : Nat} (hr : Reads prog j r) (hnone : ∀ k', Writes prog k' r → ¬ k' < j)
    (htj : tj ∈ (ctx p prog tbl stalled).accs false j) :
    ∀ k' t', Writes prog k' r → t' ∈ (ctx p prog tbl stalled).accs true k' → ¬ t' < tj := by
  intro k' t' hw' ht' hlt
  exact hnone k' hw' ((C01_write_before_read_iff p prog tbl stalled hwf hp h hr hw' htj ht').1 hlt)

/-- **final writer**: the write of the program-order last writer of `r` is performed after every other write to `r`:
the register file ends with the value of sequential execution. -/
theorem C01_final_writer {r : N} {k k' t t' : Nat} (hw : Writes prog k r) (hlast : ∀ k', Writes prog k' r → k' ≤ k)
    (hw' : Writes prog k' r) (hne : k' ≠ k) (ht : t ∈ (ctx p prog tbl stalled).accs true k)
    (ht' : t' ∈ (ctx p prog tbl stalled).accs true k') : t' < t := by
  have : k' < k := Nat.lt_of_le_of_ne (hlast k' hw') hne
  exact (C01_write_order p prog tbl stalled hwf hp h hw' hw ht' ht).2 this

/-- **Replay equals sequential execution, reads-from form** (partial form of `C01_replay_eq_sequential`, see the note
below). For every read of `r` by `j` at cycle `tj` and every write of `r` by `k` at cycle `tk`:
`tk < tj ↔ k < j`; and writes of `r` by `k1`, `k2` at `t1`, `t2`: `t1 < t2 ↔ k1 < k2`. Hence, replaying the diagram's
reads and writes in cycle order (reads of a cycle before its writes), every performed read returns the value written by
the program-order last older writer (or the initial value), and the last performed write to each register is that of
its program-order last writer — whatever the operation. -/
theorem C01_replay_eq_sequential_partial {r : N} :
    (∀ j k tj tk, Reads prog j r → Writes prog k r → tj ∈ (ctx p prog tbl stalled).accs false j →
      tk ∈ (ctx p prog tbl stalled).accs true k → (tk < tj ↔ k < j)) ∧
    (∀ k1 k2 t1 t2, Writes prog k1 r → Writes prog k2 r → t1 ∈ (ctx p prog tbl stalled).accs true k1 →
      t2 ∈ (ctx p prog tbl stalled).accs true k2 → (t1 < t2 ↔ k1 < k2)) :=
  ⟨fun _ _ _ _ hr hw htj htk => C01_write_before_read_iff p prog tbl stalled hwf hp h hr hw htj htk,
   fun _ _ _ _ hw1 hw2 ht1 ht2 => C01_write_order p prog tbl stalled hwf hp h hw1 hw2 ht1 ht2⟩

end corollaries

/-! ## Existence of the accesses in a returned diagram -/

/-- **In a returned diagram every instruction performs its read access and its write access** (in exactly one cycle
each, by `C01_access_once`): a finished run has moved every instruction through an output-boundary port, and on every
walk from an input port to the output boundary there is a read-locking and a write-locking unit. -/
theorem C01_access_exists (p : Proc N) (prog : List (Instr N)) (tbl : List (Util N))
    (hwf : wfProc p = true) (hp : ProgOK prog) (h : Diagram p prog tbl false) {i : Nat} (hi : i < prog.length)
    (k : Bool) : ∃ t, t ∈ (ctx p prog tbl false).accs k i := by
  obtain ⟨_, _, _, _, hlastrow⟩ := Diagram_route hwf h
  obtain ⟨s, ⟨hinv, hdn⟩, htbl, _, hfin⟩ := simulate_induction (p := p) (prog := prog)
    (fun s => HazardInv p prog s ∧ DoneInv p prog s) ⟨HazardInv.init p prog, DoneInv.init p prog⟩
    (fun s s' hs hr => ⟨hs.1.step hwf hp hr, hs.2.step hwf hs.1.core hs.1.host hr⟩) tbl false h
  have hf := hfin rfl
  simp only [SimState.finished, Bool.not_eq_true', Bool.or_eq_false_iff, decide_eq_false_iff_not,
    Nat.not_lt] at hf
  have hent : i < s.entered := by omega
  have hg : ∀ k, grantedB p s.table k i = true := by
    rcases hdn i hent with ⟨n, hn⟩ | hg
    · obtain ⟨y, hy, hyi⟩ := List.mem_map.1 hn
      have hy' : y ∈ (tbl.getD (tbl.length - 1) ([] : List (N × List HI))).get n := by
        rw [htbl, List.length_reverse, ← head?_getD_eq_reverse_getD, ← hinv.core.util_eq]; exact hy
      obtain ⟨hout, hU⟩ := (hlastrow rfl).2 n y hy'
      have hne : s.util.get n ≠ [] := fun e => by rw [e] at hy; cases hy
      obtain ⟨u, hu, hun⟩ := List.mem_map.1 (hinv.core.row.names n hne)
      subst hun
      intro k
      rw [← hyi]
      exact granted_of_outB hwf hinv.host hu hout hy (by rw [hU]; decide) k
    · exact hg
  have hd : (ctx p prog tbl false).doneBefore k i tbl.length = true := by
    rw [doneBefore_eq, List.take_length, htbl, grantedB_reverse]; exact hg k
  unfold Ctx.doneBefore at hd
  rw [List.any_eq_true] at hd
  obtain ⟨t, ht, _⟩ := hd
  exact ⟨t, ht⟩

/-! ## Non-vacuity

Processor over `Nat` names: capability `7` goes through input port `0` (width 1, read lock) and output port `1`
(width 1, write lock) — separate read-locking and write-locking units; capability `8` is served by the in-out port `2`
(width 2, both locks). Program (registers are numbers):

    I0: R1 := f(R2, R3)   cap 7
    I1: R4 := f(R1)       cap 8     RAW on R1 with I0
    I2: R2 := f(R5)       cap 8     WAR on R2 with I0
    I3: R4 := f(R6)       cap 7     WAW on R4 with I1
    I4: R7 := f(R1, R7)   cap 8     reads its own destination; RAW on R1 with I0

The run returns the 4-cycle diagram `table` below, in which all three kinds of hazard delay an instruction. -/
namespace C01Example

def rdU : UnitM Nat := ⟨0, 1, [7], true, false, []⟩
def wrU : UnitM Nat := ⟨1, 1, [7], false, true, []⟩
def bothU : UnitM Nat := ⟨2, 2, [8], true, true, []⟩
def proc : Proc Nat := { inPorts := [rdU], outPorts := [⟨wrU, [0]⟩], inOut := [bothU], internal := [] }
def prog : List (Instr Nat) :=
  [⟨[2, 3], 1, 7⟩, ⟨[1], 4, 8⟩, ⟨[5], 2, 8⟩, ⟨[6], 4, 7⟩, ⟨[1, 7], 7, 8⟩]

/-- the diagram: unit ↦ hosted instructions, cycle by cycle -/
def table : List (Util Nat) :=
  [ [(2, [⟨1, .D⟩, ⟨2, .D⟩]), (1, []), (0, [⟨0, .U⟩])],
    [(2, [⟨1, .D⟩, ⟨2, .U⟩]), (1, [⟨0, .U⟩]), (0, [⟨3, .U⟩])],
    [(2, [⟨1, .U⟩, ⟨4, .U⟩]), (1, [⟨3, .D⟩]), (0, [])],
    [(2, []), (1, [⟨3, .U⟩]), (0, [])] ]

example : wfProc proc = true := by decide
example : progOK prog = true := by decide

def isDoneWith (o : Outcome Nat) (t : List (Util Nat)) : Bool :=
  match o with
  | .done t' => decide (t' = t)
  | _ => false

theorem sim_done : isDoneWith (simulate proc prog) table = true := by decide

theorem sim_eq : simulate proc prog = .done table := by
  have h := sim_done
  unfold isDoneWith at h
  split at h
  · next t' e => rw [e]; congr 1; exact of_decide_eq_true h
  · cases h

/-- the hypotheses of `C01_hazard_order` are satisfiable, and the theorem applies to the diagram -/
example : Diagram proc prog table false ∧ (Spec.C01 (ctx proc prog table false)).ok = true :=
  ⟨Or.inl ⟨rfl, sim_eq⟩,
   C01_hazard_order proc prog table false (by decide) ((progOK_iff prog).1 (by decide)) (Or.inl ⟨rfl, sim_eq⟩)⟩

-- the checker agrees by evaluation
example : (Spec.C01 (ctx proc prog table false)).ok = true := by decide
-- access plan of R1: written by I0, then read by I1 and I4 together
example : reqsOf prog 1 = [(true, 0), (false, 1), (false, 4)] := by decide
example : (buildPlan prog).get 1 = [⟨true, [0]⟩, ⟨false, [1, 4]⟩] := by decide
-- access plan of R7: I4's own read, then its write
example : reqsOf prog 7 = [(false, 4), (true, 4)] := by decide
-- RAW: I0 writes R1 in cycle 1, I1 and I4 read it in cycle 2
example : (ctx proc prog table false).accs true 0 = [1] ∧ (ctx proc prog table false).accs false 1 = [2] ∧
    (ctx proc prog table false).accs false 4 = [2] := by decide
-- WAR: I0 reads R2 in cycle 0, I2 writes it in cycle 1
example : (ctx proc prog table false).accs false 0 = [0] ∧ (ctx proc prog table false).accs true 2 = [1] := by decide
-- WAW: I1 writes R4 in cycle 2, I3 in cycle 3
example : (ctx proc prog table false).accs true 1 = [2] ∧ (ctx proc prog table false).accs true 3 = [3] := by decide
-- the self-dependent I4 reads and writes R7 in the same cycle
example : (ctx proc prog table false).accs false 4 = [2] ∧ (ctx proc prog table false).accs true 4 = [2] := by decide
-- a diagram with the write of I0 and the read of I1 in the same cycle is rejected by the checker
example : (Spec.C01 (ctx proc prog
    [ [(2, [⟨1, .D⟩]), (0, [⟨0, .U⟩])], [(2, [⟨1, .U⟩]), (1, [⟨0, .U⟩])] ] false)).ok = false := by decide

end C01Example

end ProcSim
