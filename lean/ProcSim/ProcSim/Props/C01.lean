import ProcSim.Lemmas.Hazards
import ProcSim.Lemmas.Routes
/-!
# C01 — register hazards respected: conflicting accesses occur in program order

"In every pipeline diagram the simulator returns or attaches to a stall error, whenever two instructions touch the same
register and at least one touch is a write, the earlier instruction is shown performing its touch (unstalled in the unit
that locks registers for reading, resp. writing) in a strictly earlier cycle than the later one performs its own."

"Replaying reads and writes in diagram order therefore gives every instruction the operand values, and the register file
the final contents, of sequential execution (no RAW, WAR or WAW violation)."

* first sentence: `C01_hazard_order` (the checker `Spec.C01`, clauses RAW / WAW / WAR over `Ctx.accs`), for returned
  and stall diagrams; readable consequences `C01_access_once`, `C01_write_order`, `C01_reads_from`, `C01_final_writer`, …
* second sentence: `C01_replay_eq_sequential` (for returned diagrams: `replay` of the diagram = `seqRun`, for an
  arbitrary operation and initial register file), with `C01_access_exists` (every access is performed);
* the checker: `Spec.C01` (`ProcSim/Spec/Sim.lean`), clauses RAW / WAW / WAR over `Ctx.accs`;
* proof: `ProcSim/Lemmas/Hazards.lean` — the access plan (`buildPlan_get`), the queue invariant `PlanInv`
  (every queue = the plan's requests not yet shown granted), the host invariant `HazInv` (walk of every hosted
  instruction, position of the locks from `wfProc`), `ordered_of_conflict`.

Hypotheses: `wfProc p` and `ProgOK prog` (no instruction lists a source register twice — guaranteed by the
`HwInstruction` constructor of the real code, which stores the sorted de-duplicated source tuple; with a repeated
source the *model* would dequeue the same read twice).
-/
namespace ProcSim
open Spec Hazards

attribute [local implicit_reducible] AMap

variable {N : Type} [DecidableEq N]

/-- every access of kind `kj` of `j` is preceded, in a strictly earlier cycle, by an access of kind `ki` of `i` -/
def Precedes (c : Ctx N) (ki kj : Bool) (i j : Nat) : Prop :=
  ∀ tj ∈ c.accs kj j, ∃ ti ∈ c.accs ki i, ti < tj

theorem orderedAcc_iff (c : Ctx N) (ki kj : Bool) (i j : Nat) : orderedAcc c ki kj i j = true ↔ Precedes c ki kj i j := by
  simp [orderedAcc, Precedes]

/-- C01, readable form: for instructions `i < j` of the program,
* RAW — if `j` reads the register `i` writes, `i`'s write access precedes `j`'s read access;
* WAW — if both write the same register, `i`'s write access precedes `j`'s;
* WAR — if `j` writes a register `i` reads, `i`'s read access precedes `j`'s write access
(`accs false k` / `accs true k`: the cycles in which `k` is shown unstalled in a unit holding the read / write lock). -/
def C01_Holds (c : Ctx N) : Prop :=
  ∀ i j insI insJ, i < j → c.prog[i]? = some insI → c.prog[j]? = some insJ →
    (insI.dst ∈ insJ.srcs → Precedes c true false i j) ∧
    (insI.dst = insJ.dst → Precedes c true true i j) ∧
    (insJ.dst ∈ insI.srcs → Precedes c false true i j)

theorem mem_pairs {n i j : Nat} :
    (i, j) ∈ (List.range n).flatMap (fun j => (List.range j).map (fun i => (i, j))) ↔ i < j ∧ j < n := by
  simp only [List.mem_flatMap, List.mem_range, List.mem_map, Prod.mk.injEq]
  constructor
  · rintro ⟨j', hj', i', hi', rfl, rfl⟩; exact ⟨hi', hj'⟩
  · rintro ⟨h1, h2⟩; exact ⟨j, h2, i, h1, rfl, rfl⟩

/-- the Bool clauses evaluated by the driver say exactly `C01_Holds` -/
theorem C01_ok_iff (c : Ctx N) : (Spec.C01 c).ok = true ↔ C01_Holds c := by
  simp only [Spec.C01, Clauses.ok, List.all_cons, List.all_nil, Bool.and_true, Bool.and_eq_true, List.all_eq_true,
    Prod.forall, mem_pairs, C01_Holds, ← orderedAcc_iff]
  constructor
  · rintro ⟨h1, h2, h3⟩ i j insI insJ hij hI hJ
    have hjn : j < c.n := (List.getElem?_eq_some_iff.1 hJ).1
    refine ⟨fun hd => ?_, fun hd => ?_, fun hd => ?_⟩
    · have := h1 i j ⟨hij, hjn⟩ insI.dst (by simpa [Ctx.srcs, hJ] using hd)
      simpa [Ctx.writes, Ctx.dst?, hI] using this
    · have := h2 i j ⟨hij, hjn⟩
      simpa [Ctx.writes, Ctx.dst?, hI, hJ, hd] using this
    · have := h3 i j ⟨hij, hjn⟩
      simpa [Ctx.reads, Ctx.srcs, Ctx.dst?, hI, hJ, hd] using this
  · intro h
    refine ⟨?_, ?_, ?_⟩
    · rintro i j ⟨hij, hjn⟩ r hr
      obtain ⟨insJ, hJ⟩ : ∃ insJ, c.prog[j]? = some insJ := ⟨c.prog[j]'hjn, List.getElem?_eq_getElem hjn⟩
      obtain ⟨insI, hI⟩ : ∃ insI, c.prog[i]? = some insI :=
        ⟨c.prog[i]'(Nat.lt_trans hij hjn), List.getElem?_eq_getElem (Nat.lt_trans hij hjn)⟩
      have hr' : r ∈ insJ.srcs := by simpa [Ctx.srcs, hJ] using hr
      by_cases hd : insI.dst = r
      · subst hd
        have := (h i j insI insJ hij hI hJ).1 hr'
        simp [this]
      · simp [Ctx.writes, Ctx.dst?, hI, hd]
    · rintro i j ⟨hij, hjn⟩
      obtain ⟨insJ, hJ⟩ : ∃ insJ, c.prog[j]? = some insJ := ⟨c.prog[j]'hjn, List.getElem?_eq_getElem hjn⟩
      obtain ⟨insI, hI⟩ : ∃ insI, c.prog[i]? = some insI :=
        ⟨c.prog[i]'(Nat.lt_trans hij hjn), List.getElem?_eq_getElem (Nat.lt_trans hij hjn)⟩
      by_cases hd : insI.dst = insJ.dst
      · have := (h i j insI insJ hij hI hJ).2.1 hd
        simp [Ctx.dst?, hJ, this]
      · simp [Ctx.writes, Ctx.dst?, hI, hJ, hd]
    · rintro i j ⟨hij, hjn⟩
      obtain ⟨insJ, hJ⟩ : ∃ insJ, c.prog[j]? = some insJ := ⟨c.prog[j]'hjn, List.getElem?_eq_getElem hjn⟩
      obtain ⟨insI, hI⟩ : ∃ insI, c.prog[i]? = some insI :=
        ⟨c.prog[i]'(Nat.lt_trans hij hjn), List.getElem?_eq_getElem (Nat.lt_trans hij hjn)⟩
      by_cases hd : insJ.dst ∈ insI.srcs
      · have := (h i j insI insJ hij hI hJ).2.2 hd
        simp [Ctx.dst?, hJ, this]
      · simp [Ctx.reads, Ctx.srcs, Ctx.dst?, hI, hJ, hd]

variable [LT N] [DecidableRel (α := N) (· < ·)]

/-- **C01 (readable form).** -/
theorem C01_hazard_order_readable (p : Proc N) (prog : List (Instr N)) (tbl : List (Util N)) (stalled : Bool)
    (hwf : wfProc p = true) (hp : ProgOK prog) (h : Diagram p prog tbl stalled) :
    C01_Holds (ctx p prog tbl stalled) := by
  intro i j insI insJ hij hI hJ
  have hI' : prog[i]? = some insI := hI
  have hJ' : prog[j]? = some insJ := hJ
  refine ⟨fun hd => ?_, fun hd => ?_, fun hd => ?_⟩
  · exact (orderedAcc_iff _ _ _ _ _).1 (ordered_of_conflict hwf hp h (r := insI.dst) hij
      (mem_reqsOf.2 ⟨insI, hI', rfl⟩) (mem_reqsOf.2 ⟨insJ, hJ', hd⟩) (Or.inl rfl))
  · exact (orderedAcc_iff _ _ _ _ _).1 (ordered_of_conflict hwf hp h (r := insI.dst) hij
      (mem_reqsOf.2 ⟨insI, hI', rfl⟩) (mem_reqsOf.2 ⟨insJ, hJ', hd.symm⟩) (Or.inl rfl))
  · exact (orderedAcc_iff _ _ _ _ _).1 (ordered_of_conflict hwf hp h (r := insJ.dst) hij
      (mem_reqsOf.2 ⟨insI, hI', hd⟩) (mem_reqsOf.2 ⟨insJ, hJ', rfl⟩) (Or.inr rfl))

/-- **C01.** For a well-formed processor and a program whose instructions list no source twice, every diagram of
`simulate` (returned, or carried by the stall error) passes the C01 checker: RAW, WAW and WAR hazards are respected. -/
theorem C01_hazard_order (p : Proc N) (prog : List (Instr N)) (tbl : List (Util N)) (stalled : Bool)
    (hwf : wfProc p = true) (hp : ProgOK prog) (h : Diagram p prog tbl stalled) :
    (Spec.C01 (ctx p prog tbl stalled)).ok = true :=
  (C01_ok_iff _).2 (C01_hazard_order_readable p prog tbl stalled hwf hp h)

/-! ## Corollaries in "reads-from" form

`Writes prog k r` / `Reads prog k r`: instruction `k` of the program writes / reads register `r`. Access times are the
elements of `Ctx.accs`; every access happens at most once (`C01_access_once`), so "the" read / write cycle of an
instruction is well defined whenever it exists. -/

/-- instruction `k` writes register `r` -/
def Writes (prog : List (Instr N)) (k : Nat) (r : N) : Prop := ∃ ins, prog[k]? = some ins ∧ ins.dst = r
/-- instruction `k` reads register `r` -/
def Reads (prog : List (Instr N)) (k : Nat) (r : N) : Prop := ∃ ins, prog[k]? = some ins ∧ r ∈ ins.srcs

omit [LT N] [DecidableRel (α := N) (· < ·)] in
theorem Writes.mem_reqsOf {prog : List (Instr N)} {k : Nat} {r : N} (h : Writes prog k r) :
    (true, k) ∈ reqsOf prog r := by
  obtain ⟨ins, h1, h2⟩ := h; exact Hazards.mem_reqsOf.2 ⟨ins, h1, h2⟩

omit [LT N] [DecidableRel (α := N) (· < ·)] in
theorem Reads.mem_reqsOf {prog : List (Instr N)} {k : Nat} {r : N} (h : Reads prog k r) :
    (false, k) ∈ reqsOf prog r := by
  obtain ⟨ins, h1, h2⟩ := h; exact Hazards.mem_reqsOf.2 ⟨ins, h1, h2⟩

section corollaries
variable (p : Proc N) (prog : List (Instr N)) (tbl : List (Util N)) (stalled : Bool)
  (hwf : wfProc p = true) (hp : ProgOK prog) (h : Diagram p prog tbl stalled)
include hwf hp h

/-- every instruction performs its read access (and its write access) in at most one cycle -/
theorem C01_access_once {k : Bool} {i t1 t2 : Nat} (h1 : t1 ∈ (ctx p prog tbl stalled).accs k i)
    (h2 : t2 ∈ (ctx p prog tbl stalled).accs k i) : t1 = t2 :=
  accs_unique hwf hp h h1 h2

/-- an instruction's read access is not after its write access (same cycle in a unit holding both locks) -/
theorem C01_read_before_own_write {i tr tw : Nat} (hr : tr ∈ (ctx p prog tbl stalled).accs false i)
    (hw : tw ∈ (ctx p prog tbl stalled).accs true i) : tr ≤ tw :=
  read_le_write hwf hp h hr hw

/-- conflicting accesses of different instructions: the older instruction's access is strictly earlier -/
theorem C01_conflict_lt {r : N} {i j : Nat} {ki kj : Bool} (hij : i < j) (hi : (ki, i) ∈ reqsOf prog r)
    (hj : (kj, j) ∈ reqsOf prog r) (hconf : ki = true ∨ kj = true) {ti tj : Nat}
    (hti : ti ∈ (ctx p prog tbl stalled).accs ki i) (htj : tj ∈ (ctx p prog tbl stalled).accs kj j) : ti < tj := by
  obtain ⟨t, ht, hlt⟩ := (orderedAcc_iff _ _ _ _ _).1 (ordered_of_conflict hwf hp h hij hi hj hconf) tj htj
  rw [accs_unique hwf hp h hti ht]; exact hlt

/-- **writes to one register are performed in program order** -/
theorem C01_write_order {r : N} {k1 k2 t1 t2 : Nat} (hw1 : Writes prog k1 r) (hw2 : Writes prog k2 r)
    (ht1 : t1 ∈ (ctx p prog tbl stalled).accs true k1) (ht2 : t2 ∈ (ctx p prog tbl stalled).accs true k2) :
    t1 < t2 ↔ k1 < k2 := by
  rcases Nat.lt_trichotomy k1 k2 with hlt | heq | hgt
  · have := C01_conflict_lt p prog tbl stalled hwf hp h hlt hw1.mem_reqsOf hw2.mem_reqsOf (Or.inl rfl) ht1 ht2
    exact ⟨fun _ => hlt, fun _ => this⟩
  · subst heq
    have := accs_unique hwf hp h ht1 ht2
    omega
  · have := C01_conflict_lt p prog tbl stalled hwf hp h hgt hw2.mem_reqsOf hw1.mem_reqsOf (Or.inl rfl) ht2 ht1
    omega

/-- **a read sees exactly the writes of older instructions**: a write to `r` is performed before `j`'s read of `r` iff
its instruction is older than `j` -/
theorem C01_write_before_read_iff {r : N} {j k tj tk : Nat} (hr : Reads prog j r) (hw : Writes prog k r)
    (htj : tj ∈ (ctx p prog tbl stalled).accs false j) (htk : tk ∈ (ctx p prog tbl stalled).accs true k) :
    tk < tj ↔ k < j := by
  rcases Nat.lt_trichotomy k j with hlt | heq | hgt
  · have := C01_conflict_lt p prog tbl stalled hwf hp h hlt hw.mem_reqsOf hr.mem_reqsOf (Or.inl rfl) htk htj
    exact ⟨fun _ => hlt, fun _ => this⟩
  · subst heq
    have := read_le_write hwf hp h htj htk
    omega
  · have := C01_conflict_lt p prog tbl stalled hwf hp h hgt hr.mem_reqsOf hw.mem_reqsOf (Or.inr rfl) htj htk
    omega

/-- **reads-from**: let `k` be the program-order last writer of `r` before `j`. Then `k`'s write is performed before
`j`'s read of `r`, and no other write to `r` is performed between the two: `j` reads what `k` wrote. -/
theorem C01_reads_from {r : N} {j k tj tk : Nat} (hr : Reads prog j r) (hw : Writes prog k r) (hkj : k < j)
    (hlast : ∀ k', Writes prog k' r → k' < j → k' ≤ k)
    (htj : tj ∈ (ctx p prog tbl stalled).accs false j) (htk : tk ∈ (ctx p prog tbl stalled).accs true k) :
    tk < tj ∧ ∀ k' t', Writes prog k' r → t' ∈ (ctx p prog tbl stalled).accs true k' → t' < tj → t' ≤ tk := by
  refine ⟨(C01_write_before_read_iff p prog tbl stalled hwf hp h hr hw htj htk).2 hkj, ?_⟩
  intro k' t' hw' ht' hlt
  have hk'j := (C01_write_before_read_iff p prog tbl stalled hwf hp h hr hw' htj ht').1 hlt
  have hle := hlast k' hw' hk'j
  rcases Nat.lt_or_eq_of_le hle with hlt' | heq
  · exact Nat.le_of_lt ((C01_write_order p prog tbl stalled hwf hp h hw' hw ht' htk).2 hlt')
  · subst heq; exact Nat.le_of_eq (accs_unique hwf hp h ht' htk)

/-- **reads-from, no older writer**: if no instruction before `j` writes `r`, no write to `r` is performed before `j`'s
read: `j` reads the initial content of `r`. -/
theorem C01_reads_initial {r : N} {j tj : Nat} (hr : Reads prog j r) (hnone : ∀ k', Writes prog k' r → ¬ k' < j)
    (htj : tj ∈ (ctx p prog tbl stalled).accs false j) :
    ∀ k' t', Writes prog k' r → t' ∈ (ctx p prog tbl stalled).accs true k' → ¬ t' < tj := by
  intro k' t' hw' ht' hlt
  exact hnone k' hw' ((C01_write_before_read_iff p prog tbl stalled hwf hp h hr hw' htj ht').1 hlt)

/-- **final writer**: the write of the program-order last writer of `r` is performed after every other write to `r`:
the register file ends with the value of sequential execution. -/
theorem C01_final_writer {r : N} {k k' t t' : Nat} (hw : Writes prog k r) (hlast : ∀ k', Writes prog k' r → k' ≤ k)
    (hw' : Writes prog k' r) (hne : k' ≠ k) (ht : t ∈ (ctx p prog tbl stalled).accs true k)
    (ht' : t' ∈ (ctx p prog tbl stalled).accs true k') : t' < t := by
  have : k' < k := Nat.lt_of_le_of_ne (hlast k' hw') hne
  exact (C01_write_order p prog tbl stalled hwf hp h hw' hw ht' ht).2 this

/-- **Reads-from and write order, as equivalences.** For every read of `r` by `j` at cycle `tj` and every write of `r`
by `k` at cycle `tk`: `tk < tj ↔ k < j`; and for writes of `r` by `k1`, `k2` at `t1`, `t2`: `t1 < t2 ↔ k1 < k2`.
(These are the order facts behind `C01_replay_eq_sequential` below.) -/
theorem C01_reads_from_iff {r : N} :
    (∀ j k tj tk, Reads prog j r → Writes prog k r → tj ∈ (ctx p prog tbl stalled).accs false j →
      tk ∈ (ctx p prog tbl stalled).accs true k → (tk < tj ↔ k < j)) ∧
    (∀ k1 k2 t1 t2, Writes prog k1 r → Writes prog k2 r → t1 ∈ (ctx p prog tbl stalled).accs true k1 →
      t2 ∈ (ctx p prog tbl stalled).accs true k2 → (t1 < t2 ↔ k1 < k2)) :=
  ⟨fun _ _ _ _ hr hw htj htk => C01_write_before_read_iff p prog tbl stalled hwf hp h hr hw htj htk,
   fun _ _ _ _ hw1 hw2 ht1 ht2 => C01_write_order p prog tbl stalled hwf hp h hw1 hw2 ht1 ht2⟩

end corollaries

/-! ## Existence of the accesses in a returned diagram -/

/-- **In a returned diagram every instruction performs its read access and its write access** (in exactly one cycle
each, by `C01_access_once`): a finished run has moved every instruction through an output-boundary port, and on every
walk from an input port to the output boundary there is a read-locking and a write-locking unit. -/
theorem C01_access_exists (p : Proc N) (prog : List (Instr N)) (tbl : List (Util N))
    (hwf : wfProc p = true) (hp : ProgOK prog) (h : Diagram p prog tbl false) {i : Nat} (hi : i < prog.length)
    (k : Bool) : ∃ t, t ∈ (ctx p prog tbl false).accs k i := by
  obtain ⟨_, _, _, _, hlastrow⟩ := Diagram_route hwf h
  obtain ⟨s, ⟨hinv, hdn⟩, htbl, _, hfin⟩ := simulate_induction (p := p) (prog := prog)
    (fun s => HazardInv p prog s ∧ DoneInv p prog s) ⟨HazardInv.init p prog, DoneInv.init p prog⟩
    (fun s s' hs hr => ⟨hs.1.step hwf hp hr, hs.2.step hwf hs.1.core hs.1.host hr⟩) tbl false h
  have hf := hfin rfl
  simp only [SimState.finished, Bool.not_eq_true', Bool.or_eq_false_iff, decide_eq_false_iff_not,
    Nat.not_lt] at hf
  have hent : i < s.entered := by omega
  have hg : ∀ k, grantedB p s.table k i = true := by
    rcases hdn i hent with ⟨n, hn⟩ | hg
    · obtain ⟨y, hy, hyi⟩ := List.mem_map.1 hn
      have hy' : y ∈ (tbl.getD (tbl.length - 1) ([] : List (N × List HI))).get n := by
        rw [htbl, List.length_reverse, ← head?_getD_eq_reverse_getD, ← hinv.core.util_eq]; exact hy
      obtain ⟨hout, hU⟩ := (hlastrow rfl).2 n y hy'
      have hne : s.util.get n ≠ [] := fun e => by rw [e] at hy; cases hy
      obtain ⟨u, hu, hun⟩ := List.mem_map.1 (hinv.core.row.names n hne)
      subst hun
      intro k
      rw [← hyi]
      exact granted_of_outB hwf hinv.host hu hout hy (by rw [hU]; decide) k
    · exact hg
  have hd : (ctx p prog tbl false).doneBefore k i tbl.length = true := by
    rw [doneBefore_eq, List.take_length, htbl, grantedB_reverse]; exact hg k
  unfold Ctx.doneBefore at hd
  rw [List.any_eq_true] at hd
  obtain ⟨t, ht, _⟩ := hd
  exact ⟨t, ht⟩

/-! ## Replay of a returned diagram = sequential execution -/

section replay
variable {V : Type}
omit [LT N] [DecidableRel (α := N) (· < ·)]

/-- sequential execution of one instruction on a register file, for an arbitrary operation `op` -/
def seqStep (op : Instr N → List V → V) (rf : N → V) (ins : Instr N) : N → V :=
  fun r => if ins.dst = r then op ins (ins.srcs.map rf) else rf r

/-- sequential execution of a program -/
def seqRun (op : Instr N → List V → V) (rf0 : N → V) (prog : List (Instr N)) : N → V :=
  prog.foldl (seqStep op) rf0

/-- the operand values instruction `i` gets in sequential execution -/
def seqOperands (op : Instr N → List V → V) (rf0 : N → V) (prog : List (Instr N)) (i : Nat) : List V :=
  match prog[i]? with
  | some ins => ins.srcs.map (seqRun op rf0 (prog.take i))
  | none => []

/-- the reads of cycle `t`: every instruction shown performing its read access latches the current values of its
sources -/
def readPhase (c : Ctx N) (t : Nat) (rf : N → V) (lat : Nat → List V) : Nat → List V :=
  (List.range c.n).foldl
    (fun lat i => if t ∈ c.accs false i then (fun j => if j = i then (c.srcs i).map rf else lat j) else lat) lat

/-- the writes of cycle `t`: every instruction shown performing its write access stores `op` of its latched operands -/
def writePhase (op : Instr N → List V → V) (c : Ctx N) (t : Nat) (lat : Nat → List V) (rf : N → V) : N → V :=
  (List.range c.n).foldl
    (fun rf i => if t ∈ c.accs true i then
        match c.prog[i]? with
        | some ins => (fun r => if ins.dst = r then op ins (lat i) else rf r)
        | none => rf
      else rf) rf

/-- one cycle of the replay: reads, then writes -/
def replayStep (op : Instr N → List V → V) (c : Ctx N) (st : (N → V) × (Nat → List V)) (t : Nat) :
    (N → V) × (Nat → List V) :=
  (writePhase op c t (readPhase c t st.1 st.2) st.1, readPhase c t st.1 st.2)

/-- replay of the diagram in cycle order: final register file and latched operands -/
def replay (op : Instr N → List V → V) (c : Ctx N) (rf0 : N → V) : (N → V) × (Nat → List V) :=
  (List.range c.T).foldl (replayStep op c) (rf0, fun _ => [])

/-! ### sequential execution: the value of a register before instruction `j` -/

theorem seqRun_take_succ (op : Instr N → List V → V) (rf0 : N → V) (prog : List (Instr N)) (j : Nat) :
    seqRun op rf0 (prog.take (j + 1)) =
      match prog[j]? with
      | some ins => seqStep op (seqRun op rf0 (prog.take j)) ins
      | none => seqRun op rf0 (prog.take j) := by
  unfold seqRun
  rw [List.take_add_one]
  cases prog[j]? with
  | none => simp
  | some ins => simp [List.foldl_append]

theorem seqRun_no_writer (op : Instr N → List V → V) (rf0 : N → V) (prog : List (Instr N)) (r : N) (j : Nat)
    (h : ∀ k, k < j → ¬ Writes prog k r) : seqRun op rf0 (prog.take j) r = rf0 r := by
  induction j with
  | zero => simp [seqRun]
  | succ j ih =>
    rw [seqRun_take_succ]
    have ih' := ih (fun k hk => h k (by omega))
    cases hp : prog[j]? with
    | none => exact ih'
    | some ins =>
      simp only [seqStep]
      have : ¬ ins.dst = r := fun e => h j (by omega) ⟨ins, hp, e⟩
      rw [if_neg this]; exact ih'

theorem seqRun_last_writer (op : Instr N → List V → V) (rf0 : N → V) (prog : List (Instr N)) (r : N) (k : Nat)
    (ins : Instr N) (hk : prog[k]? = some ins) (hd : ins.dst = r) (j : Nat) (hkj : k < j)
    (h : ∀ k', k < k' → k' < j → ¬ Writes prog k' r) :
    seqRun op rf0 (prog.take j) r = op ins (seqOperands op rf0 prog k) := by
  induction j with
  | zero => omega
  | succ j ih =>
    rw [seqRun_take_succ]
    by_cases e : k = j
    · subst e
      simp only [hk, seqStep, hd, if_true, seqOperands]
    · have ih' := ih (by omega) (fun k' h1 h2 => h k' h1 (by omega))
      cases hp : prog[j]? with
      | none => exact ih'
      | some ins' =>
        simp only [seqStep]
        have : ¬ ins'.dst = r := fun e' => h j (by omega) (by omega) ⟨ins', hp, e'⟩
        rw [if_neg this]; exact ih'

/-! ### the two folds of a cycle -/

theorem foldl_latch {α : Type} (l : List Nat) (P : Nat → Prop) [DecidablePred P] (val : Nat → α) (lat : Nat → α)
    (j : Nat) :
    (l.foldl (fun lat i => if P i then (fun j => if j = i then val i else lat j) else lat) lat) j =
      if j ∈ l ∧ P j then val j else lat j := by
  induction l generalizing lat with
  | nil => simp
  | cons a l ih =>
    rw [List.foldl_cons, ih]
    by_cases hj : j ∈ l ∧ P j
    · rw [if_pos hj, if_pos ⟨List.mem_cons_of_mem _ hj.1, hj.2⟩]
    · rw [if_neg hj]
      by_cases ha : P a
      · simp only [ha, if_true]
        by_cases hja : j = a
        · subst hja; simp [ha]
        · rw [if_neg hja, if_neg]
          rintro ⟨h1, h2⟩
          rcases List.mem_cons.1 h1 with e | e
          · exact hja e
          · exact hj ⟨e, h2⟩
      · simp only [ha, if_false]
        rw [if_neg]
        rintro ⟨h1, h2⟩
        rcases List.mem_cons.1 h1 with e | e
        · subst e; exact ha h2
        · exact hj ⟨e, h2⟩

theorem foldl_write (prog : List (Instr N)) (op : Instr N → List V → V) (lat : Nat → List V) (l : List Nat)
    (P : Nat → Prop) [DecidablePred P] (init : N → V) (r : N) (x : V)
    (hv : ∀ i ∈ l, P i → ∀ ins, prog[i]? = some ins → ins.dst = r → op ins (lat i) = x)
    (hx : init r = x ∨ ∃ i ∈ l, P i ∧ ∃ ins, prog[i]? = some ins ∧ ins.dst = r) :
    (l.foldl (fun rf i => if P i then
        match prog[i]? with
        | some ins => (fun r' => if ins.dst = r' then op ins (lat i) else rf r')
        | none => rf
      else rf) init) r = x := by
  induction l generalizing init with
  | nil =>
    rcases hx with h | ⟨i, hi, _⟩
    · exact h
    · cases hi
  | cons a l ih =>
    rw [List.foldl_cons]
    refine ih _ (fun i hi => hv i (List.mem_cons_of_mem _ hi)) ?_
    by_cases hw : P a ∧ ∃ ins, prog[a]? = some ins ∧ ins.dst = r
    · obtain ⟨hPa, ins, hins, hd⟩ := hw
      left
      simp only [hPa, if_true, hins, hd]
      exact hv a List.mem_cons_self hPa ins hins hd
    · rcases hx with h | ⟨i, hi, hPi, hins⟩
      · left
        by_cases hPa : P a
        · simp only [hPa, if_true]
          cases hp : prog[a]? with
          | none => exact h
          | some ins =>
            have : ¬ ins.dst = r := fun e => hw ⟨hPa, ins, hp, e⟩
            simp only [this, if_false]; exact h
        · simp only [hPa, if_false]; exact h
      · rcases List.mem_cons.1 hi with e | e
        · subst e; exact absurd ⟨hPi, hins⟩ hw
        · right; exact ⟨i, e, hPi, hins⟩

/-! ### the replay invariant -/

/-- the access times of a diagram in which every instruction performs each access exactly once, and what C01 says about
them -/
structure AccTimes (c : Ctx N) (RT WT : Nat → Nat) : Prop where
  rt : ∀ i, i < c.n → ∀ t, t ∈ c.accs false i ↔ t = RT i
  wt : ∀ i, i < c.n → ∀ t, t ∈ c.accs true i ↔ t = WT i
  wlt : ∀ i, i < c.n → WT i < c.T
  rw : ∀ i, i < c.n → RT i ≤ WT i
  raw : ∀ j k r, j < c.n → k < c.n → Reads c.prog j r → Writes c.prog k r → (WT k < RT j ↔ k < j)
  ww : ∀ k1 k2 r, k1 < c.n → k2 < c.n → Writes c.prog k1 r → Writes c.prog k2 r → (WT k1 < WT k2 ↔ k1 < k2)

/-- after `m` replayed cycles: every read performed so far latched the sequential operand values, and every register
whose performed writes are exactly those of the instructions before `j` holds its sequential value before `j` -/
def ReplayInv (op : Instr N → List V → V) (rf0 : N → V) (c : Ctx N) (RT WT : Nat → Nat) (m : Nat)
    (st : (N → V) × (Nat → List V)) : Prop :=
  (∀ i, i < c.n → RT i < m → st.2 i = seqOperands op rf0 c.prog i) ∧
  (∀ r j, j ≤ c.n → (∀ k, k < c.n → Writes c.prog k r → (k < j ↔ WT k < m)) →
    st.1 r = seqRun op rf0 (c.prog.take j) r)

theorem ReplayInv.zero (op : Instr N → List V → V) (rf0 : N → V) (c : Ctx N) (RT WT : Nat → Nat) :
    ReplayInv op rf0 c RT WT 0 (rf0, fun _ => []) := by
  refine ⟨fun i _ h => by omega, fun r j hj h => ?_⟩
  symm
  apply seqRun_no_writer
  intro k hk hw
  have := (h k (by omega) hw).1 hk
  omega

theorem ReplayInv.step {op : Instr N → List V → V} {rf0 : N → V} {c : Ctx N} {RT WT : Nat → Nat}
    (hat : AccTimes c RT WT) {m : Nat} {st : (N → V) × (Nat → List V)} (h : ReplayInv op rf0 c RT WT m st) :
    ReplayInv op rf0 c RT WT (m + 1) (replayStep op c st m) := by
  obtain ⟨hA, hB⟩ := h
  -- the read phase
  have hlat : ∀ i, readPhase c m st.1 st.2 i =
      if i ∈ List.range c.n ∧ m ∈ c.accs false i then (c.srcs i).map st.1 else st.2 i :=
    fun i => foldl_latch (List.range c.n) (fun i => m ∈ c.accs false i) (fun i => (c.srcs i).map st.1) st.2 i
  have hA' : ∀ i, i < c.n → RT i ≤ m → readPhase c m st.1 st.2 i = seqOperands op rf0 c.prog i := by
    intro i hi hle
    rw [hlat]
    by_cases e : RT i = m
    · have hm : m ∈ c.accs false i := (hat.rt i hi m).2 e.symm
      rw [if_pos ⟨List.mem_range.2 hi, hm⟩]
      obtain ⟨ins, hins⟩ : ∃ ins, c.prog[i]? = some ins := ⟨c.prog[i]'hi, List.getElem?_eq_getElem hi⟩
      simp only [Ctx.srcs, seqOperands, hins, Option.map_some, Option.getD_some]
      apply List.map_congr_left
      intro r hr
      apply hB r i (Nat.le_of_lt hi)
      intro k hk hw
      rw [← e]
      exact (hat.raw i k r hi hk ⟨ins, hins, hr⟩ hw).symm
    · have hm : ¬ m ∈ c.accs false i := fun hm => e ((hat.rt i hi m).1 hm).symm
      rw [if_neg (fun h => hm h.2)]
      exact hA i hi (by omega)
  refine ⟨fun i hi hlt => hA' i hi (by omega), ?_⟩
  -- the write phase
  intro r j hj hH
  show writePhase op c m (readPhase c m st.1 st.2) st.1 r = _
  unfold writePhase
  by_cases hex : ∃ k0, k0 < c.n ∧ Writes c.prog k0 r ∧ WT k0 = m
  · obtain ⟨k0, hk0, hw0, hWT0⟩ := hex
    obtain ⟨ins0, hins0, hd0⟩ := hw0
    have huniq : ∀ i, i < c.n → Writes c.prog i r → WT i = m → i = k0 := by
      intro i hi hw hWT
      have h1 := hat.ww i k0 r hi hk0 hw ⟨ins0, hins0, hd0⟩
      have h2 := hat.ww k0 i r hk0 hi ⟨ins0, hins0, hd0⟩ hw
      rw [hWT, hWT0] at h1 h2
      rcases Nat.lt_trichotomy i k0 with h | h | h
      · have := h1.2 h; omega
      · exact h
      · have := h2.2 h; omega
    have hk0j : k0 < j := (hH k0 hk0 ⟨ins0, hins0, hd0⟩).2 (by omega)
    rw [seqRun_last_writer op rf0 c.prog r k0 ins0 hins0 hd0 j hk0j]
    · apply foldl_write
      · intro i hi hm ins hins hd
        have hi' := List.mem_range.1 hi
        have hWT := (hat.wt i hi' m).1 hm
        have := huniq i hi' ⟨ins, hins, hd⟩ hWT.symm
        subst this
        rw [hins0] at hins; cases hins
        rw [hA' i hi' (by have := hat.rw i hi'; omega)]
      · right
        exact ⟨k0, List.mem_range.2 hk0, (hat.wt k0 hk0 m).2 hWT0.symm, ins0, hins0, hd0⟩
    · intro k' h1 h2 hw'
      have hk' : k' < c.n := by omega
      have hlt := (hH k' hk' hw').1 h2
      by_cases e : WT k' = m
      · have := huniq k' hk' hw' e; omega
      · have := (hat.ww k' k0 r hk' hk0 hw' ⟨ins0, hins0, hd0⟩).1 (by omega)
        omega
  · rw [← hB r j hj]
    · apply foldl_write
      · intro i hi hm ins hins hd
        have hi' := List.mem_range.1 hi
        exact absurd ⟨i, hi', ⟨ins, hins, hd⟩, ((hat.wt i hi' m).1 hm).symm⟩ hex
      · left; rfl
    · intro k hk hw
      rw [hH k hk hw]
      have : WT k ≠ m := fun e => hex ⟨k, hk, hw, e⟩
      omega

theorem ReplayInv.run {op : Instr N → List V → V} {rf0 : N → V} {c : Ctx N} {RT WT : Nat → Nat}
    (hat : AccTimes c RT WT) (m : Nat) :
    ReplayInv op rf0 c RT WT m ((List.range m).foldl (replayStep op c) (rf0, fun _ => [])) := by
  induction m with
  | zero => exact ReplayInv.zero op rf0 c RT WT
  | succ m ih =>
    rw [List.range_succ, List.foldl_append]
    exact ih.step hat

/-- replay = sequential execution, for any diagram with access times as in `AccTimes` -/
theorem replay_eq_of_accTimes {op : Instr N → List V → V} {rf0 : N → V} {c : Ctx N} {RT WT : Nat → Nat}
    (hat : AccTimes c RT WT) :
    (replay op c rf0).1 = seqRun op rf0 c.prog ∧
      ∀ i, i < c.n → (replay op c rf0).2 i = seqOperands op rf0 c.prog i := by
  have h := ReplayInv.run (op := op) (rf0 := rf0) hat c.T
  refine ⟨?_, fun i hi => h.1 i hi (by have := hat.rw i hi; have := hat.wlt i hi; omega)⟩
  funext r
  have := h.2 r c.n (Nat.le_refl _) (fun k hk _ => ⟨fun _ => hat.wlt k hk, fun _ => hk⟩)
  show ((List.range c.T).foldl (replayStep op c) (rf0, fun _ => [])).1 r = _
  rw [this]
  congr 1
  exact List.take_length

end replay

section replayMain
variable {V : Type}

/-- the access times of a returned diagram exist and satisfy everything `AccTimes` asks -/
theorem C01_accTimes (p : Proc N) (prog : List (Instr N)) (tbl : List (Util N))
    (hwf : wfProc p = true) (hp : ProgOK prog) (h : Diagram p prog tbl false) :
    AccTimes (ctx p prog tbl false)
      (fun i => ((ctx p prog tbl false).accs false i).head?.getD 0)
      (fun i => ((ctx p prog tbl false).accs true i).head?.getD 0) := by
  have key : ∀ k i, i < prog.length → ∀ t, t ∈ (ctx p prog tbl false).accs k i ↔
      t = ((ctx p prog tbl false).accs k i).head?.getD 0 := by
    intro k i hi t
    obtain ⟨t0, ht0⟩ := C01_access_exists p prog tbl hwf hp h hi k
    cases hl : (ctx p prog tbl false).accs k i with
    | nil => rw [hl] at ht0; cases ht0
    | cons a rest =>
      have ha : a ∈ (ctx p prog tbl false).accs k i := by rw [hl]; exact List.mem_cons_self
      simp only [List.head?_cons, Option.getD_some]
      rw [← hl]
      exact ⟨fun ht => accs_unique hwf hp h ht ha, fun e => e ▸ ha⟩
  have hmem : ∀ k i, i < prog.length →
      ((ctx p prog tbl false).accs k i).head?.getD 0 ∈ (ctx p prog tbl false).accs k i :=
    fun k i hi => (key k i hi _).2 rfl
  refine ⟨key false, key true, ?_, ?_, ?_, ?_⟩
  · intro i hi
    exact ((mem_accs_iff _ _ _ _).1 (hmem true i hi)).1
  · intro i hi
    exact read_le_write hwf hp h (hmem false i hi) (hmem true i hi)
  · intro j k r hj hk hr hw
    exact C01_write_before_read_iff p prog tbl false hwf hp h hr hw (hmem false j hj) (hmem true k hk)
  · intro k1 k2 r h1 h2 hw1 hw2
    exact C01_write_order p prog tbl false hwf hp h hw1 hw2 (hmem true k1 h1) (hmem true k2 h2)

/-- **C01, second sentence: replay = sequential execution.** For a returned diagram, replaying the reads and writes it
shows, in cycle order (the reads of a cycle before its writes) and with an arbitrary operation `op` and initial register
file `rf0`, gives the register file the final contents, and every instruction the operand values, of sequential
execution: no RAW, WAR or WAW violation. -/
theorem C01_replay_eq_sequential (p : Proc N) (prog : List (Instr N)) (tbl : List (Util N))
    (hwf : wfProc p = true) (hp : ProgOK prog) (h : Diagram p prog tbl false)
    (op : Instr N → List V → V) (rf0 : N → V) :
    (replay op (ctx p prog tbl false) rf0).1 = seqRun op rf0 prog ∧
      ∀ i, i < prog.length → (replay op (ctx p prog tbl false) rf0).2 i = seqOperands op rf0 prog i :=
  replay_eq_of_accTimes (C01_accTimes p prog tbl hwf hp h)

end replayMain

/-! ## Non-vacuity

Processor over `Nat` names: capability `7` goes through input port `0` (width 1, read lock) and output port `1`
(width 1, write lock) — separate read-locking and write-locking units; capability `8` is served by the in-out port `2`
(width 2, both locks). Program (registers are numbers):

    I0: R1 := f(R2, R3)   cap 7
    I1: R4 := f(R1)       cap 8     RAW on R1 with I0
    I2: R2 := f(R5)       cap 8     WAR on R2 with I0
    I3: R4 := f(R6)       cap 7     WAW on R4 with I1
    I4: R7 := f(R1, R7)   cap 8     reads its own destination; RAW on R1 with I0

The run returns the 4-cycle diagram `table` below, in which all three kinds of hazard delay an instruction. -/
namespace C01Example

def rdU : UnitM Nat := ⟨0, 1, [7], true, false, []⟩
def wrU : UnitM Nat := ⟨1, 1, [7], false, true, []⟩
def bothU : UnitM Nat := ⟨2, 2, [8], true, true, []⟩
def proc : Proc Nat := { inPorts := [rdU], outPorts := [⟨wrU, [0]⟩], inOut := [bothU], internal := [] }
def prog : List (Instr Nat) :=
  [⟨[2, 3], 1, 7⟩, ⟨[1], 4, 8⟩, ⟨[5], 2, 8⟩, ⟨[6], 4, 7⟩, ⟨[1, 7], 7, 8⟩]

/-- the diagram: unit ↦ hosted instructions, cycle by cycle -/
def table : List (Util Nat) :=
  [ [(2, [⟨1, .D⟩, ⟨2, .D⟩]), (1, []), (0, [⟨0, .U⟩])],
    [(2, [⟨1, .D⟩, ⟨2, .U⟩]), (1, [⟨0, .U⟩]), (0, [⟨3, .U⟩])],
    [(2, [⟨1, .U⟩, ⟨4, .U⟩]), (1, [⟨3, .D⟩]), (0, [])],
    [(2, []), (1, [⟨3, .U⟩]), (0, [])] ]

example : wfProc proc = true := by decide
example : progOK prog = true := by decide

def isDoneWith (o : Outcome Nat) (t : List (Util Nat)) : Bool :=
  match o with
  | .done t' => decide (t' = t)
  | _ => false

theorem sim_done : isDoneWith (simulate proc prog) table = true := by decide

theorem sim_eq : simulate proc prog = .done table := by
  have h := sim_done
  unfold isDoneWith at h
  split at h
  · next t' e => rw [e]; congr 1; exact of_decide_eq_true h
  · cases h

/-- the hypotheses of `C01_hazard_order` are satisfiable, and the theorem applies to the diagram -/
example : Diagram proc prog table false ∧ (Spec.C01 (ctx proc prog table false)).ok = true :=
  ⟨Or.inl ⟨rfl, sim_eq⟩,
   C01_hazard_order proc prog table false (by decide) ((progOK_iff prog).1 (by decide)) (Or.inl ⟨rfl, sim_eq⟩)⟩

-- the checker agrees by evaluation
example : (Spec.C01 (ctx proc prog table false)).ok = true := by decide
-- access plan of R1: written by I0, then read by I1 and I4 together
example : reqsOf prog 1 = [(true, 0), (false, 1), (false, 4)] := by decide
example : (buildPlan prog).get 1 = [⟨true, [0]⟩, ⟨false, [1, 4]⟩] := by decide
-- access plan of R7: I4's own read, then its write
example : reqsOf prog 7 = [(false, 4), (true, 4)] := by decide
-- RAW: I0 writes R1 in cycle 1, I1 and I4 read it in cycle 2
example : (ctx proc prog table false).accs true 0 = [1] ∧ (ctx proc prog table false).accs false 1 = [2] ∧
    (ctx proc prog table false).accs false 4 = [2] := by decide
-- WAR: I0 reads R2 in cycle 0, I2 writes it in cycle 1
example : (ctx proc prog table false).accs false 0 = [0] ∧ (ctx proc prog table false).accs true 2 = [1] := by decide
-- WAW: I1 writes R4 in cycle 2, I3 in cycle 3
example : (ctx proc prog table false).accs true 1 = [2] ∧ (ctx proc prog table false).accs true 3 = [3] := by decide
-- the self-dependent I4 reads and writes R7 in the same cycle
example : (ctx proc prog table false).accs false 4 = [2] ∧ (ctx proc prog table false).accs true 4 = [2] := by decide
-- a diagram with the write of I0 and the read of I1 in the same cycle is rejected by the checker
example : (Spec.C01 (ctx proc prog
    [ [(2, [⟨1, .D⟩]), (0, [⟨0, .U⟩])], [(2, [⟨1, .U⟩]), (1, [⟨0, .U⟩])] ] false)).ok = false := by decide

-- replay of the diagram with a concrete operation (`sum of the operands + destination number`) and the initial
-- register file `R ↦ 100·R`: same final register file and operands as sequential execution
example : [1, 2, 4, 7].map (replay (fun ins vals => vals.sum + ins.dst) (ctx proc prog table false) (fun r => 100 * r)).1 =
    [1, 2, 4, 7].map (seqRun (fun ins vals => vals.sum + ins.dst) (fun r => 100 * r) prog) := by decide
example : (List.range 5).map (replay (fun ins vals => vals.sum + ins.dst) (ctx proc prog table false) (fun r => 100 * r)).2 =
    (List.range 5).map (seqOperands (fun ins vals => vals.sum + ins.dst) (fun r => 100 * r) prog) := by decide
example : (List.range 5).map (seqOperands (fun ins vals => vals.sum + ins.dst) (fun r => 100 * r) prog) =
    [[200, 300], [501], [500], [600], [501, 700]] := by decide

end C01Example

end ProcSim
