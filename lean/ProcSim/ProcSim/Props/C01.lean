import ProcSim.Lemmas.Hazards
/-!
# C01 — register hazards respected: conflicting accesses occur in program order

"In every pipeline diagram the simulator returns or attaches to a stall error, whenever two instructions touch the same
register and at least one touch is a write, the earlier instruction is shown performing its touch (unstalled in the unit
that locks registers for reading, resp. writing) in a strictly earlier cycle than the later one performs its own."

* the checker: `Spec.C01` (`ProcSim/Spec/Sim.lean`), clauses RAW / WAW / WAR over `Ctx.accs`;
* proof: `ProcSim/Lemmas/Hazards.lean` — the access plan (`buildPlan_get`), the queue invariant `PlanInv`
  (every queue = the plan's requests not yet shown granted), the host invariant `HazInv` (walk of every hosted
  instruction, position of the locks from `wfProc`), `ordered_of_conflict`.

Hypotheses: `wfProc p` and `ProgOK prog` (no instruction lists a source register twice — guaranteed by the
`HwInstruction` constructor of the real code, which stores the sorted de-duplicated source tuple; with a repeated
source the *model* would dequeue the same read twice).
-/
namespace ProcSim
open Spec Hazards

attribute [local implicit_reducible] AMap

variable {N : Type} [DecidableEq N]

/-- every access of kind `kj` of `j` is preceded, in a strictly earlier cycle, by an access of kind `ki` of `i` -/
def Precedes (c : Ctx N) (ki kj : Bool) (i j : Nat) : Prop :=
  ∀ tj ∈ c.accs kj j, ∃ ti ∈ c.accs ki i, ti < tj

theorem orderedAcc_iff (c : Ctx N) (ki kj : Bool) (i j : Nat) : orderedAcc c ki kj i j = true ↔ Precedes c ki kj i j := by
  simp [orderedAcc, Precedes]

/-- C01, readable form: for instructions `i < j` of the program,
* RAW — if `j` reads the register `i` writes, `i`'s write access precedes `j`'s read access;
* WAW — if both write the same register, `i`'s write access precedes `j`'s;
* WAR — if `j` writes a register `i` reads, `i`'s read access precedes `j`'s write access
(`accs false k` / `accs true k`: the cycles in which `k` is shown unstalled in a unit holding the read / write lock). -/
def C01_Holds (c : Ctx N) : Prop :=
  ∀ i j insI insJ, i < j → c.prog[i]? = some insI → c.prog[j]? = some insJ →
    (insI.dst ∈ insJ.srcs → Precedes c true false i j) ∧
    (insI.dst = insJ.dst → Precedes c true true i j) ∧
    (insJ.dst ∈ insI.srcs → Precedes c false true i j)

theorem mem_pairs {n i j : Nat} :
    (i, j) ∈ (List.range n).flatMap (fun j => (List.range j).map (fun i => (i, j))) ↔ i < j ∧ j < n := by
  simp only [List.mem_flatMap, List.mem_range, List.mem_map, Prod.mk.injEq]
  constructor
  · rintro ⟨j', hj', i', hi', rfl, rfl⟩; exact ⟨hi', hj'⟩
  · rintro ⟨h1, h2⟩; exact ⟨j, h2, i, h1, rfl, rfl⟩

/-- the Bool clauses evaluated by the driver say exactly `C01_Holds` -/
theorem C01_ok_iff (c : Ctx N) : (Spec.C01 c).ok = true ↔ C01_Holds c := by
  simp only [Spec.C01, Clauses.ok, List.all_cons, List.all_nil, Bool.and_true, Bool.and_eq_true, List.all_eq_true,
    Prod.forall, mem_pairs, C01_Holds, ← orderedAcc_iff]
  constructor
  · rintro ⟨h1, h2, h3⟩ i j insI insJ hij hI hJ
    have hjn : j < c.n := (List.getElem?_eq_some_iff.1 hJ).1
    refine ⟨fun hd => ?_, fun hd => ?_, fun hd => ?_⟩
    · have := h1 i j ⟨hij, hjn⟩ insI.dst (by simpa [Ctx.srcs, hJ] using hd)
      simpa [Ctx.writes, Ctx.dst?, hI] using this
    · have := h2 i j ⟨hij, hjn⟩
      simpa [Ctx.writes, Ctx.dst?, hI, hJ, hd] using this
    · have := h3 i j ⟨hij, hjn⟩
      simpa [Ctx.reads, Ctx.srcs, Ctx.dst?, hI, hJ, hd] using this
  · intro h
    refine ⟨?_, ?_, ?_⟩
    · rintro i j ⟨hij, hjn⟩ r hr
      obtain ⟨insJ, hJ⟩ : ∃ insJ, c.prog[j]? = some insJ := ⟨c.prog[j]'hjn, List.getElem?_eq_getElem hjn⟩
      obtain ⟨insI, hI⟩ : ∃ insI, c.prog[i]? = some insI :=
        ⟨c.prog[i]'(Nat.lt_trans hij hjn), List.getElem?_eq_getElem (Nat.lt_trans hij hjn)⟩
      have hr' : r ∈ insJ.srcs := by simpa [Ctx.srcs, hJ] using hr
      by_cases hd : insI.dst = r
      · subst hd
        have := (h i j insI insJ hij hI hJ).1 hr'
        simp [this]
      · simp [Ctx.writes, Ctx.dst?, hI, hd]
    · rintro i j ⟨hij, hjn⟩
      obtain ⟨insJ, hJ⟩ : ∃ insJ, c.prog[j]? = some insJ := ⟨c.prog[j]'hjn, List.getElem?_eq_getElem hjn⟩
      obtain ⟨insI, hI⟩ : ∃ insI, c.prog[i]? = some insI :=
        ⟨c.prog[i]'(Nat.lt_trans hij hjn), List.getElem?_eq_getElem (Nat.lt_trans hij hjn)⟩
      by_cases hd : insI.dst = insJ.dst
      · have := (h i j insI insJ hij hI hJ).2.1 hd
        simp [Ctx.dst?, hJ, this]
      · simp [Ctx.writes, Ctx.dst?, hI, hJ, hd]
    · rintro i j ⟨hij, hjn⟩
      obtain ⟨insJ, hJ⟩ : ∃ insJ, c.prog[j]? = some insJ := ⟨c.prog[j]'hjn, List.getElem?_eq_getElem hjn⟩
      obtain ⟨insI, hI⟩ : ∃ insI, c.prog[i]? = some insI :=
        ⟨c.prog[i]'(Nat.lt_trans hij hjn), List.getElem?_eq_getElem (Nat.lt_trans hij hjn)⟩
      by_cases hd : insJ.dst ∈ insI.srcs
      · have := (h i j insI insJ hij hI hJ).2.2 hd
        simp [Ctx.dst?, hJ, this]
      · simp [Ctx.reads, Ctx.srcs, Ctx.dst?, hI, hJ, hd]

variable [LT N] [DecidableRel (α := N) (· < ·)]

/-- **C01 (readable form).** -/
theorem C01_hazard_order' (p : Proc N) (prog : List (Instr N)) (tbl : List (Util N)) (stalled : Bool)
    (hwf : wfProc p = true) (hp : ProgOK prog) (h : Diagram p prog tbl stalled) :
    C01_Holds (ctx p prog tbl stalled) := by
  intro i j insI insJ hij hI hJ
  have hI' : prog[i]? = some insI := hI
  have hJ' : prog[j]? = some insJ := hJ
  refine ⟨fun hd => ?_, fun hd => ?_, fun hd => ?_⟩
  · exact (orderedAcc_iff _ _ _ _ _).1 (ordered_of_conflict hwf hp h (r := insI.dst) hij
      (mem_reqsOf.2 ⟨insI, hI', rfl⟩) (mem_reqsOf.2 ⟨insJ, hJ', hd⟩) (Or.inl rfl))
  · exact (orderedAcc_iff _ _ _ _ _).1 (ordered_of_conflict hwf hp h (r := insI.dst) hij
      (mem_reqsOf.2 ⟨insI, hI', rfl⟩) (mem_reqsOf.2 ⟨insJ, hJ', hd.symm⟩) (Or.inl rfl))
  · exact (orderedAcc_iff _ _ _ _ _).1 (ordered_of_conflict hwf hp h (r := insJ.dst) hij
      (mem_reqsOf.2 ⟨insI, hI', hd⟩) (mem_reqsOf.2 ⟨insJ, hJ', rfl⟩) (Or.inr rfl))

/-- **C01.** For a well-formed processor and a program whose instructions list no source twice, every diagram of
`simulate` (returned, or carried by the stall error) passes the C01 checker: RAW, WAW and WAR hazards are respected. -/
theorem C01_hazard_order (p : Proc N) (prog : List (Instr N)) (tbl : List (Util N)) (stalled : Bool)
    (hwf : wfProc p = true) (hp : ProgOK prog) (h : Diagram p prog tbl stalled) :
    (Spec.C01 (ctx p prog tbl stalled)).ok = true :=
  (C01_ok_iff _).2 (C01_hazard_order' p prog tbl stalled hwf hp h)

end ProcSim
