import ProcSim.Lemmas.LoaderBridge
/-!
# C09 — accepted processor descriptions are well-formed

"Every processor description the loader accepts yields a processor that is acyclic, has positive widths and
case-insensitively unique unit names, has no unit without capabilities and no connection between units sharing no
capability. Every capability offered at an input port can reach an output port through units supporting it, and every
route such a capability can take from an input port to where it ends crosses exactly one read-locking and exactly one
write-locking unit."

* model of `load_proc_desc`: `ProcSim/Model/Loader.lean` (`Loader.load`);
* specification: `ProcSim/Spec/Loader.lean` (`Spec.C09_Holds`, checker `Spec.checkC09`);
* lemmas: `Lemmas/LoaderLocks.lean` (the lock / flow dynamic programs), `Lemmas/LoaderRoutes.lean` (route enumeration,
  pigeonhole), `Lemmas/LoaderBridge.lean` (the loader's graphs), `Lemmas/LoaderGraph.lean` (topological order,
  `_make_processor`).

`C09_accepted_wellformed` holds for every description, every `fold` and every decidable `<` on names (no assumption
on `fold` or on the order is needed).  `C09_check_iff` holds for **every** processor object, loaded or not.
-/
set_option linter.unusedSectionVars false
set_option linter.unusedSimpArgs false
set_option linter.unusedVariables false

namespace ProcSim
namespace Loader
open Spec LoaderLocks LoaderRoutes LoaderBridge

variable {N : Type} [DecidableEq N]

/-! ## The accepted processor is well-formed -/

section Accepted
variable [LT N] [DecidableRel (α := N) (· < ·)] (fold : N → N)

/-- **C09** -/
theorem C09_accepted_wellformed {d : Desc N} {p : Proc N} (h : Loader.load fold d = .ok p) :
    Spec.C09_Holds fold p := by
  obtain ⟨g0, reg, g2, hcg, hprep, hmk⟩ := load_ok fold h
  have hwf0 : g0.WF := createGraph_WF fold hcg
  obtain ⟨hac, hwf2, hac2, hind, hclosed, hcaps⟩ := prepare_final hwf0 hprep
  have hE := rgEquiv_makeProcessor fold hwf2 hmk
  have hcs : (cleanStruct g0).WF := hwf0.cleanStruct
  have h1 : (rmEmpty (cleanStruct g0)).WF := hcs.rmEmpty
  have hi := cleanInv_cleanStruct g0
  have hperm := makeProcessor_procNames_perm fold hwf2.namesNodup hmk
  -- the capabilities of the final graph are those left by `clean_struct`
  have hcapsEq : ∀ u ∈ g2.names, g2.capsOf u = (cleanStruct g0).capsOf u := by
    intro u hu
    rw [Induced_capsOf hind h1.namesNodup hu,
      Induced_capsOf (rmEmpty_induced hcs) hcs.namesNodup (hind.names_sublist.subset hu)]
  have hall := chkCaps_ok hwf2 hac2 hcaps
  have hinb : ∀ m ∈ p.inBoundary, ∀ c ∈ m.caps, m.name ∈ g2.inPorts ∧ c ∈ g2.capsOf m.name := by
    intro m hm c hc
    obtain ⟨hin, hmu⟩ := inBoundary_makeProcessor fold hwf2 hmk hm
    refine ⟨hin, ?_⟩
    have : supB p m.name c = true := by
      unfold supB
      rw [List.any_eq_true]
      exact ⟨m, hmu, by simp [hc]⟩
    rw [supB_makeProcessor fold hwf2 hmk] at this
    simpa using this
  refine ⟨?_, ?_, ?_, ?_, ?_, ?_, ?_, ?_⟩
  · -- predsKnown
    intro f hf q hq
    obtain ⟨n, hn, _, rfl⟩ := (makeProcessor_mem_dests fold hwf2.namesNodup hmk).1 hf
    rw [fuOf_preds, mem_sortNames, Graph.mem_preds] at hq
    exact hperm.mem_iff.2 (hwf2.edgesIn _ hq).1
  · -- acyclic
    exact hE.acyclic_iff.1 ((isAcyclic_iff_acyclic hwf2).1 hac2)
  · -- widths
    intro m hm
    obtain ⟨n, hn, rfl⟩ := (mem_allUnits_makeProcessor fold hwf2 hmk).1 hm
    have hn' : n ∈ (cleanStruct g0).nodes := (rmEmpty_induced hcs).nodes.subset (hind.nodes.subset hn)
    have hs : n.strip ∈ (cleanStruct g0).nodes.map GNode.strip := List.mem_map.2 ⟨n, hn', rfl⟩
    rw [strip_cleanStruct] at hs
    obtain ⟨n0, hn0, hstrip⟩ := List.mem_map.1 hs
    obtain ⟨r, es, hr, _, hgr⟩ := createGraph_ok fold hcg
    have hg0 : g0 = ⟨r.1, es⟩ := (Prod.mk.inj hgr).1
    have hw0 : 0 < n0.width := addUnits_nodes_width fold _ _ _ r hr n0 (by rw [hg0] at hn0; exact hn0)
    have hweq : n0.width = n.width := by
      have := congrArg (fun x => x.2.1) hstrip
      simpa [GNode.strip] using this
    show 0 < (mkModel fold reg n).width
    simp only [mkModel]
    omega
  · -- uniqueNames
    have hd := createGraph_names_foldDistinct fold hcg
    have hsub : g2.names.Sublist g0.names := by
      have := hind.names_sublist.trans (rmEmpty_induced hcs).names_sublist
      rw [hi.names] at this
      exact this
    exact hperm.symm.pairwise (hd.sublist hsub) (fun hxy => fun h' => hxy h'.symm)
  · -- noEmptyUnit
    intro m hm
    obtain ⟨n, hn, rfl⟩ := (mem_allUnits_makeProcessor fold hwf2 hmk).1 hm
    have hnn : n.name ∈ g2.names := Graph.mem_names.2 ⟨n, hn, rfl⟩
    have hne := ((mem_names_rmEmpty hcs.namesNodup).1 (hind.names_sublist.subset hnn)).2
    rw [← hcapsEq _ hnn, Graph.capsOf_of_mem hwf2.namesNodup hn] at hne
    show sortNames n.caps ≠ []
    simpa using hne
  · -- compatible
    intro a b hab
    rw [makeProcessor_edgeB fold hwf2 hmk] at hab
    have hab' : (a, b) ∈ (cleanStruct g0).edges :=
      (rmEmpty_induced hcs).edgesSub.subset (hind.edgesSub.subset hab)
    obtain ⟨c, hca, hcb⟩ := cleanStruct_shared hwf0 hac hab'
    refine ⟨c, ?_, ?_⟩
    · rw [supB_makeProcessor fold hwf2 hmk, hcapsEq a (hwf2.edgesIn _ hab).1]; simpa using hca
    · rw [supB_makeProcessor fold hwf2 hmk, hcapsEq b (hwf2.edgesIn _ hab).2]; simpa using hcb
  · -- reachesOutput
    intro m hm c hc
    obtain ⟨hin, hcc⟩ := hinb m hm c hc
    exact (hE.reachesOut_iff c m.name).1 (hall m.name hin c hcc).2
  · -- exactLocks
    intro m hm c hc
    obtain ⟨hin, hcc⟩ := hinb m hm c hc
    exact (hE.locksExact_iff c m.name).1 (hall m.name hin c hcc).1

end Accepted

/-! ## The checker decides the specification (for every processor object) -/

section Checker
variable (fold : N → N)

/-- **`checkC09` decides `C09_Holds`** — for every processor object -/
theorem C09_check_iff (p : Proc N) : checkC09 fold p = true ↔ C09_Holds fold p := by
  rw [checkC09_eq]
  have hconn := connIn_rgOfProc p
  have hnames : ∀ m ∈ p.allUnits, m.name ∈ (rgOfProc p).names := fun m hm => List.mem_map.2 ⟨m, hm, rfl⟩
  constructor
  · rintro ⟨h1, h2, h3, h4, h5, h6, h7, h8⟩
    have hac := (acyclicB_iff _ hconn).1 h2
    refine ⟨?_, hac, ?_, (uniqueUpToFold_iff fold _).1 h4, ?_, ?_, ?_, ?_⟩
    · intro f hf q hq
      have := List.all_eq_true.1 (List.all_eq_true.1 h1 f hf) q hq
      simpa using this
    · intro m hm
      have := List.all_eq_true.1 h3 m hm
      simpa using this
    · intro m hm hc
      have := List.all_eq_true.1 h5 m hm
      simp [hc] at this
    · intro a b hab
      unfold edgeB at hab
      rw [List.any_eq_true] at hab
      obtain ⟨f, hf, hfb⟩ := hab
      simp only [Bool.and_eq_true, decide_eq_true_eq] at hfb
      have := List.all_eq_true.1 (List.all_eq_true.1 h6 f hf) a hfb.2
      rw [List.any_eq_true] at this
      obtain ⟨c, hc, hca⟩ := this
      refine ⟨c, hca, ?_⟩
      rw [← hfb.1]
      exact supB_of_mem (mem_allUnits_of_dest hf) hc
    · intro m hm c hc
      have := List.all_eq_true.1 (List.all_eq_true.1 h7 m hm) c hc
      have hmu := mem_allUnits_of_inBoundary hm
      exact (reachesOutB_iff _ hconn hac (hnames m hmu) (supB_of_mem hmu hc)).1 this
    · intro m hm c hc
      have := List.all_eq_true.1 (List.all_eq_true.1 h8 m hm) c hc
      have hmu := mem_allUnits_of_inBoundary hm
      exact (locksExactB_iff _ hconn hac (hnames m hmu) (supB_of_mem hmu hc)).1 this
  · rintro ⟨h1, h2, h3, h4, h5, h6, h7, h8⟩
    refine ⟨?_, (acyclicB_iff _ hconn).2 h2, ?_, (uniqueUpToFold_iff fold _).2 h4, ?_, ?_, ?_, ?_⟩
    · rw [List.all_eq_true]; intro f hf
      rw [List.all_eq_true]; intro q hq
      simpa using h1 f hf q hq
    · rw [List.all_eq_true]; intro m hm
      simpa using h3 m hm
    · rw [List.all_eq_true]; intro m hm
      have := h5 m hm
      cases hc : m.caps with
      | nil => exact absurd hc this
      | cons a t => rfl
    · rw [List.all_eq_true]; intro f hf
      rw [List.all_eq_true]; intro q hq
      rw [List.any_eq_true]
      have hedge : edgeB p q f.model.name = true := by
        unfold edgeB
        rw [List.any_eq_true]
        exact ⟨f, hf, by simp [hq]⟩
      obtain ⟨c, hca, hcb⟩ := h6 q f.model.name hedge
      refine ⟨c, ?_, hca⟩
      unfold supB at hcb
      rw [List.any_eq_true] at hcb
      obtain ⟨m, hm, hmc⟩ := hcb
      simp only [Bool.and_eq_true, decide_eq_true_eq] at hmc
      have hnd : (p.allUnits.map (·.name)).Nodup := h4.imp (fun h' heq => h' (congrArg fold heq))
      have : m = f.model := eq_of_map_nodup (·.name) hnd hm (mem_allUnits_of_dest hf) hmc.1
      rw [← this]; exact hmc.2
    · rw [List.all_eq_true]; intro m hm
      rw [List.all_eq_true]; intro c hc
      have hmu := mem_allUnits_of_inBoundary hm
      exact (reachesOutB_iff _ hconn h2 (hnames m hmu) (supB_of_mem hmu hc)).2 (h7 m hm c hc)
    · rw [List.all_eq_true]; intro m hm
      rw [List.all_eq_true]; intro c hc
      have hmu := mem_allUnits_of_inBoundary hm
      exact (locksExactB_iff _ hconn h2 (hnames m hmu) (supB_of_mem hmu hc)).2 (h8 m hm c hc)

end Checker

/-! ## non-vacuity (`N := Nat`, `fold := id`, evaluated by `decide`) -/

namespace C09Examples

def u (n : Nat) (w : Int) (caps : List Nat) (rd wr : Bool) : UnitD Nat := ⟨n, w, caps, rd, wr, []⟩

/-- a diamond `1 → 2 → 4`, `1 → 3 → 4`; the read lock sits at the input port, the write lock at the output port -/
def dOk : Desc Nat :=
  ⟨[u 1 1 [10] true false, u 2 1 [10] false false, u 3 2 [10] false false, u 4 1 [10] false true],
   [[1, 2], [1, 3], [2, 4], [3, 4]]⟩

example : (load id dOk).isOk = true := by decide
example : (match load id dOk with | .ok p => checkC09 id p | .error _ => false) = true := by decide
example : (match load id dOk with
    | .ok p => (p.inPorts.map (·.name), p.outPorts.map (·.model.name), p.internal.map (·.model.name))
    | .error _ => ([], [], [])) = ([1], [4], [2, 3]) := by decide
/-- the theorem applies to the accepted description -/
example : ∀ p, load id dOk = .ok p → C09_Holds id p := fun _ h => C09_accepted_wellformed id h

/-- the checker is not trivially true: a route with two read locks / a unit without capabilities / a cycle -/
example : checkC09 id (⟨[⟨1, 1, [10], true, true, []⟩], [⟨⟨2, 1, [10], true, false, []⟩, [1]⟩], [], []⟩ : Proc Nat) = false := by
  decide
example : checkC09 id (⟨[], [], [⟨1, 1, [], true, true, []⟩], []⟩ : Proc Nat) = false := by decide
example : checkC09 id (⟨[], [], [], [⟨⟨1, 1, [10], true, true, []⟩, [2]⟩, ⟨⟨2, 1, [10], false, false, []⟩, [1]⟩]⟩ : Proc Nat) = false := by
  decide
example : checkC09 id (⟨[], [], [⟨1, 1, [10], true, true, []⟩], []⟩ : Proc Nat) = true := by decide

end C09Examples

end Loader
end ProcSim
